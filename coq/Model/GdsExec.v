(* Executable instance of the bindings model: F := finite decimals.  Used only by the correspondence check
   (the theorems are proved for an abstract F).  On dyadic values of moderate size CPython's "%.15f"/rstrip,
   "%s" and float() coincide with show_dec / parse_dec, and the generator feeds only such values. *)
From Coq Require Import String List ZArith Bool.
From LNML Require Import Lib.Dec Model.Gds.
Import ListNotations.
Open Scope string_scope.

Definition XF := dec.
Definition xvalue := value XF.
Definition xobj := obj XF.

Definition x_export := export XF dec_eqb dec_norm show_dec show_dec.
Definition x_build := build XF dec_norm parse_dec.
Definition x_init := init_fields XF dec_norm.

Fixpoint xml_eqb (a b : xml) {struct a} : bool :=
  match a, b with
  | Elem t1 a1 x1 k1, Elem t2 a2 x2 k2 =>
    String.eqb t1 t2 && String.eqb x1 x2
    && (fix attrs (l1 l2 : list (string * string)) : bool :=
          match l1, l2 with
          | [], [] => true
          | (n1, v1) :: r1, (n2, v2) :: r2 => String.eqb n1 n2 && String.eqb v1 v2 && attrs r1 r2
          | _, _ => false
          end) a1 a2
    && (fix kids (l1 l2 : list xml) : bool :=
          match l1, l2 with
          | [], [] => true
          | x :: r1, y :: r2 => xml_eqb x y && kids r1 r2
          | _, _ => false
          end) k1 k2
  end.

Fixpoint xmls_eqb (l1 l2 : list xml) : bool :=
  match l1, l2 with
  | [], [] => true
  | x :: r1, y :: r2 => xml_eqb x y && xmls_eqb r1 r2
  | _, _ => false
  end.

Fixpoint value_eqb (a b : xvalue) {struct a} : bool :=
  match a, b with
  | VNone, VNone => true
  | VStr s, VStr t => String.eqb s t
  | VInt x, VInt y => Z.eqb x y
  | VFlt x, VFlt y => dec_eqb (dec_norm x) (dec_norm y)
  | VObj o, VObj p => obj_eqb o p
  | VObjs l, VObjs m =>
    (fix objs (l1 l2 : list xobj) : bool :=
       match l1, l2 with
       | [], [] => true
       | x :: r1, y :: r2 => obj_eqb x y && objs r1 r2
       | _, _ => false
       end) l m
  | VRaw l, VRaw m => xmls_eqb l m
  | _, _ => false
  end
with obj_eqb (a b : xobj) {struct a} : bool :=
  match a, b with
  | Obj c1 f1, Obj c2 f2 =>
    String.eqb c1 c2
    && (fix flds (l1 l2 : list (string * xvalue)) : bool :=
          match l1, l2 with
          | [], [] => true
          | (n1, v1) :: r1, (n2, v2) :: r2 => String.eqb n1 n2 && value_eqb v1 v2 && flds r1 r2
          | _, _ => false
          end) f1 f2
  end.

Definition opt_obj_eqb (a b : option xobj) : bool :=
  match a, b with Some x, Some y => obj_eqb x y | None, None => true | _, _ => false end.
Definition opt_xml_eqb (a b : option xml) : bool :=
  match a, b with Some x, Some y => xml_eqb x y | None, None => true | _, _ => false end.

Fixpoint fields_eqb (l1 l2 : list (string * xvalue)) : bool :=
  match l1, l2 with
  | [], [] => true
  | (n1, v1) :: r1, (n2, v2) :: r2 => String.eqb n1 n2 && value_eqb v1 v2 && fields_eqb r1 r2
  | _, _ => false
  end.

(* one correspondence case: what the real code did *)
Record gcase := {
  g_tag : string;
  g_args : list (string * xvalue);   (* keyword arguments given to the real constructor *)
  g_obj : xobj;                      (* the object the real constructor produced (all fields) *)
  g_xml : option xml;                (* lxml's parse of what the real export wrote (None: it raised) *)
  g_back : option xobj               (* what the real build made of that element (None: it raised) *)
}.

(* bit 1: constructor differs, bit 2: export differs, bit 4: build differs *)
Definition check_case (T : tables) (fuel : nat) (g : gcase) : nat :=
  let c := o_cls XF (g_obj g) in
  let b1 := match x_init (cfuel T) T c (g_args g) with
            | Some fs => fields_eqb fs (o_fields XF (g_obj g)) | None => false end in
  let b2 := opt_xml_eqb (x_export fuel T (g_tag g) (g_obj g)) (g_xml g) in
  let b3 := match g_xml g with
            | Some x => opt_obj_eqb (x_build fuel T c x) (g_back g)
            | None => true end in
  ((if b1 then 0 else 1) + (if b2 then 0 else 2) + (if b3 then 0 else 4))%nat.

Fixpoint mismatches (T : tables) (fuel : nat) (i : nat) (l : list gcase) : list (nat * nat) :=
  match l with
  | [] => []
  | g :: r => let k := check_case T fuel g in
              if Nat.eqb k 0 then mismatches T fuel (S i) r else (i, k) :: mismatches T fuel (S i) r
  end.

(* how many of the cases lie in the domain of the round-trip theorem (typed trees) *)
From LNML Require Import Model.GdsWf.
Definition x_typed := typedb XF dec_eqb show_dec parse_dec.
Definition typed_count (T : tables) (fuel : nat) (l : list gcase) : nat :=
  length (filter (fun g => x_typed fuel T (g_obj g)) l).
