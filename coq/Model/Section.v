(* C16 model — Cell.create_unbranched_segment_group_branches and its private __sectionise helper
   (helper_methods.py / nml.py class Cell), mirrored on the segment list + group list of a cell, and the
   rose-tree function the theorems are proved about.  Definitions only; proofs in Proofs/SectionP*.v.

   Python                                        here
   --------------------------------------------  ------------------------------------------
   cell.morphology.segment_groups                list group (document order)
   add_segment_group / add_unbranched_segment_group (existing id: kept, warning)   add_unbranched_group
   seg_group.add("Member", segments=id)  (equal member already there: warning)     add_member
   __sectionise (while loop + recursion at branch points, KeyError = leaf)         sect   (fuel)
   seg.proximal = self.get_actual_proximal(seg.id)                                 set_prox
   create_unbranched_segment_group_branches (with the C16 fix: the given root's proximal is made
       explicit too when it has a parent)                                          create_branches
   reorder_segment_groups                                                          reorder_groups
   optimise_segment_groups on a group WITHOUT includes = de-duplicate its members  optimise_simple
       (groups with includes are C14's subject and are left alone here)                                  *)
From Coq Require Import List ZArith QArith Bool String Ascii DecimalString.
From LNML Require Import Model.Morph.
Import ListNotations.
Open Scope Z_scope.

Record group : Type := mkgroup {
  gid : string;
  gmembers : list Z;
  gincludes : list string;
  gnlx : option string }.

Record mstate : Type := mkst { st_segs : cell; st_groups : list group }.

Definition section_nlx : string := "sao864921383".     (* neuro_lex_ids["section"] *)

Definition zstr (z : Z) : string := NilZero.string_of_int (Z.to_int z).

(* f"seg_group_{n}_seg_{seg.id}" *)
Definition mkname (n id : Z) : string :=
  ("seg_group_" ++ zstr n ++ "_seg_" ++ zstr id)%string.

Definition has_gid (name : string) (g : group) : bool := String.eqb (gid g) name.

(* get_segment_group(id) found -> returned unchanged; ValueError -> morphology.add("SegmentGroup", ...) *)
Definition add_unbranched_group (name : string) (st : mstate) : mstate :=
  if existsb (has_gid name) (st_groups st) then st
  else mkst (st_segs st) (st_groups st ++ [mkgroup name [] [] (Some section_nlx)]).

(* the group object the Python code holds = the first group with that id *)
Fixpoint upd_first_group (name : string) (f : group -> group) (gs : list group) : list group :=
  match gs with
  | [] => []
  | g :: r => if has_gid name g then f g :: r else g :: upd_first_group name f r
  end.

Definition add_member_g (id : Z) (g : group) : group :=
  if memZ id (gmembers g) then g
  else mkgroup (gid g) (gmembers g ++ [id]) (gincludes g) (gnlx g).

Definition add_member (name : string) (id : Z) (st : mstate) : mstate :=
  mkst (st_segs st) (upd_first_group name (add_member_g id) (st_groups st)).

Fixpoint set_prox_c (id : Z) (p : pt) (c : cell) : cell :=
  match c with
  | [] => []
  | s :: r => if sid s =? id then mkseg (sid s) (sparent s) (Some p) (sdist s) :: r
              else s :: set_prox_c id p r
  end.

Definition set_prox (id : Z) (p : pt) (st : mstate) : mstate :=
  mkst (set_prox_c id p (st_segs st)) (st_groups st).

(* __unused_branch_group_id (C16 fix): the index is increased until no group carries the ID.  The while loop ends
   after at most len(groups) increments (Proofs/SectionP5.v fresh_name_not_taken), which is the fuel given here. *)
Definition name_taken (gs : list group) (nm : string) : bool := existsb (has_gid nm) gs.

Fixpoint fresh_index (fuel : nat) (gs : list group) (n id : Z) : Z :=
  match fuel with
  | O => n
  | S k => if name_taken gs (mkname n id) then fresh_index k gs (n + 1) id else n
  end.

Definition fresh_name (gs : list group) (n id : Z) : string :=
  mkname (fresh_index (List.length gs) gs n id) id.

(* one child of a branch point: proximal made explicit, new group, recursion (the recursive call is
   passed in so that the fixpoint below is structurally recursive on the fuel) *)
Definition sect_child (rec : Z -> string -> mstate -> res mstate) (acc : res mstate) (child : Z) : res mstate :=
  st1 <- acc ;;
  s <- get_segment (st_segs st1) child ;;
  p <- actual_prox (fuel_of (st_segs st1)) (st_segs st1) (sid s) ;;
  let st2 := set_prox (sid s) p st1 in
  let name := fresh_name (st_groups st2) (Z.of_nat (List.length (st_groups st2)) - 1) (sid s) in
  rec child name (add_unbranched_group name st2).

Fixpoint sect (fuel : nat) (a : adj) (r : Z) (gname : string) (st : mstate) : res mstate :=
  match fuel with
  | O => Err EFuel
  | S k =>
    match alookup a r with
    | None => Ok (add_member gname r st)                       (* KeyError: leaf *)
    | Some [] => Ok st                                         (* neither loop nor branch (never produced by adjacency) *)
    | Some [ch] => sect k a ch gname (add_member gname r st)   (* one iteration of the while loop *)
    | Some kids => fold_left (sect_child (sect k a)) kids (Ok (add_member gname r st))
    end
  end.

Definition default_group_names : list string := ["soma_group"; "axon_group"; "dendrite_group"; "all"]%string.

(* sg = get_segment_group(name); seg_groups.append(seg_groups.pop(seg_groups.index(sg))) *)
Fixpoint remove_first_group (name : string) (gs : list group) : list group :=
  match gs with
  | [] => []
  | g :: r => if has_gid name g then r else g :: remove_first_group name r
  end.

Definition move_last (gs : list group) (name : string) : list group :=
  match find (has_gid name) gs with
  | Some g => remove_first_group name gs ++ [g]
  | None => gs
  end.

Definition reorder_groups (gs : list group) : list group := fold_left move_last default_group_names gs.

Definition optimise_simple (g : group) : group :=
  match gincludes g with
  | [] => mkgroup (gid g) (dedup (gmembers g)) [] (gnlx g)
  | _ => g
  end.

(* C16 fix: the first segment of the first group gets an explicit proximal too *)
Definition root_prox (st : mstate) (s : seg) : res mstate :=
  match sprox s, sparent s with
  | None, Some _ => p <- actual_prox (fuel_of (st_segs st)) (st_segs st) (sid s) ;; Ok (set_prox (sid s) p st)
  | _, _ => Ok st
  end.

Definition create_branches (c : cell) (gs : list group) (root : Z) (reorder optimise : bool) : res mstate :=
  let a := adjacency c in
  s <- get_segment c root ;;
  st0 <- root_prox (mkst c gs) s ;;
  let name := fresh_name (st_groups st0) (Z.of_nat (List.length gs)) (sid s) in
  st1 <- sect (fuel_of c) a root name (add_unbranched_group name st0) ;;
  let g1 := if reorder then reorder_groups (st_groups st1) else st_groups st1 in
  let g2 := if optimise then map optimise_simple g1 else g1 in
  Ok (mkst (st_segs st1) g2).

(* =========================================================================================
   Rose trees: the structure the theorems are proved on (any depth, any branching).
   ========================================================================================= *)
Inductive tree : Type := Node (id : Z) (kids : list tree).

Definition root_id (t : tree) : Z := match t with Node n _ => n end.
Definition subtrees (t : tree) : list tree := match t with Node _ k => k end.

Fixpoint preorder (t : tree) : list Z :=
  match t with Node n kids => n :: flat_map preorder kids end.

Fixpoint tsize (t : tree) : nat :=
  match t with Node _ kids => S (list_sum (map tsize kids)) end.

(* the groups in creation order; cur = members already put into the current group, most recent first *)
Fixpoint sect_tree (t : tree) (cur : list Z) : list (list Z) :=
  match t with
  | Node n kids =>
    match kids with
    | [] => [rev (n :: cur)]
    | [k] => sect_tree k (n :: cur)
    | _ => rev (n :: cur) :: flat_map (fun k => sect_tree k []) kids
    end
  end.

(* the tree below r according to an adjacency list (used to link a concrete cell to its tree) *)
Fixpoint build_tree (fuel : nat) (a : adj) (r : Z) : option tree :=
  match fuel with
  | O => None
  | S k =>
    let kids := match alookup a r with Some l => l | None => [] end in
    match (fix go (l : list Z) : option (list tree) :=
             match l with
             | [] => Some []
             | x :: l' => match build_tree k a x, go l' with
                          | Some t, Some ts => Some (t :: ts)
                          | _, _ => None
                          end
             end) kids with
    | Some ts => Some (Node r ts)
    | None => None
    end
  end.

(* the adjacency list a is that of the tree t: every node's entry lists its children in order (none for a leaf) *)
Fixpoint tree_adjb (a : adj) (t : tree) : bool :=
  match t with
  | Node n kids =>
    (match kids, alookup a n with
     | [], None => true
     | _ :: _, Some l => list_eqb Z.eqb l (map root_id kids)
     | _, _ => false
     end) && forallb (tree_adjb a) kids
  end.

(* the i-th group created in one run is named with index  N + pred i  (N groups existed before) *)
Fixpoint name_groups (N : Z) (i : nat) (gss : list (list Z)) : list group :=
  match gss with
  | [] => []
  | ms :: r => mkgroup (mkname (N + Z.of_nat (pred i)) (hd 0 ms)) ms [] (Some section_nlx)
               :: name_groups N (S i) r
  end.

(* =========================================================================================
   No hidden state: the table (method of class Cell, attributes of `self` it writes), regenerated from nml.py on every
   run (impl/c13_impl.py self_writes), must show no write for the lookup / query / sectioning methods, except the two
   documented caches; its last row lists the class-level attributes of Cell bound to a mutable container (state
   shared by all cells, threads included): only generateDS's member_data_items_ is allowed.  (The models above are pure functions of the cell's segments and groups.)
   ========================================================================================= *)
Definition tracked_methods : list string :=
  ["get_segment"; "get_segments_by_substring"; "get_actual_proximal"; "get_segment_length"; "get_segment_surface_area";
   "get_segment_volume"; "get_segment_ids_vs_segments"; "get_all_segments_in_group"; "get_ordered_segments_in_groups";
   "get_segment_group"; "get_segment_groups_by_substring"; "get_segment_adjacency_list"; "get_graph"; "get_distance";
   "get_all_distances_from_segment"; "get_segments_at_distance"; "get_branching_points"; "get_extremeties";
   "get_segment_location_info"; "get_morphology_root"; "create_unbranched_segment_group_branches"; "__sectionise";
   "add_segment_group"; "add_unbranched_segment_group"; "reorder_segment_groups";
   "<class-level mutable attributes>"]%string.

Definition allowed_writes (m : string) : list string :=
  if String.eqb m "get_segment_adjacency_list" then ["adjacency_list"%string]
  else if String.eqb m "get_graph" then ["cell_graph"%string]
  else if String.eqb m "<class-level mutable attributes>" then ["member_data_items_"; "validate_NmlId_patterns_"]%string   (* generateDS metadata, read-only *)
  else [].

Fixpoint slookup (t : list (string * list string)) (m : string) : option (list string) :=
  match t with
  | [] => None
  | (k, v) :: r => if String.eqb k m then Some v else slookup r m
  end.

Definition str_mem (x : string) (l : list string) : bool := existsb (String.eqb x) l.

Definition writes_ok (t : list (string * list string)) : bool :=
  forallb (fun m => match slookup t m with
                    | Some ws => forallb (fun w => str_mem w (allowed_writes m)) ws
                    | None => false
                    end) tracked_methods.

(* =========================================================================================
   Correspondence
   ========================================================================================= *)
Fixpoint strs_eqb (a b : list string) : bool :=
  match a, b with
  | [], [] => true
  | x :: a', y :: b' => String.eqb x y && strs_eqb a' b'
  | _, _ => false
  end.

Definition optstr_eqb (a b : option string) : bool :=
  match a, b with
  | None, None => true
  | Some x, Some y => String.eqb x y
  | _, _ => false
  end.

(* groups that have includes went through C14's optimiser when the flag is on: only id and NeuroLex id are compared *)
Definition group_eqb (loose : bool) (a b : group) : bool :=
  String.eqb (gid a) (gid b) && optstr_eqb (gnlx a) (gnlx b) &&
  (if loose && negb (match gincludes a with [] => true | _ => false end)
   then true
   else list_eqb Z.eqb (gmembers a) (gmembers b) && strs_eqb (gincludes a) (gincludes b)).

Definition optpt_eqb (a b : option pt) : bool :=
  match a, b with
  | None, None => true
  | Some x, Some y => pt_eqb x y
  | _, _ => false
  end.

Definition optpar_eqb (a b : option (Z * Q)) : bool :=
  match a, b with
  | None, None => true
  | Some (p, f), Some (q, g) => (p =? q) && Qeq_bool f g
  | _, _ => false
  end.

Definition seg_eqb (a b : seg) : bool :=
  (sid a =? sid b) && optpar_eqb (sparent a) (sparent b) && optpt_eqb (sprox a) (sprox b) && pt_eqb (sdist a) (sdist b).

Record case16 : Type := mkcase16 {
  k_cell : cell;
  k_groups : list group;
  k_root : Z;
  k_reorder : bool;
  k_optimise : bool;
  k_out : res (cell * list group) }.      (* the implementation: segments and groups after the call *)

(* the section groups the rose-tree function predicts for this cell (None if the tree cannot be built) *)
Definition tree_groups (c : cell) (gs : list group) (root : Z) : option (list group) :=
  match build_tree (fuel_of c) (adjacency c) root with
  | Some t => Some (name_groups (Z.of_nat (List.length gs)) O (sect_tree t []))
  | None => None
  end.

(* the hypotheses of C16_model_correct, decided by computation for a concrete case *)
Fixpoint nodup_strb (l : list string) : bool :=
  match l with
  | [] => true
  | x :: r => negb (existsb (String.eqb x) r) && nodup_strb r
  end.

Definition tree_hyps_ok (c : cell) (t : tree) : bool :=
  wfb c && root_has_proxb c
  && tree_adjb (adjacency c) t && Zlist_eqb (dedup (preorder t)) (preorder t)
  && forallb (fun x => memZ x (ids c)) (preorder t).

Definition names_ok (gs : list group) (t : tree) : bool :=
  nodup_strb (map gid gs ++ map gid (name_groups (Z.of_nat (List.length gs)) O (sect_tree t []))).

Definition hyps_ok (c : cell) (gs : list group) (root : Z) : bool :=
  match build_tree (fuel_of c) (adjacency c) root with
  | Some t => tree_hyps_ok c t && names_ok gs t
  | None => false
  end.

(* the part of the hypotheses that does not concern group ids (a cell whose old groups carry generated-style ids is
   still a legitimate input: C16_alters_nothing / C16_old_groups_untouched apply to it) *)
Definition tree_ok (c : cell) (root : Z) : bool :=
  match build_tree (fuel_of c) (adjacency c) root with
  | Some t => tree_hyps_ok c t
  | None => false
  end.

Definition ids_clash (c : cell) (gs : list group) (root : Z) : bool :=
  match build_tree (fuel_of c) (adjacency c) root with
  | Some t => negb (names_ok gs t)
  | None => false
  end.

Definition is_section (g : group) : bool := optstr_eqb (gnlx g) (Some section_nlx).

(* 1 = model vs implementation: segments; 2 = groups; 3 = list-level model vs rose-tree function;
   4 = the cell or the tree below the root lies outside the hypotheses of C16_model_correct (component 3 is
   evaluated only when, in addition, no old group id clashes with a generated name) *)
Definition case_diff (k : case16) : list nat :=
  let m := create_branches (k_cell k) (k_groups k) (k_root k) (k_reorder k) (k_optimise k) in
  match m, k_out k with
  | Ok st, Ok (segs, gs) =>
      (flag 1 (list_eqb seg_eqb (st_segs st) segs)
       ++ flag 2 (list_eqb (group_eqb (k_optimise k)) (st_groups st) gs)
       ++ flag 3 (ids_clash (k_cell k) (k_groups k) (k_root k) ||
                  match tree_groups (k_cell k) (k_groups k) (k_root k) with
                  | Some tg => list_eqb (group_eqb false)
                                 (skipn (List.length (k_groups k))
                                    (st_groups (match create_branches (k_cell k) (k_groups k) (k_root k) false false with
                                                | Ok s => s | Err _ => st end))) tg
                  | None => false
                  end)
       ++ flag 4 (tree_ok (k_cell k) (k_root k)))%list
  | Err e, Err f => flag 1 (err_eqb e f)
  | _, _ => [1%nat; 2%nat]
  end.

Fixpoint mismatches16_from (n : nat) (l : list case16) : list (nat * list nat) :=
  match l with
  | [] => []
  | k :: r => match case_diff k with
              | [] => mismatches16_from (S n) r
              | d => (n, d) :: mismatches16_from (S n) r
              end
  end.
Definition mismatches16 (l : list case16) : list (nat * list nat) := mismatches16_from O l.

Definition G (id : string) (ms : list Z) (incs : list string) (nlx : option string) : group := mkgroup id ms incs nlx.
