(* Model of component validation in libNeuroML:
     GeneratedsSuperSuper.validate(recursive)            neuroml/nml/generatedssupersuper.py
     the generated  validate_ / validate_<SimpleType>    neuroml/nml/nml.py (every class)
     gds_validate_builtin_ST_ / gds_validate_defined_ST_ / gds_check_cardinality_ / gds_validate_simple_patterns
     neuroml.utils.is_valid_neuroml2 (wrapper)
   interpreting tables regenerated from the source on every run (Gen_Validate.v, emitted by lib/schemagen.py from
   the output of translators/tr_bindings.py).  Definitions only; proofs are in Proofs/ValidateP*.v.

   Objects carry all the fields their constructors create (a missing field reads as None); floats are abstract. *)
From Coq Require Import String List ZArith Bool.
From LNML Require Import Lib.Dec Lib.Regex Model.Gds.
Import ListNotations.
Open Scope string_scope.

(* ---------------------------------------------------------------- tables *)
Inductive bkind := BStr | BInt | BFloat.                    (* isinstance(value, str | int | float) *)
Inductive builtin := GString | GInteger | GFloat | GDouble. (* self.gds_validate_<x> *)
Inductive fkind := FMinIncl | FMinExcl | FMaxIncl | FMaxExcl.
Inductive elit := EStr (s : string) | EDec (d : dec).       (* a member of an `enumerations = [...]` list *)

Record stval := {                  (* def validate_<name>(self, value) *)
  sv_name : string;
  sv_base : option bkind;          (* if not isinstance(value, B): message; return False *)
  sv_enums : option (list elit);   (* if value not in enumerations: message *)
  sv_pats : option (list (list cre));   (* gds_validate_simple_patterns: every group must have a matching alternative *)
  sv_facets : list (fkind * dec)   (* if value < d / <= d / > d / >= d: message *)
}.

Inductive vitem :=
| IBuiltin (m : string) (g : builtin)      (* self.gds_validate_builtin_ST_(self.gds_validate_g, self.m, 'm') *)
| IDefined (m st : string)                 (* self.gds_validate_defined_ST_(self.validate_st, self.m, 'm') *)
| ICardReq (m : string) (req : bool)       (* self.gds_check_cardinality_(self.m, 'm', required=req) *)
| ICard (m : string) (lo hi : Z).          (* self.gds_check_cardinality_(self.m, 'm', min_occurs=lo, max_occurs=hi) *)

Record vcls := {
  v_name : string;
  v_super : option string;
  v_items : list vitem;                    (* the statements of validate_ before `if recursive:` *)
  v_rec : list (string * bool);            (* the members validate_ recurses into (true: `for item in self.m`) *)
  v_sts : list stval;                      (* the validate_<SimpleType> methods this class defines *)
  v_members : list string                  (* names in member_data_items_, in order *)
}.

(* which code does the recursion of validate(recursive=True):
   RecGenerated  - the generated validate_ methods (`item.validate_(gds_collector, recursive=True)`): on a child only
                   the validate_ of its most-derived class runs
   RecAllMembers - GeneratedsSuperSuper itself walks every member of every class of the MRO and validates each child
                   component completely (all classes of the child's MRO) *)
Inductive vmode := RecGenerated | RecAllMembers.

Record vtables := { vt_mode : vmode; vt_classes : list vcls }.

Inductive mkind :=
| KBase (k : bkind)         (* Value "..." is not of the correct base simple type (...) *)
| KEnum                     (* ... does not match xsd enumeration restriction ... *)
| KPattern                  (* ... does not match xsd pattern restrictions ... *)
| KFacet (k : fkind)        (* ... does not match xsd minInclusive/... restriction ... *)
| KParse (g : builtin)      (* GDSParseError of gds_validate_integer/float/double *)
| KRequired (m : string)    (* Required value m is missing *)
| KBelow (m : string)       (* Number of values for m is below the minimum allowed *)
| KAbove (m : string)       (* Number of values for m is above the maximum allowed *)
| KNoValidator (st : string)(* AttributeError: no validate_<st> along the MRO (excluded by an instance obligation) *)
| KFuel.                    (* out of fuel (never with the fuel `validate` supplies) *)

Definition msg := (string * mkind)%type.   (* class of the reporting object (GdsCollector prefixes it), what *)

Fixpoint find_vcls (l : list vcls) (c : string) : option vcls :=
  match l with
  | [] => None
  | k :: r => if String.eqb (v_name k) c then Some k else find_vcls r c
  end.

(* type(self).__mro__ restricted to the generated classes, most derived first *)
Fixpoint vchain (fuel : nat) (l : list vcls) (c : string) : list vcls :=
  match fuel with
  | O => []
  | S f => match find_vcls l c with
           | None => []
           | Some k => k :: match v_super k with Some s => vchain f l s | None => [] end
           end
  end.
Definition mro (V : vtables) (c : string) : list vcls := vchain (S (length (vt_classes V))) (vt_classes V) c.

Fixpoint find_sv (l : list stval) (st : string) : option stval :=
  match l with
  | [] => None
  | s :: r => if String.eqb (sv_name s) st then Some s else find_sv r st
  end.

(* self.validate_<st> : attribute lookup along the MRO of the object's class *)
Fixpoint find_stv (ch : list vcls) (st : string) : option stval :=
  match ch with
  | [] => None
  | k :: r => match find_sv (v_sts k) st with Some s => Some s | None => find_stv r st end
  end.

Section Validate.
Variable F : Type.
Variable F_eqb : F -> F -> bool.       (* == *)
Variable F_ltb : F -> F -> bool.       (* <  *)
Variable F_of_dec : dec -> F.
Variable parse_float : string -> option F.

Notation value := (value F).
Notation obj := (obj F).

Definition field (o : obj) (m : string) : value := opt_value F (lookup m (o_fields F o)).

Definition base_ok (k : bkind) (v : value) : bool :=
  match k, v with
  | BStr, VStr _ => true
  | BInt, VInt _ => true
  | BFloat, VFlt _ => true
  | _, _ => false
  end.

Definition num_of (v : value) : option F :=
  match v with VFlt f => Some f | VInt z => Some (F_of_dec (z, O)) | _ => None end.

Definition elit_eq (v : value) (e : elit) : bool :=
  match e, v with
  | EStr s, VStr t => String.eqb s t
  | EDec d, _ => match num_of v with Some x => F_eqb x (F_of_dec d) | None => false end
  | _, _ => false
  end.

Definition pats_ok (ps : list (list cre)) (v : value) : bool :=
  match v with
  | VStr s => forallb (fun alts => existsb (fun r => match_string r s) alts) ps
  | _ => false
  end.

Definition facet_fails (v : value) (fd : fkind * dec) : bool :=
  match num_of v with
  | None => true
  | Some x =>
    let y := F_of_dec (snd fd) in
    match fst fd with
    | FMinIncl => F_ltb x y
    | FMinExcl => F_ltb x y || F_eqb x y
    | FMaxIncl => F_ltb y x
    | FMaxExcl => F_ltb y x || F_eqb x y
    end
  end.

(* the body of validate_<st>(value) for value is not None *)
Definition facet_msgs (sv : stval) (v : value) : list mkind :=
  (match sv_enums sv with Some l => if existsb (elit_eq v) l then [] else [KEnum] | None => [] end) ++
  (match sv_pats sv with Some ps => if pats_ok ps v then [] else [KPattern] | None => [] end) ++
  map (fun fd => KFacet (fst fd)) (filter (facet_fails v) (sv_facets sv)).

Definition run_stv (sv : stval) (v : value) : list mkind :=
  match sv_base sv with
  | Some k => if base_ok k v then facet_msgs sv v else [KBase k]
  | None => facet_msgs sv v
  end.

(* gds_validate_<g>(value): does it raise GDSParseError *)
Definition builtin_fails (g : builtin) (v : value) : bool :=
  match g, v with
  | GString, _ => false
  | _, VInt _ => false
  | _, VFlt _ => false
  | GInteger, VStr s => match parse_int s with Some _ => false | None => true end
  | _, VStr s => match parse_float s with Some _ => false | None => true end
  | _, _ => true
  end.

Definition card_len (v : value) : Z :=
  match v with
  | VNone => 0
  | VObjs l => Z.of_nat (length l)
  | VRaw l => Z.of_nat (length l)
  | _ => 1
  end.

(* gds_check_cardinality_(value, name, min_occurs=0, max_occurs=1, required=None) *)
Definition card_msgs (m : string) (v : value) (req : option bool) (lo hi : Z) : list mkind :=
  let n := card_len v in
  (match req with Some true => if (n <? 1)%Z then [KRequired m] else [] | _ => [] end) ++
  (if (n <? lo)%Z then [KBelow m] else if (hi <? n)%Z then [KAbove m] else []).

Definition item_msgs (ch : list vcls) (o : obj) (it : vitem) : list mkind :=
  match it with
  | IBuiltin m g => match field o m with
                    | VNone => []
                    | v => if builtin_fails g v then [KParse g] else []
                    end
  | IDefined m st => match field o m with
                     | VNone => []
                     | v => match find_stv ch st with
                            | Some sv => run_stv sv v
                            | None => [KNoValidator st]
                            end
                     end
  | ICardReq m req => card_msgs m (field o m) (Some req) 0 1
  | ICard m lo hi => card_msgs m (field o m) None lo hi
  end.

(* the messages k.validate_(o, collector, recursive=False) adds; ch = MRO of o's class (validator lookup) *)
Definition own_msgs (ch : list vcls) (k : vcls) (o : obj) : list msg :=
  map (fun x => (o_cls F o, x)) (flat_map (item_msgs ch o) (v_items k)).

(* all classes of the MRO, most derived first: validate(recursive=False) *)
Definition local_msgs (V : vtables) (o : obj) : list msg :=
  let ch := mro V (o_cls F o) in flat_map (fun k => own_msgs ch k o) ch.

Definition kids_of (v : value) : list obj :=
  match v with VObj o => [o] | VObjs l => l | _ => [] end.

(* ---- RecGenerated: child.validate_(collector, recursive=True) = the most-derived class's validate_ only *)
Fixpoint validate_own (fuel : nat) (V : vtables) (o : obj) : list msg :=
  match fuel with
  | O => [(o_cls F o, KFuel)]
  | S f =>
    let ch := mro V (o_cls F o) in
    match ch with
    | [] => []
    | k :: _ => (own_msgs ch k o ++
                 flat_map (fun mr => flat_map (validate_own f V) (kids_of (field o (fst mr)))) (v_rec k))%list
    end
  end.

Definition validate_gen (fuel : nat) (V : vtables) (o : obj) (recursive : bool) : list msg :=
  let ch := mro V (o_cls F o) in
  flat_map (fun k => (own_msgs ch k o ++
                      if recursive
                      then flat_map (fun mr => flat_map (validate_own fuel V) (kids_of (field o (fst mr)))) (v_rec k)
                      else [])%list) ch.

(* ---- RecAllMembers: _validate_members(collector, recursive) *)
Fixpoint validate_members (fuel : nat) (V : vtables) (o : obj) (recursive : bool) : list msg :=
  match fuel with
  | O => [(o_cls F o, KFuel)]
  | S f =>
    let ch := mro V (o_cls F o) in
    (flat_map (fun k => own_msgs ch k o) ch ++
     if recursive
     then flat_map (fun k => flat_map (fun m => flat_map (fun c => validate_members f V c true)
                                                         (kids_of (field o m))) (v_members k)) ch
     else [])%list
  end.

(* nesting depth of a tree: enough fuel *)
Fixpoint odepth (o : obj) : nat :=
  match o with
  | Obj _ fs =>
    S ((fix fl (l : list (string * value)) : nat :=
          match l with
          | [] => O
          | (_, v) :: r =>
            Nat.max (match v with
                     | VObj o' => odepth o'
                     | VObjs os => (fix ol (l : list obj) : nat :=
                                      match l with [] => O | x :: r' => Nat.max (odepth x) (ol r') end) os
                     | _ => O
                     end) (fl r)
          end) fs)
  end.

(* obj.validate(recursive): the messages collected; ValueError is raised iff the list is not empty *)
Definition validate (V : vtables) (o : obj) (recursive : bool) : list msg :=
  match vt_mode V with
  | RecGenerated => validate_gen (odepth o) V o recursive
  | RecAllMembers => validate_members (S (odepth o)) V o recursive
  end.

Definition raises (V : vtables) (o : obj) (recursive : bool) : bool :=
  match validate V o recursive with [] => false | _ => true end.

(* neuroml.utils.is_valid_neuroml2(file): load, validate(recursive=True), ValueError -> False.
   `load` stands for loaders.read_neuroml2_file (None: it raised, and so does is_valid_neuroml2) *)
Definition is_valid_neuroml2 (V : vtables) (load : string -> option obj) (file : string) : option bool :=
  match load file with
  | None => None
  | Some doc => Some (negb (raises V doc true))
  end.

End Validate.

Arguments validate {F} F_eqb F_ltb F_of_dec parse_float V o recursive.
Arguments raises {F} F_eqb F_ltb F_of_dec parse_float V o recursive.
Arguments local_msgs {F} F_eqb F_ltb F_of_dec parse_float V o.
Arguments own_msgs {F} F_eqb F_ltb F_of_dec parse_float ch k o.
Arguments item_msgs {F} F_eqb F_ltb F_of_dec parse_float ch o it.
Arguments validate_members {F} F_eqb F_ltb F_of_dec parse_float fuel V o recursive.
Arguments validate_gen {F} F_eqb F_ltb F_of_dec parse_float fuel V o recursive.
Arguments validate_own {F} F_eqb F_ltb F_of_dec parse_float fuel V o.
Arguments is_valid_neuroml2 {F} F_eqb F_ltb F_of_dec parse_float V load file.
Arguments odepth {F} o.
Arguments field {F} o m.
Arguments kids_of {F} v.

(* ---------------------------------------------------------------- executable instance: F := finite decimals *)
Fixpoint pow10 (n : nat) : Z := match n with O => 1%Z | S k => (10 * pow10 k)%Z end.
Definition dec_ltb (a b : dec) : bool := (fst a * pow10 (snd b) <? fst b * pow10 (snd a))%Z.
Definition dec_veqb (a b : dec) : bool := (fst a * pow10 (snd b) =? fst b * pow10 (snd a))%Z.

Definition x_validate := @validate dec dec_veqb dec_ltb (fun d => d) parse_dec.

Definition bkind_eqb (a b : bkind) : bool :=
  match a, b with BStr, BStr | BInt, BInt | BFloat, BFloat => true | _, _ => false end.
Definition builtin_eqb (a b : builtin) : bool :=
  match a, b with GString, GString | GInteger, GInteger | GFloat, GFloat | GDouble, GDouble => true | _, _ => false end.
Definition fkind_eqb (a b : fkind) : bool :=
  match a, b with FMinIncl, FMinIncl | FMinExcl, FMinExcl | FMaxIncl, FMaxIncl | FMaxExcl, FMaxExcl => true | _, _ => false end.
Definition mkind_eqb (a b : mkind) : bool :=
  match a, b with
  | KBase x, KBase y => bkind_eqb x y
  | KEnum, KEnum | KPattern, KPattern | KFuel, KFuel => true
  | KFacet x, KFacet y => fkind_eqb x y
  | KParse x, KParse y => builtin_eqb x y
  | KRequired x, KRequired y | KBelow x, KBelow y | KAbove x, KAbove y | KNoValidator x, KNoValidator y => String.eqb x y
  | _, _ => false
  end.
Fixpoint msgs_eqb (a b : list msg) : bool :=
  match a, b with
  | [], [] => true
  | (c, k) :: r, (d, j) :: s => String.eqb c d && mkind_eqb k j && msgs_eqb r s
  | _, _ => false
  end.

(* one correspondence case: the tree the real constructors produced and the messages the real validate() collected *)
Record vcase := { vc_obj : obj dec; vc_rec : list msg; vc_nonrec : list msg }.

(* bit 1: validate(recursive=True) differs, bit 2: validate() differs *)
Definition check_vcase (V : vtables) (c : vcase) : nat :=
  ((if msgs_eqb (x_validate V (vc_obj c) true) (vc_rec c) then 0 else 1) +
   (if msgs_eqb (x_validate V (vc_obj c) false) (vc_nonrec c) then 0 else 2))%nat.

Fixpoint vmismatches (V : vtables) (i : nat) (l : list vcase) : list (nat * nat) :=
  match l with
  | [] => []
  | c :: r => let k := check_vcase V c in
              if Nat.eqb k 0 then vmismatches V (S i) r else (i, k) :: vmismatches V (S i) r
  end.
