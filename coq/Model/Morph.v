(* C13 model — morphology metrics of neuroml.Cell (helper_methods.py / nml.py class Cell), mirrored on a
   parent-pointer segment list in DOCUMENT ORDER.  Definitions only; proofs are in Proofs/MorphP*.v.

   Python                                   here
   ---------------------------------------  -----------------------------------------
   cell.morphology.segments                 cell = list seg (document order)
   get_segment                              get_segment           (first match, ValueError)
   get_actual_proximal                      actual_prox           (recursion -> fuel)
   Segment.length / Point3DWithDiam.distance_to / get_segment_length     seg_length (exact rational sqrt)
   get_segment_adjacency_list               adjacency             (fold in document order, dict = assoc list)
   get_graph (with the C13 fix: every segment is a node)                 get_graph
   networkx single_source_dijkstra on a directed tree                    reach / nx_sssp
   get_distance, get_all_distances_from_segment, get_segments_at_distance,
   get_branching_points, get_extremeties (C13 fix: measured from the root), get_morphology_root
   get_ordered_segments_in_groups (cumulative / path lengths, both branches of the loop)   ordered_run

   Numbers are exact rationals (Q); the correspondence run uses dyadic geometry on which CPython float
   arithmetic is exact.  Segment length is a total function  len : Z -> Q  in the graph/ordering functions;
   the top level (with_lens) computes the table with seg_length first. *)
From Coq Require Import List ZArith QArith Qabs Bool.
Import ListNotations.
Open Scope Z_scope.

(* ---------------------------------------------------------------- results *)
Inductive err : Type :=
| EValue        (* ValueError: get_segment did not find the id *)
| EAttr         (* AttributeError: segment.parent is None *)
| EKey          (* KeyError *)
| ENodeNotFound (* networkx.NodeNotFound *)
| ENoPath       (* networkx.NetworkXNoPath *)
| EAssert       (* AssertionError in get_morphology_root *)
| ENotSquare    (* model domain: the squared length is not the square of a rational *)
| EFuel         (* model artefact: recursion fuel exhausted (excluded by every theorem) *)
| EOther.       (* any other exception class of the implementation (never produced by the model) *)

Inductive res (A : Type) : Type := Ok (a : A) | Err (e : err).
Arguments Ok {A} a.
Arguments Err {A} e.

Definition bind {A B} (r : res A) (f : A -> res B) : res B :=
  match r with Ok a => f a | Err e => Err e end.
Notation "x <- r ;; k" := (bind r (fun x => k)) (at level 61, r at next level, right associativity).

Definition err_eqb (a b : err) : bool :=
  match a, b with
  | EValue, EValue | EAttr, EAttr | EKey, EKey | ENodeNotFound, ENodeNotFound | ENoPath, ENoPath
  | EAssert, EAssert | ENotSquare, ENotSquare | EFuel, EFuel | EOther, EOther => true
  | _, _ => false
  end.

(* ---------------------------------------------------------------- data *)
Record pt : Type := mkpt { px : Q; py : Q; pz : Q; pdiam : Q }.

Record seg : Type := mkseg {
  sid : Z;
  sparent : option (Z * Q);     (* parent segment id, fraction_along *)
  sprox : option pt;
  sdist : pt }.

Definition cell := list seg.

Definition ids (c : cell) : list Z := map sid c.

(* for segment in self.morphology.segments: if segment.id == segment_id: return segment *)
Definition find_seg (c : cell) (id : Z) : option seg := find (fun s => sid s =? id) c.

Definition get_segment (c : cell) (id : Z) : res seg :=
  match find_seg c id with Some s => Ok s | None => Err EValue end.

(* (1-fract)*pp + fract*pd, coordinate by coordinate and for the diameter *)
Definition lerp (f : Q) (a b : pt) : pt :=
  mkpt ((1 - f) * px a + f * px b) ((1 - f) * py a + f * py b)
       ((1 - f) * pz a + f * pz b) ((1 - f) * pdiam a + f * pdiam b).

Fixpoint actual_prox (fuel : nat) (c : cell) (id : Z) : res pt :=
  match fuel with
  | O => Err EFuel
  | S k =>
    s <- get_segment c id ;;
    match sprox s with
    | Some p => Ok p
    | None =>
      match sparent s with
      | None => Err EAttr
      | Some (pid, f) =>
        par <- get_segment c pid ;;
        if Qeq_bool f 1 then Ok (sdist par)
        else if Qeq_bool f 0 then actual_prox k c pid
        else (pp <- actual_prox k c pid ;; Ok (lerp f pp (sdist par)))
      end
    end
  end.

(* ((ax-bx)**2 + (ay-by)**2 + (az-bz)**2) ** 0.5  — exact when the sum is the square of a rational *)
Definition sqdist (a b : pt) : Q :=
  (px a - px b) * (px a - px b) + (py a - py b) * (py a - py b) + (pz a - pz b) * (pz a - pz b).

Definition qsqrt (q : Q) : option Q :=
  let r := Qred q in
  let n := Qnum r in
  let d := Zpos (Qden r) in
  let a := Z.sqrt n in
  let b := Z.sqrt d in
  if (0 <=? n) && (a * a =? n) && (b * b =? d) then Some (a # Z.to_pos b)%Q else None.

Definition seg_length (fuel : nat) (c : cell) (id : Z) : res Q :=
  s <- get_segment c id ;;
  p <- match sprox s with Some p => Ok p | None => actual_prox fuel c id end ;;
  match qsqrt (sqdist p (sdist s)) with Some l => Ok l | None => Err ENotSquare end.

(* ---------------------------------------------------------------- assoc lists (Python dicts) *)
Fixpoint alookup {A} (m : list (Z * A)) (k : Z) : option A :=
  match m with
  | [] => None
  | (k', v) :: r => if k' =? k then Some v else alookup r k
  end.

Fixpoint memZ (x : Z) (l : list Z) : bool :=
  match l with [] => false | y :: r => (y =? x) || memZ x r end.

(* keep first occurrences (insertion order of a dict / of DiGraph nodes) *)
Fixpoint dedup_acc (seen l : list Z) : list Z :=
  match l with
  | [] => []
  | x :: r => if memZ x seen then dedup_acc seen r else x :: dedup_acc (x :: seen) r
  end.
Definition dedup (l : list Z) : list Z := dedup_acc [] l.

(* ---------------------------------------------------------------- adjacency list *)
Definition adj := list (Z * list Z).

(* if parent not in child_lists: child_lists[parent] = [] ; child_lists[parent].append(segment.id) *)
Fixpoint adj_add (a : adj) (p ch : Z) : adj :=
  match a with
  | [] => [(p, [ch])]
  | (k, v) :: r => if k =? p then (k, v ++ [ch]) :: r else (k, v) :: adj_add r p ch
  end.

Definition adj_step (a : adj) (s : seg) : adj :=
  match sparent s with
  | None => a                       (* AttributeError caught: warning only *)
  | Some (p, _) => adj_add a p (sid s)
  end.

Definition adjacency (c : cell) : adj := fold_left adj_step c [].

(* ---------------------------------------------------------------- graph *)
Definition edge := (Z * Z * Q)%type.
Record graph : Type := mkgraph { gnodes : list Z; gedges : list edge }.

Definition esrc (e : edge) : Z := fst (fst e).
Definition edst (e : edge) : Z := snd (fst e).
Definition ew (e : edge) : Q := snd e.

(* child = self.get_segment(cid); fract = float(child.parent.fraction_along) *)
Definition fract_of (c : cell) (cid : Z) : res Q :=
  s <- get_segment c cid ;;
  match sparent s with Some (_, f) => Ok f | None => Err EAttr end.

Fixpoint edges_of_kids (len : Z -> Q) (c : cell) (p : Z) (kids : list Z) : res (list edge) :=
  match kids with
  | [] => Ok []
  | k :: r => f <- fract_of c k ;; es <- edges_of_kids len c p r ;; Ok ((p, k, len p * f)%Q :: es)
  end.

Fixpoint edges_of_adj (len : Z -> Q) (c : cell) (a : adj) : res (list edge) :=
  match a with
  | [] => Ok []
  | (p, kids) :: r => e1 <- edges_of_kids len c p kids ;; e2 <- edges_of_adj len c r ;; Ok (e1 ++ e2)
  end.

(* with the C13 fix: every segment is a node (document order), then the edge end points *)
Definition get_graph (len : Z -> Q) (c : cell) : res graph :=
  es <- edges_of_adj len c (adjacency c) ;;
  Ok (mkgraph (dedup (ids c ++ flat_map (fun e => [esrc e; edst e]) es)) es).

(* ---- networkx single_source_dijkstra on a directed tree: the distance of t is the weight sum of the
        unique path; nodes with distance > cutoff are not reached.  (dist, path) per reached node. *)
Definition reached := (Z * Q * list Z)%type.

Fixpoint rconcat {A} (l : list (res (list A))) : res (list A) :=
  match l with
  | [] => Ok []
  | x :: r => a <- x ;; b <- rconcat r ;; Ok (a ++ b)
  end.

Definition over (cutoff : option Q) (d : Q) : bool :=
  match cutoff with None => false | Some m => negb (Qle_bool d m) end.

Fixpoint reach (fuel : nat) (es : list edge) (cutoff : option Q) (n : Z) (d : Q) (rpath : list Z)
  : res (list reached) :=
  match fuel with
  | O => Err EFuel
  | S k =>
    sub <- rconcat (map (fun e => if (esrc e =? n) && negb (over cutoff (d + ew e)%Q)
                                  then reach k es cutoff (edst e) (d + ew e)%Q (edst e :: rpath)
                                  else Ok []) es) ;;
    Ok ((n, d, rev rpath) :: sub)
  end.

Definition nx_sssp (fuel : nat) (g : graph) (src : Z) (cutoff : option Q) : res (list reached) :=
  if memZ src (gnodes g) then reach fuel (gedges g) cutoff src 0%Q [src] else Err ENodeNotFound.

Fixpoint rlookup (r : list reached) (t : Z) : option Q :=
  match r with
  | [] => None
  | (n, d, _) :: r' => if n =? t then Some d else rlookup r' t
  end.

(* nx.dijkstra_path_length(graph, source, dest) *)
Definition nx_dist (fuel : nat) (g : graph) (src dst : Z) : res Q :=
  r <- nx_sssp fuel g src None ;;
  match rlookup r dst with Some d => Ok d | None => Err ENoPath end.

Definition out_deg (g : graph) (n : Z) : nat := length (filter (fun e => esrc e =? n) (gedges g)).
Definition in_deg (g : graph) (n : Z) : nat := length (filter (fun e => edst e =? n) (gedges g)).

Definition branching_points (g : graph) : list Z := filter (fun n => (1 <? out_deg g n)%nat) (gnodes g).

Definition morphology_root (c : cell) (g : graph) : res Z :=
  let via_graph :=
    match filter (fun n => (in_deg g n =? 0)%nat) (gnodes g) with
    | [r] => Ok r
    | _ => Err EAssert
    end in
  match find_seg c 0 with
  | Some s => match sparent s with None => Ok 0 | Some _ => via_graph end
  | None => via_graph
  end.

Fixpoint map_res {A B} (f : A -> res B) (l : list A) : res (list B) :=
  match l with
  | [] => Ok []
  | x :: r => y <- f x ;; ys <- map_res f r ;; Ok (y :: ys)
  end.

(* C13 fix: the tips are measured from get_morphology_root(), not from the default source 0.
   (get_distance is called once per tip; every call runs the same Dijkstra from the root, so the model
   runs it once and looks every tip up: extremities_per_tip in Proofs/MorphP2.v.) *)
Definition extremities (fuel : nat) (c : cell) (g : graph) : res (list (Z * Q)) :=
  let tips := filter (fun n => (out_deg g n =? 0)%nat) (gnodes g) in
  match tips with
  | [] => Ok []
  | _ => root <- morphology_root c g ;;
         r <- nx_sssp fuel g root None ;;
         map_res (fun s => match rlookup r s with Some d => Ok (s, d) | None => Err ENoPath end) tips
  end.

Definition segments_at_distance (fuel : nat) (len : Z -> Q) (g : graph) (distance : Q) (src : Z)
  : res (list (Z * Q)) :=
  r <- nx_sssp fuel g src (Some distance) ;;
  Ok (flat_map (fun x : reached =>
                  let '(t, d, _) := x in
                  let l := len t in
                  if Qeq_bool l 0 then []                     (* ZeroDivisionError: skipped *)
                  else let fr := ((distance - d) / l)%Q in
                       if Qle_bool fr 1 then [(t, fr)] else []) r).

(* ---------------------------------------------------------------- ordered segments in a group *)
Fixpoint insertZ (x : Z) (l : list Z) : list Z :=
  match l with
  | [] => [x]
  | y :: r => if x <=? y then x :: l else y :: insertZ x r
  end.
Definition isort (l : list Z) : list Z := fold_right insertZ [] l.

(* the while loop that walks up to the root adding  par_length * fract *)
Fixpoint walk_up (fuel : nat) (len : Z -> Q) (c : cell) (last : seg) (acc : Q) : res Q :=
  match sparent last with
  | None => Ok acc
  | Some (p, f) =>
    match fuel with
    | O => Err EFuel
    | S k => match find_seg c p with
             | None => Err EKey
             | Some ps => walk_up k len c ps (acc + len p * f)%Q
             end
    end
  end.

Record ordst : Type := mkord {
  o_pp : list (Z * Q);     (* path_lengths_to_proximal[key] *)
  o_pd : list (Z * Q);     (* path_lengths_to_distal[key] *)
  o_tot : Q;
  o_cum : list Q }.        (* cumulative_lengths[key] *)

Definition ord_init : ordst := mkord [] [] 0%Q [].

Definition ord_step (fuel : nat) (len : Z -> Q) (c : cell) (st : ordst) (id : Z) : res ordst :=
  match find_seg c id with
  | None => Err EKey
  | Some s =>
    let l := len id in
    pp <- match sparent s with
          | None => Ok 0%Q
          | Some (p, f) =>
            match alookup (o_pd st) p with
            | None => walk_up fuel len c s 0%Q
            | Some pdv =>
              match alookup (o_pp st) p with
              | Some ppv => Ok (Qred (ppv + (pdv - ppv) * f))   (* same value, reduced fraction (keeps the
                                                                   kernel computation small on long chains) *)
              | None => Err EKey
              end
            end
          end ;;
    Ok (mkord ((id, pp) :: o_pp st) ((id, pp + l)%Q :: o_pd st) (o_tot st + l)%Q
              (o_cum st ++ [(o_tot st + l)%Q]))
  end.

Fixpoint ord_loop (fuel : nat) (len : Z -> Q) (c : cell) (st : ordst) (l : list Z) : res ordst :=
  match l with
  | [] => Ok st
  | id :: r => st' <- ord_step fuel len c st id ;; ord_loop fuel len c st' r
  end.

(* group = the resolved member ids of the selected group (get_all_segments_in_group, C14) *)
Definition ordered_run (fuel : nat) (len : Z -> Q) (c : cell) (group : list Z) : res (list Z * ordst) :=
  let o := isort group in
  st <- ord_loop fuel len c ord_init o ;; Ok (o, st).

(* several groups in one call: `for key in ord_segs.keys(): ... tot_len = 0 ...` — every selected group (each key once,
   in the order of group_list) is processed on its own, starting from empty dictionaries and a zero running total *)
Definition ordered_multi (fuel : nat) (len : Z -> Q) (c : cell) (groups : list (list Z)) : list (res (list Z * ordst)) :=
  map (ordered_run fuel len c) groups.

(* ---------------------------------------------------------------- top level *)
Definition fuel_of (c : cell) : nat := S (length c).

Definition len_table (c : cell) : res (list (Z * Q)) :=
  map_res (fun s => l <- seg_length (fuel_of c) c (sid s) ;; Ok (sid s, l)) c.

Definition lenf (tbl : list (Z * Q)) (id : Z) : Q :=
  match alookup tbl id with Some q => q | None => 0%Q end.

(* =========================================================================================
   Definition side: what the values ARE, by the parent / fraction_along definition alone.
   ========================================================================================= *)

(* a tree-shaped morphology: built from a parentless root by adding, one at a time, a segment with a
   fresh id whose parent is already there; the document order is any permutation of that. *)
Inductive topo : cell -> Prop :=
| topo_root : forall s, sparent s = None -> topo [s]
| topo_leaf : forall s c p f, topo c -> sparent s = Some (p, f) -> In p (ids c) -> ~ In (sid s) (ids c) ->
                              topo (s :: c).

Definition pt_eq (a b : pt) : Prop :=
  (px a == px b)%Q /\ (py a == py b)%Q /\ (pz a == pz b)%Q /\ (pdiam a == pdiam b)%Q.

(* the effective proximal point: the segment's own, else the point at fraction_along on the parent *)
Inductive ActProx (c : cell) : Z -> pt -> Prop :=
| AP_own : forall s p, In s c -> sprox s = Some p -> ActProx c (sid s) p
| AP_par : forall s pid f par pp, In s c -> sprox s = None -> sparent s = Some (pid, f) ->
                                  In par c -> sid par = pid -> ActProx c pid pp ->
                                  ActProx c (sid s) (lerp f pp (sdist par))
| AP_eq : forall id p p', ActProx c id p -> pt_eq p p' -> ActProx c id p'.

(* distance from the root to the proximal end of a segment: parent's distance + len(parent) * fraction *)
Inductive DistRoot (len : Z -> Q) (c : cell) : Z -> Q -> Prop :=
| DR_root : forall s, In s c -> sparent s = None -> DistRoot len c (sid s) 0%Q
| DR_kid : forall s p f d, In s c -> sparent s = Some (p, f) -> DistRoot len c p d ->
                           DistRoot len c (sid s) (d + len p * f)%Q
| DR_eq : forall id d d', DistRoot len c id d -> (d == d')%Q -> DistRoot len c id d'.

(* children of p in document order *)
Definition children (c : cell) (p : Z) : list Z :=
  map sid (filter (fun s => match sparent s with Some (q, _) => q =? p | None => false end) c).

(* depth below the root *)
Inductive Rooted (c : cell) : Z -> nat -> Prop :=
| R_root : forall s, In s c -> sparent s = None -> Rooted c (sid s) O
| R_kid : forall s p f n, In s c -> sparent s = Some (p, f) -> Rooted c p n -> Rooted c (sid s) (S n).

(* directed paths of the graph with their weight sums *)
Inductive gpath (g : graph) : Z -> Z -> Q -> Prop :=
| gp_nil : forall n, gpath g n n 0%Q
| gp_step : forall a b t w d, In (a, b, w) (gedges g) -> gpath g b t d -> gpath g a t (w + d)%Q.

(* the domain of the theorems, decided by computation (soundness: Proofs/MorphP6.v) *)
Fixpoint rootedb (fuel : nat) (c : cell) (s : seg) : bool :=
  match sparent s with
  | None => true
  | Some (p, _) =>
    match fuel with
    | O => false
    | S k => match find_seg c p with Some ps => rootedb k c ps | None => false end
    end
  end.

Definition parentless (s : seg) : bool := match sparent s with None => true | Some _ => false end.

Fixpoint Zlist_eqb (a b : list Z) : bool :=
  match a, b with
  | [], [] => true
  | x :: a', y :: b' => (x =? y) && Zlist_eqb a' b'
  | _, _ => false
  end.

Definition wfb (c : cell) : bool :=
  Zlist_eqb (dedup (ids c)) (ids c)
  && (length (filter parentless c) =? 1)%nat
  && forallb (rootedb (pred (length c)) c) c.

Definition root_has_proxb (c : cell) : bool :=
  forallb (fun s => match sparent s, sprox s with None, None => false | _, _ => true end) c.

(* =========================================================================================
   Correspondence: one record of implementation observations per case; the model recomputes every
   component and the kernel reports the numbers of the components that differ.
   Dict-/set-valued results are compared sorted by key (the harness sorts the implementation's).
   ========================================================================================= *)
Fixpoint insert_by {A} (key : A -> Z) (x : A) (l : list A) : list A :=
  match l with
  | [] => [x]
  | y :: r => if key x <=? key y then x :: l else y :: insert_by key x r
  end.
Definition sort_by {A} (key : A -> Z) (l : list A) : list A := fold_right (insert_by key) [] l.

Fixpoint list_eqb {A} (eqb : A -> A -> bool) (a b : list A) : bool :=
  match a, b with
  | [], [] => true
  | x :: a', y :: b' => eqb x y && list_eqb eqb a' b'
  | _, _ => false
  end.

Definition res_eqb {A} (eqb : A -> A -> bool) (a b : res A) : bool :=
  match a, b with
  | Ok x, Ok y => eqb x y
  | Err e, Err f => err_eqb e f
  | _, _ => false
  end.

Definition pt_eqb (a b : pt) : bool :=
  Qeq_bool (px a) (px b) && Qeq_bool (py a) (py b) && Qeq_bool (pz a) (pz b) && Qeq_bool (pdiam a) (pdiam b).

Definition zq_eqb (a b : Z * Q) : bool := (fst a =? fst b) && Qeq_bool (snd a) (snd b).
Definition edge_eqb (a b : edge) : bool := (esrc a =? esrc b) && (edst a =? edst b) && Qeq_bool (ew a) (ew b).
Definition reached_eqb (a b : reached) : bool :=
  (fst (fst a) =? fst (fst b)) && Qeq_bool (snd (fst a)) (snd (fst b)) && list_eqb Z.eqb (snd a) (snd b).
Definition adjrow_eqb (a b : Z * list Z) : bool := (fst a =? fst b) && list_eqb Z.eqb (snd a) (snd b).

(* a float quotient is the exact quotient rounded once: relative error below 2^-50 *)
Definition q_close (a b : Q) : bool := Qle_bool (Qabs (a - b) * (1125899906842624 # 1)) (Qabs b).
Definition zq_close (a b : Z * Q) : bool := (fst a =? fst b) && q_close (snd a) (snd b).

Definition ordout := (list Z * list Q * list (Z * Q) * list (Z * Q))%type.
Definition ordout_eqb (a b : ordout) : bool :=
  let '(o1, c1, p1, d1) := a in
  let '(o2, c2, p2, d2) := b in
  list_eqb Z.eqb o1 o2 && list_eqb Qeq_bool c1 c2 && list_eqb zq_eqb p1 p2 && list_eqb zq_eqb d1 d2.

Record obs : Type := mkobs {
  ob_aprox : list (Z * res pt);                 (* get_actual_proximal(id) *)
  ob_lens : list (Z * res Q);                   (* get_segment_length(id) *)
  ob_adj : res adj;                             (* get_segment_adjacency_list(), sorted by key *)
  ob_graph : res (list Z * list edge);          (* get_graph(): nodes sorted, edges sorted by target *)
  ob_root : res Z;                              (* get_morphology_root() *)
  ob_bp : res (list Z);                         (* get_branching_points(), sorted *)
  ob_tips : res (list (Z * Q));                 (* get_extremeties(), sorted by id *)
  ob_pairs : list (Z * Z * res Q);              (* (source, dest, get_distance(dest, source)) *)
  ob_all : list (Z * res (list reached));       (* (src, get_all_distances_from_segment(src)) sorted by id *)
  ob_ats : list (Q * Z * res (list (Z * Q)));   (* (distance, src, get_segments_at_distance) sorted by id *)
  ob_ord : option (list Z * res ordout);        (* resolved group ids, get_ordered_segments_in_groups(...) *)
  ob_ordm : list (list Z * res ordout) }.       (* multi-group calls: per returned key, resolved ids and its results *)

Definition with_graph {A} (tg : res ((Z -> Q) * graph)) (k : (Z -> Q) -> graph -> res A) : res A :=
  x <- tg ;; k (fst x) (snd x).

Definition model_obs (c : cell) (i : obs) : obs :=
  let fuel := fuel_of c in
  let tl := len_table c in
  let tg := (tbl <- tl ;; g <- get_graph (lenf tbl) c ;; Ok (lenf tbl, g)) in
  mkobs
    (map (fun x => (fst x, actual_prox fuel c (fst x))) (ob_aprox i))
    (map (fun x => (fst x, seg_length fuel c (fst x))) (ob_lens i))
    (Ok (sort_by fst (adjacency c)))
    (with_graph tg (fun _ g => Ok (sort_by (fun z => z) (gnodes g), sort_by edst (gedges g))))
    (with_graph tg (fun _ g => morphology_root c g))
    (with_graph tg (fun _ g => Ok (sort_by (fun z => z) (branching_points g))))
    (with_graph tg (fun _ g => t <- extremities fuel c g ;; Ok (sort_by fst t)))
    (map (fun x => let '(s, d, _) := x in (s, d, with_graph tg (fun _ g => nx_dist fuel g s d))) (ob_pairs i))
    (map (fun x => (fst x, with_graph tg (fun _ g => r <- nx_sssp fuel g (fst x) None ;;
                                                      Ok (sort_by (fun y : reached => fst (fst y)) r)))) (ob_all i))
    (map (fun x => let '(d, s, _) := x in
                   (d, s, with_graph tg (fun len g => r <- segments_at_distance fuel len g d s ;;
                                                       Ok (sort_by fst r)))) (ob_ats i))
    (match ob_ord i with
     | None => None
     | Some (grp, _) =>
       Some (grp, tbl <- tl ;;
                  r <- ordered_run fuel (lenf tbl) c grp ;;
                  let '(o, st) := r in
                  Ok (o, o_cum st, sort_by fst (o_pp st), sort_by fst (o_pd st)))
     end)
    (match tl with
     | Ok tbl =>
       map (fun x => (fst (fst x),
                      r <- snd x ;; let '(o, st) := r in Ok (o, o_cum st, sort_by fst (o_pp st), sort_by fst (o_pd st))))
           (combine (ob_ordm i) (ordered_multi fuel (lenf tbl) c (map fst (ob_ordm i))))
     | Err e => map (fun x => (fst x, Err e)) (ob_ordm i)
     end).

Definition flag (n : nat) (b : bool) : list nat := if b then [] else [n].

Definition obs_diff (m i : obs) : list nat :=
  (flag 1 (list_eqb (fun a b => (fst a =? fst b) && res_eqb pt_eqb (snd a) (snd b)) (ob_aprox m) (ob_aprox i))
   ++ flag 2 (list_eqb (fun a b => (fst a =? fst b) && res_eqb Qeq_bool (snd a) (snd b)) (ob_lens m) (ob_lens i))
   ++ flag 3 (res_eqb (list_eqb adjrow_eqb) (ob_adj m) (ob_adj i))
   ++ flag 4 (res_eqb (fun a b => list_eqb Z.eqb (fst a) (fst b) && list_eqb edge_eqb (snd a) (snd b))
                      (ob_graph m) (ob_graph i))
   ++ flag 5 (res_eqb Z.eqb (ob_root m) (ob_root i))
   ++ flag 6 (res_eqb (list_eqb Z.eqb) (ob_bp m) (ob_bp i))
   ++ flag 7 (res_eqb (list_eqb zq_eqb) (ob_tips m) (ob_tips i))
   ++ flag 8 (list_eqb (fun a b => res_eqb Qeq_bool (snd a) (snd b)) (ob_pairs m) (ob_pairs i))
   ++ flag 9 (list_eqb (fun a b => res_eqb (list_eqb reached_eqb) (snd a) (snd b)) (ob_all m) (ob_all i))
   ++ flag 10 (list_eqb (fun a b => res_eqb (list_eqb zq_close) (snd a) (snd b)) (ob_ats m) (ob_ats i))
   ++ flag 11 (match ob_ord m, ob_ord i with
               | None, None => true
               | Some (_, a), Some (_, b) => res_eqb ordout_eqb a b
               | _, _ => false
               end)
   ++ flag 13 (list_eqb (fun a b => res_eqb ordout_eqb (snd a) (snd b)) (ob_ordm m) (ob_ordm i)))%list.

(* component 12: the case lies outside the domain of the theorems (wf, root_has_prox) *)
Definition domain_flag (c : cell) : list nat := flag 12 (wfb c && root_has_proxb c).

Definition case13 := (cell * obs)%type.

Fixpoint mismatches_from (n : nat) (l : list case13) : list (nat * list nat) :=
  match l with
  | [] => []
  | (c, i) :: r =>
    match (obs_diff (model_obs c i) i ++ domain_flag c)%list with
    | [] => mismatches_from (S n) r
    | d => (n, d) :: mismatches_from (S n) r
    end
  end.
Definition mismatches (l : list case13) : list (nat * list nat) := mismatches_from O l.

(* short constructors for the generated case files *)
Definition qq (a : Z) (b : positive) : Q := Qmake a b.
Definition P4 (x y z d : Q) : pt := mkpt x y z d.
Definition SG (id : Z) (par : option (Z * Q)) (prox : option pt) (dist : pt) : seg := mkseg id par prox dist.
