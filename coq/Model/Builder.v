(* C15 model: the cell builder - Cell.add_segment, add_unbranched_segments, add_segment_group,
   add_unbranched_segment_group, setup_default_segment_groups, reorder_segment_groups,
   optimise_segment_groups and the property setters of neuroml/nml/helper_methods.py - as a state
   machine over (segments, segment groups in document order, biophysical property entries).
   Definitions only; the proofs are in Proofs/BuilderP*.v.

   `fx : bool` selects the repaired methods (true; fixes/C15-*.patch) or the ones shipped at the
   pinned commit (false): differences are (i) an explicit segment id that is in use is refused
   instead of the ValueError being swallowed, (ii) an automatic id is the next FREE id from
   len(segments) on instead of len(segments), (iii) group_id == "all" no longer makes "all" include
   itself, (iv) the optimiser is Groups.optimise_all (C14 repair) instead of optimise_all_v0.

   Fields marked ghost are not observable in Python; they record with which arguments a segment was
   added and only serve to state the invariant. *)
From Coq Require Import String List ZArith Bool Ascii NArith DecimalString.
From LNML Require Import Model.Groups.
Import ListNotations.
Open Scope string_scope.

Inductive stype := Soma | Axon | Dendrite.

Definition stype_eqb (a b : stype) : bool :=
  match a, b with Soma, Soma | Axon, Axon | Dendrite, Dendrite => true | _, _ => false end.

Definition dname (t : stype) : string :=
  match t with Soma => "soma_group" | Axon => "axon_group" | Dendrite => "dendrite_group" end.
Definition dnlex (t : stype) : string :=
  match t with Soma => "GO:0043025" | Axon => "GO:0030424" | Dendrite => "GO:0030425" end.
Definition section_nlex : string := "sao864921383".

Definition parse_type (s : string) : option stype :=
  if String.eqb s "axon" then Some Axon
  else if String.eqb s "soma" then Some Soma
  else if String.eqb s "dendrite" then Some Dendrite else None.

Definition is_default (a : string) : bool :=
  String.eqb a "all" || String.eqb a "soma_group" || String.eqb a "axon_group" || String.eqb a "dendrite_group".

Record seg := mkSeg {
  sid : Z;
  spar : option (Z * Z);      (* parent segment id, fraction_along in quarters (0..4) *)
  sprox : bool;               (* an explicit proximal point was given *)
  sname : string;
  stag : option stype;        (* ghost: Some t iff added with use_convention=True and seg_type t *)
  sgrp : option string        (* ghost: the group_id it was added with *)
}.

(* ChannelDens = add_channel_density: a membrane property like the first three (added with validate=False);
   Resistivity is the intracellular one (added with validation) *)
Inductive pkind := SpikeThresh | InitMembPotential | SpecificCapacitance | ChannelDens | Resistivity.
Definition pkind_eqb (a b : pkind) : bool :=
  match a, b with
  | SpikeThresh, SpikeThresh | InitMembPotential, InitMembPotential
  | SpecificCapacitance, SpecificCapacitance | ChannelDens, ChannelDens | Resistivity, Resistivity => true
  | _, _ => false
  end.

Record prop := mkProp {
  pk : pkind;
  pval : Z;            (* index into the harness's table of value strings for that kind *)
  pvalid : bool;       (* whether the component (value string, segmentGroup id) meets its schema facets *)
  pgrp : string;       (* segmentGroup attribute *)
  ploaded : bool       (* the component was read from a file: GeneratedsSuper.__eq__ also compares the XML node a
                          component was built from, so it equals no other component (add() then never skips it) *)
}.
Definition prop_eqb (a b : prop) : bool :=
  negb (ploaded a) && negb (ploaded b) && pkind_eqb (pk a) (pk b) && Z.eqb (pval a) (pval b) && String.eqb (pgrp a) (pgrp b).

Record cell := mkCell {
  segs : list seg;
  groups : list group;
  props : list prop
}.

Definition ids (c : cell) : list Z := map sid (segs c).

(* ---------- errors ---------- *)
Inductive berr :=
| BDupId            (* ValueError: A segment with provided id ... already exists *)
| BNoParent         (* Exception: ... without specifying a parent segment *)
| BValidation       (* ValueError: Validation failed (component_factory) *)
| BNoSegType        (* ValueError: Please provide a seg_type *)
| BBadSegType       (* ValueError: Invalid segment type provided *)
| BNoSuchGroup      (* ValueError: Segment group with id ... not found in cell *)
| BNoGroup          (* Exception: No segment group ... found in cell *)
| BIndex            (* IndexError: points[1] *)
| BRecursion        (* RecursionError (model: out of fuel) *)
| BBadInput.        (* the op refers to a segment position that does not exist (harness never sends it) *)

Inductive bres (A : Type) := BRet (a : A) | BErr (e : berr).
Arguments BRet {A} a.
Arguments BErr {A} e.

Definition of_gres (r : result (list group)) : bres (list group) :=
  match r with
  | Ret G => BRet G
  | Err (ENoGroup _) => BErr BNoGroup
  | Err (ENoSuchGroup _) => BErr BNoSuchGroup
  | Err EFuel => BErr BRecursion
  end.

(* ---------- printing numbers (segment names) ---------- *)
Definition string_of_Z (z : Z) : string :=
  match z with
  | Z0 => "0"
  | Zpos p => NilZero.string_of_uint (N.to_uint (Npos p))
  | Zneg p => "-" ++ NilZero.string_of_uint (N.to_uint (Npos p))
  end.

(* ---------- group primitives ---------- *)
Definition new_group (a : string) (nl : option string) : group := mkGroup a [] [] nl.

(* add_segment_group: try get_segment_group(id) except ValueError: morphology.add("SegmentGroup", ...) *)
Definition ensure_group (G : list group) (a : string) (nl : option string) : list group :=
  match get_group G a with
  | Some _ => G
  | None => (G ++ [new_group a nl])%list
  end.

(* <first group called a>.members.append(Member(segments=m)) *)
Definition add_member (G : list group) (a : string) (m : Z) : list group :=
  match lookup G a with
  | Some g => replace_first G a (mkGroup (gid g) (members g ++ [m]) (includes g) (nlex g))
  | None => G
  end.
Definition add_include (G : list group) (a : string) (i : string) : list group :=
  match lookup G a with
  | Some g => replace_first G a (mkGroup (gid g) (members g) (includes g ++ [i]) (nlex g))
  | None => G
  end.

Fixpoint remove_first (G : list group) (a : string) : list group :=
  match G with
  | [] => []
  | g :: G' => if String.eqb (gid g) a then G' else g :: remove_first G' a
  end.

(* reorder_segment_groups: each default group that exists is moved to the end, in this order *)
Definition move_last (G : list group) (a : string) : list group :=
  match get_group G a with
  | Some g => (remove_first G a ++ [g])%list
  | None => G
  end.
Definition reorder (G : list group) : list group :=
  fold_left move_last ["soma_group"; "axon_group"; "dendrite_group"; "all"] G.

(* setup_default_segment_groups(use_convention=True, default_groups=["all", <type group>]) *)
Definition setup_default (G : list group) (t : stype) : list group :=
  reorder (ensure_group (ensure_group G "all" None) (dname t) (Some (dnlex t))).

Definition optimise_gen (fx : bool) (c : cell) : bres cell :=
  match of_gres ((if fx then optimise_all_c else optimise_all_v0_c) (ids c) (default_fuel (groups c)) (groups c)) with
  | BRet G => BRet (mkCell (segs c) G (props c))
  | BErr e => BErr e
  end.

Definition optimise (c : cell) : bres cell :=
  match of_gres (optimise_all_c (ids c) (default_fuel (groups c)) (groups c)) with
  | BRet G => BRet (mkCell (segs c) G (props c))
  | BErr e => BErr e
  end.

(* ---------- segment ids ---------- *)
(* seg_id = len(segments); while seg_id in existing_ids: seg_id += 1 *)
Fixpoint fresh_from (fuel : nat) (n : Z) (used : list Z) : Z :=
  match fuel with
  | O => n
  | S f => if memZ n used then fresh_from f (n + 1)%Z used else n
  end.
Definition auto_id (fx : bool) (used : list Z) : Z :=
  let n := Z.of_nat (length used) in
  if fx then fresh_from (length used) n used else n.

(* ---------- add_segment ---------- *)
Definition opt_group (group : option string) : option string :=
  match group with
  | Some g => if String.eqb g "" then None else Some g      (* `if group_id:` *)
  | None => None
  end.

(* parent=segs[k]; SegmentParent(segments=parent.id, fraction_along=frac) is validated (0 <= frac <= 1) *)
Definition parent_of (c : cell) (parent : option nat) (frac : Z) : bres (option (Z * Z)) :=
  match parent with
  | None => BRet None
  | Some k => match nth_error (segs c) k with
              | Some p => if (Z.ltb frac 0 || Z.ltb 4 frac) then BErr BValidation
                          else BRet (Some (sid p, frac))
              | None => BErr BBadInput
              end
  end.

(* repaired (fixes/C15-explicit-seg-id-zero.patch): `if seg_id is not None:` - every explicit id, 0 included, is
   honoured when free and refused when in use.  As shipped: `if seg_id:` - an explicit 0 counted as "not given". *)
Definition choose_id (fx : bool) (c : cell) (seg_id : option Z) : bres Z :=
  match seg_id with
  | Some z => if fx then (if memZ z (ids c) then BErr BDupId else BRet z)
              else if Z.eqb z 0 then BRet (auto_id fx (ids c)) else BRet z
  | None => BRet (auto_id fx (ids c))
  end.

(* use_convention / seg_type *)
Definition parse_conv (conv : bool) (ty : option string) : bres (option stype) :=
  if conv then
    match ty with
    | None => BErr BNoSegType
    | Some tys => if String.eqb tys "" then BErr BNoSegType else
                  match parse_type tys with
                  | None => BErr BBadSegType
                  | Some t => BRet (Some t)
                  end
    end
  else BRet None.

(* is the segment's own group INCLUDED in the default groups (true) or is the segment made a member
   of the default groups (false)?   `if seg_group and seg_group.id != seg_group_default.id` (shipped),
   `... not in [seg_group_default.id, seg_group_all.id]` (repaired) *)
Definition own_group (fx : bool) (grp : option string) (t : stype) : bool :=
  match grp with
  | Some g => negb (String.eqb g (dname t)) && negb (fx && String.eqb g "all")
  | None => false
  end.

Definition conv_groups (fx : bool) (G1 : list group) (grp : option string) (i : Z) (t : stype) (reord : bool)
  : list group :=
  let G2 := setup_default G1 t in
  let G3 := match grp, own_group fx grp t with
            | Some g, true => add_include (add_include G2 (dname t) g) "all" g
            | _, _ => add_member (add_member G2 (dname t) i) "all" i
            end in
  if reord then reorder G3 else G3.

(* everything add_segment does to the segment groups *)
Definition seg_groups (fx : bool) (G : list group) (grp : option string) (i : Z) (tag : option stype) (reord : bool)
  : list group :=
  let G1 := match grp with
            | Some g => add_member (ensure_group G g None) g i   (* found or created, member appended *)
            | None => G
            end in
  match tag with
  | Some t => conv_groups fx G1 grp i t reord
  | None => G1
  end.

Definition seg_name (name : option string) (grp : option string) (G : list group) (i : Z) : string :=
  match (match name with
         | Some s => if String.eqb s "" then None else Some s     (* `if name:` *)
         | None => None
         end) with
  | Some s => s
  | None =>
    match grp with
    | Some g => let k := match lookup G g with Some gg => length (members gg) | None => 0 end in
                "Seg" ++ string_of_Z (Z.of_nat k - 1) ++ "_" ++ g
    | None => "Seg" ++ string_of_Z i
    end
  end.

Definition add_segment (fx : bool) (c : cell)
           (prox : bool) (seg_id : option Z) (name : option string) (parent : option nat) (frac : Z)
           (group : option string) (conv : bool) (ty : option string) (reord opt : bool) : bres cell :=
  if (Nat.ltb 0 (length (segs c))) && (match parent with None => true | Some _ => false end) then BErr BNoParent else
  match parent_of c parent frac with
  | BErr e => BErr e
  | BRet sp =>
    match choose_id fx c seg_id with
    | BErr e => BErr e
    | BRet i =>
      match parse_conv conv ty with
      | BErr e => BErr e
      | BRet tag =>
        let grp := opt_group group in
        let G4 := seg_groups fx (groups c) grp i tag reord in
        let c' := mkCell (segs c ++ [mkSeg i sp prox (seg_name name grp G4 i) tag grp]) G4 (props c) in
        if opt then (if fx then optimise c' else optimise_gen false c') else BRet c'
      end
    end
  end.

(* ---------- add_segment_group / add_unbranched_segment_group ---------- *)
Definition add_segment_group (c : cell) (a : string) (nl : option string) : cell :=
  mkCell (segs c) (ensure_group (groups c) a nl) (props c).

(* ---------- add_unbranched_segments ---------- *)
Fixpoint add_rest (fx : bool) (k : nat) (c : cell) (group : option string) (conv : bool) (ty : option string) : bres cell :=
  match k with
  | O => BRet c
  | S k' =>
    match add_segment fx c true None None (Some (length (segs c) - 1)) 4 group conv ty false true with
    | BErr e => BErr e
    | BRet c' => add_rest fx k' c' group conv ty
    end
  end.

Definition add_unbranched (fx : bool) (c : cell) (npoints : nat) (parent : option nat) (frac : Z)
           (group : option string) (conv : bool) (ty : option string) (reord opt : bool) : bres cell :=
  if Nat.ltb npoints 2 then BErr BIndex else
  (* add_unbranched_segment_group(group_id): a falsy id is never found, so a group is created for it;
     Python's None is modelled by "" (both are refused by get_segment_group) *)
  let gname := match group with Some g => g | None => "" end in
  let c0 := add_segment_group c gname (Some section_nlex) in
  match add_segment fx c0 true None None parent frac group conv ty false true with
  | BErr e => BErr e
  | BRet c1 =>
    match add_rest fx (npoints - 2) c1 group conv ty with
    | BErr e => BErr e
    | BRet c2 =>
      let c3 := if reord then mkCell (segs c2) (reorder (groups c2)) (props c2) else c2 in
      match (if opt then (if fx then optimise c3 else optimise_gen false c3) else BRet c3) with
      | BErr e => BErr e
      | BRet c4 => match get_group (groups c4) gname with
                   | Some _ => BRet c4
                   | None => BErr BNoSuchGroup
                   end
      end
    end
  end.

(* ---------- property setters ---------- *)
Definition set_prop (c : cell) (k : pkind) (v : Z) (valid : bool) (g : string) : bres cell :=
  match k with
  | Resistivity =>
    (* intracellular_properties.add(...) validates the new component *)
    if negb valid then BErr BValidation else
    let p := mkProp k v valid g false in
    BRet (if existsb (prop_eqb p) (props c) then c else mkCell (segs c) (groups c) (props c ++ [p]))
  | _ =>
    (* membrane_properties.add(..., validate=False) *)
    let p := mkProp k v valid g false in
    BRet (if existsb (prop_eqb p) (props c) then c else mkCell (segs c) (groups c) (props c ++ [p]))
  end.

(* ---------- operations ---------- *)
Inductive op :=
| AddSegment (prox : bool) (seg_id : option Z) (name : option string) (parent : option nat) (frac : Z)
             (group : option string) (conv : bool) (ty : option string) (reord opt : bool)
| AddUnbranched (npoints : nat) (parent : option nat) (frac : Z)
                (group : option string) (conv : bool) (ty : option string) (reord opt : bool)
| AddSegmentGroup (a : string) (nl : option string)
| AddUnbranchedGroup (a : string)
| Reorder
| Optimise
| SetProp (k : pkind) (v : Z) (valid : bool) (g : string)
| Reload.   (* the document is written with NeuroMLWriter and read back; building continues on the loaded cell *)

Definition step (fx : bool) (c : cell) (o : op) : bres cell :=
  match o with
  | AddSegment prox seg_id name parent frac group conv ty reord opt =>
    add_segment fx c prox seg_id name parent frac group conv ty reord opt
  | AddUnbranched np parent frac group conv ty reord opt =>
    add_unbranched fx c np parent frac group conv ty reord opt
  | AddSegmentGroup a nl => BRet (add_segment_group c a nl)
  | AddUnbranchedGroup a => BRet (add_segment_group c a (Some section_nlex))
  | Reorder => BRet (mkCell (segs c) (reorder (groups c)) (props c))
  | Optimise => if fx then optimise c else optimise_gen false c
  | SetProp k v valid g => set_prop c k v valid g
  | Reload => BRet (mkCell (segs c) (groups c) (map (fun p => mkProp (pk p) (pval p) (pvalid p) (pgrp p) true) (props c)))
  end.

Fixpoint run (fx : bool) (ops : list op) (c : cell) : bres cell :=
  match ops with
  | [] => BRet c
  | o :: r => match step fx c o with
              | BRet c' => run fx r c'
              | BErr e => BErr e
              end
  end.

(* the documented closing step: reorder_segment_groups(), then optimise_segment_groups() *)
Definition finish (c : cell) : bres cell :=
  optimise (mkCell (segs c) (reorder (groups c)) (props c)).
Definition finish_gen (fx : bool) (c : cell) : bres cell :=
  if fx then finish c else optimise_gen false (mkCell (segs c) (reorder (groups c)) (props c)).

(* the two ways a cell comes into being:
   component_factory("Cell", id=...)  -> setup_nml_cell(): groups soma_group, all (in this order)
   Cell(id=...) + setup_nml_cell(use_convention=False): no groups *)
Definition init_factory : cell :=
  mkCell [] [new_group "soma_group" (Some (dnlex Soma)); new_group "all" None] [].
Definition init_bare : cell := mkCell [] [] [].

(* ---------- validity as the model predicts it (validate(recursive=True) and the XSD) ---------- *)
Definition is_letter (c : ascii) : bool :=
  let n := N_of_ascii c in ((N.leb 65 n && N.leb n 90) || (N.leb 97 n && N.leb n 122) || N.eqb n 95)%bool.
Fixpoint all_idchars (s : string) : bool :=
  match s with
  | EmptyString => true
  | String c r => (is_letter c || is_digit c) && all_idchars r
  end.
(* NmlId: [a-zA-Z_][a-zA-Z0-9_]* *)
Definition nmlid (s : string) : bool :=
  match s with
  | EmptyString => false
  | String c r => is_letter c && all_idchars r
  end.

Definition has_kind (k : pkind) (c : cell) : bool := existsb (fun p => pkind_eqb (pk p) k) (props c).

Definition valid_cell (c : cell) : bool :=
  match segs c with [] => false | _ => true end
  && forallb (fun s => Z.leb 0 (sid s)) (segs c)
  && forallb (fun g => nmlid (gid g) && forallb nmlid (includes g) && forallb (Z.leb 0) (members g)) (groups c)
  && has_kind SpikeThresh c && has_kind InitMembPotential c && has_kind SpecificCapacitance c
  && forallb (fun p => pvalid p && nmlid (pgrp p)) (props c).

(* validate(recursive=True) as shipped does not look at members a child inherits (the id of a
   SegmentGroup comes from Base): defect C03.  The implementation's validate verdict is accepted if it
   equals valid_cell (C03 repaired) or this lenient variant (as shipped); the XSD verdict must equal
   valid_cell. *)
Definition valid_cell_lenient (c : cell) : bool :=
  match segs c with [] => false | _ => true end
  && forallb (fun g => forallb nmlid (includes g)) (groups c)
  && has_kind SpikeThresh c && has_kind InitMembPotential c && has_kind SpecificCapacitance c
  && forallb (fun p => pvalid p && nmlid (pgrp p)) (props c).

(* ---------- the property as a decidable predicate on a final state ---------- *)
Definition tagged (t : stype) (c : cell) : list Z :=
  map sid (filter (fun s => match stag s with Some t' => stype_eqb t t' | None => false end) (segs c)).
Definition conv_ids (c : cell) : list Z :=
  map sid (filter (fun s => match stag s with Some _ => true | None => false end) (segs c)).

Definition same_set (a b : list Z) : bool :=
  forallb (fun x => memZ x b) a && forallb (fun x => memZ x a) b.

Definition resolves_to (c : cell) (a : string) (want : list Z) : bool :=
  match resolve (ids c) (default_fuel (groups c)) (groups c) a with
  | Ret l => nodupZb l && same_set l want
  | Err _ => false
  end.

Fixpoint ordered_from (seen : list string) (G : list group) : bool :=
  match G with
  | [] => true
  | g :: r => forallb (fun i => memS i seen) (includes g) && ordered_from (gid g :: seen) r
  end.
Definition ordered (G : list group) : bool := ordered_from [] G.

Definition parents_ok (c : cell) : bool :=
  forallb (fun s => match spar s with Some (p, _) => memZ p (ids c) | None => true end) (segs c).

Definition default_ok (c : cell) (t : stype) : bool :=
  match lookup (groups c) (dname t) with
  | None => match tagged t c with [] => true | _ => false end
  | Some _ => resolves_to c (dname t) (tagged t c)
  end.

Definition all_ok (c : cell) : bool :=
  match lookup (groups c) "all" with
  | None => match conv_ids c with [] => resolves_to c "all" (ids c) | _ => false end
  | Some _ => resolves_to c "all" (conv_ids c)
  end.

Definition wellformed (c : cell) : bool :=
  nodupZb (ids c) && parents_ok c && all_ok c
  && default_ok c Soma && default_ok c Axon && default_ok c Dendrite && ordered (groups c).

(* ---------- when an operation respects "one group id - one role" ---------- *)
(* all segments already added with group g carry the given tag *)
Definition role_free (c : cell) (g : string) (tag : option stype) : bool :=
  forallb (fun s => match sgrp s with
                    | Some g' => if String.eqb g' g then
                                   match stag s, tag with
                                   | Some a, Some b => stype_eqb a b
                                   | None, None => true
                                   | _, _ => false
                                   end
                                 else true
                    | None => true
                    end) (segs c).

Definition tag_of (conv : bool) (ty : option string) : option stype :=
  if conv then match ty with Some s => parse_type s | None => None end else None.

(* "one group id - one role", the hypothesis the invariant proof forces on the group id handed to
   add_segment / add_unbranched_segments:
   a user group id is always used with the same (use_convention, seg_type);
   soma_group / axon_group / dendrite_group only under the convention with their own type;
   "all" only under the convention (any type) *)
Definition group_ok (c : cell) (g : string) (tag : option stype) : bool :=
  if String.eqb g "all" then match tag with Some _ => true | None => false end
  else if is_default g then match tag with Some t => String.eqb g (dname t) | None => false end
  else role_free c g tag.

Definition op_ok (c : cell) (o : op) : bool :=
  match o with
  | AddSegment _ _ _ _ _ group conv ty _ _ | AddUnbranched _ _ _ group conv ty _ _ =>
    match opt_group group with
    | Some g => group_ok c g (tag_of conv ty)
    | None => true
    end
  | AddSegmentGroup a _ | AddUnbranchedGroup a => negb (String.eqb a "")
  | _ => true
  end.

Fixpoint run_ok (fx : bool) (ops : list op) (c : cell) : bool :=
  match ops with
  | [] => true
  | o :: r => op_ok c o && match step fx c o with
                           | BRet c' => run_ok fx r c'
                           | BErr _ => true
                           end
  end.

(* ================================================================== correspondence helpers *)
Record oseg := mkOSeg { o_id : Z; o_par : option (Z * Z); o_prox : bool; o_name : string }.

Inductive ostep :=
| OState (ss : list oseg) (G : list group) (ps : list (pkind * Z * string))
| OErr (e : berr)
| OOtherErr.

Inductive ofinal :=
| OFinal (st : ostep) (validate xsd : bool)
| ONoFinal.                                   (* the sequence stopped at an error *)

Record c15_case := mkCase15 {
  k_factory : bool;
  k_ops : list op;
  k_trace : list ostep;
  k_final : ofinal;
  k_probes : list Z;          (* ids of the finished cell that were asked for again with add_segment(seg_id=...) *)
  k_probe_obs : list ostep    (* what each of those calls did (OOtherErr = it returned normally) *)
}.

Definition kinds : list pkind := [SpikeThresh; InitMembPotential; SpecificCapacitance; ChannelDens; Resistivity].

Definition obs_props (c : cell) : list (pkind * Z * string) :=
  flat_map (fun k => map (fun p => (pk p, pval p, pgrp p)) (filter (fun p => pkind_eqb (pk p) k) (props c))) kinds.

Definition obs_state (c : cell) : ostep :=
  OState (map (fun s => mkOSeg (sid s) (spar s) (sprox s) (sname s)) (segs c)) (groups c) (obs_props c).

Definition par_eqb (a b : option (Z * Z)) : bool :=
  match a, b with
  | None, None => true
  | Some (p, f), Some (q, g) => Z.eqb p q && Z.eqb f g
  | _, _ => false
  end.
Definition oseg_eqb (a b : oseg) : bool :=
  Z.eqb (o_id a) (o_id b) && par_eqb (o_par a) (o_par b) && Bool.eqb (o_prox a) (o_prox b)
  && String.eqb (o_name a) (o_name b).
Fixpoint list_eqb {A : Type} (eqb : A -> A -> bool) (a b : list A) : bool :=
  match a, b with
  | [], [] => true
  | x :: a', y :: b' => eqb x y && list_eqb eqb a' b'
  | _, _ => false
  end.
Definition oprop_eqb (a b : pkind * Z * string) : bool :=
  match a, b with (k, v, g), (k', v', g') => pkind_eqb k k' && Z.eqb v v' && String.eqb g g' end.
Definition berr_eqb (a b : berr) : bool :=
  match a, b with
  | BDupId, BDupId | BNoParent, BNoParent | BValidation, BValidation | BNoSegType, BNoSegType
  | BBadSegType, BBadSegType | BNoSuchGroup, BNoSuchGroup | BNoGroup, BNoGroup | BIndex, BIndex
  | BRecursion, BRecursion | BBadInput, BBadInput => true
  | _, _ => false
  end.
Definition ostep_eqb (a b : ostep) : bool :=
  match a, b with
  | OState s G p, OState s' G' p' => list_eqb oseg_eqb s s' && groups_eqb G G' && list_eqb oprop_eqb p p'
  | OErr e, OErr e' => berr_eqb e e'
  | _, _ => false
  end.
(* a = model (validate slot: lenient verdict, xsd slot: valid_cell), b = implementation *)
Definition ofinal_eqb (a b : ofinal) : bool :=
  match a, b with
  | OFinal s vl x, OFinal s' v' x' => ostep_eqb s s' && (Bool.eqb x v' || Bool.eqb vl v') && Bool.eqb x x'
  | ONoFinal, ONoFinal => true
  | _, _ => false
  end.

Fixpoint trace (fx : bool) (ops : list op) (c : cell) : list ostep :=
  match ops with
  | [] => []
  | o :: r => match step fx c o with
              | BRet c' => obs_state c' :: trace fx r c'
              | BErr e => [OErr e]
              end
  end.

Definition model_final (fx : bool) (ops : list op) (c : cell) : ofinal :=
  match run fx ops c with
  | BErr _ => ONoFinal
  | BRet c' => match finish_gen fx c' with
               | BRet c'' => OFinal (obs_state c'') (valid_cell_lenient c'') (valid_cell c'')
               | BErr e => OFinal (OErr e) false false
               end
  end.

Definition init_of (factory : bool) : cell := if factory then init_factory else init_bare.

(* asking for an id that is in use, on the finished cell: add_segment(None, dist, seg_id=z, parent=segments[0],
   use_convention=False, optimise_segment_groups=False); a refused call changes nothing *)
(* (every id, 0 included) *)
Definition probe (c : cell) (z : Z) : ostep :=
  match add_segment true c false (Some z) None (Some 0%nat) 4 None false None false false with
  | BRet _ => OOtherErr
  | BErr e => OErr e
  end.

Definition model_probes (ops : list op) (c0 : cell) (zs : list Z) : list ostep :=
  match run true ops c0 with
  | BErr _ => []
  | BRet c => match finish c with
              | BRet c' => map (probe c') zs
              | BErr _ => []
              end
  end.

Definition case15_ok (fx : bool) (k : c15_case) : bool :=
  list_eqb ostep_eqb (trace fx (k_ops k) (init_of (k_factory k))) (k_trace k)
  && ofinal_eqb (model_final fx (k_ops k) (init_of (k_factory k))) (k_final k)
  && (if fx then list_eqb ostep_eqb (model_probes (k_ops k) (init_of (k_factory k)) (k_probes k)) (k_probe_obs k)
      else true).

Fixpoint idx_where {A : Type} (bad : A -> bool) (n : nat) (l : list A) : list nat :=
  match l with
  | [] => []
  | x :: r => if bad x then n :: idx_where bad (S n) r else idx_where bad (S n) r
  end.

Definition mismatches15 (fx : bool) (ks : list c15_case) : list nat :=
  idx_where (fun k => negb (case15_ok fx k)) 0 ks.

(* cases in which every operation respects op_ok and returned, yet the final cell is not well formed
   (the theorem says: none) *)
Definition model_counterexamples (fx : bool) (ks : list c15_case) : list nat :=
  idx_where (fun k => let c0 := init_of (k_factory k) in
                      run_ok fx (k_ops k) c0 &&
                      match run fx (k_ops k) c0 with
                      | BRet c => match finish c with
                                  | BRet c' => negb (wellformed c')
                                  | BErr _ => true
                                  end
                      | BErr _ => false
                      end) 0 ks.
