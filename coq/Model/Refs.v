(* C17 model: neuroml/utils.py fix_external_morphs_biophys_in_cell.

   Python objects have identities; the function mutates cell objects in place and embeds
   copy.deepcopy(...) of the referenced element.  The model keeps
     - a heap  nat -> cellrec  for the (mutable) cell objects, a document holding their locations,
     - Morphology / BiophysicalProperties subtrees as values of an abstract type obj that carry the
       identities of all objects inside them (locs),
     - an allocation counter n: every identity handed out so far is < n.
   copy.deepcopy and read_neuroml2_file (for the includes) are Section variables; what is assumed of
   them is stated as hypotheses in Proofs/RefsP.v.  After the Section a concrete instance
   (cobj, cdcopy, cload) is used to run generated cases against the real code.
   `c2` = true is the behaviour after fixes/C17-cell2capools.patch (Cell2CaPools cells are handled
   too); c2 = false is the code before it.  Definitions only. *)
From Coq Require Import String List Bool ZArith Arith.
Import ListNotations.

Section Refs.
  Variable obj : Type.
  Variable oid : obj -> string.                 (* the id attribute *)
  Variable dcopy : nat -> obj -> obj * nat.     (* copy.deepcopy with the allocation counter *)
  Variable load : nat -> string -> option (list obj * list obj * nat).
      (* read_neuroml2_file(href): (morphology list, biophysical_properties list); None = sys.exit *)

  (* (reference attribute, embedded element): morphology_attr / morphology, or the biophysics pair *)
  Definition slot := (option string * option obj)%type.

  Record cellrec := { k_id : string; k_rest : Z; k_m : slot; k_b : slot }.

  Definition heap := nat -> cellrec.
  Definition upd (h : heap) (l : nat) (c : cellrec) : heap :=
    fun x => if Nat.eqb x l then c else h x.

  Record docr := { d_cells : list nat;      (* nml2_doc.cells *)
                   d_cells2 : list nat;     (* nml2_doc.cell2_ca_poolses *)
                   d_morphs : list obj;
                   d_bios : list obj;
                   d_incs : list string }.

  Definition set_m (c : cellrec) (s : slot) : cellrec :=
    {| k_id := k_id c; k_rest := k_rest c; k_m := s; k_b := k_b c |}.
  Definition set_b (c : cellrec) (s : slot) : cellrec :=
    {| k_id := k_id c; k_rest := k_rest c; k_m := k_m c; k_b := s |}.

  (* ---- referenced ids: attribute set and nothing embedded *)
  Definition slot_ref (s : slot) : list string :=
    match s with (Some a, None) => [a] | _ => [] end.
  Definition cell_refs (c : cellrec) : list string := (slot_ref (k_m c) ++ slot_ref (k_b c))%list.
  Definition referenced (h : heap) (cells : list nat) : list string :=
    flat_map (fun l => cell_refs (h l)) cells.

  (* ---- the two dicts; the most recent assignment is at the head *)
  Definition dict := list (string * obj).
  Fixpoint dict_get (d : dict) (a : string) : option obj :=
    match d with
    | [] => None
    | (k, o) :: r => if String.eqb k a then Some o else dict_get r a
    end.
  Definition mem_str (a : string) (l : list string) : bool := existsb (String.eqb a) l.
  Definition add_defs (refs : list string) (d : dict) (os : list obj) : dict :=
    fold_left (fun d o => if mem_str (oid o) refs then (oid o, o) :: d else d) os d.

  Fixpoint load_incs (refs : list string) (incs : list string) (dm db : dict) (n : nat)
    : option (dict * dict * nat) :=
    match incs with
    | [] => Some (dm, db, n)
    | i :: r =>
      match load n i with
      | None => None
      | Some (ms, bs, n') => load_incs refs r (add_defs refs dm ms) (add_defs refs db bs) n'
      end
    end.

  (* ---- one assignment  cell.x = copy.deepcopy(ext[cell.x_attr]); cell.x_attr = None *)
  Inductive fillres := Filled (s : slot) (n : nat) | Missing.
  Definition fill (d : dict) (n : nat) (s : slot) : fillres :=
    match s with
    | (Some a, None) =>
      match dict_get d a with
      | Some o => let (o', n') := dcopy n o in Filled (None, Some o') n'
      | None => Missing
      end
    | _ => Filled s n
    end.

  Inductive loopres := LOk (h : heap) (n : nat) | LKeyErr (h : heap).

  (* the update loop; a KeyError leaves the cells handled so far modified *)
  Fixpoint cells_loop (dm db : dict) (cells : list nat) (h : heap) (n : nat) : loopres :=
    match cells with
    | [] => LOk h n
    | l :: r =>
      let c := h l in
      match fill dm n (k_m c) with
      | Missing => LKeyErr h
      | Filled sm n1 =>
        let c1 := set_m c sm in
        let h1 := upd h l c1 in
        match fill db n1 (k_b c1) with
        | Missing => LKeyErr h1
        | Filled sb n2 => cells_loop dm db r (upd h1 l (set_b c1 sb)) n2
        end
      end
    end.

  (* ---- copy.deepcopy(nml2_doc): new cell objects, every subtree copied *)
  Definition copy_slot (n : nat) (s : slot) : slot * nat :=
    match s with
    | (a, Some o) => let (o', n') := dcopy n o in ((a, Some o'), n')
    | (a, None) => ((a, None), n)
    end.
  Fixpoint copy_objs (n : nat) (os : list obj) : list obj * nat :=
    match os with
    | [] => ([], n)
    | o :: r => let (o', n1) := dcopy n o in
                let (r', n2) := copy_objs n1 r in (o' :: r', n2)
    end.
  Fixpoint copy_cells (h0 h : heap) (cells : list nat) (n : nat) : heap * list nat * nat :=
    match cells with
    | [] => (h, [], n)
    | l :: r =>
      let c := h0 l in
      let (sm, n1) := copy_slot (S n) (k_m c) in     (* the new cell object is n *)
      let (sb, n2) := copy_slot n1 (k_b c) in
      let h1 := upd h n {| k_id := k_id c; k_rest := k_rest c; k_m := sm; k_b := sb |} in
      let '(h2, r', n3) := copy_cells h0 h1 r n2 in
      (h2, n :: r', n3)
    end.
  Definition copy_doc (h : heap) (d : docr) (n : nat) : heap * docr * nat :=
    let '(h1, cs, n1) := copy_cells h h (d_cells d) n in
    let '(h2, cs2, n2) := copy_cells h h1 (d_cells2 d) n1 in
    let (ms, n3) := copy_objs n2 (d_morphs d) in
    let (bs, n4) := copy_objs n3 (d_bios d) in
    (h2, {| d_cells := cs; d_cells2 := cs2; d_morphs := ms; d_bios := bs; d_incs := d_incs d |}, n4).

  Inductive result :=
  | ROk (h : heap) (d : docr) (n : nat)   (* the returned document *)
  | RKeyErr (h : heap)
  | RExit (h : heap).

  (* which cell lists the function walks: before the patch only nml2_doc.cells *)
  Definition cells_of (c2 : bool) (d : docr) : list nat :=
    if c2 then (d_cells d ++ d_cells2 d)%list else d_cells d.

  Definition fix_doc (c2 : bool) (h : heap) (d : docr) (n : nat) (overwrite : bool) : result :=
    let '(h0, d0, n0) := if overwrite then (h, d, n) else copy_doc h d n in
    let refs := referenced h0 (cells_of c2 d0) in
    match load_incs refs (d_incs d0) [] [] n0 with
    | None => RExit h0
    | Some (dm, db, n1) =>
      let dm' := add_defs refs dm (d_morphs d0) in
      let db' := add_defs refs db (d_bios d0) in
      match cells_loop dm' db' (cells_of c2 d0) h0 n1 with
      | LOk h' n' => ROk h' d0 n'
      | LKeyErr h' => RKeyErr h'
      end
    end.
End Refs.

Arguments k_id {obj} c.
Arguments k_rest {obj} c.
Arguments k_m {obj} c.
Arguments k_b {obj} c.
Arguments d_cells {obj} d.
Arguments d_cells2 {obj} d.
Arguments d_morphs {obj} d.
Arguments d_bios {obj} d.
Arguments d_incs {obj} d.
Arguments ROk {obj} h d n.
Arguments RKeyErr {obj} h.
Arguments RExit {obj} h.

(* ------------------------------------------------------------------------ *)
(*  concrete instance used by the correspondence                             *)
(* ------------------------------------------------------------------------ *)
(* a Morphology / BiophysicalProperties object: identity, id, payload, children (identity, payload) *)
Inductive cobj := CObj (l : nat) (id : string) (v : Z) (kids : list (nat * Z)).

Definition coid (o : cobj) : string := match o with CObj _ i _ _ => i end.
Definition cval (o : cobj) : string * Z * list Z := match o with CObj _ i v k => (i, v, map snd k) end.
Definition clocs (o : cobj) : list nat := match o with CObj l _ _ k => l :: map fst k end.

Definition cdcopy (n : nat) (o : cobj) : cobj * nat :=
  match o with
  | CObj _ i v k => (CObj n i v (combine (seq (S n) (length k)) (map snd k)), S n + length k)
  end.

(* the include table: href -> templates; every load allocates fresh objects *)
Definition ctable := list (string * (list cobj * list cobj)).
Fixpoint cfind (t : ctable) (href : string) : option (list cobj * list cobj) :=
  match t with
  | [] => None
  | (k, x) :: r => if String.eqb k href then Some x else cfind r href
  end.
Definition cload (t : ctable) (n : nat) (href : string) : option (list cobj * list cobj * nat) :=
  match cfind t href with
  | None => None
  | Some (ms, bs) =>
    let (ms', n1) := copy_objs cobj cdcopy n ms in
    let (bs', n2) := copy_objs cobj cdcopy n1 bs in
    Some (ms', bs', n2)
  end.

(* --- observation of a document: values and the aliasing pattern *)
Definition sobs := (option string * option (string * Z * list Z))%type.
Definition cellobs := (string * Z * sobs * sobs)%type.

Definition slot_obs (s : slot cobj) : sobs := (fst s, option_map cval (snd s)).
Definition cell_obs (c : cellrec cobj) : cellobs := (k_id c, k_rest c, slot_obs (k_m c), slot_obs (k_b c)).

Definition slot_locs (s : slot cobj) : list nat := match snd s with Some o => clocs o | None => [] end.
(* identities met when walking a document: each cell, its embedded subtrees, then the top-level lists *)
Definition doc_locs (h : heap cobj) (d : docr cobj) : list nat :=
  (flat_map (fun l => l :: slot_locs (k_m (h l)) ++ slot_locs (k_b (h l))) (d_cells d ++ d_cells2 d)
   ++ flat_map clocs (d_morphs d) ++ flat_map clocs (d_bios d))%list.

Fixpoint index_of (x : nat) (l : list nat) : nat :=
  match l with
  | [] => 0
  | y :: r => if Nat.eqb x y then 0 else S (index_of x r)
  end.
Fixpoint first_occ (seen l : list nat) : list nat :=
  match l with
  | [] => seen
  | x :: r => if existsb (Nat.eqb x) seen then first_occ seen r else first_occ (seen ++ [x]) r
  end.
(* canonical form of an aliasing pattern: every identity replaced by its rank of first appearance *)
Definition relabel (l : list nat) : list nat := let u := first_occ [] l in map (fun x => index_of x u) l.

Record obs := { o_outcome : nat;                 (* 0 returned, 1 KeyError, 2 SystemExit *)
                o_input_after : list cellobs;    (* the cells of the document passed in, after the call *)
                o_output : list cellobs;         (* the cells of the returned document *)
                o_out_lists : list (string * Z * list Z);  (* its morphology ++ biophysical_properties *)
                o_pattern : list nat }.          (* identities: input before ++ returned document *)

Record case := { q_cells : list (nat * cellrec cobj);   (* location, content *)
                 q_doc : docr cobj;
                 q_table : ctable;
                 q_next : nat;                          (* allocation counter: above every identity *)
                 q_overwrite : bool;
                 q_obs : obs }.

Definition heap_of (cs : list (nat * cellrec cobj)) : heap cobj :=
  fun x => match find (fun p => Nat.eqb (fst p) x) cs with
           | Some p => snd p
           | None => {| k_id := ""; k_rest := 0; k_m := (None, None); k_b := (None, None) |}
           end.

Definition all_cells (d : docr cobj) : list nat := (d_cells d ++ d_cells2 d)%list.

Definition model_obs (c2 : bool) (c : case) : obs :=
  let h := heap_of (q_cells c) in
  let d := q_doc c in
  let before := doc_locs h d in
  match fix_doc cobj coid cdcopy (cload (q_table c)) c2 h d (q_next c) (q_overwrite c) with
  | ROk h' d' _ =>
    {| o_outcome := 0;
       o_input_after := map (fun l => cell_obs (h' l)) (all_cells d);
       o_output := map (fun l => cell_obs (h' l)) (all_cells d');
       o_out_lists := map cval (d_morphs d' ++ d_bios d');
       o_pattern := relabel (before ++ doc_locs h' d') |}
  | RKeyErr h' =>
    {| o_outcome := 1; o_input_after := map (fun l => cell_obs (h' l)) (all_cells d);
       o_output := []; o_out_lists := []; o_pattern := [] |}
  | RExit h' =>
    {| o_outcome := 2; o_input_after := map (fun l => cell_obs (h' l)) (all_cells d);
       o_output := []; o_out_lists := []; o_pattern := [] |}
  end.

(* boolean equality of observations *)
Fixpoint list_eqb {A} (eqb : A -> A -> bool) (a b : list A) : bool :=
  match a, b with
  | [], [] => true
  | x :: a', y :: b' => eqb x y && list_eqb eqb a' b'
  | _, _ => false
  end.
Definition opt_eqb {A} (eqb : A -> A -> bool) (a b : option A) : bool :=
  match a, b with
  | None, None => true
  | Some x, Some y => eqb x y
  | _, _ => false
  end.
Definition val_eqb (a b : string * Z * list Z) : bool :=
  String.eqb (fst (fst a)) (fst (fst b)) && Z.eqb (snd (fst a)) (snd (fst b)) && list_eqb Z.eqb (snd a) (snd b).
Definition sobs_eqb (a b : sobs) : bool :=
  opt_eqb String.eqb (fst a) (fst b) && opt_eqb val_eqb (snd a) (snd b).
Definition cellobs_eqb (a b : cellobs) : bool :=
  match a, b with
  | (i, r, m, bb), (i', r', m', bb') => String.eqb i i' && Z.eqb r r' && sobs_eqb m m' && sobs_eqb bb bb'
  end.
Definition obs_eqb (a b : obs) : bool :=
  Nat.eqb (o_outcome a) (o_outcome b)
  && list_eqb cellobs_eqb (o_input_after a) (o_input_after b)
  && list_eqb cellobs_eqb (o_output a) (o_output b)
  && list_eqb val_eqb (o_out_lists a) (o_out_lists b)
  && list_eqb Nat.eqb (o_pattern a) (o_pattern b).

Fixpoint mismatches_from (c2 : bool) (i : nat) (cs : list case) : list nat :=
  match cs with
  | [] => []
  | c :: r => if obs_eqb (model_obs c2 c) (q_obs c) then mismatches_from c2 (S i) r
              else i :: mismatches_from c2 (S i) r
  end.
Definition mismatches (cs : list case) : list nat := mismatches_from true 0 cs.
Definition mismatches_old (cs : list case) : list nat := mismatches_from false 0 cs.
