(* C14 model: segment groups of a cell, resolution of a group to its segments
   (Cell.get_all_segments_in_group) and optimisation (Cell.optimise_segment_group(s)),
   mirroring neuroml/nml/helper_methods.py line by line.  Definitions only; proofs are in
   Proofs/GroupsP.v.

   Python                                   here
   ---------------------------------------  ------------------------------------------
   morphology.segment_groups (list, order)  list group
   sg.members  [Member(segments=i)]         members : list Z      (Member.__eq__ is by value)
   sg.includes [Include(segment_groups=s)]  includes : list string
   [seg.id for seg in morphology.segments]  segs : list Z
   natsort.natsorted                        Section variables sortS / sortZ (any functions; the
                                            theorems assume they permute and are idempotent);
                                            natsortS / isortZ below are the concrete instances
                                            used by the correspondence run
   recursion of get_all_segments_in_group   fuel (OutOfFuel is excluded by the theorems'
                                            hypotheses: acyclic include graph, fuel > #groups)   *)
From Coq Require Import String List ZArith Bool Ascii NArith.
Import ListNotations.
Open Scope string_scope.

Record group := mkGroup {
  gid : string;
  members : list Z;
  includes : list string;
  nlex : option string      (* neuroLexId; untouched by everything here, observed by C15 *)
}.

(* ---------- small list helpers (Python idioms) ---------- *)
Definition memZ (x : Z) (l : list Z) : bool := existsb (Z.eqb x) l.
Definition memS (x : string) (l : list string) : bool := existsb (String.eqb x) l.

(* new = []; for i in l: if i not in new: new.append(i)      (keeps first occurrences) *)
Definition dedupZ (l : list Z) : list Z :=
  fold_left (fun acc x => if memZ x acc then acc else (acc ++ [x])%list) l [].
Definition dedupS (l : list string) : list string :=
  fold_left (fun acc x => if memS x acc then acc else (acc ++ [x])%list) l [].

(* for s in l: if not s in acc: acc.append(s) *)
Definition add_new (acc l : list Z) : list Z :=
  fold_left (fun acc x => if memZ x acc then acc else (acc ++ [x])%list) l acc.

(* for sg in segment_groups: if sg.id == a: ...      (first match) *)
Fixpoint lookup (G : list group) (a : string) : option group :=
  match G with
  | [] => None
  | g :: G' => if String.eqb (gid g) a then Some g else lookup G' a
  end.

(* Cell.get_segment_group: `if sg_id:` guards the loop, so a falsy id is never found *)
Definition get_group (G : list group) (a : string) : option group :=
  if String.eqb a "" then None else lookup G a.

Fixpoint replace_first (G : list group) (a : string) (g' : group) : list group :=
  match G with
  | [] => []
  | g :: G' => if String.eqb (gid g) a then g' :: G' else g :: replace_first G' a g'
  end.

(* ---------- results ---------- *)
Inductive err :=
| ENoGroup (a : string)        (* Exception('No segment group ... found in cell') *)
| ENoSuchGroup (a : string)    (* ValueError of get_segment_group *)
| EFuel.                       (* model artefact: recursion deeper than the fuel given
                                  (Python: RecursionError on a cyclic include graph) *)

Inductive result (A : Type) :=
| Ret (a : A)
| Err (e : err).
Arguments Ret {A} a.
Arguments Err {A} e.

(* ---------- get_all_segments_in_group(segment_group: str) ---------- *)
Section Resolve.
  Variable segs : list Z.

  Definition resolve_step (rec : string -> result (list Z)) (acc : result (list Z)) (i : string)
    : result (list Z) :=
    match acc with
    | Ret a => match rec i with
               | Ret l => Ret (add_new a l)
               | Err e => Err e
               end
    | Err e => Err e
    end.

  Fixpoint resolve (fuel : nat) (G : list group) (a : string) : result (list Z) :=
    match fuel with
    | O => Err EFuel
    | S f =>
      match lookup G a with
      | None => if String.eqb a "all" then Ret segs else Err (ENoGroup a)
      | Some g => fold_left (resolve_step (resolve f G)) (includes g) (Ret (dedupZ (members g)))
      end
    end.

  (* union of the resolved sets of a list of group ids (the fixed optimise_segment_group:
       ids = set(); for inc in includes: ids.update(get_all_segments_in_group(inc))       ) *)
  Definition resolve_union (fuel : nat) (G : list group) (incs : list string) : result (list Z) :=
    fold_left (resolve_step (resolve fuel G)) incs (Ret []).

  (* per include the resolved list (the shipped optimise_segment_group resolves each include) *)
  Fixpoint resolve_each (fuel : nat) (G : list group) (incs : list string) : result (list (list Z)) :=
    match incs with
    | [] => Ret []
    | i :: r => match resolve fuel G i with
                | Err e => Err e
                | Ret l => match resolve_each fuel G r with
                           | Err e => Err e
                           | Ret ls => Ret (l :: ls)
                           end
                end
    end.
End Resolve.

(* ---------- optimise_segment_group / optimise_segment_groups ---------- *)
Section Optimise.
  Variable sortS : list string -> list string.   (* natsorted(includes, key=segment_groups) *)
  Variable sortZ : list Z -> list Z.             (* natsorted(members,  key=segments)       *)
  Variable segs : list Z.

  Definition nonemptyZ (l : list Z) := match l with [] => false | _ => true end.
  Definition nonemptyS (l : list string) := match l with [] => false | _ => true end.

  (* the repaired method (fixes/C14-optimise-multiple-includes.patch):
       a member is dropped iff SOME included group supplies it *)
  Definition optimise_group (fuel : nat) (G : list group) (a : string) : result (list group) :=
    match get_group G a with
    | None => Err (ENoSuchGroup a)
    | Some g =>
      let ms := dedupZ (members g) in
      let incs := sortS (dedupS (includes g)) in
      let g1 := mkGroup (gid g) ms incs (nlex g) in
      let G1 := replace_first G (gid g) g1 in          (* both attributes are assigned first *)
      if nonemptyS incs && nonemptyZ ms then
        match resolve_union segs fuel G1 incs with
        | Err e => Err e
        | Ret covered =>
          let ms' := sortZ (filter (fun m => negb (memZ m covered)) ms) in
          Ret (replace_first G1 (gid g) (mkGroup (gid g) ms' incs (nlex g)))
        end
      else Ret G1
    end.

  (* the method as shipped at the pinned commit:
       new_members = []
       for inc in includes:
           ids = set(get_all_segments_in_group(inc))
           for i in members: if i.segments not in ids: new_members.append(i)
     i.e. one copy of a member per include that does NOT supply it *)
  Definition optimise_group_v0 (fuel : nat) (G : list group) (a : string) : result (list group) :=
    match get_group G a with
    | None => Err (ENoSuchGroup a)
    | Some g =>
      let ms := dedupZ (members g) in
      let incs := sortS (dedupS (includes g)) in
      let g1 := mkGroup (gid g) ms incs (nlex g) in
      let G1 := replace_first G (gid g) g1 in
      if nonemptyS incs && nonemptyZ ms then
        match resolve_each segs fuel G1 incs with
        | Err e => Err e
        | Ret ls =>
          let ms' := sortZ (flat_map (fun l => filter (fun m => negb (memZ m l)) ms) ls) in
          Ret (replace_first G1 (gid g) (mkGroup (gid g) ms' incs (nlex g)))
        end
      else Ret G1
    end.

  (* for seg_group in self.morphology.segment_groups: self.optimise_segment_group(seg_group.id) *)
  Definition optimise_ids (og : nat -> list group -> string -> result (list group))
             (fuel : nat) (ids : list string) (G : list group) : result (list group) :=
    fold_left (fun acc a => match acc with Ret G' => og fuel G' a | Err e => Err e end) ids (Ret G).

  Definition optimise_all (fuel : nat) (G : list group) : result (list group) :=
    optimise_ids optimise_group fuel (map gid G) G.
  Definition optimise_all_v0 (fuel : nat) (G : list group) : result (list group) :=
    optimise_ids optimise_group_v0 fuel (map gid G) G.
End Optimise.

(* ---------- concrete sorts used when the model is run against the implementation ---------- *)

(* natsort 8.4 default key (ns.INT): the string is cut into maximal digit runs and the rest;
   a leading digit run gets an empty string in front; comparison is Python tuple comparison *)
Inductive tok := TS (s : string) | TN (n : N).

Definition is_digit (c : ascii) : bool :=
  let n := N_of_ascii c in (N.leb 48 n && N.leb n 57)%bool.

(* state: tokens so far (reversed), current run: either digits (value) or text (reversed chars) *)
Fixpoint rev_string (s acc : string) : string :=
  match s with EmptyString => acc | String c r => rev_string r (String c acc) end.

Fixpoint nat_key_go (s : string) (toks : list tok) (cur_txt : string) (cur_num : option N) : list tok :=
  match s with
  | EmptyString =>
    match cur_num with
    | Some n => rev (TN n :: toks)
    | None => match cur_txt with EmptyString => rev toks | _ => rev (TS (rev_string cur_txt "") :: toks) end
    end
  | String c r =>
    if is_digit c then
      let d := (N_of_ascii c - 48)%N in
      match cur_num with
      | Some n => nat_key_go r toks "" (Some (10 * n + d)%N)
      | None => nat_key_go r (TS (rev_string cur_txt "") :: toks) "" (Some d)
      end
    else
      match cur_num with
      | Some n => nat_key_go r (TN n :: toks) (String c "") None
      | None => nat_key_go r toks (String c cur_txt) None
      end
  end.

Definition nat_key (s : string) : list tok :=
  match s with
  | EmptyString => []
  | _ => nat_key_go s [] "" None
  end.

Definition tok_cmp (a b : tok) : comparison :=
  match a, b with
  | TS x, TS y => String.compare x y
  | TN x, TN y => N.compare x y
  | TS _, TN _ => Gt      (* never reached: token kinds alternate starting with TS *)
  | TN _, TS _ => Lt
  end.

Fixpoint key_cmp (a b : list tok) : comparison :=
  match a, b with
  | [], [] => Eq
  | [], _ => Lt
  | _, [] => Gt
  | x :: a', y :: b' => match tok_cmp x y with Eq => key_cmp a' b' | c => c end
  end.

Definition nat_leb (a b : string) : bool :=
  match key_cmp (nat_key a) (nat_key b) with Gt => false | _ => true end.

(* stable insertion sort: x goes before the first element strictly greater than it *)
Section ISort.
  Context {A : Type}.
  Variable leb : A -> A -> bool.
  Fixpoint insert (x : A) (l : list A) : list A :=
    match l with
    | [] => [x]
    | y :: r => if leb y x then y :: insert x r else x :: y :: r
    end.
  Definition isort (l : list A) : list A := fold_left (fun acc x => insert x acc) l [].
End ISort.

Definition natsortS (l : list string) : list string := isort nat_leb l.
Definition isortZ (l : list Z) : list Z := isort Z.leb l.

Definition optimise_all_c := optimise_all natsortS isortZ.
Definition optimise_all_v0_c := optimise_all_v0 natsortS isortZ.
Definition default_fuel (G : list group) : nat := S (length G).

(* ---------- the property as a decidable predicate (used on model outputs and in Examples) ------ *)
Definition nodupZb (l : list Z) : bool := Nat.eqb (length (dedupZ l)) (length l).
Definition nodupSb (l : list string) : bool := Nat.eqb (length (dedupS l)) (length l).

(* no member of g is supplied by a group g includes (resolution in state G) *)
Definition no_covered_b (segs : list Z) (fuel : nat) (G : list group) (g : group) : bool :=
  forallb (fun i => match resolve segs fuel G i with
                    | Ret l => forallb (fun m => negb (memZ m l)) (members g)
                    | Err _ => false
                    end) (includes g).

Definition clean_b (segs : list Z) (fuel : nat) (G : list group) : bool :=
  forallb (fun g => nodupZb (members g) && nodupSb (includes g) && no_covered_b segs fuel G g) G.

(* ---------- comparison helpers for the correspondence files ---------- *)
Fixpoint listZ_eqb (a b : list Z) : bool :=
  match a, b with
  | [], [] => true
  | x :: a', y :: b' => Z.eqb x y && listZ_eqb a' b'
  | _, _ => false
  end.
Fixpoint listS_eqb (a b : list string) : bool :=
  match a, b with
  | [], [] => true
  | x :: a', y :: b' => String.eqb x y && listS_eqb a' b'
  | _, _ => false
  end.
(* order-insensitive comparison: the ORDER of members / includes / reported segments is not part of
   the property (natsort is only assumed to permute), so model and implementation are compared as
   multisets there; the order of the group list itself is compared exactly *)
Definition listZ_eqp (a b : list Z) : bool := listZ_eqb (isortZ a) (isortZ b).
Definition listS_eqp (a b : list string) : bool := listS_eqb (isort String.leb a) (isort String.leb b).

Definition optS_eqb (a b : option string) : bool :=
  match a, b with
  | None, None => true
  | Some x, Some y => String.eqb x y
  | _, _ => false
  end.
Definition group_eqb (a b : group) : bool :=
  String.eqb (gid a) (gid b) && listZ_eqp (members a) (members b)
  && listS_eqp (includes a) (includes b) && optS_eqb (nlex a) (nlex b).
Fixpoint groups_eqb (a b : list group) : bool :=
  match a, b with
  | [], [] => true
  | x :: a', y :: b' => group_eqb x y && groups_eqb a' b'
  | _, _ => false
  end.

(* what the implementation is seen to do, canonically:
   an id list, or the class of the exception *)
Inductive obs_res := OList (l : list Z) | ONoGroup | ONoSuchGroup | ORecursion | OOther.
Definition obs_of_res (r : result (list Z)) : obs_res :=
  match r with
  | Ret l => OList l
  | Err (ENoGroup _) => ONoGroup
  | Err (ENoSuchGroup _) => ONoSuchGroup
  | Err EFuel => ORecursion
  end.
Definition obs_res_eqb (a b : obs_res) : bool :=
  match a, b with
  | OList x, OList y => listZ_eqp x y
  | ONoGroup, ONoGroup | ONoSuchGroup, ONoSuchGroup | ORecursion, ORecursion => true
  | _, _ => false
  end.

Inductive obs_groups := OGroups (G : list group) | OGNoGroup | OGNoSuchGroup | OGRecursion | OGOther.
Definition obs_of_gres (r : result (list group)) : obs_groups :=
  match r with
  | Ret G => OGroups G
  | Err (ENoGroup _) => OGNoGroup
  | Err (ENoSuchGroup _) => OGNoSuchGroup
  | Err EFuel => OGRecursion
  end.
Definition obs_groups_eqb (a b : obs_groups) : bool :=
  match a, b with
  | OGroups x, OGroups y => groups_eqb x y
  | OGroups _, _ | _, OGroups _ | OGOther, _ | _, OGOther => false
  (* a malformed cell (outside the property) can be wrong in two ways at once - a missing group AND a cycle;
     which of the two exceptions comes first depends on the iteration order of a set of objects *)
  | _, _ => true
  end.

(* one correspondence case: the cell, and what the implementation returned *)
Record c14_case := mkCase {
  c_segs : list Z;
  c_groups : list group;
  c_resolved : list obs_res;          (* get_all_segments_in_group(g.id) for every group, in order *)
  c_all : obs_res;                    (* get_all_segments_in_group('all') *)
  c_opt : obs_groups;                 (* groups after optimise_segment_groups() *)
  c_resolved_after : list obs_res;    (* the same queries afterwards (only when it returned) *)
  c_opt2 : obs_groups;                (* after a second optimise_segment_groups() *)
  (* get_ordered_segments_in_groups([g.id]) for every group: the ids of the listed segments, in the order listed;
     before and after optimising; None = not asked (cells outside the property) *)
  c_ordered : option (list obs_res);
  c_ordered_after : option (list obs_res)
}.

Fixpoint obs_list_eqb (a b : list obs_res) : bool :=
  match a, b with
  | [], [] => true
  | x :: a', y :: b' => obs_res_eqb x y && obs_list_eqb a' b'
  | _, _ => false
  end.

Definition model_resolved (segs : list Z) (G : list group) : list obs_res :=
  map (fun g => obs_of_res (resolve segs (default_fuel G) G (gid g))) G.

(* which optimiser the implementation is compared with: true = repaired, false = as shipped *)
(* get_ordered_segments_in_groups([a]): the segments of the group, each ONCE, by ascending id *)
Definition ordered_ids (segs : list Z) (fuel : nat) (G : list group) (a : string) : result (list Z) :=
  match resolve segs fuel G a with
  | Ret l => Ret (isortZ l)
  | Err e => Err e
  end.
Definition obs_res_exact_eqb (a b : obs_res) : bool :=
  match a, b with
  | OList x, OList y => listZ_eqb x y
  | OOther, _ | _, OOther => false
  | OList _, _ | _, OList _ => false
  | _, _ => true
  end.
Fixpoint obs_list_exact_eqb (a b : list obs_res) : bool :=
  match a, b with
  | [], [] => true
  | x :: a', y :: b' => obs_res_exact_eqb x y && obs_list_exact_eqb a' b'
  | _, _ => false
  end.
Definition ordered_ok (segs : list Z) (G : list group) (o : option (list obs_res)) : bool :=
  match o with
  | None => true
  | Some l => obs_list_exact_eqb (map (fun g => obs_of_res (ordered_ids segs (default_fuel G) G (gid g))) G) l
  end.

Definition case_ok (fixed : bool) (c : c14_case) : bool :=
  let G := c_groups c in
  let f := default_fuel G in
  let opt := if fixed then optimise_all_c else optimise_all_v0_c in
  let r1 := opt (c_segs c) f G in
  obs_list_eqb (model_resolved (c_segs c) G) (c_resolved c)
  && obs_res_eqb (obs_of_res (resolve (c_segs c) f G "all")) (c_all c)
  && ordered_ok (c_segs c) G (c_ordered c)
  && obs_groups_eqb (obs_of_gres r1) (c_opt c)
  && match r1 with
     | Ret G1 => obs_list_eqb (model_resolved (c_segs c) G1) (c_resolved_after c)
                 && ordered_ok (c_segs c) G1 (c_ordered_after c)
                 && obs_groups_eqb (obs_of_gres (opt (c_segs c) f G1)) (c_opt2 c)
     | Err _ => true
     end.

Fixpoint mismatches_from (fixed : bool) (n : nat) (cs : list c14_case) : list nat :=
  match cs with
  | [] => []
  | c :: r => if case_ok fixed c then mismatches_from fixed (S n) r
              else n :: mismatches_from fixed (S n) r
  end.
Definition mismatches (fixed : bool) (cs : list c14_case) : list nat := mismatches_from fixed 0 cs.

(* ---------- histories on ONE cell object: each optimising call is compared with the model applied to the
   cell's state just before that call (the model is a pure function of the current groups) ---------- *)
Record c14_step := mkStep {
  t_segs : list Z;
  t_before : list group;               (* the cell's groups when the call was made *)
  t_one : option string;               (* Some id: optimise_segment_group(id); None: optimise_segment_groups() *)
  t_res_before : list obs_res;         (* get_all_segments_in_group of every group just before *)
  t_after : obs_groups;                (* the cell's groups after the call *)
  t_res_after : list obs_res           (* ... and what every group resolves to then *)
}.

Definition step_ok (t : c14_step) : bool :=
  let G := t_before t in
  let f := default_fuel G in
  let r := match t_one t with
           | Some a => optimise_group natsortS isortZ (t_segs t) f G a
           | None => optimise_all_c (t_segs t) f G
           end in
  obs_list_eqb (model_resolved (t_segs t) G) (t_res_before t)
  && obs_groups_eqb (obs_of_gres r) (t_after t)
  && match r with
     | Ret G1 => obs_list_eqb (model_resolved (t_segs t) G1) (t_res_after t)
     | Err _ => true
     end.

Fixpoint step_mismatches_from (n : nat) (ts : list c14_step) : list nat :=
  match ts with
  | [] => []
  | t :: r => if step_ok t then step_mismatches_from (S n) r else n :: step_mismatches_from (S n) r
  end.
Definition step_mismatches (ts : list c14_step) : list nat := step_mismatches_from 0 ts.
