(* C20 model: the helper-method tables of both sides (helper_methods.py as generateDS would splice it,
   and the non-template part of the class bodies in nml.py) are data; "the shipped bindings are what
   regeneration would produce" is equality of those tables plus agreement of class / schema names. *)
From Coq Require Import String List Bool.
Import ListNotations.
Open Scope string_scope.

(* a method (or class-level statement): name, canonical statements (signature first) *)
Definition item := (string * list string)%type.
Definition cls_items := (string * list item)%type.

Fixpoint strs_eqb (a b : list string) : bool :=
  match a, b with
  | [], [] => true
  | x :: a', y :: b' => String.eqb x y && strs_eqb a' b'
  | _, _ => false
  end.

Definition item_eqb (a b : item) : bool := String.eqb (fst a) (fst b) && strs_eqb (snd a) (snd b).

Fixpoint items_eqb (a b : list item) : bool :=
  match a, b with
  | [], [] => true
  | x :: a', y :: b' => item_eqb x y && items_eqb a' b'
  | _, _ => false
  end.

Fixpoint tab_eqb (a b : list cls_items) : bool :=
  match a, b with
  | [], [] => true
  | (c, x) :: a', (d, y) :: b' => String.eqb c d && items_eqb x y && tab_eqb a' b'
  | _, _ => false
  end.

(* all definitions of method m in class c, in textual order (Python: the last one wins) *)
Definition defs_of (t : list cls_items) (c m : string) : list (list string) :=
  flat_map (fun ci => if String.eqb (fst ci) c
                      then map snd (filter (fun it => String.eqb (fst it) m) (snd ci)) else []) t.

Definition effective_method (t : list cls_items) (c m : string) : option (list string) :=
  last (map Some (defs_of t c m)) None.

Definition classes_with (t : list cls_items) (m : string) : list string :=
  map fst (filter (fun ci => existsb (fun it => String.eqb (fst it) m) (snd ci)) t).

Record regen_facts := {
  rf_src : list cls_items;            (* helper_methods.py, interpolated per class as generateDS does *)
  rf_nml : list cls_items;            (* nml.py: class-body items that are not generateDS templates *)
  rf_dangling : list (string * string); (* (spec, class) where the spec names a class that does not exist *)
  rf_binding_classes : list string;   (* sorted *)
  rf_exported_classes : list string;  (* sorted: binding classes reachable as neuroml.<Name> (star import of __all__) *)
  rf_complex_types : list string;     (* sorted, of NeuroML_<current>.xsd *)
  rf_name_table_regen : list (string * string);    (* generateds_config.py re-run on the tree's schema/config, sorted *)
  rf_name_table_shipped : list (string * string);  (* neuroml/nml/name_table.csv, sorted *)
  rf_member_name_violations : list (string * string); (* (class, xml name) whose python name is not the table's *)
  rf_current : string;
  rf_header_schema : string;
  rf_writer_schema : string;
  rf_regen_schema : string;
  rf_regen_uses_helpers : bool;
  rf_schema_exists : bool
}.

Definition schema_of (v : string) : string := "NeuroML_" ++ v ++ ".xsd".

Fixpoint pairs_eqb (a b : list (string * string)) : bool :=
  match a, b with
  | [], [] => true
  | (x1, y1) :: a', (x2, y2) :: b' => String.eqb x1 x2 && String.eqb y1 y2 && pairs_eqb a' b'
  | _, _ => false
  end.

Definition regen_ok (f : regen_facts) : bool :=
  tab_eqb (rf_src f) (rf_nml f)
  && pairs_eqb (rf_name_table_regen f) (rf_name_table_shipped f)
  && match rf_member_name_violations f with [] => true | _ => false end
  && match rf_dangling f with [] => true | _ => false end
  && strs_eqb (rf_binding_classes f) (rf_complex_types f)
  && strs_eqb (rf_exported_classes f) (rf_complex_types f)
  && String.eqb (rf_header_schema f) (schema_of (rf_current f))
  && String.eqb (rf_writer_schema f) (schema_of (rf_current f))
  && String.eqb (rf_regen_schema f) (schema_of (rf_current f))
  && rf_regen_uses_helpers f
  && rf_schema_exists f.
