(* C08 model: the resource-protocol language (DESIGN.md 5.7).

   An entry point of libNeuroML (NeuroMLWriter.write, NeuroMLHdf5Writer.write, ArrayMorphWriter.write,
   ArrayMorphLoader.load, NeuroMLHdf5Parser.parse, the XML loaders) is translated on every run by
   translators/tr_skeleton.py into a [cmd]: the data are abstracted away, what is kept is every call that
   can fail (fault points), every acquisition / release of a file handle, every mutation / restoration of
   the caller's document, and the complete exception control flow (try/except/finally/with/return/raise,
   loops, branches).

   [exec] runs a skeleton under a *plan*: which fault points raise (by static site and/or by dynamic
   position, any number of them, any exception name), how often every loop iterates, which way every
   data-dependent branch goes.  [safe] is the syntactic cleanup discipline.  Proofs are in Proofs/ResourceP.v. *)
From Coq Require Import String List Bool Arith.
Import ListNotations.
Open Scope string_scope.

Definition label := string.        (* "<line>" of the statement in the entry function *)

Inductive cmd :=
| Skip
| Op (l : label) (name : string)          (* a call into the file layer / library code: fault point *)
| MayRaise (l : label) (exn : string)     (* library code that raises [exn] by itself: fault point *)
| Raise (exn : string)                    (* raise / re-raise *)
| Ret                                     (* return *)
| Open (l : label) (h : string)           (* fault point; when it does not fault, handle h is acquired *)
| Close (l : label) (h : string)          (* releases h, THEN is a fault point (a flush error at close) *)
| Mut (m : string)                        (* the caller's document is changed (pending mutation m) *)
| Restore (m : string)                    (* ... and put back *)
| Seq (a b : cmd)
| Loop (body : cmd)                       (* any number of iterations *)
| Guard (g : string) (a b : cmd)          (* data-dependent branch, named by its test *)
| TryExcept (body : cmd) (exns : list string) (handler : cmd)   (* "*" in exns = catches everything *)
| TryFinally (body fin : cmd)
| With (l : label) (h : string) (body : cmd).

Inductive outcome := Normal | Raised (e : string) | Returned.

(* what the property observes: handles still open, document mutations not undone *)
Record st := mkSt { handles : list string; pending : list string }.

(* the plan: [sites] = static fault sites (a site faults whenever it is reached);
   [fdecs] = positional fault decisions, one consumed per fault point reached (None = no fault);
   [cdecs] = control decisions, one consumed per loop (iteration count) and per branch (0 = else);
   [fired] = some FILE-LAYER fault point (Op / Open / Close / With) has raised so far *)
Record plan := mkPlan { fdecs : list (option string); cdecs : list nat; fired : bool }.

Fixpoint remove1 (h : string) (l : list string) : list string :=
  match l with
  | [] => []
  | x :: r => if String.eqb h x then r else x :: remove1 h r
  end.

Definition acquire (h : string) (s : st) : st := mkSt (h :: handles s) (pending s).
Definition release (h : string) (s : st) : st := mkSt (remove1 h (handles s)) (pending s).
Definition mutate (m : string) (s : st) : st := mkSt (handles s) (m :: pending s).
Definition restore (m : string) (s : st) : st := mkSt (handles s) (remove1 m (pending s)).

(* decision at a fault point *)
Definition fault_dec (sites : label -> option string) (l : label) (p : plan) : option string * plan :=
  match sites l with
  | Some e => (Some e, mkPlan (fdecs p) (cdecs p) true)
  | None => match fdecs p with
            | [] => (None, p)
            | None :: r => (None, mkPlan r (cdecs p) (fired p))
            | Some e :: r => (Some e, mkPlan r (cdecs p) true)
            end
  end.

Definition ctl_dec (p : plan) : nat * plan :=
  match cdecs p with
  | [] => (0, p)
  | n :: r => (n, mkPlan (fdecs p) r (fired p))
  end.

Definition catches (exns : list string) (e : string) : bool :=
  existsb (String.eqb e) exns || existsb (String.eqb "*") exns.

Section Exec.
  Variable sites : label -> option string.

  Fixpoint exec (c : cmd) (p : plan) (s : st) {struct c} : outcome * st * plan :=
    match c with
    | Skip => (Normal, s, p)
    | Op l _ => let '(d, p1) := fault_dec sites l p in
                match d with Some e => (Raised e, s, p1) | None => (Normal, s, p1) end
    | MayRaise l e => let '(d, p1) := fault_dec sites l p in
                      let p2 := mkPlan (fdecs p1) (cdecs p1) (fired p) in   (* not a file-layer fault *)
                      match d with Some _ => (Raised e, s, p2) | None => (Normal, s, p2) end
    | Raise e => (Raised e, s, p)
    | Ret => (Returned, s, p)
    | Open l h => let '(d, p1) := fault_dec sites l p in
                  match d with Some e => (Raised e, s, p1) | None => (Normal, acquire h s, p1) end
    | Close l h => let '(d, p1) := fault_dec sites l p in
                   match d with Some e => (Raised e, release h s, p1) | None => (Normal, release h s, p1) end
    | Mut m => (Normal, mutate m s, p)
    | Restore m => (Normal, restore m s, p)
    | Seq a b => let '(o, s1, p1) := exec a p s in
                 match o with Normal => exec b p1 s1 | _ => (o, s1, p1) end
    | Loop body =>
        let '(n, p0) := ctl_dec p in
        (fix iter (n : nat) (p : plan) (s : st) {struct n} : outcome * st * plan :=
           match n with
           | O => (Normal, s, p)
           | S n' => let '(o, s1, p1) := exec body p s in
                     match o with Normal => iter n' p1 s1 | _ => (o, s1, p1) end
           end) n p0 s
    | Guard _ a b => let '(n, p0) := ctl_dec p in
                     match n with O => exec b p0 s | S _ => exec a p0 s end
    | TryExcept body exns handler =>
        let '(o, s1, p1) := exec body p s in
        match o with
        | Raised e => if catches exns e then exec handler p1 s1 else (o, s1, p1)
        | _ => (o, s1, p1)
        end
    | TryFinally body fin =>
        let '(o, s1, p1) := exec body p s in
        let '(o2, s2, p2) := exec fin p1 s1 in
        match o2 with Normal => (o, s2, p2) | _ => (o2, s2, p2) end
    | With l h body =>
        let '(d, p1) := fault_dec sites l p in
        match d with
        | Some e => (Raised e, s, p1)
        | None => let '(o, s1, p2) := exec body p1 (acquire h s) in (o, release h s1, p2)
        end
    end.
End Exec.

(* a function call: [Returned] at the top level is a normal return *)
Definition run (sites : label -> option string) (c : cmd) (p : plan) (s : st) : outcome * st * plan :=
  let '(o, s1, p1) := exec sites c p s in
  (match o with Returned => Normal | _ => o end, s1, p1).

(* ---------------------------------------------------------------- modes (partial evaluation of guards)
   An entry point is called in a *mode* (e.g. NeuroMLWriter.write with a path and close=True, or with an
   open file object and close=False): the tests over its own parameters are known. *)
Fixpoint lookup_asm (asm : list (string * bool)) (g : string) : option bool :=
  match asm with
  | [] => None
  | (k, v) :: r => if String.eqb k g then Some v else lookup_asm r g
  end.

Fixpoint resolve (asm : list (string * bool)) (c : cmd) : cmd :=
  match c with
  | Seq a b => Seq (resolve asm a) (resolve asm b)
  | Loop b => Loop (resolve asm b)
  | Guard g a b => match lookup_asm asm g with
                   | Some true => resolve asm a
                   | Some false => resolve asm b
                   | None => Guard g (resolve asm a) (resolve asm b)
                   end
  | TryExcept b e h => TryExcept (resolve asm b) e (resolve asm h)
  | TryFinally b f => TryFinally (resolve asm b) (resolve asm f)
  | With l h b => With l h (resolve asm b)
  | _ => c
  end.

(* Seq Skip c  and  Seq c Skip  are c (left behind by resolved guards) *)
Fixpoint tidy (c : cmd) : cmd :=
  match c with
  | Seq a b => match tidy a, tidy b with
               | Skip, b' => b'
               | a', Skip => a'
               | a', b' => Seq a' b'
               end
  | Loop b => Loop (tidy b)
  | Guard g a b => Guard g (tidy a) (tidy b)
  | TryExcept b e h => TryExcept (tidy b) e (tidy h)
  | TryFinally b f => TryFinally (tidy b) (tidy f)
  | With l h b => With l h (tidy b)
  | _ => c
  end.

(* ---------------------------------------------------------------- the discipline *)
(* touches neither handles nor the document, does not return *)
Fixpoint inert (c : cmd) : bool :=
  match c with
  | Skip | Op _ _ | MayRaise _ _ | Raise _ => true
  | Ret | Open _ _ | Close _ _ | Mut _ | Restore _ | With _ _ _ => false
  | Seq a b => inert a && inert b
  | Loop b => inert b
  | Guard _ a b => inert a && inert b
  | TryExcept b _ h => inert b && inert h
  | TryFinally b f => inert b && inert f
  end.

(* fin releases h before anything in it can fail *)
Definition closer (h : string) (fin : cmd) : bool :=
  match fin with
  | Close _ h' => String.eqb h h'
  | Seq (Close _ h') r => String.eqb h h' && inert r
  | _ => false
  end.

Definition restorer (m : string) (fin : cmd) : bool :=
  match fin with
  | Restore m' => String.eqb m m'
  | Seq (Restore m') r => String.eqb m m' && inert r
  | _ => false
  end.

(* a finally block must not return (it would swallow the exception) *)
Fixpoint noret (c : cmd) : bool :=
  match c with
  | Ret => false
  | Seq a b => noret a && noret b
  | Loop b => noret b
  | Guard _ a b => noret a && noret b
  | TryExcept b _ h => noret b && noret h
  | TryFinally b f => noret b && noret f
  | With _ _ b => noret b
  | _ => true
  end.

(* every Open is a With or is immediately followed by a try/finally whose finally closes it;
   every Mut is immediately followed by a try/finally whose finally restores it *)
Fixpoint safe (c : cmd) : bool :=
  match c with
  | Skip | Op _ _ | MayRaise _ _ | Raise _ | Ret => true
  | Open _ _ | Close _ _ | Mut _ | Restore _ => false
  | Seq a b =>
      match a with
      | Open _ h =>
          match b with
          | TryFinally body fin => safe body && closer h fin
          | Seq (TryFinally body fin) rest => safe body && closer h fin && safe rest
          | _ => false
          end
      | Mut m =>
          match b with
          | TryFinally body fin => safe body && restorer m fin
          | Seq (TryFinally body fin) rest => safe body && restorer m fin && safe rest
          | _ => false
          end
      | _ => safe a && safe b
      end
  | Loop b => safe b
  | Guard _ a b => safe a && safe b
  | TryExcept b _ h => safe b && safe h
  | TryFinally b f => safe b && safe f && noret f
  | With _ _ b => safe b
  end.

Definition in_mode (mode : list (string * bool)) (c : cmd) : cmd := tidy (resolve mode c).
Definition safe_in (mode : list (string * bool)) (c : cmd) : bool := safe (in_mode mode c).

(* ---------------------------------------------------------------- reporting discipline
   A failure must reach the caller: an except clause that can catch an injected file-layer error must
   end by raising; a finally block must not return (noret, above). *)
Fixpoint ends_raise (c : cmd) : bool :=
  match c with
  | Raise _ => true
  | Seq _ b => ends_raise b
  | _ => false
  end.

(* no fault point of the Op/Open/Close/With kind inside (such a body can only raise what MayRaise names) *)
Fixpoint no_file_ops (c : cmd) : bool :=
  match c with
  | Op _ _ | Open _ _ | Close _ _ | With _ _ _ => false
  | Seq a b => no_file_ops a && no_file_ops b
  | Loop b => no_file_ops b
  | Guard _ a b => no_file_ops a && no_file_ops b
  | TryExcept b _ h => no_file_ops b && no_file_ops h
  | TryFinally b f => no_file_ops b && no_file_ops f
  | _ => true
  end.

Fixpoint reports (c : cmd) : bool :=
  match c with
  | Seq a b => reports a && reports b
  | Loop b => reports b
  | Guard _ a b => reports a && reports b
  | TryExcept b _ h => reports b && reports h && ((ends_raise h && noret h) || no_file_ops b)
  | TryFinally b f => reports b && reports f && noret f
  | With _ _ b => reports b
  | _ => true
  end.

Definition reports_in (mode : list (string * bool)) (c : cmd) : bool := reports (in_mode mode c).

(* an entry of the generated table: (name:mode, the mode's known tests, skeleton) *)
Definition entry := (string * list (string * bool) * cmd)%type.
Definition entry_ok (e : entry) : bool := let '(_, m, c) := e in safe_in m c && reports_in m c.

(* ---------------------------------------------------------------- iteration state inside the document
   A container of the document that is its own iterator (hdf5/NetworkContainer.OptimizedList) keeps the position
   in a field.  An export that fails in the middle of such a container leaves that field behind; this is invisible
   - the document is still "as it was" - exactly when every iteration starts by resetting every field an
   iteration modifies.  Row: (class, fields stored by __next__ / later in __iter__, fields reset to a constant by
   the leading statements of __iter__). *)
Definition iter_row := (string * list string * list string)%type.
Definition mem_str (f : string) (l : list string) : bool := existsb (String.eqb f) l.
Definition iter_row_ok (r : iter_row) : bool := let '(_, m, z) := r in forallb (fun f => mem_str f z) m.
Definition iter_ok (t : list iter_row) : bool := forallb iter_row_ok t.

(* container state: field -> value; an iteration starts with [rewind] *)
Definition cstate := string -> nat.
Definition rewind (z : list string) (s : cstate) : cstate := fun f => if mem_str f z then 0 else s f.

(* ---------------------------------------------------------------- used by the correspondence run *)
Definition no_sites : label -> option string := fun _ => None.
Definition one_site (l : label) (e : string) : label -> option string :=
  fun l' => if String.eqb l l' then Some e else None.
Definition plan0 (cd : list nat) : plan := mkPlan [] cd false.
Definition st0 : st := mkSt [] [].

Inductive okind := KNormal | KRaised.
Definition kind_of (o : outcome) : okind := match o with Raised _ => KRaised | _ => KNormal end.

(* prediction for "the statement at site l raises e", under control decisions cd:
   (did the site fire, outcome kind, handles left open, mutations left pending) *)
Definition predict (c : cmd) (l : label) (e : string) (cd : list nat) : bool * okind * list string * list string :=
  let '(o, s, p) := run (one_site l e) c (plan0 cd) st0 in
  (fired p, kind_of o, handles s, pending s).

Definition predict_nofault (c : cmd) (cd : list nat) : okind * list string * list string :=
  let '(o, s, p) := run no_sites c (plan0 cd) st0 in (kind_of o, handles s, pending s).

(* all labels of fault points, in textual order *)
Fixpoint sites_of (c : cmd) : list label :=
  match c with
  | Op l _ | MayRaise l _ | Open l _ | Close l _ => [l]
  | Seq a b => (sites_of a ++ sites_of b)%list
  | Loop b => sites_of b
  | Guard _ a b => (sites_of a ++ sites_of b)%list
  | TryExcept b _ h => (sites_of b ++ sites_of h)%list
  | TryFinally b f => (sites_of b ++ sites_of f)%list
  | With l _ b => l :: sites_of b
  | _ => []
  end.

(* ---------------------------------------------------------------- collecting semantics (correspondence only)
   All results of runs in which exactly the fault points labelled [site] raise [e], every branch is explored
   both ways and every loop runs 0 or 1 times.  Used by the correspondence run to predict what a real
   injected fault at a given statement must leave behind; no theorem depends on it. *)
Definition conf := (outcome * st * bool)%type.    (* bool: a file-layer fault has fired *)

Fixpoint strs_eqb (a b : list string) : bool :=
  match a, b with
  | [], [] => true
  | x :: a', y :: b' => String.eqb x y && strs_eqb a' b'
  | _, _ => false
  end.

Definition outcome_eqb (a b : outcome) : bool :=
  match a, b with
  | Normal, Normal | Returned, Returned => true
  | Raised x, Raised y => String.eqb x y
  | _, _ => false
  end.

Definition conf_eqb (a b : conf) : bool :=
  let '(o1, s1, f1) := a in let '(o2, s2, f2) := b in
  outcome_eqb o1 o2 && strs_eqb (handles s1) (handles s2) && strs_eqb (pending s1) (pending s2) && Bool.eqb f1 f2.

Fixpoint dedup (l : list conf) : list conf :=
  match l with
  | [] => []
  | x :: r => let r' := dedup r in if existsb (conf_eqb x) r' then r' else x :: r'
  end.

Section NExec.
  Variable site : label.
  Variable exn : string.

  Fixpoint nexec (c : cmd) (s : st) (f : bool) {struct c} : list conf :=
    match c with
    | Skip => [(Normal, s, f)]
    | Op l _ => if String.eqb l site then [(Raised exn, s, true)] else [(Normal, s, f)]
    | MayRaise l e => if String.eqb l site then [(Raised e, s, f)] else [(Normal, s, f)]
    | Raise e => [(Raised e, s, f)]
    | Ret => [(Returned, s, f)]
    | Open l h => if String.eqb l site then [(Raised exn, s, true)] else [(Normal, acquire h s, f)]
    | Close l h => if String.eqb l site then [(Raised exn, release h s, true)] else [(Normal, release h s, f)]
    | Mut m => [(Normal, mutate m s, f)]
    | Restore m => [(Normal, restore m s, f)]
    | Seq a b =>
        dedup (flat_map (fun x : conf => let '(o, s1, f1) := x in
                           match o with Normal => nexec b s1 f1 | _ => [x] end) (nexec a s f))
    | Loop body => dedup ((Normal, s, f) :: nexec body s f)
    | Guard _ a b => dedup (nexec a s f ++ nexec b s f)%list
    | TryExcept body exns handler =>
        dedup (flat_map (fun x : conf => let '(o, s1, f1) := x in
                           match o with
                           | Raised e => if catches exns e then nexec handler s1 f1 else [x]
                           | _ => [x]
                           end) (nexec body s f))
    | TryFinally body fin =>
        dedup (flat_map (fun x : conf => let '(o, s1, f1) := x in
                           map (fun y : conf => let '(o2, s2, f2) := y in
                                  (match o2 with Normal => o | _ => o2 end, s2, f2)) (nexec fin s1 f1))
                        (nexec body s f))
    | With l h body =>
        if String.eqb l site then [(Raised exn, s, true)]
        else map (fun x : conf => let '(o, s1, f1) := x in (o, release h s1, f1)) (nexec body (acquire h s) f)
    end.
End NExec.

(* what a fault at [site] can leave behind: (raised?, handles left open, mutations pending) *)
Definition predictions (c : cmd) (site : label) (exn : string) : list (bool * list string * list string) :=
  flat_map (fun x : conf => let '(o, s, f) := x in
              if f then [(match o with Raised _ => true | _ => false end, handles s, pending s)] else [])
           (nexec site exn c st0 false).

(* the same without any fault *)
Definition predictions_nofault (c : cmd) : list (bool * list string * list string) :=
  map (fun x : conf => let '(o, s, f) := x in (match o with Raised _ => true | _ => false end, handles s, pending s))
      (nexec "" "" c st0 false).

(* an observation on the real implementation: (raised?, number of handles left open, document changed?) *)
Definition obs := (bool * nat * bool)%type.
Definition is_nil {A} (l : list A) : bool := match l with [] => true | _ => false end.
Definition agrees (o : obs) (p : bool * list string * list string) : bool :=
  let '(r, n, ch) := o in let '(r', hs, ms) := p in
  Bool.eqb r r' && Nat.eqb n (length hs) && Bool.eqb ch (negb (is_nil ms)).

(* a case: the chain of entry points on the traceback, outermost first - each a skeleton (already in its mode)
   with the candidate site labels of the statement the exception passed through -, the exception, the observation.
   An inner entry point is a single fault point of the outer skeleton (it is verified on its own), so what is
   left behind is the sum over the chain; whether the call raised is decided by the outermost. *)
Definition part := (cmd * list label)%type.
Definition fcase := (list part * string * obs)%type.

Definition abs_pred (p : bool * list string * list string) : obs :=
  let '(r, hs, ms) := p in (r, length hs, negb (is_nil ms)).

Definition part_preds (e : string) (p : part) : list obs :=
  let '(c, sites) := p in
  match sites with
  | [] => map abs_pred (predictions_nofault c)
  | _ => flat_map (fun l => map abs_pred (predictions c l e)) sites
  end.

Fixpoint combos (e : string) (ps : list part) : list obs :=
  match ps with
  | [] => []
  | [p] => part_preds e p
  | p :: rest =>
      flat_map (fun x : obs => let '(r, n, ch) := x in
                  map (fun y : obs => let '(_, n', ch') := y in (r, n + n', ch || ch')) (combos e rest))
               (part_preds e p)
  end.

Definition obs_eqb (a b : obs) : bool :=
  let '(r, n, ch) := a in let '(r', n', ch') := b in Bool.eqb r r' && Nat.eqb n n' && Bool.eqb ch ch'.

Definition case_ok (k : fcase) : bool :=
  let '(ps, e, o) := k in existsb (obs_eqb o) (combos e ps).

Fixpoint mismatches_from (i : nat) (l : list fcase) : list nat :=
  match l with
  | [] => []
  | k :: r => if case_ok k then mismatches_from (S i) r else i :: mismatches_from (S i) r
  end.
Definition mismatches (l : list fcase) : list nat := mismatches_from 0 l.

(* ---------------------------------------------------------------- truncated XML (token level)
   The state machine of an XML reader over the token stream of a file: before the root element, inside
   it (stack of open tags), after it.  A document is accepted iff the reader ends in RAfter: exactly one
   root element, every tag closed by its own name, no text or element outside the root. *)
Inductive token := TOpen (t : string) | TClose (t : string) | TText (s : string).
Inductive rstate := RBefore | RInside (stack : list string) | RAfter | RError.

Definition rstep (s : rstate) (tk : token) : rstate :=
  match s with
  | RBefore => match tk with TOpen t => RInside [t] | _ => RError end
  | RInside stack =>
      match tk with
      | TOpen t => RInside (t :: stack)
      | TText _ => match stack with [] => RError | _ => RInside stack end
      | TClose t => match stack with
                    | [] => RError
                    | t' :: stack' => if String.eqb t t'
                                      then match stack' with [] => RAfter | _ => RInside stack' end
                                      else RError
                    end
      end
  | RAfter => RError
  | RError => RError
  end.

Definition reader (d : list token) : rstate := fold_left rstep d RBefore.
Definition wellformed1 (d : list token) : bool := match reader d with RAfter => true | _ => false end.

(* ---------------------------------------------------------------- how the XML parser is constructed
   Row: (function, parser constructor, lax settings found: recover=..., **kwargs, html parser).  A strict parser
   accepts exactly the well-formed single-rooted token streams; a recovering one also accepts a stream that
   stops inside the root (libxml2 closes the open elements). *)
Definition parser_row := (string * string * list string)%type.
Definition parser_strict (t : list parser_row) : bool :=
  match t with [] => false | _ => forallb (fun r : parser_row => match snd r with [] => true | _ => false end) t end.

Definition accepts (recover : bool) (d : list token) : bool :=
  match reader d with
  | RAfter => true
  | RInside _ => recover
  | _ => false
  end.

(* ---------------------------------------------------------------- what the HDF5 layout refuses
   Row: (class whose exportHdf5 raises, the tests / loops guarding the raise, outermost first).  The table read
   off the source must be the reference table the natural-failure documents of the check were written for: a
   refusal that is dropped, weakened (another test) or added shows as a difference. *)
Definition refusal_row := (string * list string)%type.
Fixpoint refusals_eqb (a b : list refusal_row) : bool :=
  match a, b with
  | [], [] => true
  | (c, g) :: a', (c', g') :: b' => String.eqb c c' && strs_eqb g g' && refusals_eqb a' b'
  | _, _ => false
  end.

(* ---------------------------------------------------------------- where the embedded top-level XML lives
   Rows (kind: attr | node | unknown, name).  Every place NeuroMLHdf5Writer.write stores the serialised non-network
   part of the document must be a place NeuroMLHdf5Parser.parse reads and hands to read_neuroml2_string: content
   stored anywhere else is written "successfully" and silently lost on load. *)
Definition place := (string * string)%type.
Definition place_eqb (a b : place) : bool := String.eqb (fst a) (fst b) && String.eqb (snd a) (snd b).
Definition embed_ok (stores reads : list place) : bool :=
  match stores with
  | [] => false
  | _ => forallb (fun w => existsb (place_eqb w) reads) stores
  end.
