(* C20, whole-file part: the generator is re-run as regenerate-nml.sh prescribes on the tree's own sources and both
   the regenerated and the shipped bindings are split into units (owner, member, digest of the docstring- and
   annotation-free AST).  "Regeneration changes nothing" is equality of the two unit lists; the options recorded in the
   shipped header must be the ones the script passes. *)
From Coq Require Import String List Bool.
From LNML Require Import Model.Regen.
Import ListNotations.
Open Scope string_scope.

Definition unit := (string * string * string)%type.   (* owner (class or "<module>"), member, digest *)

Fixpoint units_eqb (a b : list unit) : bool :=
  match a, b with
  | [], [] => true
  | (o1, m1, d1) :: a', (o2, m2, d2) :: b' =>
      String.eqb o1 o2 && String.eqb m1 m2 && String.eqb d1 d2 && units_eqb a' b'
  | _, _ => false
  end.

Definition unit_of (t : list unit) (o m : string) : option string :=
  match find (fun u => String.eqb (fst (fst u)) o && String.eqb (snd (fst u)) m) t with
  | Some u => Some (snd u)
  | None => None
  end.

Definition owners (t : list unit) : list string := map (fun u => fst (fst u)) t.

Record full_facts := {
  ff_regen : list unit;                     (* generateDS re-run now, file order, imports first and sorted *)
  ff_shipped : list unit;                   (* neuroml/nml/nml.py *)
  ff_header_opts : list (string * string);  (* "Command line options" recorded in the shipped header *)
  ff_script_opts : list (string * string)   (* options regenerate-nml.sh passes *)
}.

Definition full_ok (f : full_facts) : bool :=
  units_eqb (ff_regen f) (ff_shipped f) && pairs_eqb (ff_header_opts f) (ff_script_opts f).

(* the units that differ (diagnostic; drives the failing-input report) *)
Definition differing (f : full_facts) : list (string * string) :=
  flat_map (fun u => let '(o, m, d) := u in
              match unit_of (ff_regen f) o m with
              | Some d' => if String.eqb d d' then [] else [(o, m)]
              | None => [(o, m)] end) (ff_shipped f)
  ++ flat_map (fun u => let '(o, m, _) := u in
              match unit_of (ff_shipped f) o m with Some _ => [] | None => [(o, m)] end) (ff_regen f).
