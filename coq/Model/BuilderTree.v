(* C15: the component tree a builder state stands for - the Cell object (Model/Gds.v `obj`) with its Morphology
   (segments with parent / proximal / distal, segment groups with members / includes / notes / neuroLexId) and
   BiophysicalProperties (the membrane / intracellular property components the setters created), field for field in
   the order the generated constructors create them.  On every run the tree dumped from the REAL finished cell (dump
   format of impl/gds_impl.py) is compared with `cell_tree` of the model's final state (Cases_C15_k.v).

   What belongs to the harness and not to the builder is spelled out here: the cell id "c"; the points
   (the k-th segment runs from (k,0,0) to (k+1,0,0), diameter 1); ion channel "pas", conductance density
   "1 mS_per_cm2" and ids "cd<k>" of the channel densities; the table of property value strings. *)
From Coq Require Import String List ZArith Bool.
From LNML Require Import Lib.Dec Lib.Regex Model.Gds Model.GdsExec Model.Groups Model.Builder.
Import ListNotations.
Open Scope string_scope.

(* the strings impl/c15_impl.py passes for property values (index >= 100: strings outside the unit patterns) *)
Definition value_string (k : pkind) (v : Z) : string :=
  if (100 <=? v)%Z then
    (if (v =? 100)%Z then "abc" else if (v =? 101)%Z then "5" else "1 xyz")
  else
  match k with
  | SpikeThresh => if (v =? 0)%Z then "0mV" else if (v =? 1)%Z then "-20 mV" else "10.5mV"
  | InitMembPotential => if (v =? 0)%Z then "-65mV" else if (v =? 1)%Z then "-70.0 mV" else "-0.06V"
  | SpecificCapacitance => if (v =? 0)%Z then "1 uF_per_cm2" else if (v =? 1)%Z then "0.9uF_per_cm2" else "1.0 F_per_m2"
  | Resistivity => if (v =? 0)%Z then "0.1 kohm_cm" else if (v =? 1)%Z then "100 ohm_cm" else "1 ohm_m"
  | ChannelDens => ""
  end.

(* a channel density is numbered v = 100 * k + 10 * ion + erev *)
Definition cd_k (v : Z) : Z := (v / 100)%Z.
Definition cd_ion (v : Z) : string := if ((v / 10) mod 10 =? 0)%Z then "non_specific" else "na".
Definition cd_erev (v : Z) : string := if (v mod 10 =? 0)%Z then "0.0 mV" else "-70 mV".

Definition default_notes (a : string) : option string :=
  if String.eqb a "soma_group" then Some "Default soma segment group for the cell"
  else if String.eqb a "axon_group" then Some "Default axon segment group for the cell"
  else if String.eqb a "dendrite_group" then Some "Default dendrite segment group for the cell"
  else if String.eqb a "all" then Some "Default segment group for all segments in the cell"
  else None.

(* fraction_along in quarters -> the float the constructor stores *)
Definition frac_dec (f : Z) : dec :=
  if (f =? 0)%Z then (0%Z, 0%nat) else if (f =? 1)%Z then (25%Z, 2%nat) else if (f =? 2)%Z then (5%Z, 1%nat)
  else if (f =? 3)%Z then (75%Z, 2%nat) else (1%Z, 0%nat).

Section Tree.
Variable F : Type.
Variable F_of_dec : dec -> F.
Notation value := (value F).
Notation obj := (obj F).

Definition ext : string * value := ("extensiontype_", VNone).
Definition flt (z : Z) : value := VFlt (F_of_dec (z, 0%nat)).
Definition ostr (o : option string) : value := match o with Some s => VStr s | None => VNone end.

Definition point (x : Z) : obj :=
  Obj "Point3DWithDiam" [ext; ("x", flt x); ("y", flt 0); ("z", flt 0); ("diameter", flt 1)].

Definition parent_tree (p f : Z) : obj :=
  Obj "SegmentParent" [ext; ("segments", VInt p); ("fraction_along", VFlt (F_of_dec (frac_dec f)))].

Definition seg_tree (k : Z) (s : seg) : obj :=
  Obj "Segment"
      [ext; ("id", VInt (sid s)); ("name", VStr (sname s)); ("neuro_lex_id", VNone);
       ("parent", match spar s with Some (p, f) => VObj (parent_tree p f) | None => VNone end);
       ("proximal", if sprox s then VObj (point k) else VNone);
       ("distal", VObj (point (k + 1)))].

Fixpoint segs_tree (k : Z) (l : list seg) : list obj :=
  match l with
  | [] => []
  | s :: r => seg_tree k s :: segs_tree (k + 1) r
  end.

Definition member_tree (m : Z) : obj := Obj "Member" [ext; ("segments", VInt m)].
Definition include_tree (i : string) : obj := Obj "Include" [ext; ("segment_groups", VStr i)].

Definition group_tree (g : group) : obj :=
  Obj "SegmentGroup"
      [ext; ("id", VStr (gid g)); ("neuro_lex_id", ostr (nlex g)); ("notes", ostr (default_notes (gid g)));
       ("properties", VObjs []); ("annotation", VNone);
       ("members", VObjs (map member_tree (members g))); ("includes", VObjs (map include_tree (includes g)));
       ("paths", VObjs []); ("sub_trees", VObjs []); ("inhomogeneous_parameters", VObjs [])].

Definition morphology_tree (mid : string) (c : cell) : obj :=
  Obj "Morphology"
      [ext; ("id", VStr mid); ("metaid", VNone); ("notes", VNone); ("properties", VObjs []); ("annotation", VNone);
       ("segments", VObjs (segs_tree 0 (segs c))); ("segment_groups", VObjs (map group_tree (groups c)))].

Definition kind_cls (k : pkind) : string :=
  match k with
  | SpikeThresh => "SpikeThresh" | InitMembPotential => "InitMembPotential"
  | SpecificCapacitance => "SpecificCapacitance" | Resistivity => "Resistivity" | ChannelDens => "ChannelDensity"
  end.

Definition prop_tree (p : prop) : obj :=
  match pk p with
  | ChannelDens =>
    Obj "ChannelDensity"
        [ext; ("id", VStr ("cd" ++ string_of_Z (cd_k (pval p)))); ("ion_channel", VStr "pas");
         ("cond_density", VStr "1 mS_per_cm2"); ("erev", VStr (cd_erev (pval p)));
         ("segment_groups", VStr (pgrp p)); ("segments", VNone); ("ion", VStr (cd_ion (pval p)));
         ("variable_parameters", VObjs [])]
  | k => Obj (kind_cls k) [ext; ("value", VStr (value_string k (pval p))); ("segment_groups", VStr (pgrp p))]
  end.

Definition props_of (k : pkind) (c : cell) : value :=
  VObjs (map prop_tree (filter (fun p => pkind_eqb (pk p) k) (props c))).

Definition membrane_tree (c : cell) : obj :=
  Obj "MembraneProperties"
      [ext; ("channel_populations", VObjs []); ("channel_densities", props_of ChannelDens c);
       ("channel_density_v_shifts", VObjs []); ("channel_density_nernsts", VObjs []);
       ("channel_density_ghks", VObjs []); ("channel_density_ghk2s", VObjs []);
       ("channel_density_non_uniforms", VObjs []); ("channel_density_non_uniform_nernsts", VObjs []);
       ("channel_density_non_uniform_ghks", VObjs []);
       ("spike_threshes", props_of SpikeThresh c); ("specific_capacitances", props_of SpecificCapacitance c);
       ("init_memb_potentials", props_of InitMembPotential c)].

Definition intracellular_tree (c : cell) : obj :=
  Obj "IntracellularProperties" [ext; ("species", VObjs []); ("resistivities", props_of Resistivity c)].

Definition biophys_tree (bid : string) (c : cell) : obj :=
  Obj "BiophysicalProperties"
      [ext; ("id", VStr bid); ("metaid", VNone); ("notes", VNone); ("properties", VObjs []); ("annotation", VNone);
       ("membrane_properties", VObj (membrane_tree c)); ("intracellular_properties", VObj (intracellular_tree c));
       ("extracellular_properties", VNone)].

(* mid / bid: the ids of the Morphology and BiophysicalProperties containers ("morphology" / "biophys" when the
   builder made them, anything when the user did) *)
Definition cell_tree (mid bid : string) (c : cell) : obj :=
  Obj "Cell"
      [ext; ("id", VStr "c"); ("metaid", VNone); ("notes", VNone); ("properties", VObjs []); ("annotation", VNone);
       ("neuro_lex_id", VNone); ("morphology_attr", VNone); ("biophysical_properties_attr", VNone);
       ("morphology", VObj (morphology_tree mid c)); ("biophysical_properties", VObj (biophys_tree bid c))].
End Tree.

(* ---------- what the conformance theorem needs of a state besides valid_cell (decidable) ----------
   segment names printable and parent ids non-negative; neuroLexIds among the four the builder itself uses;
   the `valid` flag of a property entry truthful (its value index lies in the table of valid strings; a channel density
   id "cd<k>" is an NmlId); every list shorter than generateDS's "unbounded" (9999999) *)
Definition nlex_known (o : option string) : bool :=
  match o with
  | None => true
  | Some n => existsb (String.eqb n) [dnlex Soma; dnlex Axon; dnlex Dendrite; section_nlex]
  end.
Definition prop_truthful (p : prop) : bool :=
  match pk p with
  | ChannelDens => nmlid ("cd" ++ string_of_Z (cd_k (pval p)))
  | _ => (0 <=? pval p)%Z && (pval p <? 3)%Z
  end.
Definition small_b {A : Type} (l : list A) : bool := (Z.of_nat (length l) <=? 9999999)%Z.
Definition tree_facets (c : cell) : bool :=
  forallb (fun s => printable (sname s) && match spar s with Some (p, _) => (0 <=? p)%Z | None => true end) (segs c) &&
  forallb (fun g => nlex_known (nlex g) && small_b (members g) && small_b (includes g)) (groups c) &&
  forallb prop_truthful (props c) &&
  small_b (segs c) && small_b (groups c) && small_b (props c).

(* ---------- correspondence: the dumped real cell against cell_tree of the model's finished state ---------- *)
Definition x_cell_tree := cell_tree XF (fun d => d).

Record tree_case := mkTreeCase {
  r_factory : bool; r_ops : list op; r_mid : string; r_bid : string; r_tree : xobj
}.

(* members / includes are compared as multisets (natsort leaves the order of ids with equal keys to set iteration):
   both sides list them in numeric / code-point order *)
Definition canon_group (g : group) : group :=
  mkGroup (gid g) (isortZ (members g)) (isort String.leb (includes g)) (nlex g).
Definition canon_cell (c : cell) : cell := mkCell (segs c) (map canon_group (groups c)) (props c).

Definition tree_ok (r : tree_case) : bool :=
  match run true (r_ops r) (init_of (r_factory r)) with
  | BErr _ => false
  | BRet c => match finish c with
              | BRet c' => obj_eqb (x_cell_tree (r_mid r) (r_bid r) (canon_cell c')) (r_tree r)
              | BErr _ => false
              end
  end.

Definition tree_mismatches (rs : list tree_case) : list nat := idx_where (fun r => negb (tree_ok r)) 0 rs.
