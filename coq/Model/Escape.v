(* C01/C04 text layer: component strings <-> XML text.

   Writer side (mirrors neuroml/nml/nml.py, module level):
     quote_xml_aux   s.replace(c1, r1).replace(c2, r2)...          -> [apply_repl]
     quote_attrib    the same chain, then the choice of delimiter   -> [quote_attrib_of]
     quote_xml       CDATA_pattern_.finditer loop: text outside complete <![CDATA[...]]> sections goes
                     through quote_xml_aux, the sections are copied verbatim  -> [quote_xml_of]
   The replacement tables / quoting decision are parameters: the run regenerates them from the Python
   source (translators/tr_escape.py -> Gen_Escape.v) and an instance obligation states that they are the
   reference tables below, about which the round-trip theorems (Proofs/EscapeP.v) are proved.

   Reader side: a hand-written model of what an XML 1.0 parser (libxml2 via lxml) does to a quoted
   attribute value ([attr_parse]) and to the character data of an element ([text_parse]); tied to lxml by
   the correspondence run of every check.

   Strings are byte strings (Coq [string] = list of [ascii]); UTF-8 multi-byte sequences pass through
   unchanged on both sides (every character either side treats specially is ASCII). *)
From Coq Require Import String Ascii List Bool NArith ZArith.
Import ListNotations.
Open Scope string_scope.

Definition TAB : ascii := ascii_of_nat 9.
Definition LF : ascii := ascii_of_nat 10.
Definition CR : ascii := ascii_of_nat 13.
Definition SP : ascii := " "%char.
Definition DQ : ascii := """"%char.
Definition SQ : ascii := "'"%char.

Definition str1 (c : ascii) : string := String c EmptyString.

(* ------------------------------------------------------------------ str.replace for a 1-char pattern *)
Fixpoint replace_char (c : ascii) (r : string) (s : string) : string :=
  match s with
  | EmptyString => EmptyString
  | String a t => if Ascii.eqb a c then r ++ replace_char c r t else String a (replace_char c r t)
  end.

Definition repl := list (ascii * string).

(* s.replace(c1,r1).replace(c2,r2)... : each replacement sees the output of the previous one *)
Fixpoint apply_repl (l : repl) (s : string) : string :=
  match l with
  | [] => s
  | (c, r) :: l' => apply_repl l' (replace_char c r s)
  end.

Fixpoint contains_char (c : ascii) (s : string) : bool :=
  match s with
  | EmptyString => false
  | String a t => Ascii.eqb a c || contains_char c t
  end.

Definition quote_xml_aux_of (rp : repl) (s : string) : string := apply_repl rp s.

(* ------------------------------------------------------------------ quote_attrib *)
(*  '<d>%s<d>' % s1.replace(..)  : delimiter and the extra replacements applied in that branch *)
Record quote_rule := { qr_delim : ascii; qr_extra : repl }.

(*  if <t1> in s1:  (if <t2> in s1: both  else: first_only)  else: none *)
Record attrib_decision := {
  ad_test1 : ascii;
  ad_test2 : ascii;
  ad_both : quote_rule;
  ad_first_only : quote_rule;
  ad_none : quote_rule }.

Definition wrap (q : quote_rule) (s : string) : string :=
  String (qr_delim q) (apply_repl (qr_extra q) s ++ str1 (qr_delim q)).

Definition quote_attrib_of (rp : repl) (d : attrib_decision) (s : string) : string :=
  let s1 := apply_repl rp s in
  if contains_char (ad_test1 d) s1 then
    if contains_char (ad_test2 d) s1 then wrap (ad_both d) s1 else wrap (ad_first_only d) s1
  else wrap (ad_none d) s1.

(* ------------------------------------------------------------------ quote_xml *)
Definition cdata_open : string := "<![CDATA[".
Definition cdata_close : string := "]]>".

Fixpoint starts_with (p s : string) : bool :=
  match p, s with
  | EmptyString, _ => true
  | String a p', String b s' => Ascii.eqb a b && starts_with p' s'
  | String _ _, EmptyString => false
  end.

Fixpoint has_substr (p s : string) : bool :=
  match s with
  | EmptyString => starts_with p EmptyString
  | String _ t => starts_with p s || has_substr p t
  end.

Fixpoint drop (n : nat) (s : string) : string :=
  match n, s with S n', String _ r => drop n' r | _, _ => s end.

(* the regex  <!\[CDATA\[.*?\]\]>  with DOTALL matches at a position iff the opener is there and a closer
   occurs somewhere after the opener; the (lazy) match then ends with the first such closer *)
Definition cdata_starts (s : string) : bool :=
  starts_with cdata_open s && has_substr cdata_close (drop 9 s).

Inductive qmode :=
| QOut                (* outside a section; [acc] collects the text not yet escaped (s1[pos:mo.start()]) *)
| QCopy (n : nat)     (* inside the opener: n more characters of it to copy *)
| QIn                 (* inside the section, looking for the first closer *)
| QEnd (n : nat).     (* inside the closer: n more characters of it to copy *)

Fixpoint quote_xml_loop (aux : string -> string) (m : qmode) (acc : string) (s : string) : string :=
  match s with
  | EmptyString => match m with QOut => aux acc | _ => EmptyString end
  | String c t =>
    match m with
    | QOut =>
        if cdata_starts s
        then aux acc ++ String c (quote_xml_loop aux (QCopy 8) EmptyString t)
        else quote_xml_loop aux QOut (acc ++ str1 c) t
    | QCopy n =>
        String c (quote_xml_loop aux (match n with S (S k) => QCopy (S k) | _ => QIn end) EmptyString t)
    | QIn =>
        if starts_with cdata_close s
        then String c (quote_xml_loop aux (QEnd 2) EmptyString t)
        else String c (quote_xml_loop aux QIn EmptyString t)
    | QEnd n =>
        String c (quote_xml_loop aux (match n with S (S k) => QEnd (S k) | _ => QOut end) EmptyString t)
    end
  end.

Definition quote_xml_of (rp : repl) (s : string) : string :=
  quote_xml_loop (quote_xml_aux_of rp) QOut EmptyString s.

(* ------------------------------------------------------------------ reference tables *)
Definition ref_attrib_repl : repl :=
  [("&"%char, "&amp;"); ("<"%char, "&lt;"); (">"%char, "&gt;"); (LF, "&#10;")].

Definition ref_attrib_decision : attrib_decision :=
  {| ad_test1 := DQ; ad_test2 := SQ;
     ad_both := {| qr_delim := DQ; qr_extra := [(DQ, "&quot;")] |};
     ad_first_only := {| qr_delim := SQ; qr_extra := [] |};
     ad_none := {| qr_delim := DQ; qr_extra := [] |} |}.

Definition ref_xml_repl : repl :=
  [("&"%char, "&amp;"); ("<"%char, "&lt;"); (">"%char, "&gt;")].

Definition ref_cdata_regex : string := "<!\[CDATA\[.*?\]\]>".
Definition ref_cdata_flags : list string := ["DOTALL"].

(* the statements of quote_xml (ast.unparse normal form, docstring dropped) that [quote_xml_loop] mirrors *)
Definition ref_quote_xml_body : list string :=
  [ "if not inStr: return ''";
    "s1 = isinstance(inStr, BaseStrType_) and inStr or '%s' % inStr";
    "s2 = ''";
    "pos = 0";
    "matchobjects = CDATA_pattern_.finditer(s1)";
    "for mo in matchobjects: s3 = s1[pos:mo.start()]; s2 += quote_xml_aux(s3); s2 += s1[mo.start():mo.end()]; pos = mo.end()";
    "s3 = s1[pos:]";
    "s2 += quote_xml_aux(s3)";
    "return s2" ].

(* '%d' % int(x)  /  int(s) *)
Definition ref_int_format : string := "%d".
Definition ref_int_parse : string := "int".
(* ('%.15f' % float(x)).rstrip('0'), then += '0' when it ends with '.' :  (format, strip, dot, suffix) *)
Definition ref_float_format : string * string * string * string := ("%.15f", "0", ".", "0").
Definition ref_float_parse : string := "float".
(* gds_validate_string: '' for a false value (None / ''), the string itself otherwise *)
Definition ref_validate_string : list string := ["if not input_data: return '' else: return input_data"].

Definition quote_attrib (s : string) : string := quote_attrib_of ref_attrib_repl ref_attrib_decision s.
Definition quote_xml_aux (s : string) : string := quote_xml_aux_of ref_xml_repl s.
Definition quote_xml (s : string) : string := quote_xml_of ref_xml_repl s.
Definition validate_string (s : string) : string := s.

(* ------------------------------------------------------------------ gds_format_float after the '%.15f' step *)
(* str.rstrip(c) for a single character c *)
Fixpoint rstrip_char (c : ascii) (s : string) : string :=
  match s with
  | EmptyString => EmptyString
  | String a t => match rstrip_char c t with
                  | EmptyString => if Ascii.eqb a c then EmptyString else str1 a
                  | t' => String a t'
                  end
  end.

Fixpoint ends_with (p s : string) : bool :=
  String.eqb p s || match s with String _ t => ends_with p t | EmptyString => false end.

(* (format, strip, dot, suffix): value = (format % x).rstrip(strip); if value.endswith(dot): value += suffix.
   The '%.15f' rendering itself is CPython's (trusted); [s15] is that rendering. *)
Definition float_finish_of (ff : string * string * string * string) (s15 : string) : string :=
  let '(_, strip, dot, suffix) := ff in
  match strip with
  | String c EmptyString => let v := rstrip_char c s15 in if ends_with dot v then v ++ suffix else v
  | _ => s15
  end.

(* decidable equality of the tables (used by the instance obligations) *)
Definition pair_eqb (a b : ascii * string) : bool := Ascii.eqb (fst a) (fst b) && String.eqb (snd a) (snd b).
Fixpoint repl_eqb (a b : repl) : bool :=
  match a, b with
  | [], [] => true
  | x :: a', y :: b' => pair_eqb x y && repl_eqb a' b'
  | _, _ => false
  end.
Definition rule_eqb (a b : quote_rule) : bool :=
  Ascii.eqb (qr_delim a) (qr_delim b) && repl_eqb (qr_extra a) (qr_extra b).
Definition decision_eqb (a b : attrib_decision) : bool :=
  Ascii.eqb (ad_test1 a) (ad_test1 b) && Ascii.eqb (ad_test2 a) (ad_test2 b) &&
  rule_eqb (ad_both a) (ad_both b) && rule_eqb (ad_first_only a) (ad_first_only b) &&
  rule_eqb (ad_none a) (ad_none b).

(* ================================================================== reader side: XML 1.0 *)
Definition code (c : ascii) : N := N_of_ascii c.

(* a byte that may occur literally in a document: XML Char restricted to one byte; bytes >= 128 are
   parts of UTF-8 sequences (their well-formedness is not modelled) *)
Definition xml_byte (c : ascii) : bool :=
  let n := code c in (32 <=? n)%N || (n =? 9)%N || (n =? 10)%N || (n =? 13)%N.

(* Char ::= #x9 | #xA | #xD | [#x20-#xD7FF] | [#xE000-#xFFFD] | [#x10000-#x10FFFF] *)
Definition xml_char (n : N) : bool :=
  ((n =? 9) || (n =? 10) || (n =? 13) || ((32 <=? n) && (n <=? 55295)) ||
   ((57344 <=? n) && (n <=? 65533)) || ((65536 <=? n) && (n <=? 1114111)))%N.

Definition byte (n : N) : ascii := ascii_of_N n.

Definition utf8_encode (n : N) : string :=
  (if n <? 128 then str1 (byte n)
   else if n <? 2048 then String (byte (192 + n / 64)) (str1 (byte (128 + n mod 64)))
   else if n <? 65536 then
     String (byte (224 + n / 4096)) (String (byte (128 + (n / 64) mod 64)) (str1 (byte (128 + n mod 64))))
   else
     String (byte (240 + n / 262144)) (String (byte (128 + (n / 4096) mod 64))
       (String (byte (128 + (n / 64) mod 64)) (str1 (byte (128 + n mod 64))))))%N.

Definition dec_digit (c : ascii) : option N :=
  let n := code c in if ((48 <=? n) && (n <=? 57))%N then Some (n - 48)%N else None.

Definition hex_digit (c : ascii) : option N :=
  let n := code c in
  if ((48 <=? n) && (n <=? 57))%N then Some (n - 48)%N
  else if ((65 <=? n) && (n <=? 70))%N then Some (n - 55)%N
  else if ((97 <=? n) && (n <=? 102))%N then Some (n - 87)%N
  else None.

(* [0-9]+ / [0-9a-fA-F]+ to a number; None for an empty string or a foreign character *)
Fixpoint digits_num (base : N) (dig : ascii -> option N) (s : string) (acc : N) (seen : bool) : option N :=
  match s with
  | EmptyString => if seen then Some acc else None
  | String c t => match dig c with
                  | Some d => digits_num base dig t (acc * base + d)%N true
                  | None => None
                  end
  end.

(* what stands between '&' and ';' -> the replacement text *)
Definition decode_ref (name : string) : option string :=
  if String.eqb name "amp" then Some "&"
  else if String.eqb name "lt" then Some "<"
  else if String.eqb name "gt" then Some ">"
  else if String.eqb name "quot" then Some (str1 DQ)
  else if String.eqb name "apos" then Some "'"
  else
    let num := match name with
               | String "#"%char (String "x"%char h) => digits_num 16 hex_digit h 0 false
               | String "#"%char d => digits_num 10 dec_digit d 0 false
               | _ => None
               end in
    match num with
    | Some n => if xml_char n then Some (utf8_encode n) else None
    | None => None
    end.

Definition opt_app (p : string) (o : option string) : option string := option_map (append p) o.
Definition opt_cons (c : ascii) (o : option string) : option string := option_map (String c) o.

(* ---- attribute value: [d] is the delimiter the value was opened with *)
Inductive astate :=
| ANormal (aftercr : bool)     (* aftercr: the previous character was a literal CR (a following LF belongs to it) *)
| ARef (acc : string).         (* between '&' and ';' *)

Fixpoint attr_body (d : ascii) (st : astate) (s : string) : option string :=
  match s with
  | EmptyString => None                                       (* no closing delimiter *)
  | String c t =>
    match st with
    | ARef acc =>
        if Ascii.eqb c d then None
        else if Ascii.eqb c ";"%char then
          match decode_ref acc with
          | Some r => opt_app r (attr_body d (ANormal false) t)
          | None => None
          end
        else attr_body d (ARef (acc ++ str1 c)) t
    | ANormal aftercr =>
        if Ascii.eqb c d then (match t with EmptyString => Some EmptyString | _ => None end)
        else if Ascii.eqb c "&"%char then attr_body d (ARef EmptyString) t
        else if Ascii.eqb c "<"%char then None
        else if Ascii.eqb c CR then opt_cons SP (attr_body d (ANormal true) t)
        else if Ascii.eqb c LF then
          (if aftercr then attr_body d (ANormal false) t       (* CR LF is one line end -> one space *)
           else opt_cons SP (attr_body d (ANormal false) t))
        else if Ascii.eqb c TAB then opt_cons SP (attr_body d (ANormal false) t)
        else if xml_byte c then opt_cons c (attr_body d (ANormal false) t)
        else None
    end
  end.

(* input: the quoted attribute text as it stands after  name=  *)
Definition attr_parse (s : string) : option string :=
  match s with
  | String d t => if Ascii.eqb d DQ || Ascii.eqb d SQ then attr_body d (ANormal false) t else None
  | EmptyString => None
  end.

(* ---- character data of an element (no child elements, comments or processing instructions) *)
Inductive tstate :=
| TNormal (aftercr : bool) (nbr : nat)   (* nbr: number of ']' just seen (saturating at 2): "]]>" is an error *)
| TRef (acc : string)
| TOpen (n : nat)                        (* inside "<![CDATA[": n more characters of it to skip *)
| TCdata (aftercr : bool)
| TClose (n : nat).                      (* inside "]]>": n more characters of it to skip *)

Fixpoint text_body (st : tstate) (s : string) : option string :=
  match s with
  | EmptyString => match st with TNormal _ _ => Some EmptyString | _ => None end
  | String c t =>
    match st with
    | TRef acc =>
        if Ascii.eqb c ";"%char then
          match decode_ref acc with
          | Some r => opt_app r (text_body (TNormal false 0) t)
          | None => None
          end
        else text_body (TRef (acc ++ str1 c)) t
    | TNormal aftercr nbr =>
        if Ascii.eqb c "&"%char then text_body (TRef EmptyString) t
        else if Ascii.eqb c "<"%char then
          (if starts_with cdata_open s then text_body (TOpen 8) t else None)
        else if Ascii.eqb c CR then opt_cons LF (text_body (TNormal true 0) t)
        else if Ascii.eqb c LF then
          (if aftercr then text_body (TNormal false 0) t
           else opt_cons LF (text_body (TNormal false 0) t))
        else if Ascii.eqb c "]"%char then
          opt_cons c (text_body (TNormal false (match nbr with O => 1 | _ => 2 end)) t)
        else if Ascii.eqb c ">"%char then
          (match nbr with S (S _) => None | _ => opt_cons c (text_body (TNormal false 0) t) end)
        else if xml_byte c then opt_cons c (text_body (TNormal false 0) t)
        else None
    | TOpen n => text_body (match n with S (S k) => TOpen (S k) | _ => TCdata false end) t
    | TCdata aftercr =>
        if starts_with cdata_close s then text_body (TClose 2) t
        else if Ascii.eqb c CR then opt_cons LF (text_body (TCdata true) t)
        else if Ascii.eqb c LF then
          (if aftercr then text_body (TCdata false) t else opt_cons LF (text_body (TCdata false) t))
        else if xml_byte c then opt_cons c (text_body (TCdata false) t)
        else None
    | TClose n => text_body (match n with S (S k) => TClose (S k) | _ => TNormal false 0 end) t
    end
  end.

Definition text_parse (s : string) : option string := text_body (TNormal false 0) s.

(* ------------------------------------------------------------------ the strings the theorems speak about *)
Fixpoint forall_chars (p : ascii -> bool) (s : string) : bool :=
  match s with EmptyString => true | String c t => p c && forall_chars p t end.

(* attribute values: every byte except TAB, CR (which any XML parser normalises to a space) and the C0
   controls that are not XML characters at all; in particular < > & and both quote characters and newline
   are allowed *)
Definition attr_safe_char (c : ascii) : bool := (32 <=? code c)%N || Ascii.eqb c LF.
Definition attr_safe (s : string) : bool := forall_chars attr_safe_char s.

(* element text: as above, TAB is allowed as well (only CR is normalised in character data) *)
Definition text_safe_char (c : ascii) : bool := (32 <=? code c)%N || Ascii.eqb c LF || Ascii.eqb c TAB.
Definition text_safe (s : string) : bool := forall_chars text_safe_char s.

(* printable text of the property statement: U+0020..U+007E and newline *)
Definition printable_char (c : ascii) : bool := ((32 <=? code c) && (code c <=? 126))%N || Ascii.eqb c LF.
Definition printable (s : string) : bool := forall_chars printable_char s.

(* "<![CDATA[" does not occur in s *)
Fixpoint no_cdata_open (s : string) : bool :=
  match s with
  | EmptyString => true
  | String _ t => negb (starts_with cdata_open s) && no_cdata_open t
  end.

(* no complete section: no "<![CDATA[" that is followed (after the opener) by "]]>" *)
Fixpoint no_cdata_section (s : string) : bool :=
  match s with
  | EmptyString => true
  | String _ t => negb (cdata_starts s) && no_cdata_section t
  end.

(* ------------------------------------------------------------------ correspondence cases (diffed by the kernel) *)
Definition ostr_eqb (a b : option string) : bool :=
  match a, b with
  | Some x, Some y => String.eqb x y
  | None, None => true
  | _, _ => false
  end.

(* (input, expected output) pairs; result: indices that differ *)
Fixpoint mism_str (f : string -> string) (l : list (string * string)) (i : nat) : list nat :=
  match l with
  | [] => []
  | (x, y) :: r => if String.eqb (f x) y then mism_str f r (S i) else i :: mism_str f r (S i)
  end.

Fixpoint mism_opt (f : string -> option string) (l : list (string * option string)) (i : nat) : list nat :=
  match l with
  | [] => []
  | (x, y) :: r => if ostr_eqb (f x) y then mism_opt f r (S i) else i :: mism_opt f r (S i)
  end.

Fixpoint mism_gen {A B : Type} (eqb : B -> B -> bool) (f : A -> B) (l : list (A * B)) (i : nat) : list nat :=
  match l with
  | [] => []
  | (x, y) :: r => if eqb (f x) y then mism_gen eqb f r (S i) else i :: mism_gen eqb f r (S i)
  end.

Definition oz_eqb (a b : option Z) : bool :=
  match a, b with
  | Some x, Some y => Z.eqb x y
  | None, None => true
  | _, _ => false
  end.
