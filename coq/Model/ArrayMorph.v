(* C18 model: neuroml/arraymorph.py (ArrayMorphology, SegmentList), ArrayMorphWriter (writers.py),
   ArrayMorphLoader (loaders.py).

   Arrays are lists; connectivity is a list Z (parent index, -1 for a root).  numpy indexing is modelled
   with its negative-index wrap-around (pyget/pyset), an out-of-range access is None (IndexError).
   Definitions only; the proofs are in Proofs/ArrayMorphP*.v.

   Where the repaired code (fixes/C18-*.patch) differs from the pinned code both variants are kept:
   the `_orig` definitions mirror the pinned code and carry the `_refuted` theorems. *)
From Coq Require Import String DecimalString List ZArith Bool.
Import ListNotations.
Open Scope Z_scope.

(* ------------------------------------------------------------------ numpy-style indexing *)
Definition zlen {A : Type} (l : list A) : Z := Z.of_nat (length l).

(* a[i] for a Python/numpy integer i: negative indices count from the end *)
Definition pynorm (n i : Z) : option nat :=
  let j := if i <? 0 then i + n else i in
  if (0 <=? j) && (j <? n) then Some (Z.to_nat j) else None.

Definition pyget {A : Type} (l : list A) (i : Z) : option A :=
  match pynorm (zlen l) i with Some k => nth_error l k | None => None end.

Fixpoint set_nth {A : Type} (k : nat) (x : A) (l : list A) : list A :=
  match l, k with
  | [], _ => []
  | _ :: t, O => x :: t
  | a :: t, S k' => a :: set_nth k' x t
  end.

Definition pyset {A : Type} (l : list A) (i : Z) (x : A) : option (list A) :=
  match pynorm (zlen l) i with Some k => Some (set_nth k x l) | None => None end.

(* range(a, a+len) *)
Definition zrange (a : Z) (len : nat) : list Z := map (fun k => a + Z.of_nat k) (seq 0 len).

(* ------------------------------------------------------------------ connectivity *)
Inductive res (A : Type) : Type :=
| Ok (a : A)
| IndexErr            (* IndexError raised by numpy *)
| OutOfFuel.          (* the Python loop does not terminate within `fuel` iterations *)
Arguments Ok {A} a.
Arguments IndexErr {A}.
Arguments OutOfFuel {A}.

(* root_index:  np.where(self.connectivity == -1)[0][0] *)
Fixpoint find_root_from (k : Z) (c : list Z) : option Z :=
  match c with
  | [] => None
  | x :: t => if x =? -1 then Some k else find_root_from (k + 1) t
  end.
Definition root_index (c : list Z) : option Z := find_root_from 0 c.

(* all indices with connectivity == -1 *)
Definition roots (c : list Z) : list Z :=
  filter (fun v => match pyget c v with Some p => p =? -1 | None => false end) (zrange 0 (length c)).

Definition parent_id (c : list Z) (i : Z) : option Z := pyget c i.

(* children(index): np.where(self.connectivity == index) *)
Definition children (c : list Z) (i : Z) : list Z :=
  filter (fun v => match pyget c v with Some p => p =? i | None => false end) (zrange 0 (length c)).

(* the while loop of to_root; state = (connectivity, index, parent_index, grandparent_index)
     while index != old_root_index:
         self.connectivity[parent_index] = index
         index = parent_index
         parent_index = grandparent_index
         grandparent_index = self.connectivity[parent_index]                                   *)
Fixpoint to_root_loop (fuel : nat) (c : list Z) (old_root index parent grand : Z) : res (list Z) :=
  if index =? old_root then Ok c
  else match fuel with
       | O => OutOfFuel
       | S f =>
         match pyset c parent index with
         | None => IndexErr
         | Some c1 =>
           match pyget c1 grand with
           | None => IndexErr
           | Some gg => to_root_loop f c1 old_root parent grand gg
           end
         end
       end.

(* to_root(index); fuel = len(connectivity) *)
Definition to_root (c : list Z) (index : Z) : res (list Z) :=
  match root_index c with
  | None => IndexErr
  | Some old_root =>
    match pyget c index with
    | None => IndexErr
    | Some parent =>
      match pyget c parent with
      | None => IndexErr
      | Some grand =>
        match to_root_loop (length c) c old_root index parent grand with
        | Ok c1 => match pyset c1 index (-1) with Some c2 => Ok c2 | None => IndexErr end
        | e => e
        end
      end
    end
  end.

(* m.to_root(i1); m.to_root(i2); ... *)
Fixpoint to_root_seq (c : list Z) (indices : list Z) : res (list Z) :=
  match indices with
  | [] => Ok c
  | i :: t => match to_root c i with Ok c1 => to_root_seq c1 t | e => e end
  end.

(* two morphologies built from the same arrays, re-rooted in any interleaving: each is a value of its own *)
Inductive who : Type := MA | MB.

Fixpoint run_two (cA cB : list Z) (ops : list (who * Z)) : res (list Z * list Z) :=
  match ops with
  | [] => Ok (cA, cB)
  | (MA, i) :: t => match to_root cA i with
                    | Ok c => run_two c cB t
                    | IndexErr => IndexErr
                    | OutOfFuel => OutOfFuel
                    end
  | (MB, i) :: t => match to_root cB i with
                    | Ok c => run_two cA c t
                    | IndexErr => IndexErr
                    | OutOfFuel => OutOfFuel
                    end
  end.

Definition ops_of (w : who) (ops : list (who * Z)) : list Z :=
  map snd (filter (fun o => match fst o, w with MA, MA => true | MB, MB => true | _, _ => false end) ops).

(* the undirected edges {v, parent v} of the non-root vertices, each as (min, max) *)
Definition undirected_edges (c : list Z) : list (Z * Z) :=
  flat_map (fun v => match pyget c v with
                     | Some p => if p =? -1 then [] else [(Z.min v p, Z.max v p)]
                     | None => []
                     end) (zrange 0 (length c)).

(* executable tree check: entries are -1 or valid indices, one root, every vertex climbs to a root *)
Definition zget (c : list Z) (v : Z) : option Z :=
  if (0 <=? v) && (v <? zlen c) then nth_error c (Z.to_nat v) else None.

(* strict indexing (no wrap-around), any element type *)
Definition sget {A : Type} (l : list A) (v : Z) : option A :=
  if (0 <=? v) && (v <? zlen l) then nth_error l (Z.to_nat v) else None.

(* the vertices that have a parent *)
Definition non_root_vertices (c : list Z) : list Z :=
  filter (fun v => match zget c v with Some p => negb (p =? -1) | None => false end) (zrange 0 (length c)).

Fixpoint climbs (fuel : nat) (c : list Z) (v : Z) : bool :=
  match fuel with
  | O => false
  | S f => match zget c v with
           | None => false
           | Some p => if p =? -1 then true else climbs f c p
           end
  end.

Definition tree_parentb (c : list Z) : bool :=
  (length (roots c) =? 1)%nat && forallb (climbs (length c) c) (zrange 0 (length c)).

Definition bind {A B : Type} (x : option A) (f : A -> option B) : option B :=
  match x with Some a => f a | None => None end.

(* a Python loop that raises as soon as one element raises *)
Fixpoint sequence {A : Type} (l : list (option A)) : option (list A) :=
  match l with
  | [] => Some []
  | x :: t => bind x (fun a => bind (sequence t) (fun r => Some (a :: r)))
  end.

(* ------------------------------------------------------------------ morphologies and their views *)
Section Morph.
  Variable V : Type.    (* one row of the vertices array: (x, y, z, d) *)

  Record amorph : Type := {
    am_id : option string;
    am_vertices : list V;
    am_conn : list Z;
    am_mask : list bool         (* physical_mask, True = floating *)
  }.

  Record segment : Type := {
    sg_id : Z;
    sg_prox : V;                (* "proximal" := the vertex itself   (arraymorph.py:198) *)
    sg_dist : V;                (* "distal"   := its parent vertex   (arraymorph.py:200) *)
    sg_parent : option Z        (* SegmentParent.segments, set only if index > 1 *)
  }.

  (* ArrayMorphology.__init__: physical_mask = np.array(mask) if np.any(mask) else zeros(len(connectivity)) *)
  Definition mk_amorph (id : option string) (vertices : list V) (conn : list Z) (mask : option (list bool)) : amorph :=
    {| am_id := id; am_vertices := vertices; am_conn := conn;
       am_mask := match mask with
                  | Some k => if existsb (fun b => b) k then k else repeat false (length conn)
                  | None => repeat false (length conn)
                  end |}.

  (* valid_morphology (the constructor's assertion; every row has 4 columns by the type V) *)
  Definition valid_morphology (m : amorph) : bool :=
    (length (am_vertices m) =? length (am_conn m))%nat.

  (* segment_from_vertex_index *)
  Definition segment_from_vertex_index (m : amorph) (index : Z) : option segment :=
    match pyget (am_conn m) index with
    | None => None
    | Some p =>
      match pyget (am_vertices m) index with
      | None => None
      | Some nv =>
        match pyget (am_vertices m) p with
        | None => None
        | Some pv => Some {| sg_id := index; sg_prox := nv; sg_dist := pv;
                             sg_parent := if 1 <? index then Some p else None |}
        end
      end
    end.

  (* np.where(physical_mask == False)[0] *)
  Fixpoint where_false (k : Z) (mask : list bool) : list Z :=
    match mask with
    | [] => []
    | b :: t => if b then where_false (k + 1) t else k :: where_false (k + 1) t
    end.

  (* SegmentList.__vertex_index_from_segment_index__ *)
  Definition vertex_index_from_segment_index (m : amorph) (k : Z) : option Z :=
    pyget (map (fun j => j + 1) (where_false 0 (am_mask m))) k.

  Definition count_true (mask : list bool) : Z := zlen (filter (fun b => b) mask).

  (* SegmentList.__len__ *)
  Definition num_segments (m : amorph) : Z :=
    Z.max 0 (zlen (am_vertices m) - count_true (am_mask m) - 1).

  (* SegmentList.__getitem__ on a morphology without instantiated segments *)
  Definition segment_at (m : amorph) (k : Z) : option segment :=
    match vertex_index_from_segment_index m k with
    | None => None
    | Some v => segment_from_vertex_index m v
    end.

  (* [m.segments[k] for k in range(len(m.segments))] *)
  Definition segments_view (m : amorph) : list (option segment) :=
    map (segment_at m) (zrange 0 (Z.to_nat (num_segments m))).

  (* to_neuroml_morphology, pinned code:   for index in range(self.num_vertices - 1)  *)
  Definition to_neuroml_morphology_orig (m : amorph) : list (option segment) :=
    map (segment_from_vertex_index m) (zrange 0 (Z.to_nat (zlen (am_vertices m) - 1))).

  (* to_neuroml_morphology, repaired code: for index in range(1, self.num_vertices)   *)
  Definition to_neuroml_morphology (m : amorph) : list (option segment) :=
    map (segment_from_vertex_index m) (zrange 1 (Z.to_nat (zlen (am_vertices m) - 1))).

  (* the segment the property asks for at a non-root vertex v: end points are row v and row parent(v) of the
     vertices array, read with strict (non-wrapping) indices *)
  Definition expected_segment (m : amorph) (v : Z) : option segment :=
    match zget (am_conn m) v with
    | None => None
    | Some p =>
      match sget (am_vertices m) v, sget (am_vertices m) p with
      | Some nv, Some pv => Some {| sg_id := v; sg_prox := nv; sg_dist := pv;
                                    sg_parent := if 1 <? v then Some p else None |}
      | _, _ => None
      end
    end.

  (* mask all False and as long as the arrays: what the constructor builds when no mask is given *)
  Definition no_floating (m : amorph) : bool :=
    negb (existsb (fun b => b) (am_mask m)) && (length (am_mask m) =? length (am_vertices m))%nat.

  (* ---------------------------------------------------------------- the file format *)
  Inductive arr : Type :=
  | AVerts (l : list V)
  | AConn (l : list Z)
  | AMask (l : list bool).

  Definition path := list string.

  Record adoc : Type := {
    d_cells : list (option string * amorph);     (* (cell.id, cell.morphology) *)
    d_morphs : list amorph                       (* document.morphology *)
  }.

  Definition str_of_nat (n : nat) : string := NilEmpty.string_of_uint (Nat.to_uint n).

  Inductive wres (S : Type) : Type :=
  | WOk (s : S)
  | WNodeError              (* tables.NodeError: a child of that name exists *)
  | WUnbound.               (* UnboundLocalError: `cell` *)
  Arguments WOk {S} s.
  Arguments WNodeError {S}.
  Arguments WUnbound {S}.

  Section Store.
    (* PyTables, as used by the writer and the loader *)
    Variable store : Type.
    Variable st_empty : store.                                          (* open_file(mode="w") *)
    Variable st_mkgroup : store -> path -> string -> option store.      (* create_group(where, name) *)
    Variable st_mkarray : store -> path -> string -> arr -> option store. (* create_array(where, name, obj) *)
    Variable st_children : store -> path -> list string.                (* iteration over a group *)
    Variable st_read : store -> path -> option arr.                     (* node[:] *)

    (* the three create_array calls of __write_single_cell *)
    Definition write_arrays (s0 : store) (p : path) (m : amorph) : option store :=
      bind (st_mkarray s0 p "vertices"%string (AVerts (am_vertices m))) (fun s1 =>
      bind (st_mkarray s1 p "connectivity"%string (AConn (am_conn m))) (fun s2 =>
      st_mkarray s2 p "physical_mask"%string (AMask (am_mask m)))).

    Definition group_name (m : amorph) : string :=
      match am_id m with None => "Morphology"%string | Some i => i end.

    (* __write_single_cell *)
    Definition write_single (s : store) (m : amorph) (cell_id : option string) : option store :=
      let name := group_name m in
      match cell_id with
      | None => bind (st_mkgroup s [] name) (fun s1 => write_arrays s1 [name] m)
      | Some cid => bind (st_mkgroup s [] cid) (fun s1 =>
                    bind (st_mkgroup s1 [cid] name) (fun s2 => write_arrays s2 [cid; name] m))
      end.

    Definition with_default_id (m : amorph) (k : nat) : amorph :=
      match am_id m with
      | Some _ => m
      | None => {| am_id := Some ("Morphology" ++ str_of_nat k)%string; am_vertices := am_vertices m;
                   am_conn := am_conn m; am_mask := am_mask m |}
      end.

    Definition cell_name (cid : option string) (k : nat) : string :=
      match cid with Some i => i | None => ("Cell" ++ str_of_nat k)%string end.

    (* first loop of __write_neuroml_document; also returns the loop variable `cell` (its id) *)
    Fixpoint write_cells (s : store) (k : nat) (last : option string) (cells : list (option string * amorph))
      : option (store * option string) :=
      match cells with
      | [] => Some (s, last)
      | (cid, m) :: t =>
        let cid' := cell_name cid k in
        bind (write_single s (with_default_id m k) (Some cid')) (fun s1 =>
        write_cells s1 (S k) (Some cid') t)
      end.

    (* second loop, repaired code:  cls.__write_single_cell(morphology, fileh) *)
    Fixpoint write_morphs (s : store) (k : nat) (ms : list amorph) : option store :=
      match ms with
      | [] => Some s
      | m :: t => bind (write_single s (with_default_id m k) None) (fun s1 => write_morphs s1 (S k) t)
      end.

    (* second loop, pinned code:    cls.__write_single_cell(morphology, fileh, cell_id=cell.id) *)
    Fixpoint write_morphs_orig (s : store) (k : nat) (last : option string) (ms : list amorph) : wres store :=
      match ms with
      | [] => WOk s
      | m :: t =>
        match last with
        | None => WUnbound
        | Some cid =>
          match write_single s (with_default_id m k) (Some cid) with
          | None => WNodeError
          | Some s1 => write_morphs_orig s1 (S k) last t
          end
        end
      end.

    Definition write_document (d : adoc) : option store :=
      bind (write_cells st_empty 0 None (d_cells d)) (fun sl => write_morphs (fst sl) 0 (d_morphs d)).

    Definition write_document_orig (d : adoc) : wres store :=
      match write_cells st_empty 0 None (d_cells d) with
      | None => WNodeError
      | Some (s, last) => write_morphs_orig s 0 last (d_morphs d)
      end.

    (* ArrayMorphWriter.write(data) for an ArrayMorphology *)
    Definition write_morphology (m : amorph) : option store := write_single st_empty m None.

    (* ArrayMorphLoader.__extract_morphology *)
    Definition extract (s : store) (p : path) : option amorph :=
      match st_read s (p ++ ["physical_mask"%string]), st_read s (p ++ ["vertices"%string]),
            st_read s (p ++ ["connectivity"%string]) with
      | Some (AMask k), Some (AVerts v), Some (AConn c) =>
        Some {| am_id := None; am_vertices := v; am_conn := c; am_mask := k |}
      | _, _, _ => None
      end.

    (* ArrayMorphLoader.load:  for node in file.root: if hasattr(node, "vertices") ... else for morphology in node *)
    Definition load (s : store) : option (list amorph) :=
      bind (sequence (map (fun name =>
              if existsb (String.eqb "vertices"%string) (st_children s [name])
              then bind (extract s [name]) (fun m => Some [m])
              else sequence (map (fun mn => extract s [name; mn]) (st_children s [name])))
            (st_children s []))) (fun ll => Some (concat ll)).
  End Store.

  (* ---------------------------------------------------------------- the reference store PyTables is assumed to refine
     (and the one the cases files evaluate): node path -> item, group path -> names of its children in creation
     order; iteration over a group yields the names in sorted order *)
  Inductive item : Type := IGroup | IArr (a : arr).

  Record fstore : Type := {
    f_item : path -> option item;
    f_names : path -> list string
  }.

  Fixpoint path_eqb (a b : path) : bool :=
    match a, b with
    | [], [] => true
    | x :: a', y :: b' => String.eqb x y && path_eqb a' b'
    | _, _ => false
    end.

  Fixpoint insert_name (x : string) (l : list string) : list string :=
    match l with
    | [] => [x]
    | y :: t => if String.leb x y then x :: l else y :: insert_name x t
    end.
  Definition sort_names (l : list string) : list string := fold_right insert_name [] l.

  Definition f_empty : fstore := {| f_item := fun _ => None; f_names := fun _ => [] |}.

  Definition f_is_group (s : fstore) (p : path) : bool :=
    match p with
    | [] => true
    | _ => match f_item s p with Some IGroup => true | _ => false end
    end.

  Definition f_upd (s : fstore) (p : path) (n : string) (it : item) : fstore :=
    {| f_item := fun q => if path_eqb q (p ++ [n]) then Some it else f_item s q;
       f_names := fun q => if path_eqb q p then (f_names s p ++ [n])%list else f_names s q |}.

  (* create_group / create_array: the parent must be a group, the name must be new (else NodeError) *)
  Definition f_create (s : fstore) (p : path) (n : string) (it : item) : option fstore :=
    if f_is_group s p && negb (existsb (String.eqb n) (f_names s p)) then Some (f_upd s p n it) else None.

  Definition f_mkgroup (s : fstore) (p : path) (n : string) : option fstore := f_create s p n IGroup.
  Definition f_mkarray (s : fstore) (p : path) (n : string) (a : arr) : option fstore := f_create s p n (IArr a).
  Definition f_read (s : fstore) (p : path) : option arr :=
    match f_item s p with Some (IArr a) => Some a | _ => None end.
  (* iteration order as a parameter (the theorems hold for every order that is a permutation) *)
  Definition f_children (order : list string -> list string) (s : fstore) (p : path) : list string :=
    order (f_names s p).

  Definition l_write_document := write_document fstore f_empty f_mkgroup f_mkarray.
  Definition l_write_document_orig := write_document_orig fstore f_empty f_mkgroup f_mkarray.
  Definition l_write_morphology := write_morphology fstore f_empty f_mkgroup f_mkarray.
  Definition l_load := load fstore (f_children sort_names) f_read.

  (* the top-level group names the writer creates for a document, in creation order *)
  Fixpoint cell_top_names (k : nat) (cells : list (option string * amorph)) : list string :=
    match cells with
    | [] => []
    | (cid, _) :: t => cell_name cid k :: cell_top_names (S k) t
    end.
  Fixpoint morph_top_names (k : nat) (ms : list amorph) : list string :=
    match ms with
    | [] => []
    | m :: t => group_name (with_default_id m k) :: morph_top_names (S k) t
    end.
  Definition top_names (d : adoc) : list string :=
    (cell_top_names 0 (d_cells d) ++ morph_top_names 0 (d_morphs d))%list.
  (* the names of the morphology groups inside the cell groups *)
  Fixpoint cell_morph_names (k : nat) (cells : list (option string * amorph)) : list string :=
    match cells with
    | [] => []
    | (_, m) :: t => group_name (with_default_id m k) :: cell_morph_names (S k) t
    end.

  (* what a loaded morphology keeps of a written one: the three arrays (ids are not stored) *)
  Definition strip (m : amorph) : amorph :=
    {| am_id := None; am_vertices := am_vertices m; am_conn := am_conn m; am_mask := am_mask m |}.
  Definition doc_morphologies (d : adoc) : list amorph := (map snd (d_cells d) ++ d_morphs d)%list.

  (* write then load: what test_write_expected / the property observe *)
  Inductive rt : Type :=
  | RtOk (ms : list amorph)
  | RtNodeError | RtUnbound | RtLoadError.

  Definition roundtrip_document (d : adoc) : rt :=
    match l_write_document d with
    | None => RtNodeError
    | Some s => match l_load s with Some ms => RtOk ms | None => RtLoadError end
    end.

  Definition roundtrip_document_orig (d : adoc) : rt :=
    match l_write_document_orig d with
    | WNodeError => RtNodeError
    | WUnbound => RtUnbound
    | WOk s => match l_load s with Some ms => RtOk ms | None => RtLoadError end
    end.

  Definition roundtrip_morphology (m : amorph) : rt :=
    match l_write_morphology m with
    | None => RtNodeError
    | Some s => match l_load s with Some ms => RtOk ms | None => RtLoadError end
    end.
End Morph.

Arguments am_id {V} a.
Arguments am_vertices {V} a.
Arguments am_conn {V} a.
Arguments am_mask {V} a.
Arguments sg_id {V} s.
Arguments sg_prox {V} s.
Arguments sg_dist {V} s.
Arguments sg_parent {V} s.
Arguments d_cells {V} a.
Arguments d_morphs {V} a.
Arguments WOk {S} s.
Arguments WNodeError {S}.
Arguments WUnbound {S}.

(* ------------------------------------------------------------------ the file a path held before.
   ArrayMorphWriter.write does  tables.open_file(filepath, mode="w"):  the store the writer starts from is the empty one
   whatever the path held (Gen_C18 / Inst_C18 check the mode of every open_file call on each run).  A history is a
   list of write(data, path) calls on ONE path, each followed by a load. *)
Section History.
  Variable V : Type.
  Inductive hitem : Type := HDoc (d : adoc V) | HMorph (m : amorph V).

  Definition open_file_w (held_before : fstore V) : fstore V := f_empty V.

  Definition write_then_load (file : fstore V) (x : hitem) : option (fstore V) * rt V :=
    let w := match x with
             | HDoc d => write_document V (fstore V) (open_file_w file) (f_mkgroup V) (f_mkarray V) d
             | HMorph m => write_morphology V (fstore V) (open_file_w file) (f_mkgroup V) (f_mkarray V) m
             end in
    match w with
    | None => (None, RtNodeError V)
    | Some s => (Some s, match l_load V s with Some ms => RtOk V ms | None => RtLoadError V end)
    end.

  (* a failed write leaves a partially written file; its content does not matter for what follows *)
  Fixpoint roundtrip_history (file : fstore V) (xs : list hitem) : list (rt V) :=
    match xs with
    | [] => []
    | x :: t => let r := write_then_load file x in
                snd r :: roundtrip_history (match fst r with Some s => s | None => file end) t
    end.

  Definition roundtrip_item (x : hitem) : rt V :=
    match x with HDoc d => roundtrip_document V d | HMorph m => roundtrip_morphology V m end.
End History.
Arguments HDoc {V} d.
Arguments HMorph {V} m.

(* ------------------------------------------------------------------ static facts read from the source on every run
   (translators/tr_c18.py): the mode of every open_file call of writer and loader, and the attributes the two classes
   of arraymorph.py ever assign on self (the model computes every view from the CURRENT arrays: no derived state) *)
Definition all_in (known l : list string) : bool := forallb (fun x => existsb (String.eqb x) known) l.

Definition c18_static_ok (writer_modes loader_modes segmentlist_writes arraymorph_writes : list string)
           (writer_open_guarded : bool) : bool :=
  (* every open_file of the writer is a `with` item or is immediately followed by try/finally: close() *)
  writer_open_guarded &&
  match writer_modes with [] => false | _ => forallb (String.eqb "w"%string) writer_modes end
  && match loader_modes with [] => false | _ => forallb (String.eqb "r"%string) loader_modes end
  && all_in ["arraymorph"; "instantiated_segments"]%string segmentlist_writes
  && all_in ["connectivity"; "vertices"; "id"; "physical_mask"; "node_types"; "fractions_along"; "segments"]%string
            arraymorph_writes.

(* ------------------------------------------------------------------ comparison helpers for the generated cases files
   (vertex rows with integer coordinates) *)
Definition vtx : Type := (Z * Z * Z * Z)%type.

Definition vtx_eqb (a b : vtx) : bool :=
  match a, b with (x1, y1, z1, d1), (x2, y2, z2, d2) => (x1 =? x2) && (y1 =? y2) && (z1 =? z2) && (d1 =? d2) end.

Fixpoint list_eqb {A : Type} (e : A -> A -> bool) (a b : list A) : bool :=
  match a, b with
  | [], [] => true
  | x :: a', y :: b' => e x y && list_eqb e a' b'
  | _, _ => false
  end.

Definition opt_eqb {A : Type} (e : A -> A -> bool) (a b : option A) : bool :=
  match a, b with
  | Some x, Some y => e x y
  | None, None => true
  | _, _ => false
  end.

Definition res_eqb (a b : res (list Z)) : bool :=
  match a, b with
  | Ok x, Ok y => list_eqb Z.eqb x y
  | IndexErr, IndexErr => true
  | OutOfFuel, OutOfFuel => true
  | _, _ => false
  end.

Definition seg_eqb (a b : segment vtx) : bool :=
  (sg_id a =? sg_id b) && vtx_eqb (sg_prox a) (sg_prox b) && vtx_eqb (sg_dist a) (sg_dist b)
  && opt_eqb Z.eqb (sg_parent a) (sg_parent b).

Definition amorph_eqb (a b : amorph vtx) : bool :=
  opt_eqb String.eqb (am_id a) (am_id b) && list_eqb vtx_eqb (am_vertices a) (am_vertices b)
  && list_eqb Z.eqb (am_conn a) (am_conn b) && list_eqb Bool.eqb (am_mask a) (am_mask b).

Definition rt_eqb (a b : rt vtx) : bool :=
  match a, b with
  | RtOk _ x, RtOk _ y => list_eqb amorph_eqb x y
  | RtNodeError _, RtNodeError _ => true
  | RtUnbound _, RtUnbound _ => true
  | RtLoadError _, RtLoadError _ => true
  | _, _ => false
  end.

(* indices of the cases on which `ok` is false *)
Fixpoint mism_from {A : Type} (k : nat) (ok : A -> bool) (l : list A) : list nat :=
  match l with
  | [] => []
  | x :: t => if ok x then mism_from (S k) ok t else k :: mism_from (S k) ok t
  end.
Definition mismatches {A : Type} (ok : A -> bool) (l : list A) : list nat := mism_from 0 ok l.

(* one case of each kind: input and the implementation's output *)
Definition to_root_case_ok (x : list Z * list Z * res (list Z)) : bool :=
  match x with (c, is, r) => res_eqb (to_root_seq c is) r end.

(* view case: morphology, len(m.segments), [m.segments[k]] (None = IndexError) *)
Definition view_case_ok (x : amorph vtx * Z * list (option (segment vtx))) : bool :=
  match x with
  | (m, n, view) => (num_segments vtx m =? n) && list_eqb (opt_eqb seg_eqb) (segments_view vtx m) view
  end.

(* conversion case: morphology, to_neuroml_morphology().segments (None = IndexError) *)
Definition conv_case_ok (conv : amorph vtx -> list (option (segment vtx)))
           (x : amorph vtx * option (list (segment vtx))) : bool :=
  match x with (m, cv) => opt_eqb (list_eqb seg_eqb) (sequence (conv m)) cv end.

(* frame case: two morphologies A, B built from the same vertex/connectivity arrays, an interleaved list of to_root
   calls; the implementation's final connectivities, the CALLER's connectivity array afterwards, both segment views
   and both conversions.  In the model the input is a value: after any operations it is still `c`. *)
Definition frame_case_ok
           (x : list vtx * list Z * list (who * Z) * res (list Z * list Z) * list Z
                * (list (option (segment vtx)) * list (option (segment vtx)))
                * (option (list (segment vtx)) * option (list (segment vtx)))) : bool :=
  match x with
  | (vs, c, ops, r, caller_after, (vA, vB), (kA, kB)) =>
    list_eqb Z.eqb c caller_after &&
    match run_two c c ops, r with
    | Ok (a, b), Ok (a', b') =>
      let mA := mk_amorph vtx None vs a None in
      let mB := mk_amorph vtx None vs b None in
      list_eqb Z.eqb a a' && list_eqb Z.eqb b b'
      && list_eqb (opt_eqb seg_eqb) (segments_view vtx mA) vA
      && list_eqb (opt_eqb seg_eqb) (segments_view vtx mB) vB
      && opt_eqb (list_eqb seg_eqb) (sequence (to_neuroml_morphology vtx mA)) kA
      && opt_eqb (list_eqb seg_eqb) (sequence (to_neuroml_morphology vtx mB)) kB
    | IndexErr, IndexErr => true
    | OutOfFuel, OutOfFuel => true
    | _, _ => false
    end
  end.

Definition doc_case_ok (w : adoc vtx -> rt vtx) (x : adoc vtx * rt vtx) : bool :=
  match x with (d, r) => rt_eqb (w d) r end.

Definition history_case_ok (x : list (hitem vtx) * list (rt vtx)) : bool :=
  match x with (xs, rs) => list_eqb rt_eqb (roundtrip_history vtx (f_empty vtx) xs) rs end.

Definition morph_case_ok (x : amorph vtx * rt vtx) : bool :=
  match x with (m, r) => rt_eqb (roundtrip_morphology vtx m) r end.

(* ------------------------------------------------------------------ the theorems' hypotheses as executable checks: the cases
   files evaluate them on every generated input and compare with the harness's own classification *)
Fixpoint nodup_strb (l : list string) : bool :=
  match l with
  | [] => true
  | x :: t => negb (existsb (String.eqb x) t) && nodup_strb t
  end.

Definition to_root_domb (c : list Z) (indices : list Z) : bool :=
  tree_parentb c && forallb (fun i => (0 <=? i) && (i <? zlen c)) indices.

Definition view_domb {V : Type} (m : amorph V) : bool :=
  no_floating V m && valid_morphology V m && tree_parentb (am_conn m)
  && match root_index (am_conn m) with Some r => r =? 0 | None => false end.

Definition doc_domb {V : Type} (d : adoc V) : bool :=
  nodup_strb (top_names V d) && negb (existsb (String.eqb "vertices"%string) (cell_morph_names V 0 (d_cells d))).

Definition to_root_dom_case_ok (x : list Z * list Z * bool) : bool :=
  match x with (c, is, flag) => Bool.eqb (to_root_domb c is) flag end.
Definition view_dom_case_ok (x : amorph vtx * bool) : bool :=
  match x with (m, flag) => Bool.eqb (view_domb m) flag end.
Definition doc_dom_case_ok (x : adoc vtx * bool) : bool :=
  match x with (d, flag) => Bool.eqb (doc_domb d) flag end.
