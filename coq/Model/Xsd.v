(* Model of XML Schema validation for the constructs the NeuroML schema uses, over the infoset of Model/Gds.v;
   schema conformance of component trees; and the decidable agreement predicates between the binding tables
   (Gen_Bindings.T, Gen_Validate.V) and the schema (Gen_Schema.S).
   The schema tables are regenerated on every run by translators/tr_schema.py.  Definitions only.

   Covered: complex types by extension (base content then own content), attributes (required / optional / fixed,
   no undeclared ones), simple types as restrictions of string, anyURI, float, double, nonNegativeInteger,
   positiveInteger with enumeration / pattern / min-max facets, content models built from element, sequence, choice,
   all, any(skip) with occurrence bounds, matched by Brzozowski derivatives (complete for any content model, no
   determinism assumption).  Not covered (absent from this schema; the translator aborts on them): simpleContent,
   mixed content, identity constraints, substitution groups, xsi:type, attribute wildcards, list/union types. *)
From Coq Require Import String Ascii List ZArith Bool Arith.
From LNML Require Import Lib.Dec Lib.Regex Model.Gds Model.Validate.
Import ListNotations.
Open Scope string_scope.
Open Scope nat_scope.

(* ---------------------------------------------------------------- tables *)
Inductive prim := PString | PAnyURI | PFloat | PDouble | PNonNegInt | PPosInt.

Record stype := {
  st_name : string;
  st_prim : prim;
  st_enums : list string;          (* [] : no enumeration facet *)
  st_pats : list cre;              (* pattern facets of one restriction step: alternatives *)
  st_facets : list (fkind * dec)
}.

Record xattr := { xa_name : string; xa_type : string; xa_req : bool; xa_default : option string; xa_fixed : option string }.

Inductive particle :=
| PElem (tag ty : string) (lo : nat) (hi : option nat)
| PSeq (l : list particle)
| PChoice (lo : nat) (hi : option nat) (l : list particle)
| PAll (l : list particle)
| PAny (lo : nat) (hi : option nat).

Record ctype := { ct_name : string; ct_base : option string; ct_attrs : list xattr; ct_content : option particle }.

Record schema := { s_ctypes : list ctype; s_stypes : list stype; s_root_tag : string; s_root_type : string }.

Fixpoint find_ct (l : list ctype) (c : string) : option ctype :=
  match l with [] => None | k :: r => if String.eqb (ct_name k) c then Some k else find_ct r c end.
Fixpoint find_st (l : list stype) (n : string) : option stype :=
  match l with [] => None | k :: r => if String.eqb (st_name k) n then Some k else find_st r n end.
Fixpoint find_xa (l : list xattr) (n : string) : option xattr :=
  match l with [] => None | k :: r => if String.eqb (xa_name k) n then Some k else find_xa r n end.

(* derived type first *)
Fixpoint ct_chain (fuel : nat) (l : list ctype) (c : string) : list ctype :=
  match fuel with
  | O => []
  | S f => match find_ct l c with
           | None => []
           | Some k => k :: match ct_base k with Some b => ct_chain f l b | None => [] end
           end
  end.
(* base type first: the order in which an extension concatenates attributes and content *)
Definition chain_bf (S : schema) (c : string) : list ctype :=
  rev (ct_chain (Datatypes.S (length (s_ctypes S))) (s_ctypes S) c).
Definition eff_attrs (S : schema) (c : string) : list xattr := flat_map ct_attrs (chain_bf S c).
Definition eff_parts (S : schema) (c : string) : list particle :=
  flat_map (fun k => match ct_content k with Some p => [p] | None => [] end) (chain_bf S c).

(* ---------------------------------------------------------------- content models *)
Fixpoint alts (l : list tre) : tre := match l with [] => Emp | r :: t => Alt r (alts t) end.
Fixpoint cats (l : list tre) : tre := match l with [] => Eps | r :: t => Cat r (cats t) end.

(* xs:all is not a regular expression of moderate size; it is matched by all_match below and may only be the
   whole content of a type *)
Fixpoint particle_re (p : particle) : tre :=
  match p with
  | PElem tag _ lo hi => occurs_re lo hi (Sym (Some tag))
  | PSeq l => cats (map particle_re l)
  | PChoice lo hi l => occurs_re lo hi (alts (map particle_re l))
  | PAll _ => Emp
  | PAny lo hi => occurs_re lo hi (Sym None)
  end.

(* element declarations in document order *)
Fixpoint pelems (p : particle) : list (string * string) :=
  match p with
  | PElem tag ty _ _ => [(tag, ty)]
  | PSeq l => flat_map pelems l
  | PChoice _ _ l => flat_map pelems l
  | PAll l => flat_map pelems l
  | PAny _ _ => []
  end.
Definition ptags (p : particle) : list string := map fst (pelems p).

Fixpoint has_any (p : particle) : bool :=
  match p with
  | PElem _ _ _ _ => false
  | PSeq l => existsb has_any l
  | PChoice _ _ l => existsb has_any l
  | PAll l => existsb has_any l
  | PAny _ _ => true
  end.

Fixpoint count_tag (t : string) (l : list string) : nat :=
  match l with [] => O | x :: r => (if String.eqb x t then 1 else 0) + count_tag t r end.

(* xs:all of elements occurring at most once each *)
Definition all_match (l : list particle) (tags : list string) : bool :=
  forallb (fun t => mem t (flat_map ptags l)) tags &&
  forallb (fun p => match p with
                    | PElem tag _ lo (Some 1) => Nat.leb lo (count_tag tag tags) && Nat.leb (count_tag tag tags) 1
                    | _ => false
                    end) l.

Definition content_ok (ps : list particle) (tags : list string) : bool :=
  match ps with
  | [PAll l] => all_match l tags
  | _ => match_tags (cats (map particle_re ps)) tags
  end.

(* the declared type of a child element (Element Declarations Consistent: the first declaration decides) *)
Definition decl_of (ps : list particle) (tag : string) : option string := lookup tag (flat_map pelems ps).

Section Xsd.
Variable F : Type.
Variable F_eqb : F -> F -> bool.
Variable F_ltb : F -> F -> bool.
Variable F_of_dec : dec -> F.
Variable parse_float : string -> option F.
Variable finite : F -> bool.               (* not inf / nan *)

Notation value := (value F).
Notation obj := (obj F).

(* ---------------------------------------------------------------- simple types *)
Definition facet_ok (x : F) (fd : fkind * dec) : bool :=
  let y := F_of_dec (snd fd) in
  match fst fd with
  | FMinIncl => negb (F_ltb x y)
  | FMinExcl => negb (F_ltb x y || F_eqb x y)
  | FMaxIncl => negb (F_ltb y x)
  | FMaxExcl => negb (F_ltb y x || F_eqb x y)
  end.

(* value-space membership of a float for a float/double-based simple type *)
Definition float_ok (st : stype) (x : F) : bool :=
  finite x &&
  forallb (facet_ok x) (st_facets st) &&
  match st_enums st with
  | [] => true
  | es => existsb (fun e => match parse_dec e with Some d => F_eqb x (F_of_dec d) | None => false end) es
  end.

Definition string_ok (st : stype) (s : string) : bool :=
  match st_enums st with [] => true | es => mem s es end &&
  match st_pats st with [] => true | ps => existsb (fun r => match_string r s) ps end.

(* xs:anyURI: only the references free of  % : # [ ]  (relative paths) are in the model's lexical space; for these
   libxml2's structural URI check has nothing to object (the remaining cases are outside the model, see C02.md) *)
Definition uri_char_ok (c : ascii) : bool :=
  let n := nat_of_ascii c in
  negb (Nat.eqb n 37 || Nat.eqb n 58 || Nat.eqb n 35 || Nat.eqb n 91 || Nat.eqb n 93).
Fixpoint uri_simple (s : string) : bool :=
  match s with EmptyString => true | String c r => uri_char_ok c && uri_simple r end.

Definition int_ok (p : prim) (z : Z) : bool :=
  match p with PNonNegInt => (0 <=? z)%Z | PPosInt => (0 <? z)%Z | _ => false end.

(* the lexical representation s is valid for the simple type *)
Definition lex_ok (st : stype) (s : string) : bool :=
  match st_prim st with
  | PString => string_ok st s
  | PAnyURI => uri_simple s && string_ok st s
  | PFloat | PDouble => match parse_float s with Some x => float_ok st x | None => false end
  | PNonNegInt | PPosInt => match parse_int s with Some z => int_ok (st_prim st) z | None => false end
  end.

Definition lex_ok_named (S : schema) (ty : string) (s : string) : bool :=
  match find_st (s_stypes S) ty with Some st => lex_ok st s | None => false end.

(* ---------------------------------------------------------------- elements *)
Definition attrs_valid (S : schema) (decl : list xattr) (attrs : list (string * string)) : bool :=
  forallb (fun a => negb (xa_req a) || match lookup (xa_name a) attrs with Some _ => true | None => false end) decl &&
  forallb (fun nv => match find_xa decl (fst nv) with
                     | None => false
                     | Some a => lex_ok_named S (xa_type a) (snd nv) &&
                                 match xa_fixed a with Some v => String.eqb v (snd nv) | None => true end
                     end) attrs.

(* an element whose declared type is a simple type *)
Definition simple_elem_ok (S : schema) (ty : string) (x : xml) : bool :=
  match x_attrs x, x_kids x with
  | [], [] => lex_ok_named S ty (x_text x)
  | _, _ => false
  end.

(* character content of an element of a complex type: none if the content type is empty, white space only if it is
   element-only (this schema has neither simple nor mixed content) *)
Fixpoint all_ws (s : string) : bool :=
  match s with
  | EmptyString => true
  | String c r => let n := nat_of_ascii c in
                  (Nat.eqb n 32 || Nat.eqb n 9 || Nat.eqb n 10 || Nat.eqb n 13) && all_ws r
  end.
Definition text_ok (ps : list particle) (t : string) : bool :=
  match ps with [] => String.eqb t "" | _ => all_ws t end.

(* x is a valid element of complex type c (its own tag is the parent's business) *)
Fixpoint xsd_valid (fuel : nat) (S : schema) (c : string) (x : xml) : bool :=
  match fuel with
  | O => false
  | Datatypes.S f =>
    match find_ct (s_ctypes S) c with
    | None => false
    | Some _ =>
      let ps := eff_parts S c in
      attrs_valid S (eff_attrs S c) (x_attrs x) &&
      text_ok ps (x_text x) &&
      content_ok ps (map x_tag (x_kids x)) &&
      forallb (fun k => match decl_of ps (x_tag k) with
                        | Some ty => match find_ct (s_ctypes S) ty with
                                     | Some _ => xsd_valid f S ty k
                                     | None => simple_elem_ok S ty k
                                     end
                        | None => existsb has_any ps          (* matched by a skip wildcard: not assessed *)
                        end) (x_kids x)
    end
  end.

(* a whole document: the root element is the declared global element *)
Definition xsd_valid_doc (fuel : nat) (S : schema) (x : xml) : bool :=
  String.eqb (x_tag x) (s_root_tag S) && xsd_valid fuel S (s_root_type S) x.

(* ---------------------------------------------------------------- conformance of component trees
   read through the names the binding tables T give to attributes and children *)
Definition gds_unbounded : Z := 9999999%Z.   (* generateDS writes max_occurs=9999999 for "unbounded" *)

Definition kind_prim_ok (k : akind) (p : prim) : bool :=
  match k, p with
  | KStr, PString | KStr, PAnyURI | KInt, PNonNegInt | KInt, PPosInt | KFloat, PFloat | KDouble, PDouble => true
  | _, _ => false
  end.

(* the member value lies in the value space of the attribute's simple type *)
Definition value_ok (S : schema) (a : xattr) (v : value) : bool :=
  match find_st (s_stypes S) (xa_type a) with
  | None => false
  | Some st =>
    match st_prim st, v with
    | PString, VStr s =>
      printable s && string_ok st s && match xa_fixed a with Some f => String.eqb f s | None => true end
    | PAnyURI, VStr s =>
      printable s && string_ok st s && match xa_fixed a with Some f => String.eqb f s | None => true end && uri_simple s
    | PFloat, VFlt x | PDouble, VFlt x => float_ok st x && match xa_fixed a with Some _ => false | None => true end
    | PNonNegInt, VInt z | PPosInt, VInt z => int_ok (st_prim st) z && match xa_fixed a with Some _ => false | None => true end
    | _, _ => false
    end
  end.

Definition vcount (v : value) : nat :=
  match v with
  | VNone => 0
  | VObjs l => length l
  | VRaw l => length l
  | _ => 1
  end.

Definition find_ek_tag (t : string) (l : list exp_kid) := find (fun e => String.eqb (ek_tag e) t) l.

(* number of children of o written under the tag *)
Definition cnt_of (o : obj) (EK : list exp_kid) (t : string) : nat :=
  match find_ek_tag t EK with Some e => vcount (field o (ek_py e)) | None => 0 end.

(* cardinalities and choices, independent of any order among the children *)
Fixpoint counts_ok (cnt : string -> nat) (p : particle) : bool :=
  match p with
  | PElem tag _ lo hi => Nat.leb lo (cnt tag) && match hi with Some h => Nat.leb (cnt tag) h | None => true end
  | PSeq l => forallb (counts_ok cnt) l
  | PAll l => forallb (counts_ok cnt) l
  | PChoice lo hi l =>
    match lo, hi with
    | 1, Some 1 =>      (* exactly one alternative is taken: every child outside it is absent *)
      existsb (fun q => counts_ok cnt q &&
                        forallb (fun t => mem t (ptags q) || Nat.eqb (cnt t) 0) (flat_map ptags l)) l
    | _, _ =>           (* repeated choice among single elements / fixed groups of single elements *)
      let times (q : particle) : option nat :=
        match q with
        | PElem t _ 1 (Some 1) => Some (cnt t)
        | PSeq (PElem t _ 1 (Some 1) :: r) =>
          if forallb (fun e => match e with PElem u _ 1 (Some 1) => Nat.eqb (cnt u) (cnt t) | _ => false end) r
          then Some (cnt t) else None
        | _ => None
        end in
      let total := fold_right (fun q acc => match times q, acc with Some a, Some b => Some (a + b) | _, _ => None end)
                              (Some 0) l in
      match total with
      | Some n => Nat.leb lo n && match hi with Some h => Nat.leb n h | None => true end
      | None => false
      end
    end
  | PAny _ _ => true
  end.

(* an attribute member: absent only if optional (and never for a member the constructor gives a default), else in
   the value space of its type *)
Definition attr_conf (S : schema) (o : obj) (XA : list xattr) (ea : exp_attr) : bool :=
  match find_xa XA (ea_xml ea), lookup (ea_py ea) (o_fields F o) with
  | Some a, Some VNone => negb (xa_req a) && match ea_guard ea with GNotNone => true | GNe _ => false end
  | Some a, Some v => value_ok S a v
  | _, _ => false
  end.

(* a child member: components of exactly the declared type, each conforming (rec); text in the declared simple type *)
Definition kid_conf (S : schema) (rec : obj -> bool) (o : obj) (PS : list particle) (ek : exp_kid) : bool :=
  match lookup (ek_py ek) (o_fields F o) with
  | None => false
  | Some v =>
    (Z.of_nat (vcount v) <=? gds_unbounded)%Z &&
    match ek_kind ek, v with
    | CAny, VRaw [] => true
    | CText, VNone => true
    | CText, VStr s => printable s &&
                       match decl_of PS (ek_tag ek) with Some ty => lex_ok_named S ty s | None => false end
    | CObj, VNone => true
    | CObj, VObj o' =>
      match decl_of PS (ek_tag ek) with
      | Some ty => String.eqb (o_cls F o') ty && rec o'
      | None => false
      end
    | CObjList, VObjs l =>
      match decl_of PS (ek_tag ek) with
      | Some ty => forallb (fun o' => String.eqb (o_cls F o') ty && rec o') l
      | None => false
      end
    | _, _ => false
    end
  end.

(* nothing but the exported child members holds components *)
Definition holder_ok (EK : list exp_kid) (nv : string * value) : bool :=
  mem (fst nv) (map ek_py EK) || match snd nv with VObj _ => false | VObjs (_ :: _) => false | _ => true end.

Section Conforms.
Variable good : string -> bool.      (* classes for which the theorem's agreement obligations hold *)

Fixpoint conformsb (fuel : nat) (T : tables) (S : schema) (o : obj) : bool :=
  match fuel with
  | O => false
  | Datatypes.S f =>
    let c := o_cls F o in
    match find_cls T c, find_ct (s_ctypes S) c with
    | Some _, Some _ =>
      let EK := exp_kids_of (cfuel T) T c in
      let PS := eff_parts S c in
      good c &&
      forallb (attr_conf S o (eff_attrs S c)) (exp_attrs_of (cfuel T) T c) &&
      forallb (kid_conf S (conformsb f T S) o PS) EK &&
      forallb (counts_ok (cnt_of o EK)) PS &&
      forallb (holder_ok EK) (o_fields F o)
    | _, _ => false
    end
  end.

End Conforms.

End Xsd.

Arguments lex_ok {F} F_eqb F_ltb F_of_dec parse_float finite st s.
Arguments lex_ok_named {F} F_eqb F_ltb F_of_dec parse_float finite S ty s.
Arguments float_ok {F} F_eqb F_ltb F_of_dec finite st x.
Arguments facet_ok {F} F_eqb F_ltb F_of_dec x fd.
Arguments attrs_valid {F} F_eqb F_ltb F_of_dec parse_float finite S decl attrs.
Arguments simple_elem_ok {F} F_eqb F_ltb F_of_dec parse_float finite S ty x.
Arguments xsd_valid {F} F_eqb F_ltb F_of_dec parse_float finite fuel S c x.
Arguments xsd_valid_doc {F} F_eqb F_ltb F_of_dec parse_float finite fuel S x.
Arguments value_ok {F} F_eqb F_ltb F_of_dec finite S a v.
Arguments vcount {F} v.
Arguments cnt_of {F} o EK t.
Arguments conformsb {F} F_eqb F_ltb F_of_dec parse_float finite good fuel T S o.
Arguments attr_conf {F} F_eqb F_ltb F_of_dec finite S o XA ea.
Arguments kid_conf {F} F_eqb F_ltb F_of_dec parse_float finite S rec o PS ek.
Arguments holder_ok {F} EK nv.

(* ---------------------------------------------------------------- agreement between bindings and schema
   (decidable; evaluated on the generated tables by vm_compute in the per-run instance files) *)
Definition prim_is_string (p : prim) : bool := match p with PString | PAnyURI => true | _ => false end.

Fixpoint strs_eqb (a b : list string) : bool :=
  match a, b with
  | [], [] => true
  | x :: r, y :: s => String.eqb x y && strs_eqb r s
  | _, _ => false
  end.

Fixpoint nodup_strs (l : list string) : bool :=
  match l with [] => true | x :: r => negb (mem x r) && nodup_strs r end.

(* content models whose words do not depend on an interleaving the member lists cannot express *)
Fixpoint order_safe (p : particle) : bool :=
  match p with
  | PElem _ _ _ _ => true
  | PSeq l => forallb order_safe l
  | PChoice lo hi l => Nat.eqb lo 1 && match hi with Some 1 => true | _ => false end && forallb order_safe l
  | PAll _ => false
  | PAny _ _ => false
  end.

Definition parts_shape_ok (ps : list particle) : bool :=
  match ps with
  | [PAll l] => forallb (fun p => match p with PElem _ _ lo (Some 1) => Nat.leb lo 1 | _ => false end) l
  | [PAny 0 None] => true
  | [PSeq [PAny 0 None]] => true
  | _ => forallb order_safe ps
  end.

Definition is_any_kid (e : exp_kid) : bool := match ek_kind e with CAny => true | _ => false end.

(* export side: names, order, kinds *)
Definition agree_exp_cls (T : tables) (S : schema) (c : string) : bool :=
  match find_cls T c, find_ct (s_ctypes S) c with
  | Some _, Some _ =>
    let EA := exp_attrs_of (cfuel T) T c in
    let EK := exp_kids_of (cfuel T) T c in
    let HC := hc_of (cfuel T) T c in
    let XA := eff_attrs S c in
    let PS := eff_parts S c in
    strs_eqb (map ea_xml EA) (map xa_name XA) &&
    nodup_strs (map ea_py EA) && nodup_strs (map ea_xml EA) &&
    forallb (fun ea => match find_xa XA (ea_xml ea) with
                       | Some a =>
                         match find_st (s_stypes S) (xa_type a) with
                         | Some st =>
                           kind_prim_ok (ea_kind ea) (st_prim st) &&
                           (* what "%.15f" writes stays inside inclusive decimal bounds only *)
                           match ea_kind ea with
                           | KFloat => forallb (fun fd => match fst fd with
                                                          | FMinIncl | FMaxIncl => Nat.leb (snd (snd fd)) 15
                                                          | _ => false end)
                                               (st_facets st) &&
                                       match st_enums st with [] => true | _ => false end
                           | _ => true
                           end
                         | None => false
                         end &&
                         match ea_guard ea with GNotNone => true | GNe _ => negb (xa_req a) end
                       | None => false
                       end) EA &&
    strs_eqb (map ek_tag (filter (fun e => negb (is_any_kid e)) EK)) (flat_map ptags PS) &&
    nodup_strs (map ek_tag EK) && nodup_strs (map ek_py EK) &&
    Bool.eqb (existsb is_any_kid EK) (existsb has_any PS) &&
    (if existsb is_any_kid EK then match EK with [_] => true | _ => false end else true) &&
    parts_shape_ok PS &&
    forallb (fun ek => mem (ek_py ek) HC) EK &&
    forallb (fun ek =>
      match ek_kind ek with
      | CAny => true
      | k => match decl_of PS (ek_tag ek) with
             | None => false
             | Some ty =>
               match k, find_ct (s_ctypes S) ty, find_st (s_stypes S) ty with
               | CText, None, Some st => prim_is_string (st_prim st)
               | CObj, Some _, _ => true
               | CObjList, Some _, _ => true
               | _, _, _ => false
               end
             end
      end) EK
  | _, _ => false
  end.

Definition agree_exp (T : tables) (S : schema) : bool := forallb (fun k => agree_exp_cls T S (c_name k)) T.
Definition disagree_exp (T : tables) (S : schema) : list string :=
  map c_name (filter (fun k => negb (agree_exp_cls T S (c_name k))) T).

(* ---- validation side.  A validator of the bindings against a simple type of the schema *)
Definition elit_str (e : elit) : option string := match e with EStr s => Some s | EDec _ => None end.
Definition elit_dec (e : elit) : option dec := match e with EDec d => Some d | EStr _ => None end.

Fixpoint opts {A} (l : list (option A)) : option (list A) :=
  match l with
  | [] => Some []
  | Some x :: r => match opts r with Some y => Some (x :: y) | None => None end
  | None :: _ => None
  end.

Fixpoint decs_eqb (a b : list dec) : bool :=
  match a, b with
  | [], [] => true
  | x :: r, y :: s => dec_eqb x y && decs_eqb r s
  | _, _ => false
  end.

Fixpoint facets_eqb (a b : list (fkind * dec)) : bool :=
  match a, b with
  | [], [] => true
  | (k, x) :: r, (j, y) :: s => fkind_eqb k j && dec_eqb x y && facets_eqb r s
  | _, _ => false
  end.

Fixpoint cres_eqb (a b : list cre) : bool :=
  match a, b with
  | [], [] => true
  | x :: r, y :: s => cre_eq_printable x y && cres_eqb r s
  | _, _ => false
  end.

(* the validator tests exactly the facets of the type (same base kind, same enumeration, patterns equal on printable
   text, same bounds) *)
Definition sv_exact (sv : stval) (st : stype) : bool :=
  match st_prim st with
  | PString | PAnyURI =>
    match sv_base sv with Some BStr => true | _ => false end &&
    match sv_enums sv, st_enums st with
    | None, [] => true
    | Some es, (_ :: _) as xs => match opts (map elit_str es) with Some l => strs_eqb l xs | None => false end
    | _, _ => false
    end &&
    match sv_pats sv, st_pats st with
    | None, [] => true
    | Some [alts], (_ :: _) as xs => cres_eqb alts xs
    | _, _ => false
    end &&
    match sv_facets sv, st_facets st with [], [] => true | _, _ => false end
  | PFloat | PDouble =>
    match sv_base sv with Some BFloat => true | _ => false end &&
    match sv_enums sv, st_enums st with
    | None, [] => true
    | Some es, (_ :: _) as xs =>
      match opts (map elit_dec es), opts (map parse_dec xs) with
      | Some a, Some b => decs_eqb a b
      | _, _ => false
      end
    | _, _ => false
    end &&
    match sv_pats sv with None => true | Some _ => false end &&
    facets_eqb (sv_facets sv) (st_facets st)
  | PNonNegInt | PPosInt => false        (* a range test would be needed: the generated validators have none *)
  end.

(* the validator accepts every value of the type (it may test less) *)
Definition sv_accepts (sv : stval) (st : stype) : bool :=
  match st_prim st with
  | PNonNegInt | PPosInt =>
    match sv_base sv with Some BInt => true | None => true | _ => false end &&
    match sv_enums sv, sv_pats sv, sv_facets sv with None, None, [] => true | _, _, _ => false end
  | _ => sv_exact sv st
  end.

Definition builtin_prim_ok (g : builtin) (p : prim) : bool :=
  match g, p with
  | GString, PString | GString, PAnyURI | GInteger, PNonNegInt | GInteger, PPosInt
  | GFloat, PFloat | GFloat, PDouble | GDouble, PFloat | GDouble, PDouble => true
  | _, _ => false
  end.

Definition find_ea_py (m : string) (l : list exp_attr) := find (fun a => String.eqb (ea_py a) m) l.
Definition find_ek_py (m : string) (l : list exp_kid) := find (fun a => String.eqb (ek_py a) m) l.

(* the occurrence bounds a particle puts on a tag directly (through sequences and all-groups only) *)
Fixpoint plain_bounds (t : string) (p : particle) : option (nat * option nat) :=
  match p with
  | PElem tag _ lo hi => if String.eqb tag t then Some (lo, hi) else None
  | PSeq l | PAll l =>
    fold_right (fun q acc => match plain_bounds t q with Some b => Some b | None => acc end) None l
  | _ => None
  end.
Definition plain_bounds_of (ps : list particle) (t : string) : option (nat * option nat) :=
  fold_right (fun q acc => match plain_bounds t q with Some b => Some b | None => acc end) None ps.

(* the simple type a member is declared with: attribute type, or the type of a text child *)
Definition member_stype (T : tables) (S : schema) (c m : string) : option (stype * bool * option xattr) :=
  match find_ea_py m (exp_attrs_of (cfuel T) T c) with
  | Some ea => match find_xa (eff_attrs S c) (ea_xml ea) with
               | Some a => match find_st (s_stypes S) (xa_type a) with
                           | Some st => Some (st, true, Some a) | None => None end
               | None => None
               end
  | None =>
    match find_ek_py m (exp_kids_of (cfuel T) T c) with
    | Some ek => match ek_kind ek, decl_of (eff_parts S c) (ek_tag ek) with
                 | CText, Some ty => match find_st (s_stypes S) ty with
                                     | Some st => if prim_is_string (st_prim st) then Some (st, false, None) else None
                                     | None => None end
                 | _, _ => None
                 end
    | None => None
    end
  end.

(* accept direction: every statement of every validate_ along the MRO of c is implied by the schema *)
Definition item_sound (V : vtables) (T : tables) (S : schema) (c : string) (it : vitem) : bool :=
  match it with
  | IDefined m st =>
    match member_stype T S c m, find_stv (mro V c) st with
    | Some (xt, _, _), Some sv => sv_accepts sv xt
    | _, _ => false
    end
  | IBuiltin m g =>
    match member_stype T S c m with
    | Some (xt, _, _) => builtin_prim_ok g (st_prim xt)
    | None => false
    end
  | ICardReq m req =>
    match member_stype T S c m with
    | Some (_, true, Some a) => implb req (xa_req a)
    | _ => false
    end
  | ICard m lo hi =>
    match find_ek_py m (exp_kids_of (cfuel T) T c) with
    | Some ek =>
      match plain_bounds_of (eff_parts S c) (ek_tag ek) with
      | Some (xlo, xhi) =>
        match find_ek_tag (ek_tag ek) (exp_kids_of (cfuel T) T c) with
        | Some e' => String.eqb (ek_py e') m | None => false end &&
        (lo <=? Z.of_nat xlo)%Z &&
        match xhi with Some h => (Z.of_nat h <=? hi)%Z | None => (gds_unbounded <=? hi)%Z end &&
        match ek_kind ek with CObj | CText => (1 <=? hi)%Z | _ => true end
      | None => false
      end
    | None => false
    end
  end.

Definition agree_val_cls (V : vtables) (T : tables) (S : schema) (c : string) : bool :=
  forallb (fun k => forallb (item_sound V T S c) (v_items k)) (mro V c).

Definition agree_val (V : vtables) (T : tables) (S : schema) : bool :=
  forallb (fun k => agree_val_cls V T S (c_name k)) T.
Definition disagree_val (V : vtables) (T : tables) (S : schema) : list string :=
  map c_name (filter (fun k => negb (agree_val_cls V T S (c_name k))) T).

(* ---- reject direction (C03): which schema constraints on a member does the generated code test exactly? *)
Inductive vkind := VReq | VVal | VFew | VMany.

Definition items_of (V : vtables) (c : string) : list vitem := flat_map v_items (mro V c).

Definition checkedb (V : vtables) (T : tables) (S : schema) (c m : string) (vk : vkind) : bool :=
  match vk with
  | VReq => existsb (fun it => match it with ICardReq m' true => String.eqb m' m | _ => false end) (items_of V c)
  | VVal =>
    match member_stype T S c m with
    | Some (xt, _, oa) =>
      match oa with Some {| xa_fixed := Some _ |} => false | _ => true end &&
      existsb (fun it => match it with
                         | IDefined m' stn =>
                           if String.eqb m' m
                           then match find_stv (mro V c) stn with Some sv => sv_exact sv xt | None => false end
                           else false
                         | _ => false
                         end) (items_of V c)
    | None => false
    end
  | VFew | VMany =>
    match find_ek_py m (exp_kids_of (cfuel T) T c) with
    | Some ek =>
      match plain_bounds_of (eff_parts S c) (ek_tag ek) with
      | Some (xlo, xhi) =>
        existsb (fun it => match it with
                           | ICard m' lo hi => String.eqb m' m && (lo =? Z.of_nat xlo)%Z &&
                                               match xhi with Some h => (hi =? Z.of_nat h)%Z | None => true end
                           | _ => false
                           end) (items_of V c)
      | None => false
      end
    | None => false
    end
  end.

Section Violation.
Variable F : Type.
Variable F_eqb : F -> F -> bool.
Variable F_ltb : F -> F -> bool.
Variable F_of_dec : dec -> F.

(* the facets of a float type without the finiteness side condition *)
Definition float_facets_ok (st : stype) (x : F) : bool :=
  forallb (facet_ok F_eqb F_ltb F_of_dec x) (st_facets st) &&
  match st_enums st with
  | [] => true
  | es => existsb (fun e => match parse_dec e with Some d => F_eqb x (F_of_dec d) | None => false end) es
  end.

(* does member m of o violate its schema declaration, and how *)
Definition violation (T : tables) (S : schema) (o : obj F) (m : string) : option vkind :=
  let c := o_cls F o in
  match member_stype T S c m with
  | Some (st, is_attr, oa) =>
    match field o m with
    | VNone => match oa with Some a => if xa_req a then Some VReq else None | None => None end
    | VStr s => if prim_is_string (st_prim st) && printable s &&
                   (negb (string_ok st s) ||
                    match oa with Some {| xa_fixed := Some f |} => negb (String.eqb f s) | _ => false end)
                then Some VVal else None
    | VFlt x => match st_prim st with
                | PFloat | PDouble => if float_facets_ok st x then None else Some VVal
                | _ => None end
    | VInt z => match st_prim st with
                | PNonNegInt | PPosInt => if int_ok (st_prim st) z then None else Some VVal
                | _ => None end
    | _ => None
    end
  | None =>
    match find_ek_py m (exp_kids_of (cfuel T) T c) with
    | Some ek =>
      match plain_bounds_of (eff_parts S c) (ek_tag ek) with
      | Some (xlo, xhi) =>
        let n := vcount (field o m) in
        if Nat.ltb n xlo then Some VFew
        else match xhi with Some h => if Nat.ltb h n then Some VMany else None | None => None end
      | None => None
      end
    | None => None
    end
  end.
End Violation.
Arguments violation {F} F_eqb F_ltb F_of_dec T S o m.
Arguments float_facets_ok {F} F_eqb F_ltb F_of_dec st x.

(* the members of a class (attributes, text children, children with plain bounds) and the kinds of violation the
   generated code does not test exactly: the complement of the C03 theorem *)
Definition own_member_names (k : cls) : list string :=
  (map ea_py (c_exp_attrs k) ++ map ek_py (c_exp_kids k))%list.

Definition unchecked (V : vtables) (T : tables) (S : schema) : list (string * string * vkind) :=
  flat_map (fun k =>
    let c := c_name k in
    flat_map (fun m =>
      (if match member_stype T S c m with
          | Some (_, _, Some a) => xa_req a && negb (checkedb V T S c m VReq) | _ => false end then [(c, m, VReq)] else []) ++
      (if match member_stype T S c m with
          | Some (st, _, _) =>
            if (match st_enums st, st_pats st, st_facets st, st_prim st with
                | [], [], [], PString | [], [], [], PAnyURI | [], [], [], PFloat | [], [], [], PDouble => false
                | _, _, _, _ => true end)
            then negb (checkedb V T S c m VVal) else false
          | None => false end then [(c, m, VVal)] else []) ++
      (if match member_stype T S c m with
          | Some (_, _, Some {| xa_fixed := Some _ |}) => true | _ => false end then [(c, m, VVal)] else []) ++
      (match find_ek_py m (exp_kids_of (cfuel T) T c) with
       | Some ek =>
         match ek_kind ek, plain_bounds_of (eff_parts S c) (ek_tag ek) with
         | CAny, _ => []
         | _, Some _ => if checkedb V T S c m VFew then [] else [(c, m, VFew)]
         | _, None => [(c, m, VFew)]            (* inside a choice: no test at all *)
         end
       | None => []
       end))%list (own_member_names k)) T.

(* ---------------------------------------------------------------- executable instance (F := finite decimals) *)
Definition x_xsd_valid := @xsd_valid dec dec_veqb dec_ltb (fun d => d) parse_dec (fun _ => true).
Definition x_conformsb := @conformsb dec dec_veqb dec_ltb (fun d => d) parse_dec (fun _ => true) (fun _ => true).

Record xcase := { xc_type : string; xc_xml : xml; xc_valid : bool }.
Fixpoint xmismatches (S : schema) (fuel : nat) (i : nat) (l : list xcase) : list nat :=
  match l with
  | [] => []
  | c :: r => if Bool.eqb (x_xsd_valid fuel S (xc_type c) (xc_xml c)) (xc_valid c)
              then xmismatches S fuel (Datatypes.S i) r else i :: xmismatches S fuel (Datatypes.S i) r
  end.

Record ccase := { cc_obj : obj dec; cc_conforms : bool }.
Fixpoint cmismatches (T : tables) (S : schema) (fuel : nat) (i : nat) (l : list ccase) : list nat :=
  match l with
  | [] => []
  | c :: r => if Bool.eqb (x_conformsb fuel T S (cc_obj c)) (cc_conforms c)
              then cmismatches T S fuel (Datatypes.S i) r else i :: cmismatches T S fuel (Datatypes.S i) r
  end.
