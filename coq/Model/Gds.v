(* Model of the generateDS runtime as used by neuroml/nml/nml.py: constructor defaults, export and build of
   component trees, driven by tables that translators/tr_bindings.py regenerates from the source on every
   run (Gen_Bindings.v).  Definitions only; proofs live in Proofs/GdsP*.v.

   Floats are abstract (type F): CPython's float with "%.15f"-rstrip formatting (schema float), "%s"
   formatting (schema double) and float() parsing are Section variables; the executable instance used by
   the correspondence check takes F := finite decimals (Lib/Dec.v) and only feeds dyadic values, on which
   CPython's formatting is exact. *)
From Coq Require Import String List ZArith Bool.
From LNML Require Import Lib.Dec.
Import ListNotations.
Open Scope string_scope.

(* ---------------------------------------------------------------- tables (what the translator emits) *)
Inductive akind := KStr | KInt | KFloat | KDouble.
Inductive dflt := DNone | DStr (s : string) | DInt (z : Z) | DDec (s : string).  (* python literal of a default / guard *)
Inductive guard := GNotNone | GNe (d : dflt).
Inductive irange := RNone | RNonNeg | RPos.
Inductive ckind := CObj | CObjList | CText | CAny.
Inductive sup_pos := SupNone | SupFirst | SupLast.
Inductive cast := CastRaw | CastInt | CastFloat | CastObj | CastList | CastAnyList.

Record exp_attr := { ea_py : string; ea_xml : string; ea_kind : akind; ea_guard : guard }.
Record bld_attr := { ba_xml : string; ba_py : string; ba_kind : akind; ba_range : irange; ba_key : string }.
Record exp_kid := { ek_py : string; ek_tag : string; ek_kind : ckind }.
Record bld_kid := { bk_tag : string; bk_py : string; bk_cls : string; bk_kind : ckind; bk_dispatch : bool }.
Record param := { p_name : string; p_default : dflt }.

Record cls := {
  c_name : string;
  c_super : option string;
  c_params : list param;                 (* constructor parameters (without extensiontype_/gds_collector_) *)
  c_super_args : list string;            (* own parameters handed positionally to the base constructor *)
  c_assign : list (string * cast);       (* self.m = cast(m), in order *)
  c_has_content : list string; c_hc_super : bool;
  c_exp_attrs : list exp_attr; c_exp_attrs_super : sup_pos;
  c_bld_attrs : list bld_attr; c_bld_attrs_super : sup_pos;
  c_exp_kids : list exp_kid; c_exp_kids_super : sup_pos;
  c_bld_kids : list bld_kid; c_bld_kids_super : sup_pos;
  c_any_always : bool                    (* _buildChildren appends every child to anytypeobjs_ *)
}.

Definition tables := list cls.

Fixpoint find_cls (T : tables) (c : string) : option cls :=
  match T with
  | [] => None
  | k :: r => if String.eqb (c_name k) c then Some k else find_cls r c
  end.

(* class-chain fuel: an acyclic chain over T has at most |T| classes *)
Definition cfuel (T : tables) : nat := S (length T).

(* what a method sees after its super() calls: base entries first / last / not at all *)
Fixpoint inherited {A} (get : cls -> list A) (pos : cls -> sup_pos) (fuel : nat) (T : tables) (c : string) : list A :=
  match fuel with
  | O => []
  | S f =>
    match find_cls T c with
    | None => []
    | Some k =>
      let sup := match c_super k with Some s => inherited get pos f T s | None => [] end in
      match pos k with
      | SupNone => get k
      | SupFirst => (sup ++ get k)%list
      | SupLast => (get k ++ sup)%list
      end
    end
  end.

(* ---------------------------------------------------------------- infoset *)
Inductive xml := Elem (tag : string) (attrs : list (string * string)) (text : string) (kids : list xml).

Definition x_tag (x : xml) := match x with Elem t _ _ _ => t end.
Definition x_attrs (x : xml) := match x with Elem _ a _ _ => a end.
Definition x_text (x : xml) := match x with Elem _ _ t _ => t end.
Definition x_kids (x : xml) := match x with Elem _ _ _ k => k end.

Fixpoint lookup {A} (k : string) (l : list (string * A)) : option A :=
  match l with
  | [] => None
  | (k', v) :: r => if String.eqb k' k then Some v else lookup k r
  end.

Fixpoint mem (k : string) (l : list string) : bool :=
  match l with [] => false | x :: r => String.eqb x k || mem k r end.

(* ---------------------------------------------------------------- constructor defaults, float-free
   factory() calls the constructor with no arguments; what each field then holds is computed on literals
   (no float type involved), so that well-formedness of a table set is decidable by computation. *)
Inductive lit := LNone | LStr (s : string) | LInt (z : Z) | LDec (q : dec) | LObjs | LRaw | LBad.

Definition lit_of_dflt (d : dflt) : lit :=
  match d with
  | DNone => LNone
  | DStr s => LStr s
  | DInt z => LInt z
  | DDec s => match parse_dec s with Some q => LDec q | None => LBad end
  end.

Definition cast_lit (c : cast) (v : lit) : lit :=
  match c, v with
  | CastList, LNone => LObjs
  | CastAnyList, LNone => LRaw
  | _, LNone => LNone
  | CastRaw, _ | CastObj, _ | CastList, _ | CastAnyList, _ => v
  | CastInt, LInt z => LInt z
  | CastInt, LStr s => match parse_int s with Some z => LInt z | None => LBad end
  | CastFloat, LDec q => LDec q
  | CastFloat, LInt z => LDec (z, O)
  | CastFloat, LStr s => match parse_dec s with Some q => LDec q | None => LBad end
  | _, _ => LBad
  end.

Fixpoint set_lit (k : string) (v : lit) (l : list (string * lit)) : list (string * lit) :=
  match l with
  | [] => [(k, v)]
  | (k', v') :: r => if String.eqb k' k then (k, v) :: r else (k', v') :: set_lit k v r
  end.

Definition opt_lit (o : option lit) : lit := match o with Some v => v | None => LNone end.

Fixpoint assign_lits (own : list (string * lit)) (asg : list (string * cast)) (fs : list (string * lit))
  : list (string * lit) :=
  match asg with
  | [] => fs
  | (m, c) :: r => assign_lits own r (set_lit m (cast_lit c (opt_lit (lookup m own))) fs)
  end.

(* fields of C() : positional hand-over of the own defaults to the base constructor, then own assignments *)
Fixpoint init_lits_with (fuel : nat) (T : tables) (c : string) (args : list (string * lit))
  : option (list (string * lit)) :=
  match fuel with
  | O => None
  | S f =>
    match find_cls T c with
    | None => None
    | Some k =>
      let own := map (fun p => (p_name p, match lookup (p_name p) args with
                                         | Some v => v | None => lit_of_dflt (p_default p) end)) (c_params k) in
      let base :=
        match c_super k with
        | None => Some []
        | Some s =>
          match find_cls T s with
          | None => None
          | Some ks =>
            init_lits_with f T s (combine (map p_name (c_params ks))
                                          (map (fun a => opt_lit (lookup a own)) (c_super_args k)))
          end
        end in
      match base with
      | None => None
      | Some b => Some (assign_lits own (c_assign k) b)
      end
    end
  end.

Definition init_lits (T : tables) (c : string) := init_lits_with (cfuel T) T c [].

Section Gds.
Variable F : Type.
Variable F_eqb : F -> F -> bool.
Variable F_of_dec : dec -> F.            (* float(<decimal literal>) *)
Variable fmt_float : F -> string.        (* gds_format_float : ("%.15f" % x).rstrip("0") (+ "0") *)
Variable fmt_double : F -> string.       (* gds_format_double: "%s" % x *)
Variable parse_float : string -> option F. (* float(s), None when it raises *)

(* ---------------------------------------------------------------- component trees *)
Inductive value :=
| VNone | VStr (s : string) | VInt (z : Z) | VFlt (f : F)
| VObj (o : obj) | VObjs (l : list obj) | VRaw (l : list xml)
with obj := Obj (cls_of : string) (fields : list (string * value)).

Definition o_cls (o : obj) := match o with Obj c _ => c end.
Definition o_fields (o : obj) := match o with Obj _ f => f end.

Fixpoint set_field (k : string) (v : value) (l : list (string * value)) : list (string * value) :=
  match l with
  | [] => [(k, v)]
  | (k', v') :: r => if String.eqb k' k then (k, v) :: r else (k', v') :: set_field k v r
  end.

(* ---------------------------------------------------------------- constructors (factory() + __init__) *)
Definition dflt_value (d : dflt) : value :=
  match d with
  | DNone => VNone
  | DStr s => VStr s
  | DInt z => VInt z
  | DDec s => match parse_dec s with Some q => VFlt (F_of_dec q) | None => VNone end
  end.

Definition apply_cast (c : cast) (v : value) : option value :=
  match c, v with
  | _, VNone => Some (match c with CastList => VObjs [] | CastAnyList => VRaw [] | _ => VNone end)
  | CastRaw, _ => Some v
  | CastObj, _ => Some v
  | CastList, _ => Some v
  | CastAnyList, _ => Some v
  | CastInt, VInt z => Some (VInt z)
  | CastInt, VStr s => option_map VInt (parse_int s)              (* int("0") *)
  | CastFloat, VFlt f => Some (VFlt f)
  | CastFloat, VInt z => Some (VFlt (F_of_dec (z, O)))             (* float(0) *)
  | CastFloat, VStr s => option_map (fun q => VFlt (F_of_dec q)) (parse_dec s) (* float("0.5") *)
  | _, _ => None                                                   (* int(obj) ... raises *)
  end.

Definition opt_value (o : option value) : value := match o with Some v => v | None => VNone end.

Fixpoint assign_all (own : list (string * value)) (asg : list (string * cast)) (fs : list (string * value))
  : option (list (string * value)) :=
  match asg with
  | [] => Some fs
  | (m, c) :: r =>
    match apply_cast c (opt_value (lookup m own)) with
    | Some v => assign_all own r (set_field m v fs)
    | None => None
    end
  end.

(* C(keyword args): own parameters bound by keyword (else default), the base constructor called with the named
   own parameters positionally, then the own assignments *)
Fixpoint init_fields (fuel : nat) (T : tables) (c : string) (args : list (string * value))
  : option (list (string * value)) :=
  match fuel with
  | O => None
  | S f =>
    match find_cls T c with
    | None => None
    | Some k =>
      let own := map (fun p => (p_name p, match lookup (p_name p) args with
                                         | Some v => v | None => dflt_value (p_default p) end)) (c_params k) in
      let base :=
        match c_super k with
        | None => Some []
        | Some s =>
          match find_cls T s with
          | None => None
          | Some ks =>
            init_fields f T s (combine (map p_name (c_params ks))
                                       (map (fun a => opt_value (lookup a own)) (c_super_args k)))
          end
        end in
      match base with
      | None => None
      | Some b => assign_all own (c_assign k) b
      end
    end
  end.

Definition inject (l : lit) : value :=
  match l with
  | LNone | LBad => VNone
  | LStr s => VStr s
  | LInt z => VInt z
  | LDec q => VFlt (F_of_dec q)
  | LObjs => VObjs []
  | LRaw => VRaw []
  end.

(* the fields of factory() *)
Definition default_fields (T : tables) (c : string) : option (list (string * value)) :=
  option_map (map (fun nv => (fst nv, inject (snd nv)))) (init_lits T c).

(* ---------------------------------------------------------------- export *)
Definition value_eqb_flat (a b : value) : bool :=
  match a, b with
  | VNone, VNone => true
  | VStr s, VStr t => String.eqb s t
  | VInt x, VInt y => Z.eqb x y
  | VFlt x, VFlt y => F_eqb x y
  | VInt x, VFlt y => F_eqb (F_of_dec (x, O)) y      (* python: 0 == 0.0 *)
  | VFlt x, VInt y => F_eqb x (F_of_dec (y, O))
  | _, _ => false
  end.

Definition guard_pass (g : guard) (k : akind) (v : value) : bool :=
  match g with
  | GNotNone => match v with VNone => false | _ => true end
  | GNe d => negb (value_eqb_flat v (inject (lit_of_dflt d)))
  end.

Definition fmt_attr (k : akind) (v : value) : option string :=
  match k, v with
  | KStr, VStr s => Some s
  | KStr, VNone => Some "None"                      (* quote_attrib(None): '%s' % None *)
  | KInt, VInt z => Some (fmt_int z)
  | KFloat, VFlt f => Some (fmt_float f)
  | KDouble, VFlt f => Some (fmt_double f)
  | _, _ => None
  end.

Fixpoint export_attrs (fs : list (string * value)) (eas : list exp_attr) (seen : list string)
  : option (list (string * string)) :=
  match eas with
  | [] => Some []
  | a :: r =>
    match lookup (ea_py a) fs with
    | None => None                                   (* AttributeError *)
    | Some v =>
      if guard_pass (ea_guard a) (ea_kind a) v && negb (mem (ea_py a) seen) then
        match fmt_attr (ea_kind a) v, export_attrs fs r (ea_py a :: seen) with
        | Some s, Some rest => Some ((ea_xml a, s) :: rest)
        | _, _ => None
        end
      else export_attrs fs r seen
    end
  end.

Definition truthy (v : value) : bool :=
  match v with VNone => false | VObjs [] => false | VRaw [] => false | _ => true end.

Definition has_content (fs : list (string * value)) (hc : list string) : bool :=
  existsb (fun m => truthy (opt_value (lookup m fs))) hc.

Fixpoint flat_opt {A} (l : list (option (list A))) : option (list A) :=
  match l with
  | [] => Some []
  | None :: _ => None
  | Some x :: r => match flat_opt r with Some y => Some (x ++ y)%list | None => None end
  end.

Fixpoint all_opt {A} (l : list (option A)) : option (list A) :=
  match l with
  | [] => Some []
  | None :: _ => None
  | Some x :: r => match all_opt r with Some y => Some (x :: y) | None => None end
  end.

Definition hc_of := inherited c_has_content (fun k => if c_hc_super k then SupLast else SupNone).
Definition exp_attrs_of := inherited c_exp_attrs c_exp_attrs_super.
Definition bld_attrs_of := inherited c_bld_attrs c_bld_attrs_super.
Definition exp_kids_of := inherited c_exp_kids c_exp_kids_super.
Definition bld_kids_of := inherited c_bld_kids c_bld_kids_super.

(* obj.export(outfile, level, name_=tag): the element written for o (None = the Python raises) *)
Fixpoint export (fuel : nat) (T : tables) (tag : string) (o : obj) : option xml :=
  match fuel with
  | O => None
  | S f =>
    let c := o_cls o in
    let fs := o_fields o in
    match find_cls T c with
    | None => None
    | Some _ =>
      match export_attrs fs (exp_attrs_of (cfuel T) T c) [] with
      | None => None
      | Some attrs =>
        if has_content fs (hc_of (cfuel T) T c) then
          let one (ek : exp_kid) : option (list xml) :=
            match ek_kind ek, lookup (ek_py ek) fs with
            | _, None => None
            | CObj, Some VNone => Some []
            | CObj, Some (VObj o') => option_map (fun x => [x]) (export f T (ek_tag ek) o')
            | CObjList, Some (VObjs l) => all_opt (map (export f T (ek_tag ek)) l)
            | CText, Some VNone => Some []
            | CText, Some (VStr s) => Some [Elem (ek_tag ek) [] s []]
            | CAny, Some (VRaw l) => Some l
            | _, _ => None
            end in
          match flat_opt (map one (exp_kids_of (cfuel T) T c)) with
          | Some kids => Some (Elem tag attrs "" kids)
          | None => None
          end
        else Some (Elem tag attrs "" [])
      end
    end
  end.

(* ---------------------------------------------------------------- build *)
Definition parse_attr (k : akind) (rg : irange) (s : string) : option value :=
  match k with
  | KStr => Some (VStr s)
  | KInt => match parse_int s with
            | Some z => match rg with
                        | RNone => Some (VInt z)
                        | RNonNeg => if (z <? 0)%Z then None else Some (VInt z)
                        | RPos => if (z <=? 0)%Z then None else Some (VInt z)
                        end
            | None => None
            end
  | KFloat | KDouble => option_map VFlt (parse_float s)
  end.

Fixpoint build_attrs (attrs : list (string * string)) (bas : list bld_attr) (seen : list string)
         (fs : list (string * value)) : option (list (string * value)) :=
  match bas with
  | [] => Some fs
  | b :: r =>
    match lookup (ba_xml b) attrs with
    | Some s =>
      if mem (ba_key b) seen then build_attrs attrs r seen fs
      else match parse_attr (ba_kind b) (ba_range b) s with
           | Some v => build_attrs attrs r (ba_key b :: seen) (set_field (ba_py b) v fs)
           | None => None                           (* raise_parse_error *)
           end
    | None => build_attrs attrs r seen fs
    end
  end.

Fixpoint find_branch (tag : string) (bks : list bld_kid) : option bld_kid :=
  match bks with
  | [] => None
  | b :: r => if String.eqb (bk_tag b) tag then Some b else find_branch tag r
  end.

Definition append_obj (v : value) (o : obj) : option value :=
  match v with VObjs l => Some (VObjs (l ++ [o])%list) | _ => None end.
Definition append_raw (v : value) (x : xml) : option value :=
  match v with VRaw l => Some (VRaw (l ++ [x])%list) | _ => None end.

(* rootObj = C.factory(); rootObj.build(node) *)
Fixpoint build (fuel : nat) (T : tables) (c : string) (x : xml) : option obj :=
  match fuel with
  | O => None
  | S f =>
    match find_cls T c, default_fields T c with
    | Some k, Some fs0 =>
      match build_attrs (x_attrs x) (bld_attrs_of (cfuel T) T c) [] fs0 with
      | None => None
      | Some fs1 =>
        let bks := bld_kids_of (cfuel T) T c in
        let has_any := existsb (fun b => match bk_kind b with CAny => true | _ => false end) bks in
        let step (acc : option (list (string * value))) (kid : xml) : option (list (string * value)) :=
          match acc with
          | None => None
          | Some fs =>
            let fs' :=
              if c_any_always k then
                match append_raw (opt_value (lookup "anytypeobjs_" fs)) kid with
                | Some v => Some (set_field "anytypeobjs_" v fs) | None => None end
              else Some fs in
            match fs' with
            | None => None
            | Some fs =>
              match find_branch (x_tag kid) bks with
              | Some b =>
                match bk_kind b with
                | CObj => match build f T (bk_cls b) kid with
                          | Some o' => Some (set_field (bk_py b) (VObj o') fs) | None => None end
                | CObjList => match build f T (bk_cls b) kid with
                              | Some o' => match append_obj (opt_value (lookup (bk_py b) fs)) o' with
                                           | Some v => Some (set_field (bk_py b) v fs) | None => None end
                              | None => None end
                | CText => Some (set_field (bk_py b) (VStr (x_text kid)) fs)
                | CAny => Some fs
                end
              | None =>
                if has_any && negb (c_any_always k) then
                  match append_raw (opt_value (lookup "anytypeobjs_" fs)) kid with
                  | Some v => Some (set_field "anytypeobjs_" v fs) | None => None end
                else Some fs                        (* unknown children are silently ignored *)
              end
            end
          end in
        match fold_left step (x_kids x) (Some fs1) with
        | Some fs2 => Some (Obj c fs2)
        | None => None
        end
      end
    | _, _ => None
    end
  end.

End Gds.

Arguments VNone {F}. Arguments VStr {F} s. Arguments VInt {F} z. Arguments VFlt {F} f.
Arguments VObj {F} o. Arguments VObjs {F} l. Arguments VRaw {F} l. Arguments Obj {F} cls_of fields.
