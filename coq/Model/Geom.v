(* C12 — geometry of one segment.

   The arithmetic of libNeuroML's Segment.length / volume / surface_area, Point3DWithDiam.distance_to,
   Cell.get_actual_proximal and Cell.get_segment_length / _surface_area / _volume is translated on every run
   by translators/tr_exprs.py into terms of the small languages below (gexpr / gcond / gprog for the
   segment-level arithmetic, pprog for get_actual_proximal, cprog for the cell-level getters).

   ONE evaluator, generic in the number type, gives the two readings of the same term:
     RA : arith R       the real-number reading (theorems: Proofs/GeomP.v)
     FA : arith float   the IEEE-754 binary64 reading (PrimFloat; correspondence with CPython)
   Definitions only; no proofs here. *)
From Coq Require Uint63.
From Coq Require Import Floats.
From Coq Require Import ZArith List Bool Reals.
Import ListNotations.

(* ------------------------------------------------------------------ outcomes *)
Inductive outcome (A : Type) : Type :=
| Val (a : A)      (* the Python method returned a *)
| Exc.             (* the Python method raised *)
Arguments Val {A} a.
Arguments Exc {A}.

Definition obind {A B : Type} (o : outcome A) (f : A -> outcome B) : outcome B :=
  match o with Val a => f a | Exc => Exc end.
Definition omap {A B : Type} (f : A -> B) (o : outcome A) : outcome B :=
  match o with Val a => Val (f a) | Exc => Exc end.

(* ------------------------------------------------------------------ number structures *)
Record arith (A : Type) : Type := MkArith {
  ar_add : A -> A -> A;
  ar_sub : A -> A -> A;
  ar_mul : A -> A -> A;
  ar_div : A -> A -> A;
  ar_neg : A -> A;
  ar_ofZ : Z -> A;
  ar_pi : A;
  ar_sqrt : A -> A;          (* math.sqrt *)
  ar_powhalf : A -> A;       (* x ** 0.5 (libm pow) *)
  ar_eqb : A -> A -> bool
}.
Arguments ar_add {A} _ _ _.
Arguments ar_sub {A} _ _ _.
Arguments ar_mul {A} _ _ _.
Arguments ar_div {A} _ _ _.
Arguments ar_neg {A} _ _.
Arguments ar_ofZ {A} _ _.
Arguments ar_pi {A} _.
Arguments ar_sqrt {A} _ _.
Arguments ar_powhalf {A} _ _.
Arguments ar_eqb {A} _ _ _.

Definition Reqb (a b : R) : bool := if Req_EM_T a b then true else false.

Definition RA : arith R :=
  MkArith R Rplus Rminus Rmult Rdiv Ropp IZR PI sqrt sqrt Reqb.

(* the ROUNDED reading: every operation is the exact real operation followed by the rounding function rnd (binary64
   round-to-nearest-even in Proofs/GeomPFloat.v); x ** 2 is a rounded multiplication, math.sqrt a rounded square root,
   x ** 0.5 the function powhalf (libm's pow, characterised only by an accuracy hypothesis); negation and the small
   integer literals are exact; math.pi is the rounded value of pi *)
Definition RndA (rnd powhalf : R -> R) : arith R :=
  MkArith R (fun a b => rnd (a + b)%R) (fun a b => rnd (a - b)%R) (fun a b => rnd (a * b)%R) (fun a b => rnd (a / b)%R)
          Ropp IZR (rnd PI) (fun x => rnd (sqrt x)) powhalf Reqb.

Definition float_ofZ (z : Z) : float :=
  match z with
  | Z0 => PrimFloat.of_uint63 (Uint63.of_Z 0)
  | Zpos _ => PrimFloat.of_uint63 (Uint63.of_Z z)
  | Zneg p => PrimFloat.opp (PrimFloat.of_uint63 (Uint63.of_Z (Zpos p)))
  end.

(* math.pi of CPython: 0x1.921fb54442d18p+1 *)
Definition float_pi : float := 0x1.921fb54442d18p+1%float.

Definition FA : arith float :=
  MkArith float PrimFloat.add PrimFloat.sub PrimFloat.mul PrimFloat.div PrimFloat.opp
          float_ofZ float_pi PrimFloat.sqrt PrimFloat.sqrt PrimFloat.eqb.

(* ------------------------------------------------------------------ the expression language *)
Inductive gexpr : Type :=
| GVar (n : nat)                 (* input slot *)
| GInt (z : Z)                   (* integer literal, or a float literal with integral value (2.0, 4.0) *)
| GFrac (n : Z) (d : positive)   (* any other float literal, as the exact fraction of the double (0.5 = 1/2) *)
| GPi                            (* math.pi *)
| GAdd (a b : gexpr)
| GSub (a b : gexpr)
| GMul (a b : gexpr)
| GDiv (a b : gexpr)
| GNeg (a : gexpr)
| GPow (a : gexpr) (n : nat)     (* a ** n, n a literal integer >= 1 *)
| GSqrt (a : gexpr)              (* math.sqrt(a) *)
| GPowHalf (a : gexpr).          (* a ** 0.5 *)

Inductive gcond : Type :=
| CEq (a b : gexpr)
| CNe (a b : gexpr)
| CAnd (a b : gcond)
| COr (a b : gcond)
| CNot (a : gcond)
| CNoProx.                       (* self.proximal == None *)

Inductive gprog : Type :=
| PRet (e : gexpr)
| PRaise
| PIf (c : gcond) (t e : gprog).

Section Eval.
  Context {A : Type} (ar : arith A).

  (* x ** n as CPython's float_pow is modelled by repeated multiplication (exact over R; over floats
     libm pow(x, n) may differ from it in the last place, which the correspondence tolerance covers) *)
  Fixpoint gpow (x : A) (n : nat) : A :=
    match n with
    | O => ar_ofZ ar 1
    | S O => x
    | S m => ar_mul ar (gpow x m) x
    end.

  Fixpoint eval (e : gexpr) (env : list A) : A :=
    match e with
    | GVar n => nth n env (ar_ofZ ar 0)
    | GInt z => ar_ofZ ar z
    | GFrac n d => ar_div ar (ar_ofZ ar n) (ar_ofZ ar (Zpos d))
    | GPi => ar_pi ar
    | GAdd a b => ar_add ar (eval a env) (eval b env)
    | GSub a b => ar_sub ar (eval a env) (eval b env)
    | GMul a b => ar_mul ar (eval a env) (eval b env)
    | GDiv a b => ar_div ar (eval a env) (eval b env)
    | GNeg a => ar_neg ar (eval a env)
    | GPow a n => gpow (eval a env) n
    | GSqrt a => ar_sqrt ar (eval a env)
    | GPowHalf a => ar_powhalf ar (eval a env)
    end.

  Fixpoint evalc (noprox : bool) (c : gcond) (env : list A) : bool :=
    match c with
    | CEq a b => ar_eqb ar (eval a env) (eval b env)
    | CNe a b => negb (ar_eqb ar (eval a env) (eval b env))
    | CAnd a b => evalc noprox a env && evalc noprox b env
    | COr a b => evalc noprox a env || evalc noprox b env
    | CNot a => negb (evalc noprox a env)
    | CNoProx => noprox
    end.

  Fixpoint run (noprox : bool) (p : gprog) (env : list A) : outcome A :=
    match p with
    | PRet e => Val (eval e env)
    | PRaise => Exc
    | PIf c t e => if evalc noprox c env then run noprox t env else run noprox e env
    end.
End Eval.

(* well-formedness of a translated term: slots in range, every divisor a non-zero literal, exponents >= 1 *)
Fixpoint wf_expr (nv : nat) (e : gexpr) : bool :=
  match e with
  | GVar n => Nat.ltb n nv
  | GInt _ | GPi => true
  | GFrac _ _ => true
  | GAdd a b | GSub a b | GMul a b => wf_expr nv a && wf_expr nv b
  | GDiv a b => wf_expr nv a && match b with GInt z => negb (Z.eqb z 0) | _ => false end
  | GNeg a | GSqrt a | GPowHalf a => wf_expr nv a
  | GPow a n => wf_expr nv a && Nat.leb 1 n
  end.
Fixpoint wf_cond (nv : nat) (c : gcond) : bool :=
  match c with
  | CEq a b | CNe a b => wf_expr nv a && wf_expr nv b
  | CAnd a b | COr a b => wf_cond nv a && wf_cond nv b
  | CNot a => wf_cond nv a
  | CNoProx => true
  end.
Fixpoint wf_prog (nv : nat) (p : gprog) : bool :=
  match p with
  | PRet e => wf_expr nv e
  | PRaise => true
  | PIf c t e => wf_cond nv c && wf_prog nv t && wf_prog nv e
  end.

(* ------------------------------------------------------------------ points and segments *)
Record pt (A : Type) : Type := MkPt { p_x : A; p_y : A; p_z : A; p_d : A }.
Arguments MkPt {A} _ _ _ _.
Arguments p_x {A} _.
Arguments p_y {A} _.
Arguments p_z {A} _.
Arguments p_d {A} _.

(* slots 0-3: proximal (resp. self) x y z diameter; 4-7: distal (resp. the other point) *)
Definition env_seg {A : Type} (p d : pt A) : list A :=
  [p_x p; p_y p; p_z p; p_d p; p_x d; p_y d; p_z d; p_d d].

(* a morphology segment as get_actual_proximal sees it; s_fract = float(parent.fraction_along) *)
Record seg (A : Type) : Type := MkSeg { s_prox : option (pt A); s_dist : pt A; s_fract : A }.
Arguments MkSeg {A} _ _ _.
Arguments s_prox {A} _.
Arguments s_dist {A} _.
Arguments s_fract {A} _.

(* get_actual_proximal: slot 0 = fract, 1-4 = pp (actual proximal of the parent, the recursive call),
   5-8 = pd (parent.distal) *)
Inductive pprog : Type :=
| PPIfProx (t e : pprog)                 (* if segment.proximal: *)
| PPRetOwnProx                           (* return segment.proximal *)
| PPRetParentDistal                      (* return parent.distal *)
| PPRetRec                               (* return self.get_actual_proximal(segment.parent.segments) *)
| PPRetNew (x y z d : gexpr)             (* return Point3DWithDiam(x=, y=, z=) with .diameter = d *)
| PPIf (c : gcond) (t e : pprog)         (* a test on fract *)
| PPRaise.

Definition env_interp {A : Type} (fr : A) (pp pd : pt A) : list A :=
  [fr; p_x pp; p_y pp; p_z pp; p_d pp; p_x pd; p_y pd; p_z pd; p_d pd].

Section EvalCell.
  Context {A : Type} (ar : arith A).

  (* own : the segment's own proximal; par : Some (fract, the recursive result, parent.distal), None when
     the segment has no parent (Python: AttributeError on segment.parent.segments) *)
  Fixpoint run_pp (p : pprog) (own : option (pt A)) (par : option (A * outcome (pt A) * pt A)) : outcome (pt A) :=
    match p with
    | PPIfProx t e => match own with Some _ => run_pp t own par | None => run_pp e own par end
    | PPRetOwnProx => match own with Some q => Val q | None => Exc end
    | PPRaise => Exc
    | PPRetParentDistal => match par with Some (_, _, pd) => Val pd | None => Exc end
    | PPRetRec => match par with Some (_, rec, _) => rec | None => Exc end
    | PPRetNew x y z d =>
        match par with
        | Some (fr, rec, pd) =>
            obind rec (fun pp => let env := env_interp fr pp pd in
                                 Val (MkPt (eval ar x env) (eval ar y env) (eval ar z env) (eval ar d env)))
        | None => Exc
        end
    | PPIf c t e =>
        match par with
        | Some (fr, _, _) => if evalc ar false c [fr] then run_pp t own par else run_pp e own par
        | None => Exc
        end
    end.

  (* chain = the segment followed by its ancestors (each found by get_segment(parent.segments)) *)
  Fixpoint actual_prox (pp : pprog) (chain : list (seg A)) : outcome (pt A) :=
    match chain with
    | [] => Exc
    | s :: rest =>
        run_pp pp (s_prox s)
               (match rest with
                | [] => None
                | par :: _ => Some (s_fract s, actual_prox pp rest, s_dist par)
                end)
    end.
End EvalCell.

(* the cell-level getters *)
Inductive gmethod : Type := MLength | MArea | MVolume.
Inductive ptsel : Type := SelOwnProx | SelDistal | SelActual.
Inductive cprog : Type :=
| CPIfProx (t e : cprog)                     (* if segment.proximal: *)
| CPSeg (m : gmethod) (prox dist : ptsel)    (* Segment(proximal=, distal=).<m>  (or segment.<m>) *)
| CPDist (self other : ptsel)                (* <self>.distance_to(<other>) *)
| CPRaise.

(* the translated programs of one run *)
Record geom_table : Type := MkGeom {
  g_length : gprog;       (* Segment.length *)
  g_volume : gprog;       (* Segment.volume *)
  g_area : gprog;         (* Segment.surface_area *)
  g_distance : gprog;     (* Point3DWithDiam.distance_to *)
  g_actual : pprog;       (* Cell.get_actual_proximal *)
  g_cell_length : cprog;  (* Cell.get_segment_length *)
  g_cell_area : cprog;    (* Cell.get_segment_surface_area *)
  g_cell_volume : cprog   (* Cell.get_segment_volume *)
}.

Definition method_prog (g : geom_table) (m : gmethod) : gprog :=
  match m with MLength => g_length g | MArea => g_area g | MVolume => g_volume g end.

Section EvalGetters.
  Context {A : Type} (ar : arith A) (g : geom_table).

  (* None = the Python value None (a segment without proximal) *)
  Definition sel_pt (sel : ptsel) (chain : list (seg A)) : outcome (option (pt A)) :=
    match chain with
    | [] => Exc
    | s :: _ =>
        match sel with
        | SelOwnProx => Val (s_prox s)
        | SelDistal => Val (Some (s_dist s))
        | SelActual => omap Some (actual_prox ar (g_actual g) chain)
        end
    end.

  Definition zero_pt : pt A := MkPt (ar_ofZ ar 0) (ar_ofZ ar 0) (ar_ofZ ar 0) (ar_ofZ ar 0).

  Fixpoint run_cp (c : cprog) (chain : list (seg A)) : outcome A :=
    match c with
    | CPIfProx t e =>
        match chain with
        | [] => Exc
        | s :: _ => match s_prox s with Some _ => run_cp t chain | None => run_cp e chain end
        end
    | CPSeg m psel dsel =>
        obind (sel_pt psel chain) (fun op =>
        obind (sel_pt dsel chain) (fun od =>
          match od with
          | None => Exc
          | Some d =>
              match op with
              | Some p => run ar false (method_prog g m) (env_seg p d)
              | None => run ar true (method_prog g m) (env_seg zero_pt d)
              end
          end))
    | CPDist ssel osel =>
        obind (sel_pt ssel chain) (fun os =>
        obind (sel_pt osel chain) (fun oo =>
          match os, oo with
          | Some a, Some b => run ar false (g_distance g) (env_seg a b)
          | _, _ => Exc
          end))
    | CPRaise => Exc
    end.
End EvalGetters.

Definition wf_pprog_exprs : pprog -> bool :=
  fix go (p : pprog) : bool :=
    match p with
    | PPIfProx t e => go t && go e
    | PPRetNew x y z d => wf_expr 9 x && wf_expr 9 y && wf_expr 9 z && wf_expr 9 d
    | PPIf c t e => wf_cond 1 c && go t && go e
    | _ => true
    end.

Definition wf_table (g : geom_table) : bool :=
  wf_prog 8 (g_length g) && wf_prog 8 (g_volume g) && wf_prog 8 (g_area g) && wf_prog 8 (g_distance g)
  && wf_pprog_exprs (g_actual g).

(* ------------------------------------------------------------------ the specification (over R) *)
Local Open Scope R_scope.

Definition dist (a b : pt R) : R :=
  sqrt ((p_x a - p_x b) * (p_x a - p_x b) + (p_y a - p_y b) * (p_y a - p_y b) + (p_z a - p_z b) * (p_z a - p_z b)).

Definition coincide (a b : pt R) : Prop := p_x a = p_x b /\ p_y a = p_y b /\ p_z a = p_z b.
Definition coincideb (a b : pt R) : bool := Reqb (p_x a) (p_x b) && Reqb (p_y a) (p_y b) && Reqb (p_z a) (p_z b).

Definition frustum_volume (L r1 r2 : R) : R := PI / 3 * L * (r1 * r1 + r2 * r2 + r1 * r2).
Definition frustum_area (L r1 r2 : R) : R := PI * (r1 + r2) * sqrt ((r1 - r2) * (r1 - r2) + L * L).
Definition sphere_volume (r : R) : R := 4 / 3 * PI * (r * r * r).
Definition sphere_area (r : R) : R := 4 * PI * (r * r).

Definition rad (p : pt R) : R := p_d p / 2.

(* what the three properties of a segment with both end points must return *)
Definition ref_length (noprox : bool) (p d : pt R) : outcome R :=
  if noprox then Exc else Val (dist p d).

Definition ref_volume (noprox : bool) (p d : pt R) : outcome R :=
  if noprox then Exc
  else if coincideb p d
       then (if Reqb (rad p) (rad d) then Val (sphere_volume (rad p)) else Exc)
       else Val (frustum_volume (dist p d) (rad p) (rad d)).

Definition ref_area (noprox : bool) (p d : pt R) : outcome R :=
  if noprox then Exc
  else if coincideb p d
       then (if Reqb (rad p) (rad d) then Val (sphere_area (rad p)) else Exc)
       else Val (frustum_area (dist p d) (rad p) (rad d)).

(* the point a proximal-less segment inherits: the point at fraction f along the parent *)
Definition lerp (f : R) (a b : pt R) : pt R :=
  MkPt ((1 - f) * p_x a + f * p_x b) ((1 - f) * p_y a + f * p_y b)
       ((1 - f) * p_z a + f * p_z b) ((1 - f) * p_d a + f * p_d b).

Fixpoint ref_actual (chain : list (seg R)) : outcome (pt R) :=
  match chain with
  | [] => Exc
  | s :: rest =>
      match s_prox s with
      | Some q => Val q
      | None =>
          match rest with
          | [] => Exc
          | par :: _ =>
              if Reqb (s_fract s) 1 then Val (s_dist par)
              else omap (fun pp => lerp (s_fract s) pp (s_dist par)) (ref_actual rest)
          end
      end
  end.

(* the cell-level getters must be the segment-level functions at the actual proximal point *)
Definition ref_cell (f : bool -> pt R -> pt R -> outcome R) (chain : list (seg R)) : outcome R :=
  match chain with
  | [] => Exc
  | s :: _ => obind (ref_actual chain) (fun p => f false p (s_dist s))
  end.

(* ------------------------------------------------------------------ float correspondence *)
Local Open Scope float_scope.

(* relative closeness |m - i| <= tol * |i| (or bit-for-bit equal, which also covers 0 and inf) *)
Definition fclose (tol m i : float) : bool :=
  PrimFloat.eqb m i || (PrimFloat.leb (PrimFloat.abs (m - i)) (tol * PrimFloat.abs i)).

Definition ocmp (tol : float) (m i : outcome float) : bool :=
  match m, i with
  | Val a, Val b => fclose tol a b
  | Exc, Exc => true
  | _, _ => false
  end.

Definition ptcmp (tol : float) (m i : outcome (pt float)) : bool :=
  match m, i with
  | Val a, Val b => fclose tol (p_x a) (p_x b) && fclose tol (p_y a) (p_y b)
                    && fclose tol (p_z a) (p_z b) && fclose tol (p_d a) (p_d b)
  | Exc, Exc => true
  | _, _ => false
  end.

(* one segment-level case: the four methods on (p, d) *)
Record segcase : Type := MkSegCase {
  sc_p : pt float; sc_d : pt float;
  sc_len : outcome float; sc_vol : outcome float; sc_area : outcome float; sc_dist : outcome float
}.

Definition segcase_ok (tol : float) (g : geom_table) (c : segcase) : bool :=
  let env := env_seg (sc_p c) (sc_d c) in
  ocmp tol (run FA false (g_length g) env) (sc_len c)
  && ocmp tol (run FA false (g_volume g) env) (sc_vol c)
  && ocmp tol (run FA false (g_area g) env) (sc_area c)
  && ocmp tol (run FA false (g_distance g) env) (sc_dist c).

Definition segcase_exact (g : geom_table) (c : segcase) : bool := segcase_ok 0 g c.

(* one cell-level case: a chain and what the four Cell methods returned for its head *)
Record cellcase : Type := MkCellCase {
  cc_chain : list (seg float);
  cc_actual : outcome (pt float);
  cc_len : outcome float; cc_area : outcome float; cc_vol : outcome float
}.

Definition cellcase_ok (tol : float) (g : geom_table) (c : cellcase) : bool :=
  ptcmp 0 (actual_prox FA (g_actual g) (cc_chain c)) (cc_actual c)
  && ocmp tol (run_cp FA g (g_cell_length g) (cc_chain c)) (cc_len c)
  && ocmp tol (run_cp FA g (g_cell_area g) (cc_chain c)) (cc_area c)
  && ocmp tol (run_cp FA g (g_cell_volume g) (cc_chain c)) (cc_vol c).

Fixpoint mismatches_from {C : Type} (ok : C -> bool) (i : Z) (l : list C) : list Z :=
  match l with
  | [] => []
  | c :: r => if ok c then mismatches_from ok (i + 1)%Z r else i :: mismatches_from ok (i + 1)%Z r
  end.
Definition mismatches {C : Type} (ok : C -> bool) (l : list C) : list Z := mismatches_from ok 0%Z l.
Definition count_ok {C : Type} (ok : C -> bool) (l : list C) : Z := Z.of_nat (length (filter ok l)).
