(* C07 model: shared-state footprint of the loaders and the network builders.
   B1  the generated table (mutable defaults, class-level fields, written globals) and its obligations
   B2  abstract history semantics with read/write footprints
   B3  concrete model of neuroml/loaders.py (_read_neuroml2 and its entry points) with the default
       `already_included` lists as world cells
   B4  abstract interleaving of two handler streams over Shared/Own placed fields
   B5  concrete model of neuroml/hdf5/NetworkBuilder.py as an instance of B4
   Definitions only; proofs are in Proofs/StateP.v. *)
From Coq Require Import String List Bool ZArith Arith DecimalString.
Import ListNotations.
Open Scope string_scope.

(* ------------------------------------------------------------------------------------------- *)
(* B1. the generated table                                                                       *)
(* ------------------------------------------------------------------------------------------- *)
Record default_site := {
  ds_module : string; ds_func : string; ds_param : string;
  ds_mutated : bool;       (* the default object, or an alias, is mutated in place (also through callees / self.attr) *)
  ds_escapes : bool        (* it reaches a place the analysis cannot follow (fail closed) *)
}.

Inductive fkind := KMutable | KImmutable | KLogger.

Record field_site := {
  fs_module : string; fs_cls : string; fs_attr : string;
  fs_kind : fkind;
  fs_rebound : bool;          (* every constructor chain rebinds self.attr to a fresh value *)
  fs_mutated : bool;          (* some method mutates self.attr / Class.attr in place *)
  fs_class_assigned : bool    (* assigned through the class object (Class.attr = ..., cls.attr = ...) *)
}.

Record global_site := {
  gs_module : string; gs_name : string;
  gs_writers : list string; gs_readers : list string
}.

(* class-level state of the bindings runtime: the generated classes' metadata lists (one row per attribute name / pattern,
   e.g. member_data_items_ of all 199 classes) and the keyed memos kept on the class object (__all_members_) *)
Inductive mkind := MMetadata | MMemo.

Record meta_site := {
  cm_module : string; cm_attr : string; cm_kind : mkind;
  cm_classes : Z;        (* how many classes carry it *)
  cm_mutated : bool;     (* metadata: some run-time code mutates it in place or rebinds it, directly, through any receiver
                            (cls / self / c in __mro__) or through a local alias.  memo: an entry is deleted / the table is
                            used other than by key / a value handed out by its getter is mutated by a caller *)
  cm_aliases : bool      (* memo: some stored value is not provably a fresh object (it may alias a class attribute) *)
}.

(* mutations of process-global state (working directory, environment, sys.path, warnings filters, logging configuration,
   recursion limit, locale, stdio) in the analysed modules *)
Inductive pskind := KCwd | KEnviron | KSysPath | KWarnings | KLogging | KRecursion | KLocale | KStdio
                  | KModuleAttr.   (* an attribute of another module assigned in a function: a process-wide switch *)

Record proc_site := {
  ps_module : string; ps_func : string; ps_kind : pskind;
  ps_import_time : bool;   (* a module-level statement: executed once at import, a constant of every history *)
  ps_restored : bool       (* inside a function: in a saving context manager, or restored in the `finally` of the try that
                              immediately follows / encloses it (for the cwd: os.chdir(saved), saved = os.getcwd()) *)
}.

(* un-restored mutations that /repo has today, recorded as known findings (known_findings.jsonl) and re-demonstrated on every
   run; any OTHER site, and any other kind in these functions, still breaks the obligation *)
Definition known_proc_site (s : proc_site) : bool :=
  String.eqb (ps_module s) "neuroml.loaders" &&
  match ps_kind s with
  | KWarnings => String.eqb (ps_func s) "NeuroMLLoader.__nml2_doc" || String.eqb (ps_func s) "_read_neuroml2"
  | KLogging => String.eqb (ps_func s) "NeuroMLHdf5Loader.__nml2_doc"   (* no effect: the package import configures logging first *)
  | _ => false
  end.

Definition proc_bad (s : proc_site) : bool :=
  negb (ps_import_time s) && negb (ps_restored s) && negb (known_proc_site s).

(* attribute writes on objects that a function of the hdf5 modules received as an argument (p.x = .., p.x += .., del p.x,
   setattr(p, ..), p.x.append(..), p[k] = .., through local aliases too).  Such an object belongs to the caller and may be handed
   to any number of handlers: it is a store shared by all of them, whatever the placement of the handler's own fields *)
Record argw_site := {
  aw_module : string; aw_class : string; aw_func : string; aw_param : string; aw_attr : string;
  aw_handler : bool    (* a handle* / finalise* method of NetworkBuilder, DefaultNetworkHandler or a class derived from them *)
}.

(* iteration over a SET of ids whose order reaches an ordered container of the document (for x in by_id.keys() - present:
   lst.append(..)).  The hashes of str are randomised per process (PYTHONHASHSEED): set order is process state, not input *)
Record setorder_site := { so_module : string; so_func : string; so_expr : string }.

Record state_table := {
  st_defaults : list default_site;
  st_fields : list field_site;
  st_globals : list global_site;
  st_classmeta : list meta_site;
  st_process : list proc_site;
  st_argwrites : list argw_site;
  st_setorder : list setorder_site
}.

Definition set_iteration_sites (t : state_table) : list setorder_site := st_setorder t.

Definition is_nil {A} (l : list A) : bool := match l with [] => true | _ => false end.

Definition default_bad (d : default_site) : bool := ds_mutated d || ds_escapes d.

Definition field_shared (f : field_site) : bool :=
  (match fs_kind f with KMutable => negb (fs_rebound f) && fs_mutated f | _ => false end) || fs_class_assigned f.

Definition global_read (g : global_site) : bool := negb (is_nil (gs_readers g)).

Definition mutated_defaults (t : state_table) : list default_site := filter default_bad (st_defaults t).
Definition shared_fields (t : state_table) : list field_site := filter field_shared (st_fields t).
Definition all_own (t : state_table) : bool := forallb (fun f => negb (field_shared f)) (st_fields t).
Definition globals_read (t : state_table) : list global_site := filter global_read (st_globals t).

Definition meta_bad (m : meta_site) : bool := cm_mutated m || cm_aliases m.
Definition mutated_class_attrs (t : state_table) : list meta_site := filter meta_bad (st_classmeta t).

Definition process_leaks (t : state_table) : list proc_site := filter proc_bad (st_process t).

(* the handlers' writes on argument objects; rows outside the handler methods are listed in the evidence only *)
Definition argument_writes (t : state_table) : list argw_site := filter aw_handler (st_argwrites t).

Definition state_ok (t : state_table) : bool :=
  is_nil (mutated_defaults t) && all_own t && is_nil (globals_read t) && is_nil (mutated_class_attrs t)
  && is_nil (process_leaks t) && is_nil (argument_writes t).

(* ------------------------------------------------------------------------------------------- *)
(* B2. histories of calls with footprints                                                        *)
(* ------------------------------------------------------------------------------------------- *)
Section History.
  Variables C V call res : Type.
  Definition gworld := C -> V.
  Variable sem : call -> gworld -> res * gworld.
  Variables Rd Wr : call -> list C.

  Definition agree (l : list C) (w1 w2 : gworld) : Prop := forall c, In c l -> w1 c = w2 c.

  (* the result and the written cells are determined by the cells in the read footprint *)
  Definition reads_only : Prop :=
    forall x w1 w2, agree (Rd x) w1 w2 ->
      fst (sem x w1) = fst (sem x w2) /\ agree (Wr x) (snd (sem x w1)) (snd (sem x w2)).

  (* nothing outside the write footprint changes *)
  Definition writes_only : Prop :=
    forall x w c, ~ In c (Wr x) -> snd (sem x w) c = w c.

  Definition no_interference : Prop := forall x y c, In c (Wr x) -> ~ In c (Rd y).

  (* a cell every call leaves as it found it, on normal and on raising outcomes (e.g. the working directory when every
     os.chdir is undone in a finally) *)
  Definition restores (c : C) : Prop := forall x w, snd (sem x w) c = w c.

  (* every cell a call reads is either written by nobody or restored by everybody *)
  Definition stable_reads : Prop := forall x y c, In c (Rd x) -> ~ In c (Wr y) \/ restores c.

  Fixpoint run (h : list call) (w : gworld) : gworld :=
    match h with [] => w | x :: h' => run h' (snd (sem x w)) end.

  (* the results a history produces, call by call *)
  Fixpoint results (h : list call) (w : gworld) : list res :=
    match h with [] => [] | x :: h' => fst (sem x w) :: results h' (snd (sem x w)) end.
End History.

(* a keyed memo (e.g. GeneratedsSuperSuper.__all_members_): look up, or compute-and-store.  f is what the computation
   returns for a key: a function of the key and of CONSTANTS of the world (class metadata nobody mutates). *)
Section Memo.
  Variables K V : Type.
  Variable keqb : K -> K -> bool.
  Variable f : K -> V.
  Definition memo := list (K * V).
  Fixpoint mlookup (m : memo) (k : K) : option V :=
    match m with [] => None | (k', v) :: r => if keqb k' k then Some v else mlookup r k end.
  Definition mget (m : memo) (k : K) : V * memo :=
    match mlookup m k with Some v => (v, m) | None => (f k, (k, f k) :: m) end.
  Definition mconsistent (m : memo) : Prop := forall k v, mlookup m k = Some v -> v = f k.
  Fixpoint mrun (ks : list K) (m : memo) : list V * memo :=
    match ks with
    | [] => ([], m)
    | k :: r => let '(v, m1) := mget m k in let '(vs, m2) := mrun r m1 in (v :: vs, m2)
    end.
End Memo.

(* ------------------------------------------------------------------------------------------- *)
(* B3. loaders.py                                                                                *)
(* ------------------------------------------------------------------------------------------- *)
Inductive file_kind := FXml | FH5.

Record file := {
  f_kind : file_kind;
  f_includes : list string;   (* resolved absolute locations, in document order (for FH5: of the embedded XML) *)
  f_items : list string;      (* "member:id" of the top-level components (for FH5: of the embedded XML) *)
  f_net : list string         (* FH5 only: what the network builder puts into the document *)
}.

Definition fstore := list (string * file).

Fixpoint lookup_file (fs : fstore) (p : string) : option file :=
  match fs with
  | [] => None
  | (q, f) :: r => if String.eqb q p then Some f else lookup_file r p
  end.

Definition mem (x : string) (l : list string) : bool := existsb (String.eqb x) l.

(* utils.add_all_to_document: append every entry whose id is not yet present in the same member list *)
Definition add_all (src tgt : list string) : list string :=
  fold_left (fun t e => if mem e t then t else (t ++ [e])%list) src tgt.

Definition ends_with (suf s : string) : bool :=
  let n := String.length s in let m := String.length suf in
  (m <=? n)%nat && String.eqb (substring (n - m) m s) suf.

Inductive default_mode := DNone | DSharedList.
  (* DNone: `already_included=None` + `if already_included is None: already_included = []` (fresh per call)
     DSharedList: `already_included=[]` evaluated once at def time and appended to *)

(* the default objects of read_neuroml2_file / read_neuroml2_string / _read_neuroml2 / NeuroMLHdf5Loader.load *)
Inductive cell := CellFile | CellString | CellInner | CellH5.

Definition cell_eqb (a b : cell) : bool :=
  match a, b with
  | CellFile, CellFile | CellString, CellString | CellInner, CellInner | CellH5, CellH5 => true
  | _, _ => false
  end.

Record modes := { m_file : default_mode; m_string : default_mode; m_inner : default_mode; m_h5 : default_mode }.

Definition mode_of (ms : modes) (c : cell) : default_mode :=
  match c with CellFile => m_file ms | CellString => m_string ms | CellInner => m_inner ms | CellH5 => m_h5 ms end.

Definition lworld := cell -> list string.
Definition wupd (w : lworld) (c : cell) (v : list string) : lworld := fun c' => if cell_eqb c c' then v else w c'.
Definition w_empty : lworld := fun _ => [].

(* `already_included` is a reference: a call-local list (threaded by value) or one of the shared default objects *)
Inductive aref := ALocal | AWorld (c : cell).

Definition aget (r : aref) (loc : list string) (w : lworld) : list string :=
  match r with ALocal => loc | AWorld c => w c end.

Definition aapp (r : aref) (x : string) (loc : list string) (w : lworld) : list string * lworld :=
  match r with
  | ALocal => ((loc ++ [x])%list, w)
  | AWorld c => (loc, wupd w c (w c ++ [x])%list)
  end.

Inductive source :=
| SPath (p : string)     (* a file name *)
| SStr (name : string)   (* an XML string (its text is that of the XML file `name` of the store) *)
| SEmb (p : string).     (* the XML string embedded in the HDF5 file p *)

Inductive res := ROk (items : list string) | RErr | RFuel.

Definition reader := source -> bool -> aref -> list string -> lworld -> res * list string * lworld.
Definition out := (res * list string * lworld)%type.

(* three places where versions of loaders.py differ; the translator reads them off the source on every run *)
Record lshape := {
  sh_mark_entry : bool;     (* _read_neuroml2 records the file it reads in already_included before loading it *)
  sh_append_first : bool;   (* the include loop appends incl_loc BEFORE following the include (else after) *)
  sh_h5_threads : bool      (* NeuroMLHdf5Loader.load / NeuroMLHdf5Parser.parse hand already_included on to the read of
                               the embedded XML (else that read omits it and gets the default of read_neuroml2_string) *)
}.

(* which reference an omitted `already_included` denotes *)
Definition default_ref (m : default_mode) (c : cell) : aref :=
  match m with DNone => ALocal | DSharedList => AWorld c end.

(* NeuroMLHdf5Loader.load -> NeuroMLHdf5Parser.parse: the embedded XML goes through
   read_neuroml2_string(nml, include_includes=True, base_path=...); then the built network document gets all of it
   (add_all_to_document).  (r, loc) is the caller's already_included. *)
Definition load_h5_with (rd : reader) (ms : modes) (sh : lshape) (fs : fstore) (p : string) (r : aref)
           (loc : list string) (w : lworld) : out :=
  match lookup_file fs p with
  | None => (RErr, loc, w)
  | Some f =>
    match f_kind f with
    | FXml => (RErr, loc, w)
    | FH5 =>
      if sh_h5_threads sh then
        match rd (SEmb p) true r loc w with
        | (ROk extra, loc1, w1) => (ROk (add_all extra (f_net f)), loc1, w1)
        | (e, loc1, w1) => (e, loc1, w1)
        end
      else
      match m_string ms with
      | DNone =>       (* a fresh list; the caller's local list is untouched *)
        match rd (SEmb p) true ALocal [] w with
        | (ROk extra, _, w1) => (ROk (add_all extra (f_net f)), loc, w1)
        | (e, _, w1) => (e, loc, w1)
        end
      | DSharedList => (* the shared default object of read_neuroml2_string *)
        match rd (SEmb p) true (AWorld CellString) loc w with
        | (ROk extra, loc1, w1) => (ROk (add_all extra (f_net f)), loc1, w1)
        | (e, loc1, w1) => (e, loc1, w1)
        end
      end
    end
  end.

(* parsing one XML text (a file, a string, or the string embedded in an HDF5 file) *)
Definition of_file (fs : fstore) (name : string) (k : file_kind) (loc : list string) (w : lworld)
  : option (list string * list string) * out :=
  match lookup_file fs name with
  | Some f =>
    match f_kind f, k with
    | FXml, FXml | FH5, FH5 => (Some (f_includes f, f_items f), (RErr, loc, w))
    | _, _ => (None, (RErr, loc, w))
    end
  | None => (None, (RErr, loc, w))
  end.

(* the parse step of _read_neuroml2: Some (includes, items) of the loaded document, or the exception *)
Definition load_top (rd : reader) (ms : modes) (sh : lshape) (fs : fstore) (src : source) (r : aref)
           (loc : list string) (w : lworld) : option (list string * list string) * out :=
  match src with
  | SStr name => of_file fs name FXml loc w                      (* nmlparsestring *)
  | SEmb p => of_file fs p FH5 loc w
  | SPath p =>
    if ends_with ".h5" p || ends_with ".hdf5" p then    (* NeuroMLHdf5Loader.load *)
      match load_h5_with rd ms sh fs p r loc w with
      | (ROk items, loc1, w1) => (Some ([], items), (RErr, loc1, w1))
      | (e, loc1, w1) => (None, (e, loc1, w1))
      end
    else of_file fs p FXml loc w                                 (* NeuroMLLoader.load *)
  end.

(* one include of the loop: follow it (read_neuroml2_file does the isfile check, then recurses with the SAME list) *)
Definition follow (rd : reader) (ms : modes) (sh : lshape) (fs : fstore) (r : aref) (i : string) (h5 : bool)
           (loc : list string) (w : lworld) : out :=
  if h5 then load_h5_with rd ms sh fs i r loc w
  else match lookup_file fs i with
       | None => (RErr, loc, w)          (* "Unable to find file" -> sys.exit() *)
       | Some _ => rd (SPath i) true r loc w
       end.

(* the include loop of _read_neuroml2 *)
Fixpoint inc_loop (rd : reader) (ms : modes) (sh : lshape) (fs : fstore) (r : aref) (incs : list string)
         (doc : list string) (loc : list string) (w : lworld) {struct incs} : out :=
  match incs with
  | [] => (ROk doc, loc, w)
  | i :: rest =>
    if mem i (aget r loc w) then inc_loop rd ms sh fs r rest doc loc w      (* incl_loc in already_included *)
    else
      let xml := ends_with ".nml" i || ends_with ".xml" i in
      if xml || ends_with ".nml.h5" i then
        if sh_append_first sh then
          (* already_included.append(incl_loc); sub = load(...); add_all_to_document(sub, doc) *)
          match follow rd ms sh fs r i (negb xml) (fst (aapp r i loc w)) (snd (aapp r i loc w)) with
          | (ROk sub, loc2, w2) => inc_loop rd ms sh fs r rest (add_all sub doc) loc2 w2
          | (e, loc2, w2) => (e, loc2, w2)
          end
        else
          (* sub = load(...); already_included.append(incl_loc); add_all_to_document(sub, doc) *)
          match follow rd ms sh fs r i (negb xml) loc w with
          | (ROk sub, loc2, w2) =>
            inc_loop rd ms sh fs r rest (add_all sub doc) (fst (aapp r i loc2 w2)) (snd (aapp r i loc2 w2))
          | (e, loc2, w2) => (e, loc2, w2)
          end
      else (RErr, loc, w)                                  (* "Unrecognised extension on file" *)
  end.

(* _read_neuroml2(src, include_includes, already_included = r) *)
Fixpoint read2 (fuel : nat) (ms : modes) (sh : lshape) (fs : fstore) (src : source) (incl : bool) (r : aref)
         (loc : list string) (w : lworld) {struct fuel} : out :=
  match fuel with
  | O => (RFuel, loc, w)
  | S n =>
    let rd : reader := read2 n ms sh fs in
    (* this_loc = abspath(file); if this_loc not in already_included: already_included.append(this_loc) *)
    let mark : bool := match src with
                       | SPath p => sh_mark_entry sh && negb (mem p (aget r loc w))
                       | _ => false end in
    let p0 : string := match src with SPath p => p | _ => "" end in
    let loc0 := if mark then fst (aapp r p0 loc w) else loc in
    let w0 := if mark then snd (aapp r p0 loc w) else w in
    match load_top rd ms sh fs src r loc0 w0 with
    | (None, o) => o
    | (Some (incs, items), (_, loc1, w1)) =>
      if incl then inc_loop rd ms sh fs r incs items loc1 w1     (* ... and finally nml2_doc.includes = [] *)
      else (ROk items, loc1, w1)
    end
  end.

(* the public entry points *)
Inductive lcall :=
| CFile (p : string) (incl : bool) (ai : option (list string))      (* read_neuroml2_file *)
| CString (name : string) (incl : bool) (ai : option (list string)) (* read_neuroml2_string(text of name, base_path=dir) *)
| CInner (src : source) (incl : bool) (ai : option (list string))   (* _read_neuroml2 *)
| CLoadH5 (p : string)                                              (* NeuroMLHdf5Loader.load *)
| CLoadXml (p : string).                                            (* NeuroMLLoader.load *)

Definition start_ref (m : default_mode) (c : cell) (ai : option (list string)) : aref * list string :=
  match ai with
  | Some l => (ALocal, l)
  | None => (default_ref m c, [])
  end.

Definition exec_call (fuel : nat) (ms : modes) (sh : lshape) (fs : fstore) (x : lcall) (w : lworld) : res * lworld :=
  match x with
  | CFile p incl ai =>
    let '(r, loc) := start_ref (m_file ms) CellFile ai in
    match lookup_file fs p with
    | None => (RErr, w)           (* "Unable to find file" -> sys.exit() *)
    | Some _ => let '(a, _, w') := read2 fuel ms sh fs (SPath p) incl r loc w in (a, w')
    end
  | CString name incl ai =>
    let '(r, loc) := start_ref (m_string ms) CellString ai in
    let '(a, _, w') := read2 fuel ms sh fs (SStr name) incl r loc w in (a, w')
  | CInner src incl ai =>
    let '(r, loc) := start_ref (m_inner ms) CellInner ai in
    let '(a, _, w') := read2 fuel ms sh fs src incl r loc w in (a, w')
  | CLoadH5 p =>      (* load(src, optimized, already_included=<default>): only used when the shape threads it *)
    let '(r, loc) := start_ref (m_h5 ms) CellH5 None in
    let '(a, _, w') := load_h5_with (read2 fuel ms sh fs) ms sh fs p r loc w in (a, w')
  | CLoadXml p =>
    match lookup_file fs p with
    | Some f => match f_kind f with FXml => (ROk (f_items f), w) | FH5 => (RErr, w) end
    | None => (RErr, w)
    end
  end.

Definition run_hist (fuel : nat) (ms : modes) (sh : lshape) (fs : fstore) (hist : list lcall) (w : lworld) : lworld :=
  run cell (list string) lcall res (exec_call fuel ms sh fs) hist w.

(* loaders.py at the pinned commit *)
Definition shape0 : lshape := {| sh_mark_entry := false; sh_append_first := false; sh_h5_threads := false |}.

Definition none_modes : modes := {| m_file := DNone; m_string := DNone; m_inner := DNone; m_h5 := DNone |}.

(* footprints derived from the modes: a call may read and write exactly the shared default objects *)
Definition shared_cells (ms : modes) : list cell :=
  filter (fun c => match mode_of ms c with DSharedList => true | DNone => false end) [CellFile; CellString; CellInner; CellH5].

(* the modes as determined by the generated table *)
Definition flagged (t : state_table) (func : string) : bool :=
  existsb (fun d => String.eqb (ds_module d) "neuroml.loaders" && String.eqb (ds_func d) func
                    && String.eqb (ds_param d) "already_included") (mutated_defaults t).

Definition mode_if (b : bool) : default_mode := if b then DSharedList else DNone.

Definition modes_of (t : state_table) : modes :=
  {| m_file := mode_if (flagged t "read_neuroml2_file");
     m_string := mode_if (flagged t "read_neuroml2_string");
     m_inner := mode_if (flagged t "_read_neuroml2");
     m_h5 := mode_if (flagged t "NeuroMLHdf5Loader.load") |}.

(* comparison helpers for the correspondence run *)
Definition same_set (a b : list string) : bool :=
  (length a =? length b)%nat && forallb (fun x => mem x b) a && forallb (fun x => mem x a) b.

Definition res_agrees (model : res) (impl : option (list string)) : bool :=
  match model, impl with
  | ROk a, Some b => same_set a b
  | RErr, None => true
  | _, _ => false
  end.

(* ------------------------------------------------------------------------------------------- *)
(* B4. interleaving two handler streams over placed fields                                       *)
(* ------------------------------------------------------------------------------------------- *)
Inductive who := WA | WB.

Definition who_eqb (a b : who) : bool := match a, b with WA, WA | WB, WB => true | _, _ => false end.

Section Interleave.
  Variables F V : Type.
  Definition store := F -> V.
  Definition handler := store -> store.

  Record sys := { sh : store; ownA : store; ownB : store }.

  Variable pl : F -> bool.   (* true = Own (one copy per builder), false = Shared (one copy for both) *)

  Definition own_of (w : who) (s : sys) : store := match w with WA => ownA s | WB => ownB s end.

  (* what `self.f` denotes for builder w *)
  Definition view (w : who) (s : sys) : store := fun f => if pl f then own_of w s f else sh s f.

  (* run one handler call of builder w: it sees its view; every field is written back to where it lives *)
  Definition step (w : who) (h : handler) (s : sys) : sys :=
    let v' := h (view w s) in
    {| sh := fun f => if pl f then sh s f else v' f;
       ownA := fun f => match w with WA => if pl f then v' f else ownA s f | WB => ownA s f end;
       ownB := fun f => match w with WB => if pl f then v' f else ownB s f | WA => ownB s f end |}.

  Fixpoint run_sched (sched : list (who * handler)) (s : sys) : sys :=
    match sched with [] => s | (w, h) :: r => run_sched r (step w h s) end.

  Fixpoint run_solo (hs : list handler) (r : store) : store :=
    match hs with [] => r | h :: t => run_solo t (h r) end.

  Definition proj (w : who) (sched : list (who * handler)) : list handler :=
    map snd (filter (fun p => who_eqb (fst p) w) sched).

  (* handlers are functions of the CONTENT of the store *)
  Definition hext (h : handler) : Prop :=
    forall v1 v2, (forall f, v1 f = v2 f) -> forall f, h v1 f = h v2 f.
End Interleave.

(* ------------------------------------------------------------------------------------------- *)
(* B5. NetworkBuilder                                                                            *)
(* ------------------------------------------------------------------------------------------- *)
Definition zs (z : Z) : string := NilZero.string_of_int (Z.to_int z).

(* one line of a canonical dump / one connection, instance or input: tag, strings, integers *)
Definition rec3 := (string * list string * list Z)%type.

Inductive pkind := PProj | PElec | PCont.

Definition pkind_name (k : pkind) : string :=
  match k with PProj => "projection" | PElec => "electricalProjection" | PCont => "continuousProjection" end.

Definition pkind_of_name (s : string) : option pkind :=
  if String.eqb s "projection" then Some PProj
  else if String.eqb s "electricalProjection" then Some PElec
  else if String.eqb s "continuousProjection" then Some PCont else None.

Inductive obj :=
| ObPop (id comp : string) (size : Z) (is_list : bool) (insts : list rec3)
| ObProj (k : pkind) (id pre post syn : string) (l1 l2 l3 : list rec3)
| ObIL (id comp pop : string) (inp inpw : list rec3).

(* the values of the seven dicts: references are addresses into the arena that lives where the dict lives *)
Inductive dval := VAddr (a : nat) | VStr (s : string) | VBool (b : bool).
Definition dict := list (string * dval).

Fixpoint dget (d : dict) (k : string) : option dval :=
  match d with [] => None | (k', v) :: r => if String.eqb k' k then Some v else dget r k end.
Definition dset (d : dict) (k : string) (v : dval) : dict := (k, v) :: d.

Inductive dfield := DPops | DProjs | DSyns | DTypes | DSynsPre | DILists | DWD.

Definition dfield_name (f : dfield) : string :=
  match f with
  | DPops => "populations" | DProjs => "projections" | DSyns => "projection_syns" | DTypes => "projection_types"
  | DSynsPre => "projection_syns_pre" | DILists => "input_lists" | DWD => "weightDelays"
  end.

Record docrec := { d_id : string; d_nets : list nat; d_silent : list string }.
Record netrec := { n_id : string; n_pops : list nat; n_projs : list nat; n_eprojs : list nat; n_cprojs : list nat;
                   n_il : list nat }.

(* what one builder sees through `self` *)
Record bview := {
  v_doc : option docrec;      (* self.nml_doc *)
  v_net : option nat;         (* self.network (address in v_nets) *)
  v_nets : list netrec;       (* the Network objects this builder created *)
  v_pops : dict; v_projs : dict; v_syns : dict; v_types : dict; v_synspre : dict; v_ilists : dict; v_wd : dict;
  v_hpops : list obj;         (* Population objects: the arena lives where `populations` lives *)
  v_hprojs : list obj;        (* Projection objects: lives where `projections` lives *)
  v_hil : list obj;           (* InputList objects: lives where `input_lists` lives *)
  v_log : list bool           (* per handler call: did it raise? *)
}.

Definition empty_view : bview :=
  {| v_doc := None; v_net := None; v_nets := []; v_pops := []; v_projs := []; v_syns := []; v_types := [];
     v_synspre := []; v_ilists := []; v_wd := []; v_hpops := []; v_hprojs := []; v_hil := []; v_log := [] |}.

Inductive op :=
| OpDocStart (id : string)
| OpNetwork (id : string)
| OpPopulation (pid comp : string) (size : Z)
| OpLocation (id : Z) (pid : string) (xyz : option (Z * Z * Z))
| OpProjection (id pre post syn : string) (k : pkind) (hasW hasD : bool) (presyn : option string)
    (* presyn: id of a pre_synapse_obj (a SilentSynapse) handed to handle_projection, or None *)
| OpConnection (proj : string) (cid : Z) (pre post : string) (preCell postCell : Z) (delay weight : Z)
| OpInputList (id pop comp : string)
| OpSingleInput (lid : string) (id cell : Z) (weight : Z)
| OpFinalise (id pre post syn : string) (k : option pkind).

Fixpoint set_nth {A} (l : list A) (n : nat) (x : A) : list A :=
  match l, n with
  | [], _ => []
  | _ :: t, O => x :: t
  | h :: t, S m => h :: set_nth t m x
  end.

Definition upd_net (v : bview) (a : nat) (g : netrec -> netrec) : bview :=
  match nth_error (v_nets v) a with
  | Some n =>
    {| v_doc := v_doc v; v_net := v_net v; v_nets := set_nth (v_nets v) a (g n); v_pops := v_pops v; v_projs := v_projs v;
       v_syns := v_syns v; v_types := v_types v; v_synspre := v_synspre v; v_ilists := v_ilists v; v_wd := v_wd v;
       v_hpops := v_hpops v; v_hprojs := v_hprojs v; v_hil := v_hil v; v_log := v_log v |}
  | None => v
  end.

Definition with_doc (v : bview) (d : option docrec) : bview :=
  {| v_doc := d; v_net := v_net v; v_nets := v_nets v; v_pops := v_pops v; v_projs := v_projs v;
     v_syns := v_syns v; v_types := v_types v; v_synspre := v_synspre v; v_ilists := v_ilists v; v_wd := v_wd v;
     v_hpops := v_hpops v; v_hprojs := v_hprojs v; v_hil := v_hil v; v_log := v_log v |}.

Definition with_net (v : bview) (n : option nat) (nets : list netrec) : bview :=
  {| v_doc := v_doc v; v_net := n; v_nets := nets; v_pops := v_pops v; v_projs := v_projs v;
     v_syns := v_syns v; v_types := v_types v; v_synspre := v_synspre v; v_ilists := v_ilists v; v_wd := v_wd v;
     v_hpops := v_hpops v; v_hprojs := v_hprojs v; v_hil := v_hil v; v_log := v_log v |}.

Definition with_pops (v : bview) (d : dict) (h : list obj) : bview :=
  {| v_doc := v_doc v; v_net := v_net v; v_nets := v_nets v; v_pops := d; v_projs := v_projs v;
     v_syns := v_syns v; v_types := v_types v; v_synspre := v_synspre v; v_ilists := v_ilists v; v_wd := v_wd v;
     v_hpops := h; v_hprojs := v_hprojs v; v_hil := v_hil v; v_log := v_log v |}.

Definition with_projs (v : bview) (d : dict) (h : list obj) : bview :=
  {| v_doc := v_doc v; v_net := v_net v; v_nets := v_nets v; v_pops := v_pops v; v_projs := d;
     v_syns := v_syns v; v_types := v_types v; v_synspre := v_synspre v; v_ilists := v_ilists v; v_wd := v_wd v;
     v_hpops := v_hpops v; v_hprojs := h; v_hil := v_hil v; v_log := v_log v |}.

Definition with_il (v : bview) (d : dict) (h : list obj) : bview :=
  {| v_doc := v_doc v; v_net := v_net v; v_nets := v_nets v; v_pops := v_pops v; v_projs := v_projs v;
     v_syns := v_syns v; v_types := v_types v; v_synspre := v_synspre v; v_ilists := d; v_wd := v_wd v;
     v_hpops := v_hpops v; v_hprojs := v_hprojs v; v_hil := h; v_log := v_log v |}.

Definition with_meta (v : bview) (syns types synspre wd : dict) : bview :=
  {| v_doc := v_doc v; v_net := v_net v; v_nets := v_nets v; v_pops := v_pops v; v_projs := v_projs v;
     v_syns := syns; v_types := types; v_synspre := synspre; v_ilists := v_ilists v; v_wd := wd;
     v_hpops := v_hpops v; v_hprojs := v_hprojs v; v_hil := v_hil v; v_log := v_log v |}.

Definition with_log (v : bview) (b : bool) : bview :=
  {| v_doc := v_doc v; v_net := v_net v; v_nets := v_nets v; v_pops := v_pops v; v_projs := v_projs v;
     v_syns := v_syns v; v_types := v_types v; v_synspre := v_synspre v; v_ilists := v_ilists v; v_wd := v_wd v;
     v_hpops := v_hpops v; v_hprojs := v_hprojs v; v_hil := v_hil v; v_log := (v_log v ++ [b])%list |}.

(* self.populations[pid] as an object *)
Definition get_pop (v : bview) (pid : string) : option (nat * obj) :=
  match dget (v_pops v) pid with
  | Some (VAddr a) => match nth_error (v_hpops v) a with Some o => Some (a, o) | None => None end
  | _ => None
  end.

Definition get_str (d : dict) (k : string) : option string :=
  match dget d k with Some (VStr s) => Some s | _ => None end.

(* "../%s/%i/%s" % (pop, cell, self.populations[pop].component), or "../%s[%i]" when .type is None *)
Definition cell_path (pop : string) (cellid : Z) (o : obj) : string :=
  match o with
  | ObPop _ comp _ true _ => "../" ++ pop ++ "/" ++ zs cellid ++ "/" ++ comp
  | _ => "../" ++ pop ++ "[" ++ zs cellid ++ "]"
  end.

Definition has_instances (o : obj) : bool :=
  match o with ObPop _ _ _ _ (_ :: _) => true | _ => false end.

(* each handler: new view and whether the call raised (a raising call may leave partial effects, as in the code) *)
(* eg: handle_connection refuses weight != 1 for an electrical connection between non-instance populations
   (a guard some versions of NetworkBuilder.py have; read off the source by the translator) *)
Definition hrec (eg : bool) (o : op) (v : bview) : bview * bool :=
  match o with
  | OpDocStart id =>
    (with_doc v (Some {| d_id := id; d_nets := []; d_silent := [] |}), false)
  | OpNetwork id =>
    (* self.network = Network(id); self.nml_doc.networks.append(self.network) *)
    let a := length (v_nets v) in
    let v1 := with_net v (Some a) (v_nets v ++ [{| n_id := id; n_pops := []; n_projs := []; n_eprojs := [];
                                                  n_cprojs := []; n_il := [] |}])%list in
    match v_doc v1 with
    | None => (v1, true)
    | Some d => (with_doc v1 (Some {| d_id := d_id d; d_nets := (d_nets d ++ [a])%list; d_silent := d_silent d |}), false)
    end
  | OpPopulation pid comp size =>
    (* self.populations[pid] = pop; self.network.populations.append(pop) *)
    let a := length (v_hpops v) in
    let v1 := with_pops v (dset (v_pops v) pid (VAddr a)) (v_hpops v ++ [ObPop pid comp size false []])%list in
    match v_net v1 with
    | None => (v1, true)
    | Some na =>
      (upd_net v1 na (fun n => {| n_id := n_id n; n_pops := (n_pops n ++ [a])%list; n_projs := n_projs n;
                                  n_eprojs := n_eprojs n; n_cprojs := n_cprojs n; n_il := n_il n |}), false)
    end
  | OpLocation id pid xyz =>
    match xyz with
    | None => (v, false)     (* "Ignoring location": no lookup at all *)
    | Some (x, y, z) =>
      match get_pop v pid with
      | Some (a, ObPop pi comp size _ insts) =>
        (with_pops v (v_pops v)
           (set_nth (v_hpops v) a (ObPop pi comp size true (insts ++ [("instance", [], [id; x; y; z])])%list)), false)
      | _ => (v, true)
      end
    end
  | OpProjection id pre post syn k hasW hasD presyn =>
    (* if pre_synapse_obj: self.nml_doc.append(pre_synapse_obj)   [add(): not re-added when an equal object is there] *)
    match presyn, v_doc v with
    | Some _, None => (v, true)
    | _, _ =>
    let v := match presyn, v_doc v with
             | Some s, Some d =>
               if mem s (d_silent d) then v
               else with_doc v (Some {| d_id := d_id d; d_nets := d_nets d; d_silent := (d_silent d ++ [s])%list |})
             | _, _ => v
             end in
    match v_net v with
    | None => (v, true)       (* self.network.<list>.append raises before anything else is stored *)
    | Some na =>
      let a := length (v_hprojs v) in
      let newp := ObProj k id pre post (match k with PProj => syn | _ => "" end) [] [] [] in
      let v1 := upd_net v na (fun n =>
                  match k with
                  | PProj => {| n_id := n_id n; n_pops := n_pops n; n_projs := (n_projs n ++ [a])%list;
                                n_eprojs := n_eprojs n; n_cprojs := n_cprojs n; n_il := n_il n |}
                  | PElec => {| n_id := n_id n; n_pops := n_pops n; n_projs := n_projs n;
                                n_eprojs := (n_eprojs n ++ [a])%list; n_cprojs := n_cprojs n; n_il := n_il n |}
                  | PCont => {| n_id := n_id n; n_pops := n_pops n; n_projs := n_projs n;
                                n_eprojs := n_eprojs n; n_cprojs := (n_cprojs n ++ [a])%list; n_il := n_il n |}
                  end) in
      (* the object exists from here on (it sits in the network) *)
      let v2 := with_projs v1 (v_projs v1) (v_hprojs v1 ++ [newp])%list in
      let fin (v3 : bview) : bview :=
        with_meta (with_projs v3 (dset (v_projs v3) id (VAddr a)) (v_hprojs v3))
                  (v_syns v3) (dset (v_types v3) id (VStr (pkind_name k))) (v_synspre v3)
                  (dset (v_wd v3) id (VBool (hasW || hasD))) in
      match k with
      | PProj => (fin v2, false)
      | PElec => (fin (with_meta v2 (dset (v_syns v2) id (VStr syn)) (v_types v2) (v_synspre v2) (v_wd v2)), false)
      | PCont =>
        let v3 := with_meta v2 (dset (v_syns v2) id (VStr syn)) (v_types v2) (v_synspre v2) (v_wd v2) in
        match presyn with
        | Some s => (fin (with_meta v3 (v_syns v3) (v_types v3) (dset (v_synspre v3) id (VStr s)) (v_wd v3)), false)
        | None =>
          (* pre_synapse_obj is None: SilentSynapse("silentSyn_<id>") appended to self.nml_doc.silent_synapses *)
          match v_doc v3 with
          | None => (v3, true)
          | Some d =>
            let sid := "silentSyn_" ++ id in
            let v4 := with_doc v3 (Some {| d_id := d_id d; d_nets := d_nets d; d_silent := (d_silent d ++ [sid])%list |}) in
            (fin (with_meta v4 (v_syns v4) (v_types v4) (dset (v_synspre v4) id (VStr sid)) (v_wd v4)), false)
          end
        end
      end
    end
    end
  | OpConnection proj cid pre post preCell postCell delay weight =>
    match get_pop v pre, get_pop v post with
    | Some (_, opre), Some (_, opost) =>
      let prepath := cell_path pre preCell opre in
      let postpath := cell_path post postCell opost in
      let instances := has_instances opre || has_instances opost in
      match dget (v_projs v) proj with
      | Some (VAddr a) =>
        match nth_error (v_hprojs v) a with
        | Some (ObProj k pi ppre ppost psyn l1 l2 l3) =>
          let put (l1' l2' l3' : list rec3) :=
            with_projs v (v_projs v) (set_nth (v_hprojs v) a (ObProj k pi ppre ppost psyn l1' l2' l3')) in
          match k with
          | PElec =>
            match get_str (v_syns v) proj with
            | None => (v, true)
            | Some syn =>
              if negb instances then
                if eg && negb (weight =? 1)%Z then (v, true)
                else (put (l1 ++ [("electricalConnection", [zs preCell; zs postCell; syn], [cid])])%list l2 l3, false)
              else if (weight =? 1)%Z then
                (put l1 (l2 ++ [("electricalConnectionInstance", [prepath; postpath; syn], [cid])])%list l3, false)
              else
                (put l1 l2 (l3 ++ [("electricalConnectionInstanceW", [prepath; postpath; syn], [cid; weight])])%list, false)
            end
          | PCont =>
            if negb instances && negb (weight =? 1)%Z then (v, true)   (* "Case not (yet) supported" *)
            else
            match get_str (v_synspre v) proj, get_str (v_syns v) proj with
            | Some spre, Some syn =>
              if negb instances then
                (put (l1 ++ [("continuousConnection", [zs preCell; zs postCell; spre; syn], [cid])])%list l2 l3, false)
              else if (weight =? 1)%Z then
                (put l1 (l2 ++ [("continuousConnectionInstance", [prepath; postpath; spre; syn], [cid])])%list l3, false)
              else
                (put l1 l2 (l3 ++ [("continuousConnectionInstanceW", [prepath; postpath; spre; syn], [cid; weight])])%list,
                 false)
            | _, _ => (v, true)
            end
          | PProj =>
            match dget (v_wd v) proj with
            | Some (VBool wd) =>
              if negb wd && (delay =? 0)%Z && (weight =? 1)%Z then
                (put (l1 ++ [("connection", [prepath; postpath], [cid])])%list l2 l3, false)
              else
                (put l1 (l2 ++ [("connectionWD", [prepath; postpath; String.append (zs delay) "ms"], [cid; weight])])%list l3, false)
            | _ => (v, true)
            end
          end
        | _ => (v, true)
        end
      | _ => (v, true)
      end
    | _, _ => (v, true)
    end
  | OpInputList id pop comp =>
    (* self.input_lists[id] = il; self.network.input_lists.append(il) *)
    let a := length (v_hil v) in
    let v1 := with_il v (dset (v_ilists v) id (VAddr a)) (v_hil v ++ [ObIL id comp pop [] []])%list in
    match v_net v1 with
    | None => (v1, true)
    | Some na =>
      (upd_net v1 na (fun n => {| n_id := n_id n; n_pops := n_pops n; n_projs := n_projs n;
                                  n_eprojs := n_eprojs n; n_cprojs := n_cprojs n; n_il := (n_il n ++ [a])%list |}), false)
    end
  | OpSingleInput lid id cellid weight =>
    match dget (v_ilists v) lid with
    | Some (VAddr a) =>
      match nth_error (v_hil v) a with
      | Some (ObIL li lc lpop inp inpw) =>
        match get_pop v lpop with
        | Some (_, opop) =>
          let path := cell_path lpop cellid opop in
          if (weight =? 1)%Z then
            (with_il v (v_ilists v) (set_nth (v_hil v) a (ObIL li lc lpop (inp ++ [("input", [path], [id])])%list inpw)), false)
          else
            (with_il v (v_ilists v)
                     (set_nth (v_hil v) a (ObIL li lc lpop inp (inpw ++ [("inputW", [path], [id; weight])])%list)), false)
        | None => (v, true)
        end
      | _ => (v, true)
      end
    | _ => (v, true)
    end
  | OpFinalise id pre post syn kopt =>
    let kk : option (option pkind) :=      (* None: KeyError; Some None: a type string that is none of the three *)
      match kopt with
      | Some k => Some (Some k)
      | None => match get_str (v_types v) id with Some s => Some (pkind_of_name s) | None => None end
      end in
    match kk with
    | None => (v, true)
    | Some None => (v, false)
    | Some (Some PCont) => (v, false)
    | Some (Some k) =>
      match v_net v with
      | None => (v, true)
      | Some na =>
        match nth_error (v_nets v) na with
        | None => (v, true)
        | Some n =>
          let addrs := match k with PProj => n_projs n | _ => n_eprojs n end in
          let present := existsb (fun a => match nth_error (v_hprojs v) a with
                                           | Some (ObProj _ pi _ _ _ _ _ _) => String.eqb pi id | _ => false end) addrs in
          if present then (v, false)
          else
            let a := length (v_hprojs v) in
            let newp := ObProj k id pre post (match k with PProj => syn | _ => "" end) [] [] [] in
            let v1 := with_projs v (v_projs v) (v_hprojs v ++ [newp])%list in
            (upd_net v1 na (fun n =>
               match k with
               | PProj => {| n_id := n_id n; n_pops := n_pops n; n_projs := (n_projs n ++ [a])%list;
                             n_eprojs := n_eprojs n; n_cprojs := n_cprojs n; n_il := n_il n |}
               | _ => {| n_id := n_id n; n_pops := n_pops n; n_projs := n_projs n;
                         n_eprojs := (n_eprojs n ++ [a])%list; n_cprojs := n_cprojs n; n_il := n_il n |}
               end), false)
        end
      end
    end
  end.

Definition hview (eg : bool) (o : op) (v : bview) : bview := let '(v', raised) := hrec eg o v in with_log v' raised.

(* canonical dump of the document reachable from self.nml_doc, in document order *)
Definition dump_pop (v : bview) (a : nat) : list rec3 :=
  match nth_error (v_hpops v) a with
  | Some (ObPop id comp size isl insts) =>
    ("population", [id; comp; if isl then "populationList" else ""], [size]) :: insts
  | _ => [("dangling", [], [])]
  end.

Definition dump_proj (v : bview) (a : nat) : list rec3 :=
  match nth_error (v_hprojs v) a with
  | Some (ObProj k id pre post syn l1 l2 l3) => (pkind_name k, [id; pre; post; syn], []) :: (l1 ++ l2 ++ l3)%list
  | _ => [("dangling", [], [])]
  end.

Definition dump_il (v : bview) (a : nat) : list rec3 :=
  match nth_error (v_hil v) a with
  | Some (ObIL id comp pop inp inpw) => ("inputList", [id; comp; pop], []) :: (inp ++ inpw)%list
  | _ => [("dangling", [], [])]
  end.

Definition dump_net (v : bview) (a : nat) : list rec3 :=
  match nth_error (v_nets v) a with
  | Some n =>
    ("network", [n_id n], []) ::
      (flat_map (dump_pop v) (n_pops n) ++ flat_map (dump_proj v) (n_projs n) ++ flat_map (dump_proj v) (n_eprojs n)
       ++ flat_map (dump_proj v) (n_cprojs n) ++ flat_map (dump_il v) (n_il n))%list
  | None => [("dangling", [], [])]
  end.

Definition dump_view (v : bview) : list rec3 :=
  match v_doc v with
  | None => [("nodoc", [], [])]
  | Some d => ("doc", [d_id d], []) :: (map (fun s => ("silentSynapse", [s], [])) (d_silent d)
                                        ++ flat_map (dump_net v) (d_nets d))%list
  end.

(* --- the builder as an instance of B4 --- *)
Inductive bfield :=
| BDoc | BNet | BNets | BLog | BDict (f : dfield) | BHPops | BHProjs | BHIL.

Inductive fval :=
| FDocV (d : option docrec) | FNetV (n : option nat) | FNetsV (l : list netrec) | FLogV (l : list bool)
| FDictV (d : dict) | FHeapV (h : list obj).

Definition bstore := store bfield fval.

Definition as_dict (x : fval) : dict := match x with FDictV d => d | _ => [] end.
Definition as_heap (x : fval) : list obj := match x with FHeapV h => h | _ => [] end.

Definition to_rec (s : bstore) : bview :=
  {| v_doc := match s BDoc with FDocV d => d | _ => None end;
     v_net := match s BNet with FNetV n => n | _ => None end;
     v_nets := match s BNets with FNetsV l => l | _ => [] end;
     v_pops := as_dict (s (BDict DPops)); v_projs := as_dict (s (BDict DProjs)); v_syns := as_dict (s (BDict DSyns));
     v_types := as_dict (s (BDict DTypes)); v_synspre := as_dict (s (BDict DSynsPre));
     v_ilists := as_dict (s (BDict DILists)); v_wd := as_dict (s (BDict DWD));
     v_hpops := as_heap (s BHPops); v_hprojs := as_heap (s BHProjs); v_hil := as_heap (s BHIL);
     v_log := match s BLog with FLogV l => l | _ => [] end |}.

Definition of_rec (v : bview) : bstore := fun f =>
  match f with
  | BDoc => FDocV (v_doc v) | BNet => FNetV (v_net v) | BNets => FNetsV (v_nets v) | BLog => FLogV (v_log v)
  | BDict DPops => FDictV (v_pops v) | BDict DProjs => FDictV (v_projs v) | BDict DSyns => FDictV (v_syns v)
  | BDict DTypes => FDictV (v_types v) | BDict DSynsPre => FDictV (v_synspre v) | BDict DILists => FDictV (v_ilists v)
  | BDict DWD => FDictV (v_wd v)
  | BHPops => FHeapV (v_hpops v) | BHProjs => FHeapV (v_hprojs v) | BHIL => FHeapV (v_hil v)
  end.

Definition h_op (eg : bool) (o : op) : handler bfield fval := fun s => of_rec (hview eg o (to_rec s)).

(* nml_doc, network, the Network objects and the log are per instance in every layout (assigned through self);
   the three arenas live where the dict that indexes them lives *)
Definition mk_pl (p : dfield -> bool) : bfield -> bool := fun f =>
  match f with
  | BDoc | BNet | BNets | BLog => true
  | BDict d => p d
  | BHPops => p DPops | BHProjs => p DProjs | BHIL => p DILists
  end.

Definition bsys := sys bfield fval.
Definition bsys0 : bsys := {| sh := of_rec empty_view; ownA := of_rec empty_view; ownB := of_rec empty_view |}.

Definition lift_sched (eg : bool) (sched : list (who * op)) : list (who * handler bfield fval) :=
  map (fun p => (fst p, h_op eg (snd p))) sched.

Definition brun (eg : bool) (p : dfield -> bool) (sched : list (who * op)) (s : bsys) : bsys :=
  run_sched bfield fval (mk_pl p) (lift_sched eg sched) s.

Definition ops_of (w : who) (sched : list (who * op)) : list op :=
  map snd (filter (fun p => who_eqb (fst p) w) sched).

Definition bview_of (p : dfield -> bool) (w : who) (s : bsys) : bview := to_rec (view bfield fval (mk_pl p) w s).

Definition bdump (p : dfield -> bool) (w : who) (s : bsys) : list rec3 * list bool :=
  let v := bview_of p w s in (dump_view v, v_log v).

(* a builder running alone: plain fold of the record handlers *)
Definition solo_view (eg : bool) (ops : list op) (v : bview) : bview := fold_left (fun v o => hview eg o v) ops v.
Definition solo_dump (eg : bool) (ops : list op) : list rec3 * list bool :=
  let v := solo_view eg ops empty_view in (dump_view v, v_log v).

(* the placement of the seven dicts as determined by the generated table *)
Definition placement_of (t : state_table) : dfield -> bool := fun f =>
  negb (existsb (fun s => String.eqb (fs_cls s) "NetworkBuilder" && String.eqb (fs_attr s) (dfield_name f))
                (shared_fields t)).

Definition all_dfields : list dfield := [DPops; DProjs; DSyns; DTypes; DSynsPre; DILists; DWD].

(* comparison helpers for the correspondence run *)
Fixpoint strs_eqb (a b : list string) : bool :=
  match a, b with
  | [], [] => true
  | x :: a', y :: b' => String.eqb x y && strs_eqb a' b'
  | _, _ => false
  end.

Fixpoint zs_eqb (a b : list Z) : bool :=
  match a, b with
  | [], [] => true
  | x :: a', y :: b' => (x =? y)%Z && zs_eqb a' b'
  | _, _ => false
  end.

Definition rec3_eqb (a b : rec3) : bool :=
  let '(t1, s1, z1) := a in let '(t2, s2, z2) := b in String.eqb t1 t2 && strs_eqb s1 s2 && zs_eqb z1 z2.

Fixpoint recs_eqb (a b : list rec3) : bool :=
  match a, b with
  | [], [] => true
  | x :: a', y :: b' => rec3_eqb x y && recs_eqb a' b'
  | _, _ => false
  end.

Fixpoint bools_eqb (a b : list bool) : bool :=
  match a, b with
  | [], [] => true
  | x :: a', y :: b' => Bool.eqb x y && bools_eqb a' b'
  | _, _ => false
  end.

Definition dump_eqb (a b : list rec3 * list bool) : bool := recs_eqb (fst a) (fst b) && bools_eqb (snd a) (snd b).

(* indices of the cases on which a boolean check fails *)
Fixpoint mismatches_from (n : nat) (l : list bool) : list nat :=
  match l with [] => [] | b :: r => if b then mismatches_from (S n) r else n :: mismatches_from (S n) r end.
Definition mismatches (l : list bool) : list nat := mismatches_from 0 l.
