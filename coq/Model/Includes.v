(* C06 model: include resolution of neuroml/loaders.py (_read_neuroml2, read_neuroml2_file,
   read_neuroml2_string, NeuroMLHdf5Loader.load -> NeuroMLHdf5Parser.parse) and the merge of
   neuroml/utils.py (add_all_to_document).

   The file system is a finite map path -> file plus a list of directories.  A path is the list of
   its segments below the root, already normalised (what os.path.abspath returns); an href is what
   stands in <include href="..."/>: possibly absolute, segments may be "", "." and "..".

   Two readers are defined:
     rd      the behaviour AFTER fixes/C06-include-cycles.patch (a file marks itself in
             already_included when it is read, an include is marked BEFORE it is read, the list is
             handed on to the HDF5 loader) -- the theorems of Proofs/IncludesP*.v are about it;
     rd_old  the behaviour of the code before the patch (include marked AFTER the recursive call
             returned, entry file never marked, the HDF5 parser reads its embedded XML with the
             process-wide default list of read_neuroml2_string) -- kept for C06_terminates_refuted
             and so the check can say which of the two the tree under test follows.
   Definitions only; stdlib only. *)
From Coq Require Import String List Bool ZArith Arith.
Import ListNotations.
Open Scope string_scope.

(* ------------------------------------------------------------------ paths *)
Definition path := list string.
Record href := { h_abs : bool; h_segs : list string }.

Fixpoint path_eqb (a b : path) : bool :=
  match a, b with
  | [], [] => true
  | x :: a', y :: b' => String.eqb x y && path_eqb a' b'
  | _, _ => false
  end.

Definition mem_path (p : path) (l : list path) : bool := existsb (path_eqb p) l.

(* one step of os.path.normpath over an already normalised absolute prefix *)
Definition push (acc : path) (s : string) : path :=
  if String.eqb s "" || String.eqb s "." then acc
  else if String.eqb s ".." then removelast acc
  else (acc ++ [s])%list.

Definition norm_from (base : path) (segs : list string) : path := fold_left push segs base.

(* os.path.abspath(os.path.join(base, href)) *)
Definition join_norm (base : path) (h : href) : path :=
  norm_from (if h_abs h then [] else base) (h_segs h).

Definition dirname (p : path) : path := removelast p.

Definition ends_with (s suf : string) : bool :=
  let n := String.length s in
  let m := String.length suf in
  Nat.leb m n && String.eqb (substring (n - m) m s) suf.

Definition basename (p : path) : string := last p "".

Inductive ikind := IKXml | IKH5 | IKBad.

(* the extension tests of the include loop (loaders.py: endswith(".nml")/".xml" , ".nml.h5") *)
Definition incl_kind (p : path) : ikind :=
  let s := basename p in
  if ends_with s ".nml" || ends_with s ".xml" then IKXml
  else if ends_with s ".nml.h5" then IKH5
  else IKBad.

Definition kind_bad (k : ikind) : bool := match k with IKBad => true | _ => false end.
Definition kind_h5 (k : ikind) : bool := match k with IKH5 => true | _ => false end.

(* the extension test for the file handed to _read_neuroml2 itself *)
Definition entry_is_h5 (p : path) : bool :=
  let s := basename p in ends_with s ".h5" || ends_with s ".hdf5".

(* ------------------------------------------------------------- components *)
(* what `hasattr(c, "id") and c.id == entry.id` can see of a top-level component *)
Inductive cid :=
| NoIdField            (* class without an id member (ComponentType has a name) *)
| IdNone               (* id member present, attribute absent in the file: None *)
| Id (s : string).

Record comp := { c_list : string;   (* member list of NeuroMLDocument it lives in *)
                 c_id : cid;
                 c_tag : Z }.        (* payload that tells apart equal ids from different files *)

Definition cid_eqb (a b : cid) : bool :=
  match a, b with
  | NoIdField, NoIdField => true
  | IdNone, IdNone => true
  | Id x, Id y => String.eqb x y
  | _, _ => false
  end.

Definition comp_eqb (a b : comp) : bool :=
  String.eqb (c_list a) (c_list b) && cid_eqb (c_id a) (c_id b) && Z.eqb (c_tag a) (c_tag b).

(* utils.add_all_to_document: entry e is NOT appended when the target list of the same member
   already holds a c with  hasattr(c,"id") and c.id == e.id  *)
Definition same_key (e c : comp) : bool :=
  String.eqb (c_list c) (c_list e) &&
  match c_id c, c_id e with
  | NoIdField, _ => false
  | IdNone, IdNone => true
  | Id a, Id b => String.eqb a b
  | _, _ => false
  end.

Definition add_one (tgt : list comp) (e : comp) : list comp :=
  if existsb (same_key e) tgt then tgt else (tgt ++ [e])%list.

(* add_all src tgt : the target after add_all_to_document(src, tgt) *)
Definition add_all (src tgt : list comp) : list comp := fold_left add_one src tgt.

(* the observable: one member list of the document *)
Definition proj (l : string) (d : list comp) : list comp :=
  filter (fun c => String.eqb (c_list c) l) d.

(* ------------------------------------------------------------ file system *)
Record xfile := { x_comps : list comp; x_incs : list href }.

Inductive file :=
| FXml (x : xfile)
| FH5 (nets : list comp) (emb : option xfile).
    (* HDF5: natively stored networks + the XML string kept in attribute neuroml_top_level *)

Record fsys := { fs_files : list (path * file); fs_dirs : list path }.

Fixpoint lookup (p : path) (l : list (path * file)) : option file :=
  match l with
  | [] => None
  | (q, f) :: r => if path_eqb p q then Some f else lookup p r
  end.

Definition is_file (fs : fsys) (p : path) : bool :=
  match lookup p (fs_files fs) with Some _ => true | None => false end.
Definition is_dir (fs : fsys) (p : path) : bool := mem_path p (fs_dirs fs).

(* os.path.exists: the kernel walks the segments, every intermediate one must be a directory *)
Fixpoint walk (fs : fsys) (cur : path) (segs : list string) : option path :=
  match segs with
  | [] => Some cur
  | s :: rest =>
    if String.eqb s "" || String.eqb s "." then walk fs cur rest
    else if String.eqb s ".." then walk fs (removelast cur) rest
    else let nxt := (cur ++ [s])%list in
         if is_dir fs nxt then walk fs nxt rest
         else if is_file fs nxt then match rest with [] => Some nxt | _ => None end
         else None
  end.

Definition os_exists (fs : fsys) (cwd : path) (h : href) : bool :=
  match walk fs (if h_abs h then [] else cwd) (h_segs h) with Some _ => true | None => false end.

(* loaders.py: if os.path.exists(href): abspath(href) else abspath(join(base_path_to_use, href)) *)
Definition resolve (fs : fsys) (cwd base : path) (h : href) : path :=
  if os_exists fs cwd h then join_norm cwd h else join_norm base h.

(* --------------------------------------------------------------- outcomes *)
Inductive err :=
| EMissing   (* read_neuroml2_file: os.path.isfile false -> sys.exit() *)
| EBadExt    (* "Unrecognised extension on file" *)
| EH5Open    (* tables.open_file on a missing file / on a file that is not HDF5 *)
| EParse.    (* the XML parser on a file that is not XML *)

Inductive outcome (A : Type) :=
| Done (a : A)
| Err (e : err)
| OutOfFuel.
Arguments Done {A} a.
Arguments Err {A} e.
Arguments OutOfFuel {A}.

Record doc := { d_comps : list comp; d_incs : list href }.

Definition res := outcome (doc * list path).

(* ======================================================================== *)
(*  the reader after the patch                                               *)
(* ======================================================================== *)
Section Reader.
  Variable fs : fsys.
  Variable cwd : path.

  (* the `for include in nml2_doc.includes` loop; rec h5 loc al is
       read_neuroml2_file(loc, True, already_included=al)            (h5 = false)
       NeuroMLHdf5Loader.load(loc, already_included=al)              (h5 = true)
     d are the components of the document being completed, al the already_included list *)
  Fixpoint incl_loop (rec : bool -> path -> list path -> res)
           (base : path) (incs : list href) (d : list comp) (al : list path)
    : outcome (list comp * list path) :=
    match incs with
    | [] => Done (d, al)
    | h :: rest =>
      let loc := resolve fs cwd base h in
      if mem_path loc al then incl_loop rec base rest d al
      else if kind_bad (incl_kind loc) then Err EBadExt
      else match rec (kind_h5 (incl_kind loc)) loc (al ++ [loc])%list with
           | Done (sub, al') => incl_loop rec base rest (add_all (d_comps sub) d) al'
           | Err e => Err e
           | OutOfFuel => OutOfFuel
           end
    end.

  (* _read_neuroml2 on a string / on the XML embedded in an HDF5 file: loop, then includes = [] *)
  Definition read_x (rec : bool -> path -> list path -> res) (base : path) (x : xfile)
             (al : list path) : res :=
    match incl_loop rec base (x_incs x) (x_comps x) al with
    | Done (d, al') => Done ({| d_comps := d; d_incs := [] |}, al')
    | Err e => Err e
    | OutOfFuel => OutOfFuel
    end.

  (* NeuroMLHdf5Loader.load(loc, already_included=al): NetworkBuilder document (the networks), the
     embedded XML read by read_neuroml2_string(.., include_includes=True, already_included=al,
     base_path=dirname(abspath(loc))), then add_all_to_document(extra, doc) *)
  Definition load_h5 (rec : bool -> path -> list path -> res) (loc : path) (al : list path) : res :=
    match lookup loc (fs_files fs) with
    | Some (FH5 nets None) => Done ({| d_comps := nets; d_incs := [] |}, al)
    | Some (FH5 nets (Some x)) =>
      match read_x rec (dirname loc) x al with
      | Done (extra, al') => Done ({| d_comps := add_all (d_comps extra) nets; d_incs := [] |}, al')
      | Err e => Err e
      | OutOfFuel => OutOfFuel
      end
    | _ => Err EH5Open
    end.

  Definition mark (loc : path) (al : list path) : list path :=
    if mem_path loc al then al else (al ++ [loc])%list.

  (* read_neuroml2_file(loc, include_includes=True, already_included=al) *)
  Definition read_file (rec : bool -> path -> list path -> res) (loc : path) (al : list path) : res :=
    if negb (is_file fs loc) then Err EMissing
    else
      let al1 := mark loc al in
      if entry_is_h5 loc then load_h5 rec loc al1   (* the loaded document has no includes left *)
      else match lookup loc (fs_files fs) with
           | Some (FXml x) => read_x rec (dirname loc) x al1
           | Some (FH5 _ _) => Err EParse
           | None => Err EMissing
           end.

  (* fuel is spent only where the Python recurses: once per include that is followed *)
  Fixpoint rd (fuel : nat) (h5 : bool) (loc : path) (al : list path) : res :=
    match fuel with
    | O => OutOfFuel
    | S k => if h5 then load_h5 (rd k) loc al else read_file (rd k) loc al
    end.

  (* enough for every call (IncludesP.rd_terminates) *)
  Definition enough : nat := S (S (length (fs_files fs))).

  (* the two entry points *)
  Definition read_entry_file (fuel : nat) (p : path) (al : list path) : res :=
    read_file (rd fuel) p al.

  (* read_neuroml2_file(p, include_includes=True, optimized=True) on an HDF5 entry file:
     NeuroMLHdf5Parser.get_nml_doc, optimized branch - a new document, add_all_to_document(extra, doc),
     then  doc.networks.append(self.optimizedNetwork)  (a plain append: no id test, own network LAST).
     `optimized` reaches only the file handed to read_neuroml2_file: includes are read with the default. *)
  Definition load_h5_opt (rec : bool -> path -> list path -> res) (loc : path) (al : list path) : res :=
    match lookup loc (fs_files fs) with
    | Some (FH5 nets None) => Done ({| d_comps := nets; d_incs := [] |}, al)
    | Some (FH5 nets (Some x)) =>
      match read_x rec (dirname loc) x al with
      | Done (extra, al') => Done ({| d_comps := (d_comps extra ++ nets)%list; d_incs := [] |}, al')
      | Err e => Err e
      | OutOfFuel => OutOfFuel
      end
    | _ => Err EH5Open
    end.

  Definition read_entry_file_opt (fuel : nat) (opt : bool) (p : path) (al : list path) : res :=
    if opt && entry_is_h5 p then
      (if negb (is_file fs p) then Err EMissing else load_h5_opt (rd fuel) p (mark p al))
    else read_entry_file fuel p al.
  Definition read_entry_string (fuel : nat) (x : xfile) (base : option path) (al : list path) : res :=
    read_x (rd fuel) (match base with Some b => b | None => cwd end) x al.

  (* ====================================================================== *)
  (*  the reader before the patch                                            *)
  (* ====================================================================== *)
  (* two list objects exist: the caller's list and the default list G of read_neuroml2_string;
     `g` says which of them is `already_included` in the current activation *)
  Record lists := { l_own : list path; l_glob : list path }.
  Definition cur (g : bool) (s : lists) : list path := if g then l_glob s else l_own s.
  Definition app_cur (g : bool) (s : lists) (p : path) : lists :=
    if g then {| l_own := l_own s; l_glob := (l_glob s ++ [p])%list |}
    else {| l_own := (l_own s ++ [p])%list; l_glob := l_glob s |}.

  Definition res_old := outcome (doc * lists).

  Fixpoint incl_loop_old (rec : bool -> bool -> path -> lists -> res_old) (g : bool)
           (base : path) (incs : list href) (d : list comp) (s : lists)
    : outcome (list comp * lists) :=
    match incs with
    | [] => Done (d, s)
    | h :: rest =>
      let loc := resolve fs cwd base h in
      if mem_path loc (cur g s) then incl_loop_old rec g base rest d s
      else if kind_bad (incl_kind loc) then Err EBadExt
      else match rec (kind_h5 (incl_kind loc)) g loc s with
           | Done (sub, s') =>
             incl_loop_old rec g base rest (add_all (d_comps sub) d) (app_cur g s' loc)
           | Err e => Err e
           | OutOfFuel => OutOfFuel
           end
    end.

  Definition read_x_old rec (g : bool) (base : path) (x : xfile) (s : lists) : res_old :=
    match incl_loop_old rec g base (x_incs x) (x_comps x) s with
    | Done (d, s') => Done ({| d_comps := d; d_incs := [] |}, s')
    | Err e => Err e
    | OutOfFuel => OutOfFuel
    end.

  (* the embedded XML is read with the default list, whatever list the caller uses *)
  Definition load_h5_old rec (loc : path) (s : lists) : res_old :=
    match lookup loc (fs_files fs) with
    | Some (FH5 nets None) => Done ({| d_comps := nets; d_incs := [] |}, s)
    | Some (FH5 nets (Some x)) =>
      match read_x_old rec true (dirname loc) x s with
      | Done (extra, s') => Done ({| d_comps := add_all (d_comps extra) nets; d_incs := [] |}, s')
      | Err e => Err e
      | OutOfFuel => OutOfFuel
      end
    | _ => Err EH5Open
    end.

  Definition read_file_old rec (g : bool) (loc : path) (s : lists) : res_old :=
    if negb (is_file fs loc) then Err EMissing
    else if entry_is_h5 loc then load_h5_old rec loc s
    else match lookup loc (fs_files fs) with
         | Some (FXml x) => read_x_old rec g (dirname loc) x s
         | Some (FH5 _ _) => Err EParse
         | None => Err EMissing
         end.

  Fixpoint rd_old (fuel : nat) (h5 g : bool) (loc : path) (s : lists) : res_old :=
    match fuel with
    | O => OutOfFuel
    | S k => if h5 then load_h5_old (rd_old k) loc s else read_file_old (rd_old k) g loc s
    end.

  Definition read_entry_file_old (fuel : nat) (p : path) (s : lists) : res_old :=
    read_file_old (rd_old fuel) false p s.
  Definition read_entry_string_old (fuel : nat) (x : xfile) (base : option path) (s : lists)
    : res_old :=
    read_x_old (rd_old fuel) false (match base with Some b => b | None => cwd end) x s.
End Reader.

(* ------------------------------------------------------------------------ *)
(*  what the patched reader is specified against                             *)
(* ------------------------------------------------------------------------ *)
(* what a file contributes by itself when it is loaded *)
Definition contrib_file (f : file) : list comp :=
  match f with
  | FXml x => x_comps x
  | FH5 nets None => nets
  | FH5 nets (Some x) => add_all (x_comps x) nets
  end.
Definition contrib (fs : fsys) (p : path) : list comp :=
  match lookup p (fs_files fs) with Some f => contrib_file f | None => [] end.

(* the includes followed when the file is loaded *)
Definition incs_file (f : file) : list href :=
  match f with
  | FXml x => x_incs x
  | FH5 _ None => []
  | FH5 _ (Some x) => x_incs x
  end.
Definition incs_at (fs : fsys) (p : path) : list href :=
  match lookup p (fs_files fs) with Some f => incs_file f | None => [] end.

(* merge of the contributions in load order: what add_all_to_document leaves *)
Definition merge_all (d : list comp) (cs : list (list comp)) : list comp :=
  fold_left (fun t s => add_all s t) cs d.

(* files of fs that are not yet in the list: the termination measure *)
Definition unmarked (fs : fsys) (al : list path) : nat :=
  length (filter (fun q => negb (mem_path q al)) (map fst (fs_files fs))).

(* ------------------------------------------------------------------------ *)
(*  correspondence cases (generated per run; outputs of the real code inside) *)
(* ------------------------------------------------------------------------ *)
Inductive entry :=
| EntFile (p : path)
| EntString (x : xfile) (base : option path).

Inductive obs :=
| ODone (lists : list (list (cid * Z)))   (* per member list of c_names: (id, tag) in order *)
        (incs_left : nat)
        (already : list path)             (* already_included after the call *)
| OErr (e : err)
| ONonTerm.                               (* RecursionError / wall-clock guard *)

Record case := { k_fs : fsys; k_cwd : path; k_entry : entry; k_opt : bool; k_al : list path;
                 k_names : list string; k_obs : obs }.

Definition view (names : list string) (d : list comp) : list (list (cid * Z)) :=
  map (fun n => map (fun c => (c_id c, c_tag c)) (proj n d)) names.

Definition model_obs (c : case) : obs :=
  let fuel := enough (k_fs c) in
  let r := match k_entry c with
           | EntFile p => read_entry_file_opt (k_fs c) (k_cwd c) fuel (k_opt c) p (k_al c)
           | EntString x b => read_entry_string (k_fs c) (k_cwd c) fuel x b (k_al c)
           end in
  match r with
  | Done (d, al) => ODone (view (k_names c) (d_comps d)) (length (d_incs d)) al
  | Err e => OErr e
  | OutOfFuel => ONonTerm
  end.

(* the pre-patch model with a bounded fuel: out of fuel = the recursion never ends *)
Definition model_obs_old (c : case) : obs :=
  let fuel := (enough (k_fs c) + enough (k_fs c) + 8)%nat in
  let s0 := {| l_own := k_al c; l_glob := [] |} in
  let r := match k_entry c with
           | EntFile p => read_entry_file_old (k_fs c) (k_cwd c) fuel p s0
           | EntString x b => read_entry_string_old (k_fs c) (k_cwd c) fuel x b s0
           end in
  match r with
  | Done (d, s) => ODone (view (k_names c) (d_comps d)) (length (d_incs d)) (l_own s)
  | Err e => OErr e
  | OutOfFuel => ONonTerm
  end.

Definition err_eqb (a b : err) : bool :=
  match a, b with
  | EMissing, EMissing | EBadExt, EBadExt | EH5Open, EH5Open | EParse, EParse => true
  | _, _ => false
  end.

Fixpoint list_eqb {A} (eqb : A -> A -> bool) (a b : list A) : bool :=
  match a, b with
  | [], [] => true
  | x :: a', y :: b' => eqb x y && list_eqb eqb a' b'
  | _, _ => false
  end.

Definition obs_eqb (a b : obs) : bool :=
  match a, b with
  | ODone l i al, ODone l' i' al' =>
    list_eqb (list_eqb (fun x y => cid_eqb (fst x) (fst y) && Z.eqb (snd x) (snd y))) l l'
    && Nat.eqb i i' && list_eqb path_eqb al al'
  | OErr e, OErr e' => err_eqb e e'
  | ONonTerm, ONonTerm => true
  | _, _ => false
  end.

Fixpoint mismatches_from (model : case -> obs) (i : nat) (cs : list case) : list nat :=
  match cs with
  | [] => []
  | c :: r => if obs_eqb (model c) (k_obs c) then mismatches_from model (S i) r
              else i :: mismatches_from model (S i) r
  end.
Definition mismatches (cs : list case) : list nat := mismatches_from model_obs 0 cs.
Definition mismatches_old (cs : list case) : list nat := mismatches_from model_obs_old 0 cs.
