(* C19 — connection / input accessors and the document summary.

   translators/tr_strfuncs.py turns the bodies of the accessor methods of nml.py (resolved through the class
   hierarchy, helper calls such as self._get_cell_id(self.pre_cell_id) inlined) into terms of the small language
   below; the summary's counting skeleton into a counter table.  Definitions only; proofs: Proofs/AccessorsP.v. *)
From Coq Require Import String Ascii List ZArith NArith QArith Qabs Bool.
From LNML Require Import Lib.StrFun.
Import ListNotations.
Local Open Scope string_scope.

(* ------------------------------------------------------------------ Python values and outcomes *)
Inductive pyval : Type :=
| VNone
| VStr (s : string)
| VInt (z : Z)
| VFloat (q : Q)          (* a float, by its exact rational value *)
| VList (len : N).        (* a list member; only its length matters here *)

Inductive exn : Type := IndexError | ValueError | TypeError | AttributeError | SystemExit.

Inductive res (A : Type) : Type := Ok (a : A) | Err (e : exn).
Arguments Ok {A} a.
Arguments Err {A} e.

Definition rbind {A B : Type} (r : res A) (f : A -> res B) : res B :=
  match r with Ok a => f a | Err e => Err e end.

(* ------------------------------------------------------------------ the accessor language *)
Inductive sexpr : Type :=
| EAttr (name : string)                      (* self.<name>;  the method's own parameter is the attribute "<arg>" *)
| EStr (s : string)
| EInt (z : Z)
| EFloat (q : Q)
| ENone
| ESplitNth (e : sexpr) (sep : ascii) (k : nat)   (* e.split(sep)[k] *)
| ESplitLast (e : sexpr) (sep : ascii)            (* e.split(sep)[-1] *)
| EDropLast (e : sexpr) (k : nat)                 (* e[:-k] *)
| EStrip (e : sexpr)                              (* e.strip() *)
| EIntOf (e : sexpr)                              (* int(e) *)
| EFloatOf (e : sexpr)                            (* float(e) *)
| EMul (a b : sexpr)                              (* a * b *)
| ELenAttr (name : string)                        (* len(self.<name>) *)
| EIf (c : scond) (a b : sexpr)                   (* a if c else b *)
with scond : Type :=
| CIn (lit : string) (e : sexpr)                  (* lit in e *)
| CEndswith (e : sexpr) (lit : string)            (* e.endswith(lit) *)
| CStartswith (e : sexpr) (lit : string)
| CTruthy (e : sexpr)                             (* if e *)
| CNotNone (e : sexpr)                            (* e != None, e is not None *)
| CGt (a b : sexpr).                              (* a > b *)

Inductive sprog : Type :=
| SRet (e : sexpr)
| SRetNone                                        (* control falls off the end *)
| SExit                                           (* print(...); exit(1) *)
| SIf (c : scond) (t e : sprog).

Definition truthy (v : pyval) : bool :=
  match v with
  | VNone => false
  | VStr s => negb (str_empty s)
  | VInt z => negb (Z.eqb z 0)
  | VFloat q => negb (Qeq_bool q 0)
  | VList n => negb (N.eqb n 0)
  end.

Section Eval.
  (* float(<str>) of the interpreter *)
  Variable pf : string -> option Q.
  Variable attrs : string -> pyval.

  Definition as_str_method (v : pyval) : res string :=   (* receiver of .split / .strip / .endswith *)
    match v with VStr s => Ok s | _ => Err AttributeError end.

  Definition py_int_of (v : pyval) : res pyval :=
    match v with
    | VStr s => match py_int s with Some z => Ok (VInt z) | None => Err ValueError end
    | VInt z => Ok (VInt z)
    | VFloat q => Ok (VInt (q_trunc q))
    | VNone | VList _ => Err TypeError
    end.

  Definition py_float_of (v : pyval) : res pyval :=
    match v with
    | VStr s => match pf s with Some q => Ok (VFloat q) | None => Err ValueError end
    | VInt z => Ok (VFloat (inject_Z z))
    | VFloat q => Ok (VFloat q)
    | VNone | VList _ => Err TypeError
    end.

  Definition py_mul (a b : pyval) : res pyval :=
    match a, b with
    | VInt x, VInt y => Ok (VInt (x * y))
    | VFloat x, VFloat y => Ok (VFloat (x * y))
    | VInt x, VFloat y => Ok (VFloat (inject_Z x * y))
    | VFloat x, VInt y => Ok (VFloat (x * inject_Z y))
    | _, _ => Err TypeError
    end.

  Definition py_gt (a b : pyval) : res bool :=
    match a, b with
    | VInt x, VInt y => Ok (Z.ltb y x)
    | _, _ => Err TypeError
    end.

  Fixpoint eval_e (e : sexpr) : res pyval :=
    match e with
    | EAttr n => Ok (attrs n)
    | EStr s => Ok (VStr s)
    | EInt z => Ok (VInt z)
    | EFloat q => Ok (VFloat q)
    | ENone => Ok VNone
    | ESplitNth e1 sep k =>
        rbind (eval_e e1) (fun v => rbind (as_str_method v) (fun s =>
          match nth_error (split_on sep s) k with Some x => Ok (VStr x) | None => Err IndexError end))
    | ESplitLast e1 sep =>
        rbind (eval_e e1) (fun v => rbind (as_str_method v) (fun s => Ok (VStr (last (split_on sep s) EmptyString))))
    | EDropLast e1 k =>
        rbind (eval_e e1) (fun v => match v with VStr s => Ok (VStr (drop_last k s)) | _ => Err TypeError end)
    | EStrip e1 => rbind (eval_e e1) (fun v => rbind (as_str_method v) (fun s => Ok (VStr (strip s))))
    | EIntOf e1 => rbind (eval_e e1) py_int_of
    | EFloatOf e1 => rbind (eval_e e1) py_float_of
    | EMul a b => rbind (eval_e a) (fun x => rbind (eval_e b) (fun y => py_mul x y))
    | ELenAttr n => match attrs n with VList k => Ok (VInt (Z.of_N k)) | VStr s => Ok (VInt (Z.of_nat (String.length s)))
                                  | _ => Err TypeError end
    | EIf c a b => rbind (eval_c c) (fun t => if t then eval_e a else eval_e b)
    end
  with eval_c (c : scond) : res bool :=
    match c with
    | CIn lit e1 => rbind (eval_e e1) (fun v => match v with VStr s => Ok (contains lit s) | _ => Err TypeError end)
    | CEndswith e1 lit => rbind (eval_e e1) (fun v => rbind (as_str_method v) (fun s => Ok (endswith lit s)))
    | CStartswith e1 lit => rbind (eval_e e1) (fun v => rbind (as_str_method v) (fun s => Ok (startswith lit s)))
    | CTruthy e1 => rbind (eval_e e1) (fun v => Ok (truthy v))
    | CNotNone e1 => rbind (eval_e e1) (fun v => Ok (match v with VNone => false | _ => true end))
    | CGt a b => rbind (eval_e a) (fun x => rbind (eval_e b) (fun y => py_gt x y))
    end.

  Fixpoint run (p : sprog) : res pyval :=
    match p with
    | SRet e => eval_e e
    | SRetNone => Ok VNone
    | SExit => Err SystemExit
    | SIf c t e => rbind (eval_c c) (fun b => if b then run t else run e)
    end.
End Eval.

(* ------------------------------------------------------------------ syntactic equality (for the per-run table check) *)
Definition ascii_eq (a b : ascii) : bool := Ascii.eqb a b.

Fixpoint sexpr_eqb (x y : sexpr) : bool :=
  match x, y with
  | EAttr a, EAttr b => String.eqb a b
  | EStr a, EStr b => String.eqb a b
  | EInt a, EInt b => Z.eqb a b
  | EFloat a, EFloat b => Z.eqb (Qnum a) (Qnum b) && Pos.eqb (Qden a) (Qden b)
  | ENone, ENone => true
  | ESplitNth a s k, ESplitNth b t l => sexpr_eqb a b && ascii_eq s t && Nat.eqb k l
  | ESplitLast a s, ESplitLast b t => sexpr_eqb a b && ascii_eq s t
  | EDropLast a k, EDropLast b l => sexpr_eqb a b && Nat.eqb k l
  | EStrip a, EStrip b => sexpr_eqb a b
  | EIntOf a, EIntOf b => sexpr_eqb a b
  | EFloatOf a, EFloatOf b => sexpr_eqb a b
  | EMul a1 a2, EMul b1 b2 => sexpr_eqb a1 b1 && sexpr_eqb a2 b2
  | ELenAttr a, ELenAttr b => String.eqb a b
  | EIf c a1 a2, EIf d b1 b2 => scond_eqb c d && sexpr_eqb a1 b1 && sexpr_eqb a2 b2
  | _, _ => false
  end
with scond_eqb (x y : scond) : bool :=
  match x, y with
  | CIn l a, CIn m b => String.eqb l m && sexpr_eqb a b
  | CEndswith a l, CEndswith b m => sexpr_eqb a b && String.eqb l m
  | CStartswith a l, CStartswith b m => sexpr_eqb a b && String.eqb l m
  | CTruthy a, CTruthy b => sexpr_eqb a b
  | CNotNone a, CNotNone b => sexpr_eqb a b
  | CGt a1 a2, CGt b1 b2 => sexpr_eqb a1 b1 && sexpr_eqb a2 b2
  | _, _ => false
  end.

Fixpoint sprog_eqb (x y : sprog) : bool :=
  match x, y with
  | SRet a, SRet b => sexpr_eqb a b
  | SRetNone, SRetNone => true
  | SExit, SExit => true
  | SIf c t e, SIf d u f => scond_eqb c d && sprog_eqb t u && sprog_eqb e f
  | _, _ => false
  end.

(* ------------------------------------------------------------------ what each accessor must be *)
Inductive kind : Type :=
| KCellIdPath        (* index out of ../pop/i/comp or pop[i] *)
| KCellIdPlain       (* index out of a bare numeral (ElectricalConnection.pre_cell ...) *)
| KPopulation        (* population id out of ../pop/i/comp or pop[i] *)
| KIntOf             (* int(self.a) *)
| KFloatOf           (* float(self.a) *)
| KDelay             (* delay in ms, unit found by substring test *)
| KParseDelay        (* delay in ms, unit found by suffix test (NeuroMLXMLParser._parse_delay) *)
| KWeight            (* float(self.a), 1.0 when unset *)
| KSegDefault        (* int(self.a), 0 when unset *)
| KFractDefault      (* float(self.a), 0.5 when unset *)
| KGetSize.          (* Population.get_size *)

Definition arg : string := "<arg>".

(* the accepted program texts for a kind on attribute a (the first is what the repaired source translates to) *)
Definition canon (k : kind) (a : string) : list sprog :=
  let X := EAttr a in
  match k with
  | KCellIdPath =>
      [SIf (CIn "[" X) (SRet (EIntOf (ESplitNth (ESplitNth X ch_lbr 1) ch_rbr 0))) (SRet (EIntOf (ESplitNth X ch_slash 2)))]
  | KCellIdPlain => [SRet (EIntOf (EFloatOf X))]
  | KPopulation =>
      [SIf (CIn "[" X) (SRet (ESplitLast (ESplitNth X ch_lbr 0) ch_slash)) (SRet (ESplitNth X ch_slash 1))]
  | KIntOf => [SRet (EIntOf X)]
  | KFloatOf => [SRet (EFloatOf X)]
  | KDelay =>
      map (fun k => SIf (CIn "ms" X) (SRet (EFloatOf (EStrip (EDropLast X 2))))
                        (SIf (CIn "s" X) (SRet (EMul (EFloatOf (EStrip (EDropLast X 1))) k)) SRetNone))
          [EFloat (1000 # 1); EInt 1000]
  | KParseDelay =>
      map (fun k => SIf (CEndswith X "ms") (SRet (EFloatOf (EStrip (EDropLast X 2))))
                        (SIf (CEndswith X "s") (SRet (EMul (EFloatOf (EStrip (EDropLast X 1))) k)) SExit))
          [EFloat (1000 # 1); EInt 1000]
  | KWeight => [SRet (EIf (CNotNone X) (EFloatOf X) (EFloat (1 # 1)))]
  | KSegDefault => [SRet (EIf (CTruthy X) (EIntOf X) (EInt 0)); SRet (EIf (CNotNone X) (EIntOf X) (EInt 0))]
  | KFractDefault => [SRet (EIf (CNotNone X) (EFloatOf X) (EFloat (1 # 2)))]
  | KGetSize =>
      [SRet (EIf (CGt (ELenAttr "instances") (EInt 0)) (ELenAttr "instances")
                 (EIf (CTruthy (EAttr "size")) (EAttr "size") (EInt 0)))]
  end.

(* (class, method, kind, attribute) : the accessors the property speaks about *)
Definition old_format (c : string) : list (string * string * kind * string) :=
  [(c, "get_pre_cell_id", KCellIdPath, "pre_cell_id"); (c, "get_post_cell_id", KCellIdPath, "post_cell_id");
   (c, "get_pre_segment_id", KIntOf, "pre_segment_id"); (c, "get_post_segment_id", KIntOf, "post_segment_id");
   (c, "get_pre_fraction_along", KFloatOf, "pre_fraction_along"); (c, "get_post_fraction_along", KFloatOf, "post_fraction_along")].

Definition new_format (c : string) (ck : kind) : list (string * string * kind * string) :=
  [(c, "get_pre_cell_id", ck, "pre_cell"); (c, "get_post_cell_id", ck, "post_cell");
   (c, "get_pre_segment_id", KIntOf, "pre_segment"); (c, "get_post_segment_id", KIntOf, "post_segment");
   (c, "get_pre_fraction_along", KFloatOf, "pre_fraction_along"); (c, "get_post_fraction_along", KFloatOf, "post_fraction_along")].

Definition input_like (c : string) : list (string * string * kind * string) :=
  [(c, "get_target_cell_id", KCellIdPath, "target"); (c, "get_segment_id", KSegDefault, "segment_id");
   (c, "get_fraction_along", KFractDefault, "fraction_along")].

Definition expected : list (string * string * kind * string) :=
  (old_format "Connection" ++ old_format "ConnectionWD" ++ [("ConnectionWD", "get_delay_in_ms", KDelay, "delay")]
   ++ new_format "ElectricalConnection" KCellIdPlain ++ new_format "ContinuousConnection" KCellIdPlain
   ++ new_format "ElectricalConnectionInstance" KCellIdPath ++ new_format "ContinuousConnectionInstance" KCellIdPath
   ++ new_format "ElectricalConnectionInstanceW" KCellIdPath ++ new_format "ContinuousConnectionInstanceW" KCellIdPath
   ++ [("ElectricalConnectionInstanceW", "get_weight", KWeight, "weight");
       ("ContinuousConnectionInstanceW", "get_weight", KWeight, "weight")]
   ++ input_like "Input" ++ input_like "InputW" ++ [("InputW", "get_weight", KWeight, "weight")]
   ++ [("ExplicitInput", "get_target_cell_id", KCellIdPath, "target");
       ("ExplicitInput", "get_target_population", KPopulation, "target");
       ("SynapticConnection", "_get_cell_id", KCellIdPath, arg);
       ("SynapticConnection", "_get_population", KPopulation, arg);
       ("Population", "get_size", KGetSize, "");
       ("NeuroMLXMLParser", "_parse_delay", KParseDelay, arg)])%list.

Definition acc_table : Type := list (string * string * sprog).

Fixpoint lookup (t : acc_table) (c m : string) : option sprog :=
  match t with
  | [] => None
  | (c', m', p) :: r => if String.eqb c c' && String.eqb m m' then Some p else lookup r c m
  end.

Definition entry_ok (t : acc_table) (e : string * string * kind * string) : bool :=
  match e with
  | (c, m, k, a) =>
      match lookup t c m with
      | Some p => existsb (sprog_eqb p) (canon k a)
      | None => false
      end
  end.

Definition table_ok (t : acc_table) : bool := forallb (entry_ok t) expected.
Definition failing_entries (t : acc_table) : list (string * string) :=
  map (fun e => match e with (c, m, _, _) => (c, m) end) (filter (fun e => negb (entry_ok t e)) expected).

(* ------------------------------------------------------------------ the summary's counters *)
(* A network as summary() sees it: collection name -> its items; an item gives the length of each list member
   and (for populations) the number returned by get_size(). *)
Record item : Type := MkItem { it_len : string -> N; it_size : N }.
Definition network : Type := string -> list item.

Inductive contrib : Type :=
| COne                        (* x += 1 *)
| CLen (member : string)      (* x += len(item.member) *)
| CLenIfPos (member : string) (* if len(item.member) > 0: x += len(item.member) *)
| CGetSize.                   (* x += item.get_size() *)

(* one counter: its name and, in source order, (collection looped over, what is added per item) *)
Definition counter : Type := (string * list (string * contrib))%type.

Record summary_table : Type := MkSummary {
  st_counters : list counter;
  st_reports : list (string * string * string * string);   (* (counter A, word A, counter B, word B): "A wordA in B wordB" *)
  (* from the MemberSpecs of the bindings: *)
  st_proj_colls : list string;                             (* Network members holding projections *)
  st_conn_members : list (string * string);                (* (projection collection, its list member holding connections) *)
  st_input_members : list (string * string)                (* (input_lists, its list member holding inputs) *)
}.

Definition contrib_val (c : contrib) (i : item) : N :=
  match c with
  | COne => 1
  | CLen m => it_len i m
  | CLenIfPos m => if (0 <? it_len i m)%N then it_len i m else 0
  | CGetSize => it_size i
  end.

Definition sumN (l : list N) : N := fold_right N.add 0%N l.

Definition run_counter (net : network) (c : list (string * contrib)) : N :=
  sumN (map (fun cc => sumN (map (contrib_val (snd cc)) (net (fst cc)))) c).

Fixpoint find_counter (cs : list counter) (n : string) : option (list (string * contrib)) :=
  match cs with
  | [] => None
  | (n', c) :: r => if String.eqb n n' then Some c else find_counter r n
  end.

(* what the totals must count *)
Definition count_items (net : network) (colls : list string) : N := sumN (map (fun c => N.of_nat (length (net c))) colls).
Definition count_members (net : network) (cm : list (string * string)) : N :=
  sumN (map (fun x => sumN (map (fun i => it_len i (snd x)) (net (fst x)))) cm).
Definition count_sizes (net : network) (coll : string) : N := sumN (map it_size (net coll)).


(* normal form of a counter: every contribution as (collection, what), guards dropped *)
Definition norm_contrib (c : contrib) : contrib := match c with CLenIfPos m => CLen m | x => x end.

Definition contrib_eqb (a b : contrib) : bool :=
  match a, b with
  | COne, COne => true
  | CGetSize, CGetSize => true
  | CLen x, CLen y => String.eqb x y
  | CLenIfPos x, CLenIfPos y => String.eqb x y
  | _, _ => false
  end.

Definition cc_eqb (a b : string * contrib) : bool := String.eqb (fst a) (fst b) && contrib_eqb (snd a) (snd b).

Fixpoint remove_one (x : string * contrib) (l : list (string * contrib)) : option (list (string * contrib)) :=
  match l with
  | [] => None
  | y :: r => if cc_eqb x y then Some r else option_map (cons y) (remove_one x r)
  end.

(* l1 is a permutation of l2 *)
Fixpoint perm_b (l1 l2 : list (string * contrib)) : bool :=
  match l1 with
  | [] => match l2 with [] => true | _ => false end
  | x :: r => match remove_one x l2 with Some l2' => perm_b r l2' | None => false end
  end.

Definition counter_is (t : summary_table) (name : string) (want : list (string * contrib)) : bool :=
  match find_counter (st_counters t) name with
  | Some c => perm_b (map (fun cc => (fst cc, norm_contrib (snd cc))) c) want
  | None => false
  end.

Definition report_is (t : summary_table) (a wa b wb : string) : bool :=
  existsb (fun r => match r with (a', wa', b', wb') =>
                      String.eqb a a' && String.eqb wa wa' && String.eqb b b' && String.eqb wb wb' end) (st_reports t).

Definition summary_ok (t : summary_table) : bool :=
  counter_is t "tot_pop" [("populations", COne)]
  && counter_is t "tot_cells" [("populations", CGetSize)]
  && counter_is t "tot_proj" (map (fun c => (c, COne)) (st_proj_colls t))
  && counter_is t "tot_conns" (map (fun x => (fst x, CLen (snd x))) (st_conn_members t))
  && counter_is t "tot_input_lists" [("input_lists", COne)]
  && counter_is t "tot_inputs" (map (fun x => (fst x, CLen (snd x))) (st_input_members t))
  && report_is t "tot_cells" "cells" "tot_pop" "populations"
  && report_is t "tot_conns" "connections" "tot_proj" "projections"
  && report_is t "tot_inputs" "inputs" "tot_input_lists" "input lists"
  && negb (match st_conn_members t with [] => true | _ => false end)
  && negb (match st_input_members t with [] => true | _ => false end)
  && negb (match st_proj_colls t with [] => true | _ => false end).

Definition counter_value (t : summary_table) (net : network) (name : string) : N :=
  match find_counter (st_counters t) name with
  | Some c => run_counter net c
  | None => 0
  end.

(* ------------------------------------------------------------------ correspondence cases *)
Record acase : Type := MkACase {
  ac_class : string; ac_method : string;
  ac_attrs : list (string * pyval);
  ac_result : res pyval
}.

Fixpoint attrs_of (l : list (string * pyval)) (n : string) : pyval :=
  match l with
  | [] => VNone
  | (k, v) :: r => if String.eqb n k then v else attrs_of r n
  end.

(* floats: equal within 2^-50 relative (float(str) is correctly rounded, at most one more rounding for * 1000.0) *)
Definition q_close (m i : Q) : bool :=
  Qeq_bool m i || Qle_bool (Qabs (m - i)) (Qabs m * (1 # 1125899906842624)).

Definition val_close (m i : pyval) : bool :=
  match m, i with
  | VNone, VNone => true
  | VStr a, VStr b => String.eqb a b
  | VInt a, VInt b => Z.eqb a b
  | VFloat a, VFloat b => q_close a b
  | VList a, VList b => N.eqb a b
  | _, _ => false
  end.

Definition exn_eqb (a b : exn) : bool :=
  match a, b with
  | IndexError, IndexError | ValueError, ValueError | TypeError, TypeError
  | AttributeError, AttributeError | SystemExit, SystemExit => true
  | _, _ => false
  end.

Definition res_close (m i : res pyval) : bool :=
  match m, i with
  | Ok a, Ok b => val_close a b
  | Err a, Err b => exn_eqb a b
  | _, _ => false
  end.

Definition acase_ok (t : acc_table) (c : acase) : bool :=
  match lookup t (ac_class c) (ac_method c) with
  | Some p => res_close (run py_float (attrs_of (ac_attrs c)) p) (ac_result c)
  | None => false
  end.

Fixpoint mismatches_from {C : Type} (ok : C -> bool) (i : Z) (l : list C) : list Z :=
  match l with
  | [] => []
  | c :: r => if ok c then mismatches_from ok (i + 1)%Z r else i :: mismatches_from ok (i + 1)%Z r
  end.
Definition mismatches {C : Type} (ok : C -> bool) (l : list C) : list Z := mismatches_from ok 0%Z l.
