(* C05 model: the HDF5 representation of a network.

   Data (regenerated on every run by translators/tr_h5layout.py, which EXECUTES the exportHdf5 methods, the parser and
   the NetworkBuilder handlers of the tree under test against recording mocks):
     wtable   (kind, flags) |-> column_N names + per row variant the source of every column
     rtable   kind |-> handler argument <- column name (guard at column 0 / later, int() applied, default)
     bentry   context |-> the variant the builder makes, field <- argument, arguments lost
   Hand-written here (specification side): which handler argument is which semantic field (argmap), the semantic
   default of a field a row variant does not carry (sem_default), which fields are integers, the row variants and the
   classification the builder is expected to make (classify_b), the group attributes of each construct (gspec).

   Model: row encode / decode over an arbitrary layout, tables of any length, reclassification of decoded rows into
   the element lists of a projection / input list, group attributes as an association list.
   External components are Section variables: F (numbers), r32 (what a float32 cell keeps), rint (python int()),
   cval (the constants 0, 1, 1/2, -1), ofnat (a row index as a number), weq (== on numbers).
   No proofs in this file. *)
From Coq Require Import String List Bool Arith ZArith.
Import ListNotations.
Open Scope string_scope.

Inductive cst := CZero | COne | CHalf | CMinusOne.
Inductive src := SField (f : string) | SConst (c : cst).
Inductive gsrc := GField (f : string) | GConst (s : string) | GCount | GProp | GXml.
Inductive dflt := DConst (c : cst) | DRowIndex | DOther | DFail.

Record wvariant := { wv_name : string; wv_cols : list src }.
Record wtable := { wt_kind : string; wt_flags : list string; wt_names : list (option string);
                   wt_variants : list wvariant; wt_gattrs : list (string * gsrc) }.
Record pentry := { pe_arg : string; pe_name : string; pe_at0 : bool; pe_atpos : bool; pe_int : bool; pe_dflt : dflt }.
Record rtable := { rt_kind : string; rt_args : list pentry; rt_unread : list string; rt_gattrs : list (string * string) }.
Record bentry := { be_kind : string; be_inst : bool; be_mixed : bool; be_unitw : bool; be_cols : bool; be_zerod : bool;
                   be_variant : string; be_fields : list (string * string); be_lost : list string }.
(* one probe of the writer's column-selection decision: the rows exported (variant, field values scaled by 1024; all
   values are multiples of 1/1024), the field that is off its semantic default ("" = none, "*" = several), and the column
   names the real exportHdf5 wrote *)
Record selprobe := { sp_kind : string; sp_off : string; sp_rows : list (string * list (string * Z)); sp_names : list (option string) }.

(* the file skeleton, probed: what NeuroMLHdf5Writer.write / Network.exportHdf5 create and how parse_group dispatches *)
Record skeleton := {
  sk_root : string; sk_network : string;             (* names of the root group and of the network group *)
  sk_wprefix : list (string * string);               (* kind |-> group-name prefix used by the writer *)
  sk_order : list string;                            (* kinds in the order Network.exportHdf5 creates their groups *)
  sk_networks_written : nat;                         (* network groups created for a document holding TWO networks *)
  sk_embeds_xml : bool; sk_restores_networks : bool; (* neuroml_top_level written without the networks; networks put back *)
  sk_array_named_by_id : bool;                       (* the table of a construct is named by its id (the reader looks it up so) *)
  sk_rprefix : list (string * string);               (* reader: prefix |-> class of group: population | projection | inputlist *)
  sk_prefix_only : bool;                             (* a group whose name merely CONTAINS a prefix is not dispatched *)
  sk_pops_first : bool;                              (* populations are handled before the other groups whatever the name order *)
  sk_root_dispatch : bool;                           (* the reader recognises the root and network groups by the writer's names *)
  sk_empty_proj_w : list (string * gsrc);            (* group attributes of a chemical projection without connections *)
  sk_empty_proj_array : bool;                        (* ... does it get a table (it must not: zero rows cannot be stored) *)
  sk_empty_proj_read : list (string * bool) }.       (* ... field read back through finalise_projection *)

(* the optimized loader's containers (NetworkContainer.InstanceList / ConnectionList / InputsList.__getitem__), probed:
   semantic field <- column name, int()/float() applied, what is taken when the name is absent, a 0 cell read as 0 *)
Inductive odflt := ODConst (c : cst) | ODColumn (k : nat) | ODRowIndex | ODFail.
Record oentry := { oe_field : string; oe_name : string; oe_at0 : bool; oe_int : bool; oe_dflt : odflt; oe_zero_kept : bool }.
Record otable := { ot_kind : string; ot_variant : string; ot_entries : list oentry; ot_dropped : list string }.

Record h5gen := {
  g_writer : list wtable; g_reader : list rtable; g_builder : list bentry;
  g_sized_pop_w : list (string * gsrc); g_sized_pop_r : list (string * string);
  g_doc_w : list (string * gsrc); g_doc_r : list (string * string);
  g_net_w : list (string * gsrc); g_net_r : list (string * string);
  g_prop_prefix : bool; g_none_notes : list (option string); g_absent_temp : option string;
  g_builder_strings : list (string * list (string * bool));
  g_refusals : list (string * bool); g_delay_units : list (string * bool); g_select : list selprobe;
  g_zero : list (string * string * string * bool);
  g_precision : list (string * string * string * bool); g_merge : list (string * bool);
  g_strings : list (string * bool); g_skel : skeleton; g_opt : list otable;
  g_popsel : list (bool * string * string * bool * bool);
  g_conn_lists : list (string * list string); g_mixed : list (string * string * string * nat * bool * bool);
  g_frame : list (string * string * bool) }.

(* ------------------------------------------------------------------ small boolean equalities *)
Definition cst_eqb (a b : cst) : bool :=
  match a, b with CZero, CZero | COne, COne | CHalf, CHalf | CMinusOne, CMinusOne => true | _, _ => false end.
Definition dflt_eqb (a b : dflt) : bool :=
  match a, b with
  | DConst x, DConst y => cst_eqb x y | DRowIndex, DRowIndex | DOther, DOther | DFail, DFail => true | _, _ => false end.
Definition ostr_eqb (a b : option string) : bool :=
  match a, b with Some x, Some y => String.eqb x y | None, None => true | _, _ => false end.
Definition ocst_eqb (a b : option cst) : bool :=
  match a, b with Some x, Some y => cst_eqb x y | None, None => true | _, _ => false end.
Definition gsrc_eqb (a b : gsrc) : bool :=
  match a, b with
  | GField x, GField y => String.eqb x y | GConst x, GConst y => String.eqb x y
  | GCount, GCount | GProp, GProp | GXml, GXml => true | _, _ => false end.
Fixpoint mem (s : string) (l : list string) : bool :=
  match l with [] => false | x :: t => String.eqb s x || mem s t end.
Fixpoint strs_eqb (a b : list string) : bool :=
  match a, b with [] , [] => true | x :: a', y :: b' => String.eqb x y && strs_eqb a' b' | _, _ => false end.
Fixpoint assoc {B} (k : string) (l : list (string * B)) : option B :=
  match l with [] => None | (x, v) :: t => if String.eqb k x then Some v else assoc k t end.
Fixpoint nodupb (l : list string) : bool :=
  match l with [] => true | x :: t => negb (mem x t) && nodupb t end.
Fixpoint somes {A} (l : list (option A)) : list A :=
  match l with [] => [] | Some x :: t => x :: somes t | None :: t => somes t end.

(* ------------------------------------------------------------------ specification side (hand-written) *)
(* the semantic value of a field that a row variant does not carry *)
Definition sem_default (f : string) : option cst :=
  if mem f ["pre_seg"; "post_seg"; "seg"; "delay"] then Some CZero
  else if mem f ["pre_fract"; "post_fract"; "fract"] then Some CHalf
  else if String.eqb f "weight" then Some COne else None.

Definition int_field (f : string) : bool := mem f ["id"; "pre_cell"; "post_cell"; "pre_seg"; "post_seg"; "cell"; "seg"].

Definition conn_argmap : list (string * string) :=
  [("conn_id", "id"); ("preCellId", "pre_cell"); ("postCellId", "post_cell"); ("preSegId", "pre_seg");
   ("preFract", "pre_fract"); ("postSegId", "post_seg"); ("postFract", "post_fract"); ("delay", "delay"); ("weight", "weight")].
Definition argmap (kind : string) : list (string * string) :=
  if String.eqb kind "inputlist" then [("id", "id"); ("cellId", "cell"); ("segId", "seg"); ("fract", "fract"); ("weight", "weight")]
  else if String.eqb kind "population" then [("id", "id"); ("x", "x"); ("y", "y"); ("z", "z")]
  else conn_argmap.
Definition field_of (kind arg : string) : option string := assoc arg (argmap kind).

(* the fields the property speaks about, per kind (chemical connection ids are not held by the format) *)
Definition sfields (kind : string) : list string :=
  if String.eqb kind "projection" then ["pre_cell"; "post_cell"; "pre_seg"; "post_seg"; "pre_fract"; "post_fract"; "weight"; "delay"]
  else if String.eqb kind "inputlist" then ["id"; "cell"; "seg"; "fract"; "weight"]
  else if String.eqb kind "population" then ["x"; "y"; "z"]
  else ["id"; "pre_cell"; "post_cell"; "pre_seg"; "post_seg"; "pre_fract"; "post_fract"; "weight"].

(* fields a row variant carries itself (everything else of its kind is at its semantic default) *)
Definition vfields (kind variant : string) : list string :=
  let base := filter (fun f => negb (mem f ["weight"; "delay"])) (sfields kind) in
  if String.eqb variant "ConnectionWD" then (base ++ ["weight"; "delay"])%list
  else if mem variant ["ElectricalConnectionInstanceW"; "ContinuousConnectionInstanceW"; "InputW"] then (base ++ ["weight"])%list
  else base.

(* the variant NetworkBuilder is expected to make; None = the load must refuse.
   inst: one of the two populations is instance based; cols: the table has a weight or delay column;
   unitw: weight == 1; zerod: delay == 0 *)
Definition classify_b (kind : string) (inst cols unitw zerod : bool) : option string :=
  if String.eqb kind "projection" then
    Some (if negb cols && zerod && unitw then "Connection" else "ConnectionWD")
  else if String.eqb kind "electrical" then
    if inst then Some (if unitw then "ElectricalConnectionInstance" else "ElectricalConnectionInstanceW")
    else if unitw then Some "ElectricalConnection" else None
  else if String.eqb kind "continuous" then
    if inst then Some (if unitw then "ContinuousConnectionInstance" else "ContinuousConnectionInstanceW")
    else if unitw then Some "ContinuousConnection" else None
  else if String.eqb kind "inputlist" then Some (if unitw then "Input" else "InputW")
  else Some "Instance".

(* group attributes: (attribute name, object field, handler argument) *)
Definition gspec (kind : string) : list (string * string * string) :=
  if String.eqb kind "population" then [("id", "id", "population_id"); ("component", "component", "component")]
  else if String.eqb kind "projection" then
    [("id", "id", "id"); ("presynapticPopulation", "pre", "prePop"); ("postsynapticPopulation", "post", "postPop"); ("synapse", "synapse", "synapse")]
  else if String.eqb kind "electrical" then
    [("id", "id", "id"); ("presynapticPopulation", "pre", "prePop"); ("postsynapticPopulation", "post", "postPop"); ("synapse", "synapse", "synapse")]
  else if String.eqb kind "continuous" then
    [("id", "id", "id"); ("presynapticPopulation", "pre", "prePop"); ("postsynapticPopulation", "post", "postPop");
     ("postComponent", "post_comp", "synapse"); ("preComponent", "pre_comp", "pre_synapse_obj")]
  else if String.eqb kind "inputlist" then
    [("id", "id", "inputListId"); ("component", "component", "component"); ("population", "population", "population_id")]
  else if String.eqb kind "sized_population" then
    [("id", "id", "population_id"); ("component", "component", "component"); ("size", "size", "size")]
  else if String.eqb kind "document" then [("id", "id", "id"); ("notes", "notes", "notes")]
  else if String.eqb kind "network" then [("id", "id", "network_id"); ("notes", "notes", "notes"); ("temperature", "temperature", "temperature")]
  else [].

(* constructs the format cannot hold: the writer has to refuse each of them *)
Definition must_refuse : list string :=
  ["synaptic_connections"; "explicit_inputs"; "spaces"; "regions"; "cell_sets"; "extracellular_properties"; "population_layout";
   "electrical_differing_synapses"; "continuous_differing_pre_components"; "continuous_differing_post_components"].

(* ------------------------------------------------------------------ layout obligations (pure data) *)
Fixpoint find_col (names : list (option string)) (n : string) (j : nat) : option nat :=
  match names with
  | [] => None
  | Some x :: t => if String.eqb x n then Some j else find_col t n (S j)
  | None :: t => find_col t n (S j)
  end.

Definition field_stored (cols : list src) (f : string) : bool :=
  existsb (fun s => match s with SField g => String.eqb g f | SConst _ => false end) cols.

Definition guard (pe : pentry) (j : nat) : bool := if Nat.eqb j 0 then pe_at0 pe else pe_atpos pe.

Definition pe_ok (kind : string) (names : list (option string)) (cols : list src) (pe : pentry) : bool :=
  match field_of kind (pe_arg pe) with
  | None => true
  | Some f =>
    match find_col names (pe_name pe) 0 with
    | Some j =>
        guard pe j &&
        match nth_error cols j with
        | Some (SField g) => String.eqb g f && (negb (pe_int pe) || int_field f)
        | Some (SConst c) => negb (field_stored cols f) && ocst_eqb (sem_default f) (Some c)
                             && (negb (pe_int pe) || negb (cst_eqb c CHalf))
        | None => false
        end
    | None =>
        negb (field_stored cols f) &&
        match sem_default f with
        | Some c => dflt_eqb (pe_dflt pe) (DConst c)
        | None => negb (dflt_eqb (pe_dflt pe) DFail)
        end
    end
  end.

(* every stored field is the field of some handler argument *)
Definition consumed (kind : string) (rargs : list pentry) (cols : list src) : bool :=
  forallb (fun s => match s with
                    | SField f => existsb (fun pe => ostr_eqb (field_of kind (pe_arg pe)) (Some f)) rargs
                    | SConst _ => true end) cols.

(* every field the property speaks about is either stored or has a semantic default *)
Definition sfields_held (kind : string) (cols : list src) : bool :=
  forallb (fun f => field_stored cols f || match sem_default f with Some _ => true | None => false end) (sfields kind).

Definition variant_ok (kind : string) (rargs : list pentry) (names : list (option string)) (cols : list src) : bool :=
  Nat.eqb (length cols) (length names) && forallb (pe_ok kind names cols) rargs && consumed kind rargs cols
  && sfields_held kind cols.

(* hasWeights = indexWeight > 0, hasDelays = indexDelay > 0 in parse_dataset *)
Definition has_wd_cols (names : list (option string)) : bool :=
  match find_col names "weight" 0, find_col names "delay" 0 with
  | Some (S _), _ | _, Some (S _) => true
  | _, _ => false end.

(* a chemical projection table without weight/delay columns stores neither *)
Definition wd_flag_ok (wt : wtable) : bool :=
  negb (String.eqb (wt_kind wt) "projection") || has_wd_cols (wt_names wt)
  || forallb (fun v => negb (field_stored (wv_cols v) "weight") && negb (field_stored (wv_cols v) "delay")) (wt_variants wt).

(* every field of the kind that the property speaks about is delivered by some handler argument *)
Definition args_cover (kind : string) (rargs : list pentry) : bool :=
  forallb (fun f => existsb (fun pe => ostr_eqb (field_of kind (pe_arg pe)) (Some f)) rargs) (sfields kind).

Definition table_ok (rargs : list pentry) (wt : wtable) : bool :=
  nodupb (somes (wt_names wt)) && args_cover (wt_kind wt) rargs && wd_flag_ok wt
  && forallb (fun v => variant_ok (wt_kind wt) rargs (wt_names wt) (wv_cols v)) (wt_variants wt).

Definition reader_of (g : h5gen) (kind : string) : list pentry :=
  match find (fun r => String.eqb (rt_kind r) kind) (g_reader g) with Some r => rt_args r | None => [] end.

Definition table_kinds : list string := ["population"; "projection"; "electrical"; "continuous"; "inputlist"].

Definition layout_ok (g : h5gen) (wt : wtable) : bool :=
  table_ok (reader_of g (wt_kind wt)) wt && mem (wt_kind wt) table_kinds
  && match find (fun r => String.eqb (rt_kind r) (wt_kind wt)) (g_reader g) with
     | Some r => match rt_unread r with [] => true | _ => false end | None => false end.

(* the tables of one kind that fail (diagnostic: flags of the failing tables) *)
Definition failing_tables (g : h5gen) : list (string * list string) :=
  map (fun wt => (wt_kind wt, wt_flags wt)) (filter (fun wt => negb (layout_ok g wt)) (g_writer g)).

(* group attributes *)
Definition gattr_ok (w : list (string * gsrc)) (r : list (string * string)) (bs : list (string * bool)) (x : string * string * string) : bool :=
  let '(a, f, arg) := x in
  match assoc a w with Some s => gsrc_eqb s (GField f) | None => false end
  && existsb (fun p => String.eqb (fst p) a && String.eqb (snd p) arg) r
  && match assoc f bs with Some b => b | None => false end.

Definition gattrs_ok (kind : string) (w : list (string * gsrc)) (r : list (string * string)) (bs : list (string * bool)) : bool :=
  forallb (gattr_ok w r bs) (gspec kind).

Definition strings_of (g : h5gen) (kind : string) : list (string * bool) :=
  match assoc kind (g_builder_strings g) with Some l => l | None => [] end.

Definition table_gattrs_ok (g : h5gen) (wt : wtable) : bool :=
  match find (fun r => String.eqb (rt_kind r) (wt_kind wt)) (g_reader g) with
  | Some r => gattrs_ok (wt_kind wt) (wt_gattrs wt) (rt_gattrs r) (strings_of g (wt_kind wt))
  | None => false end.

(* boundary strings: get_str_attribute_group hands back exactly what is stored ("" , " ", "0", "None", "False", with ':' / '/'),
   and the empty string survives writer, parser and builder in every slot where it is a legal value.
   NOT required (known findings C05:notes-empty-read-as-absent, C05:network.notes-empty-read-as-absent: NetworkBuilder turns
   empty notes into absent notes): builder:document.notes, builder:network.notes. *)
Definition strings_required : list string :=
  ["getstr:''"; "getstr:' '"; "getstr:'0'"; "getstr:'None'"; "getstr:'False'"; "getstr:'a:b'"; "getstr:'a/b'";
   "writer:document.notes"; "writer:network.notes"; "writer:population.property.value";
   "reader:document.notes"; "reader:network.notes"; "reader:population.property.value";
   "builder:population.property.value"; "optimized:population.property.value"].
Definition strings_ok (g : h5gen) : bool :=
  forallb (fun n => match assoc n (g_strings g) with Some b => b | None => false end) strings_required.
Definition failing_strings (g : h5gen) : list string :=
  filter (fun n => negb (match assoc n (g_strings g) with Some b => b | None => false end)) strings_required.

Definition groups_ok (g : h5gen) : bool :=
  forallb (table_gattrs_ok g) (g_writer g)
  && gattrs_ok "sized_population" (g_sized_pop_w g) (g_sized_pop_r g) (strings_of g "population")
  && gattrs_ok "document" (g_doc_w g) (g_doc_r g) (strings_of g "document")
  && gattrs_ok "network" (g_net_w g) (g_net_r g) (strings_of g "network")
  && g_prop_prefix g
  && match assoc "props" (strings_of g "population") with Some b => b | None => false end
  && existsb (fun wt => String.eqb (wt_kind wt) "population" && existsb (fun p => gsrc_eqb (snd p) GProp) (wt_gattrs wt)) (g_writer g)
  && strings_ok g.

(* an absent (None) string attribute must be read back as absent *)
Definition none_ok (g : h5gen) : bool :=
  forallb (fun o => match o with None => true | Some _ => false end) (g_none_notes g)
  && match g_absent_temp g with None => true | Some _ => false end.

(* the builder: variant and field <- argument in every probed context *)
Definition fields_ok (kind : string) (fs : list (string * string)) : bool :=
  forallb (fun p => ostr_eqb (field_of kind (snd p)) (Some (fst p))) fs.

Definition bentry_ok (b : bentry) : bool :=
  match classify_b (be_kind b) (be_inst b) (be_cols b) (be_unitw b) (be_zerod b) with
  | None => String.eqb (be_variant b) "RAISE"
  | Some v =>
      String.eqb (be_variant b) v
      && match be_lost b with [] => true | _ => false end
      && fields_ok (be_kind b) (be_fields b)
      (* every field the variant carries and whose argument was a sentinel has arrived *)
      && forallb (fun f => mem f (map fst (be_fields b))
                           || (String.eqb f "weight" && be_unitw b) || (String.eqb f "delay" && be_zerod b))
                 (if String.eqb (be_kind b) "projection" then "id" :: vfields (be_kind b) v else vfields (be_kind b) v)
  end.

Definition builder_ok (g : h5gen) : bool :=
  forallb bentry_ok (g_builder g) && negb (Nat.eqb (length (g_builder g)) 0).

Definition failing_builder (g : h5gen) : list (string * (bool * bool * bool * bool) * string) :=
  map (fun b => (be_kind b, (be_inst b, be_unitw b, be_cols b, be_zerod b), be_variant b)) (filter (fun b => negb (bentry_ok b)) (g_builder g)).

Definition refuse_ok (g : h5gen) : bool :=
  forallb (fun n => match assoc n (g_refusals g) with Some b => b | None => false end) must_refuse.

Definition not_refused (g : h5gen) : list string :=
  filter (fun n => negb (match assoc n (g_refusals g) with Some b => b | None => false end)) must_refuse.

Definition units_ok (g : h5gen) : bool :=
  forallb (fun p => snd p) (g_delay_units g) && mem "3ms" (map fst (g_delay_units g)) && mem "0.25s" (map fst (g_delay_units g)).

(* writer tables present for every combination of row variants *)
Definition all_layouts_ok (g : h5gen) : bool := forallb (layout_ok g) (g_writer g).

Definition kinds_covered (g : h5gen) : bool :=
  forallb (fun kn => Nat.eqb (length (filter (fun wt => String.eqb (wt_kind wt) (fst kn)) (g_writer g))) (snd kn))
          [("population", 1); ("projection", 6); ("electrical", 7); ("continuous", 7); ("inputlist", 3)].

(* a table stores every field its row variants carry, except segment / fraction when the flag says all are at their default;
   and its row variants are the ones its flags name *)
Definition seg_fields : list string := ["pre_seg"; "post_seg"; "pre_fract"; "post_fract"].
Definition stores_ok (wt : wtable) : bool :=
  strs_eqb (map wv_name (wt_variants wt)) (filter (fun f => negb (String.eqb f "segfract")) (wt_flags wt))
  && forallb (fun v => forallb (fun f => field_stored (wv_cols v) f
                                        || (String.eqb (wt_kind wt) "projection" && mem f seg_fields && negb (mem "segfract" (wt_flags wt))))
                               (vfields (wt_kind wt) (wv_name v)))
             (wt_variants wt).
Definition all_stores_ok (g : h5gen) : bool := forallb stores_ok (g_writer g).

(* ------------------------------------------------------------------ executable codec over a layout *)
Section Codec.
  Variable F : Type.
  Variable r32 : F -> F.          (* what a float32 cell keeps of a number *)
  Variable rint : F -> F.         (* python int() *)
  Variable cval : cst -> F.       (* 0, 1, 1/2, -1 *)
  Variable ofnat : nat -> F.      (* a row index as a number *)
  Variable other : F.             (* what a reader picks up when a required column is not there *)
  Variable weq : F -> F -> bool.  (* == *)

  Definition sem_row := string -> F.

  Definition encode_cell (fields : sem_row) (s : src) : F :=
    match s with SField f => r32 (fields f) | SConst c => cval c end.
  Definition encode_row (cols : list src) (fields : sem_row) : list F := map (encode_cell fields) cols.

  Definition dflt_val (d : dflt) (i : nat) : option F :=
    match d with DConst c => Some (cval c) | DRowIndex => Some (ofnat i) | DOther => Some other | DFail => None end.

  Definition decode_arg (names : list (option string)) (pe : pentry) (i : nat) (row : list F) : option F :=
    match find_col names (pe_name pe) 0 with
    | Some j => if guard pe j
                then match nth_error row j with
                     | Some v => Some (if pe_int pe then rint v else v)
                     | None => None end
                else dflt_val (pe_dflt pe) i
    | None => dflt_val (pe_dflt pe) i
    end.

  (* the decoded value of a semantic field: through the handler argument that carries it *)
  Definition decode_field (kind : string) (names : list (option string)) (rargs : list pentry) (i : nat) (row : list F)
             (f : string) : option F :=
    match find (fun pe => ostr_eqb (field_of kind (pe_arg pe)) (Some f)) rargs with
    | Some pe => decode_arg names pe i row
    | None => None
    end.

  (* one table: rows are (variant, fields) in list-concatenation order *)
  Definition trow := (string * sem_row)%type.

  Definition cols_of (vs : list wvariant) (v : string) : option (list src) :=
    match find (fun w => String.eqb (wv_name w) v) vs with Some w => Some (wv_cols w) | None => None end.

  Fixpoint encode_table (vs : list wvariant) (rows : list trow) : option (list (list F)) :=
    match rows with
    | [] => Some []
    | (v, fields) :: t =>
        match cols_of vs v, encode_table vs t with
        | Some cols, Some rest => Some (encode_row cols fields :: rest)
        | _, _ => None
        end
    end.

  (* semantic view of a decoded row: the values of the fields the property speaks about *)
  Fixpoint all_some {A} (l : list (option A)) : option (list A) :=
    match l with
    | [] => Some []
    | Some x :: t => match all_some t with Some r => Some (x :: r) | None => None end
    | None :: _ => None
    end.

  Definition decode_sem (kind : string) (names : list (option string)) (rargs : list pentry) (i : nat) (row : list F)
    : option (list F) :=
    all_some (map (decode_field kind names rargs i row) (sfields kind)).

  Fixpoint decode_table (kind : string) (names : list (option string)) (rargs : list pentry) (i : nat) (cells : list (list F))
    : option (list (list F)) :=
    match cells with
    | [] => Some []
    | row :: t =>
        match decode_sem kind names rargs i row, decode_table kind names rargs (S i) t with
        | Some s, Some rest => Some (s :: rest)
        | _, _ => None
        end
    end.

  Definition sem_of (kind : string) (fields : sem_row) : list F := map fields (sfields kind).
  Definition sem32_of (kind : string) (fields : sem_row) : list F := map (fun f => r32 (fields f)) (sfields kind).

  (* ---------------- the element lists of a projection / input list and their canonical order *)
  (* position of the weight / delay in a semantic row *)
  Fixpoint index_of (f : string) (l : list string) (j : nat) : option nat :=
    match l with [] => None | x :: t => if String.eqb x f then Some j else index_of f t (S j) end.
  Definition sem_get (kind f : string) (s : list F) : option F :=
    match index_of f (sfields kind) 0 with Some j => nth_error s j | None => None end.

  Definition unitw (kind : string) (s : list F) : bool :=
    match sem_get kind "weight" s with Some w => weq w (cval COne) | None => true end.
  Definition zerod (kind : string) (s : list F) : bool :=
    match sem_get kind "delay" s with Some d => weq d (cval CZero) | None => true end.

  (* NetworkBuilder: which element list a decoded row goes to (None: refused) *)
  Definition classify (kind : string) (inst cols : bool) (s : list F) : option string :=
    classify_b kind inst cols (unitw kind s) (zerod kind s).

  (* rows that live in several element lists have no order across the lists: canonical = unit weights first *)
  Definition canon (kind : string) (l : list (list F)) : list (list F) :=
    (filter (unitw kind) l ++ filter (fun s => negb (unitw kind s)) l)%list.

  (* the element lists after a load: every decoded row appended to the list of its variant *)
  Fixpoint rebuild_with (cl : list F -> option string) (l : list (list F)) : option (list (string * list F)) :=
    match l with
    | [] => Some []
    | s :: t =>
        match cl s, rebuild_with cl t with
        | Some v, Some rest => Some ((v, s) :: rest)
        | _, _ => None
        end
    end.
  Definition rebuild (kind : string) (inst cols : bool) := rebuild_with (classify kind inst cols).

  Definition list_of (v : string) (l : list (string * list F)) : list (list F) :=
    map snd (filter (fun p => String.eqb (fst p) v) l).

  (* document order of a rebuilt construct = its element lists one after the other *)
  Definition doc_order (variants : list string) (l : list (string * list F)) : list (list F) :=
    flat_map (fun v => list_of v l) variants.

  (* semantic projection of the rows of a construct: chemical projections keep the order (one list after a load),
     the others are canonical *)
  Definition sem_rows (kind : string) (l : list (list F)) : list (list F) :=
    if String.eqb kind "projection" || String.eqb kind "population" then l else canon kind l.

  (* ---------------- one construct written and loaded *)
  Definition variants_of (kind : string) : list string :=
    if String.eqb kind "projection" then ["Connection"; "ConnectionWD"]
    else if String.eqb kind "electrical" then ["ElectricalConnection"; "ElectricalConnectionInstance"; "ElectricalConnectionInstanceW"]
    else if String.eqb kind "continuous" then ["ContinuousConnection"; "ContinuousConnectionInstance"; "ContinuousConnectionInstanceW"]
    else if String.eqb kind "inputlist" then ["Input"; "InputW"]
    else ["Instance"].

  Definition load_rows (kind : string) (inst : bool) (names : list (option string)) (rargs : list pentry) (cells : list (list F))
    : option (list (list F)) :=
    match decode_table kind names rargs 0 cells with
    | Some sems =>
        match rebuild kind inst (has_wd_cols names) sems with
        | Some tagged => Some (sem_rows kind (doc_order (variants_of kind) tagged))
        | None => None
        end
    | None => None
    end.

  Definition write_rows (wt : wtable) (rows : list trow) : option (list (list F)) := encode_table (wt_variants wt) rows.

  (* ---------------- how the writer chooses the table: which row variants are present, and (chemical projections)
     whether any connection has a segment or fraction off its default (utils.has_segment_fraction_info) *)
  Definition present (vs : list string) (rows : list trow) : list string :=
    filter (fun v => existsb (fun r => String.eqb (fst r) v) rows) vs.
  Definition seg_default (fields : sem_row) : bool :=
    weq (fields "pre_seg") (cval CZero) && weq (fields "post_seg") (cval CZero)
    && weq (fields "pre_fract") (cval CHalf) && weq (fields "post_fract") (cval CHalf).
  Definition segfract (rows : list trow) : bool := existsb (fun r => negb (seg_default (snd r))) rows.
  Definition flags_of (kind : string) (rows : list trow) : list string :=
    (present (variants_of kind) rows ++ (if String.eqb kind "projection" && segfract rows then ["segfract"] else []))%list.
  Definition select_table (g : h5gen) (kind : string) (rows : list trow) : option wtable :=
    find (fun wt => String.eqb (wt_kind wt) kind && strs_eqb (wt_flags wt) (flags_of kind rows)) (g_writer g).

  (* ---------------- group attributes: an association list of optional strings (PyTables: what was set is what is read) *)
  Definition write_attrs (w : list (string * gsrc)) (fields : string -> option string) : list (string * option string) :=
    map (fun p => (fst p, match snd p with GField f => fields f | GConst s => Some s | _ => None end)) w.
  Definition read_attr (attrs : list (string * option string)) (a : string) : option string :=
    match assoc a attrs with Some v => v | None => None end.

  (* ---------------- a network as a set of constructs, a file as a set of nodes *)
  Record construct := { c_kind : string; c_inst : bool; c_attrs : string -> option string; c_rows : list trow }.
  Record node := { n_kind : string; n_inst : bool; n_attrs : list (string * option string);
                   n_names : list (option string); n_cells : list (list F) }.
  (* what the property compares of a construct: its kind, the values of the fields the group attributes carry, its rows *)
  Definition csem := (string * list (string * option string) * list (list F))%type.

  Definition attr_fields (kind : string) : list string := map (fun x => snd (fst x)) (gspec kind).

  Definition write_construct (g : h5gen) (c : construct) : option node :=
    match select_table g (c_kind c) (c_rows c) with
    | Some wt =>
        match write_rows wt (c_rows c) with
        | Some cells => Some {| n_kind := c_kind c; n_inst := c_inst c; n_attrs := write_attrs (wt_gattrs wt) (c_attrs c);
                                n_names := wt_names wt; n_cells := cells |}
        | None => None end
    | None => None end.

  Definition load_node (g : h5gen) (n : node) : option csem :=
    match load_rows (n_kind n) (n_inst n) (n_names n) (reader_of g (n_kind n)) (n_cells n) with
    | Some out => Some (n_kind n, map (fun x => (snd (fst x), read_attr (n_attrs n) (fst (fst x)))) (gspec (n_kind n)), out)
    | None => None end.

  Definition sem32_construct (c : construct) : csem :=
    (c_kind c, map (fun f => (f, c_attrs c f)) (attr_fields (c_kind c)),
     sem_rows (c_kind c) (map (fun r => sem32_of (c_kind c) (snd r)) (c_rows c))).

  (* PyTables hands the children of a group back in name order: some rearrangement `order` of what was written *)
  Variable order : list node -> list node.
  Definition write_net (g : h5gen) (cs : list construct) : option (list node) := all_some (map (write_construct g) cs).
  Definition load_net (g : h5gen) (ns : list node) : option (list csem) := all_some (map (load_node g) (order ns)).

  (* ================= the whole file: a tree of groups with attributes and arrays ================= *)
  (* /neuroml {id, notes, neuroml_top_level}  /  network {id, notes, temperature}  /  population_<id> | projection_<id> |
     inputList_<id> {attributes}  /  <id> : float32 array with column_N attributes *)
  Record cgroup := { cg_name : string; cg_attrs : list (string * option string);
                     cg_array : option (list (option string) * list (list F)) }.
  Record netgroup := { ng_name : string; ng_attrs : list (string * option string); ng_children : list cgroup }.
  (* the non-network top-level components travel as XML inside an attribute of the root group *)
  Variables X XML : Type.
  Variable xcls : X -> string.
  Variable xexport : X -> option XML.
  Variable xbuild : string -> XML -> option X.
  Record h5file := { f_root : string; f_attrs : list (string * option string); f_xml : list (string * XML);
                     f_networks : list netgroup }.

  (* the document side: constructs WITHOUT the instance flag (it is a property of the populations) *)
  Record dconstruct := { dc_kind : string; dc_attrs : string -> option string; dc_rows : list trow }.
  Record dnetwork := { dn_attrs : string -> option string; dn_constructs : list dconstruct }.
  Record document := { dd_attrs : string -> option string; dd_top : list X; dd_networks : list dnetwork }.

  Definition nonempty {A} (l : list A) : bool := match l with [] => false | _ => true end.
  Definition str_of (o : option string) : string := match o with Some s => s | None => "" end.

  (* NetworkBuilder.handle_connection: instances = one of the two populations has instances *)
  Definition pop_inst (pops : list (option string * bool)) (pre post : option string) : bool :=
    existsb (fun p => (ostr_eqb (fst p) pre || ostr_eqb (fst p) post) && snd p) pops.
  Definition pops_of (cs : list dconstruct) : list (option string * bool) :=
    map (fun c => (dc_attrs c "id", nonempty (dc_rows c))) (filter (fun c => String.eqb (dc_kind c) "population") cs).

  (* which attribute specification applies: a population without instances stores its size *)
  Definition gkind (kind : string) (has_rows : bool) : string :=
    if String.eqb kind "population" && negb has_rows then "sized_population" else kind.

  Definition kind_prefix (g : h5gen) (kind : string) : string := str_of (assoc kind (sk_wprefix (g_skel g))).

  Definition write_cgroup (g : h5gen) (c : dconstruct) : option cgroup :=
    let name := (kind_prefix g (dc_kind c) ++ str_of (dc_attrs c "id"))%string in
    match dc_rows c with
    | [] => if String.eqb (dc_kind c) "population"
            then Some {| cg_name := name; cg_attrs := write_attrs (g_sized_pop_w g) (dc_attrs c); cg_array := None |}
            else if String.eqb (dc_kind c) "projection"
            then Some {| cg_name := name; cg_attrs := write_attrs (sk_empty_proj_w (g_skel g)) (dc_attrs c); cg_array := None |}
            else None            (* an electrical / continuous projection or input list without rows makes exportHdf5 raise *)
    | _ => match select_table g (dc_kind c) (dc_rows c) with
           | Some wt => match write_rows wt (dc_rows c) with
                        | Some cells => Some {| cg_name := name; cg_attrs := write_attrs (wt_gattrs wt) (dc_attrs c);
                                                cg_array := Some (wt_names wt, cells) |}
                        | None => None end
           | None => None end
    end.

  Definition write_network (g : h5gen) (n : dnetwork) : option netgroup :=
    match all_some (map (write_cgroup g) (dn_constructs n)) with
    | Some cgs => Some {| ng_name := sk_network (g_skel g); ng_attrs := write_attrs (g_net_w g) (dn_attrs n); ng_children := cgs |}
    | None => None end.

  (* PyTables refuses a second child of the same name: every network group is called "network" *)
  Definition write_document (g : h5gen) (d : document) : option h5file :=
    match dd_networks d with
    | _ :: _ :: _ => None
    | nets =>
      match all_some (map (write_network g) nets),
            all_some (map (fun o => match xexport o with Some x => Some (xcls o, x) | None => None end) (dd_top d)) with
      | Some ngs, Some xs => Some {| f_root := sk_root (g_skel g); f_attrs := write_attrs (g_doc_w g) (dd_attrs d);
                                     f_xml := xs; f_networks := ngs |}
      | _, _ => None end
    end.

  (* ---- the reader: dispatch on the group-name prefix (start_group), the kind of a projection group from its type attribute *)
  Definition kind_of_type (t : option string) : string :=
    match t with
    | Some s => if String.eqb s "electricalProjection" then "electrical"
                else if String.eqb s "continuousProjection" then "continuous" else "projection"
    | None => "projection" end.
  Definition group_class (g : h5gen) (name : string) : option string :=
    match find (fun pc => String.prefix (fst pc) name) (sk_rprefix (g_skel g)) with Some pc => Some (snd pc) | None => None end.
  Definition group_kind (g : h5gen) (cg : cgroup) : option string :=
    match group_class g (cg_name cg) with
    | Some cls => if String.eqb cls "population" then Some "population"
                  else if String.eqb cls "inputlist" then Some "inputlist"
                  else if String.eqb cls "projection" then Some (kind_of_type (read_attr (cg_attrs cg) "type"))
                  else None
    | None => None end.

  (* the populations as the builder knows them when the connections arrive (parse_group handles population groups first) *)
  Definition loaded_pops (g : h5gen) (cgs : list cgroup) : list (option string * bool) :=
    map (fun cg => (read_attr (cg_attrs cg) "id", match cg_array cg with Some (_, cells) => nonempty cells | None => false end))
        (filter (fun cg => ostr_eqb (group_class g (cg_name cg)) (Some "population")) cgs).

  Definition attr_name_of (kind field : string) : string :=
    match find (fun x => String.eqb (snd (fst x)) field) (gspec kind) with Some x => fst (fst x) | None => "" end.

  Definition load_cgroup (g : h5gen) (pops : list (option string * bool)) (cg : cgroup) : option csem :=
    match group_kind g cg with
    | Some kind =>
        let has := match cg_array cg with Some _ => true | None => false end in
        let gk := gkind kind has in
        let fields := map (fun x => (snd (fst x), read_attr (cg_attrs cg) (fst (fst x)))) (gspec gk) in
        let inst := pop_inst pops (read_attr (cg_attrs cg) (attr_name_of kind "pre")) (read_attr (cg_attrs cg) (attr_name_of kind "post")) in
        match cg_array cg with
        | Some (names, cells) =>
            match load_rows kind inst names (reader_of g kind) cells with
            | Some out => Some (gk, fields, out) | None => None end
        | None => Some (gk, fields, [])
        end
    | None => None end.

  Variable corder : list cgroup -> list cgroup.      (* PyTables: children in name order *)
  Definition load_network (g : h5gen) (ng : netgroup) : option (list (string * option string) * list csem) :=
    let cgs := corder (ng_children ng) in
    match all_some (map (load_cgroup g (loaded_pops g cgs)) cgs) with
    | Some sems => Some (map (fun x => (snd (fst x), read_attr (ng_attrs ng) (fst (fst x)))) (gspec "network"), sems)
    | None => None end.

  Definition dsem := (list (string * option string) * list X * list (list (string * option string) * list csem))%type.
  Definition load_document (g : h5gen) (f : h5file) : option dsem :=
    match all_some (map (fun cx => xbuild (fst cx) (snd cx)) (f_xml f)), all_some (map (load_network g) (f_networks f)) with
    | Some tops, Some nets =>
        Some (map (fun x => (snd (fst x), read_attr (f_attrs f) (fst (fst x)))) (gspec "document"), tops, nets)
    | _, _ => None end.

  (* ---- what the property compares *)
  Definition dc_inst (cs : list dconstruct) (c : dconstruct) : bool :=
    pop_inst (pops_of cs) (dc_attrs c "pre") (dc_attrs c "post").
  Definition sem32_dc (cs : list dconstruct) (c : dconstruct) : csem :=
    let gk := gkind (dc_kind c) (nonempty (dc_rows c)) in
    (gk, map (fun f => (f, dc_attrs c f)) (attr_fields gk),
     match dc_rows c with [] => [] | _ => sem_rows (dc_kind c) (map (fun r => sem32_of (dc_kind c) (snd r)) (dc_rows c)) end).

  (* ---- the optimized loader: a second reader over the same column names *)
  Definition odflt_val (d : odflt) (i : nat) (row : list F) : option F :=
    match d with ODConst c => Some (cval c) | ODColumn k => nth_error row k | ODRowIndex => Some (ofnat i) | ODFail => None end.
  Definition opt_decode (names : list (option string)) (oe : oentry) (i : nat) (row : list F) : option F :=
    match find_col names (oe_name oe) 0 with
    | Some j => if (if Nat.eqb j 0 then oe_at0 oe else true)
                then match nth_error row j with Some v => Some (if oe_int oe then rint v else v) | None => None end
                else odflt_val (oe_dflt oe) i row
    | None => odflt_val (oe_dflt oe) i row
    end.
End Codec.

(* ------------------------------------------------------------------ obligations on the skeleton *)
Definition class_of_kind (kind : string) : string :=
  if String.eqb kind "population" then "population" else if String.eqb kind "inputlist" then "inputlist" else "projection".

(* the reader dispatches the writer's group names to the right class: every reader prefix comparable with the writer's prefix
   of a kind belongs to that kind's class, and the writer's prefix itself is one of the reader's *)
Definition dispatch_ok (sk : skeleton) (kind : string) : bool :=
  match assoc kind (sk_wprefix sk) with
  | Some p => forallb (fun pc => if String.prefix (fst pc) p || String.prefix p (fst pc) then String.eqb (snd pc) (class_of_kind kind) else true)
                      (sk_rprefix sk)
              && existsb (fun pc => String.eqb (fst pc) p) (sk_rprefix sk)
  | None => false end.

(* a projection group carries its kind in the constant attribute "type" *)
Definition type_attr_ok (kind : string) (w : list (string * gsrc)) : bool :=
  if String.eqb (class_of_kind kind) "projection"
  then match assoc "type" w with
       | Some (GConst t) => String.eqb (if String.eqb t "electricalProjection" then "electrical"
                                        else if String.eqb t "continuousProjection" then "continuous" else "projection") kind
       | _ => false end
  else true.

Definition skeleton_ok (g : h5gen) : bool :=
  let sk := g_skel g in
  Nat.eqb (sk_networks_written sk) 2 && sk_embeds_xml sk && sk_restores_networks sk && sk_array_named_by_id sk
  && sk_prefix_only sk && sk_pops_first sk && sk_root_dispatch sk
  && forallb (dispatch_ok sk) table_kinds
  && forallb (fun wt => type_attr_ok (wt_kind wt) (wt_gattrs wt)) (g_writer g)
  && strs_eqb (sk_order sk) ["population"; "projection"; "electrical"; "continuous"; "inputlist"]
  (* the chemical projection without connections: no table, the attributes of the specification, read back by finalise_projection *)
  && negb (sk_empty_proj_array sk) && type_attr_ok "projection" (sk_empty_proj_w sk)
  && forallb (fun x => let '(a, f, _) := x in
                       match assoc a (sk_empty_proj_w sk) with Some s => gsrc_eqb s (GField f) | None => false end
                       && match assoc f (sk_empty_proj_read sk) with Some b => b | None => false end) (gspec "projection").

(* the optimized containers: for the tables they can hold (locations; chemical projections of plain Connections; input lists of
   plain Inputs) every field they deliver comes from the column the writer stored it in (or is at its default when the writer
   stores none), a 0 cell stays 0, and nothing the table stores is dropped *)
Definition opt_supported (wt : wtable) : bool :=
  match wt_flags wt with
  | ["Instance"] | ["Connection"] | ["Connection"; "segfract"] | ["Input"] => true
  | _ => false end.
Definition oe_ok (names : list (option string)) (cols : list src) (oe : oentry) : bool :=
  oe_zero_kept oe &&
  match find_col names (oe_name oe) 0 with
  | Some j => (if Nat.eqb j 0 then oe_at0 oe else true)
              && match nth_error cols j with
                 | Some (SField g) => String.eqb g (oe_field oe) && (negb (oe_int oe) || int_field (oe_field oe))
                 | _ => false end
  | None => negb (field_stored cols (oe_field oe))
            && match sem_default (oe_field oe), oe_dflt oe with
               | Some c, ODConst c' => cst_eqb c c'
               | None, ODRowIndex => true
               | _, _ => false end
  end.
Definition opt_table_ok (g : h5gen) (wt : wtable) : bool :=
  negb (opt_supported wt) ||
  forallb (fun v => match find (fun ot => String.eqb (ot_kind ot) (wt_kind wt)) (g_opt g) with
                    | Some ot => forallb (oe_ok (wt_names wt) (wv_cols v)) (ot_entries ot)
                                 && forallb (fun s => match s with
                                                      | SField f => existsb (fun oe => String.eqb (oe_field oe) f) (ot_entries ot)
                                                      | SConst _ => true end) (wv_cols v)
                    | None => false end) (wt_variants wt).
Definition optimized_ok (g : h5gen) : bool :=
  forallb (opt_table_ok g) (g_writer g)
  && forallb (fun k => existsb (fun ot => String.eqb (ot_kind ot) k) (g_opt g)) ["population"; "projection"; "inputlist"].
Definition failing_optimized (g : h5gen) : list (string * list string) :=
  map (fun wt => (wt_kind wt, wt_flags wt)) (filter (fun wt => negb (opt_table_ok g wt)) (g_writer g)).

(* ------------------------------------------------------------------ the exact instance: numbers that are multiples of 1/1024
   (float32 numbers), represented by Z scaled by 1024: r32 = int() = identity, == is Z.eqb *)
Definition zc (c : cst) : Z := match c with CZero => 0 | COne => 1024 | CHalf => 512 | CMinusOne => -1024 end%Z.
Fixpoint frow (l : list (string * Z)) (f : string) : Z :=
  match l with [] => 0%Z | (k, v) :: t => if String.eqb k f then v else frow t f end.

Fixpoint names_eqb (a b : list (option string)) : bool :=
  match a, b with [], [] => true | x :: a', y :: b' => ostr_eqb x y && names_eqb a' b' | _, _ => false end.

(* the column-selection decision of the writer, probed on the code, is the one of the model (select_table, the function the
   round-trip theorem is about): for every probe the model picks a table with exactly the column names the code wrote *)
Definition probe_rows (p : selprobe) : list (trow Z) := map (fun r => (fst r, frow (snd r))) (sp_rows p).
Definition selprobe_ok (g : h5gen) (p : selprobe) : bool :=
  match select_table Z zc Z.eqb g (sp_kind p) (probe_rows p) with
  | Some wt => names_eqb (wt_names wt) (sp_names p)
  | None => false end.
(* ... and every field with a semantic default has been probed alone (the only field off its default), for every kind *)
Definition select_covers (g : h5gen) : bool :=
  forallb (fun kind => forallb (fun f => match sem_default f with
                                         | Some _ => existsb (fun p => String.eqb (sp_kind p) kind && String.eqb (sp_off p) f) (g_select g)
                                         | None => true end) (sfields kind)
                       && existsb (fun p => String.eqb (sp_kind p) kind && String.eqb (sp_off p) "") (g_select g))
          ["projection"; "electrical"; "continuous"; "inputlist"; "population"].
(* a value 0 in a field whose default is not 0 (fractions, weights) is written as 0, for every variant that carries the field *)
Definition zero_ok (g : h5gen) : bool :=
  forallb (fun x => snd x) (g_zero g)
  && forallb (fun kind => forallb (fun v => forallb (fun f =>
        match sem_default f with
        | Some CZero | None => true
        | Some _ => existsb (fun x => String.eqb (fst (fst (fst x))) kind && String.eqb (snd (fst (fst x))) v && String.eqb (snd (fst x)) f) (g_zero g)
        end) (vfields kind v)) (variants_of kind)) ["projection"; "electrical"; "continuous"; "inputlist"].
Definition failing_zero (g : h5gen) : list (string * string * string) := map (fun x => fst x) (filter (fun x => negb (snd x)) (g_zero g)).
(* the builder keeps float arguments with many significant digits / extreme magnitudes to float32 precision, for every float
   argument of every kind (it formats some of them into strings: delays, input fractions) *)
Definition precision_ok (g : h5gen) : bool :=
  forallb (fun x => snd x) (g_precision g)
  && forallb (fun ka => existsb (fun x => String.eqb (fst (fst (fst x))) (fst ka) && String.eqb (snd (fst (fst x))) (snd ka)) (g_precision g))
       [("projection", "delay"); ("projection", "weight"); ("projection", "preFract"); ("projection", "postFract");
        ("electrical", "weight"); ("electrical", "preFract"); ("continuous", "weight"); ("continuous", "postFract");
        ("inputlist", "fract"); ("inputlist", "weight"); ("population", "x"); ("population", "y"); ("population", "z")].
Definition failing_precision (g : h5gen) : list (string * string * string) := map (fun x => fst x) (filter (fun x => negb (snd x)) (g_precision g)).
(* the merge of the embedded XML into the loaded document (utils.add_all_to_document) *)
Definition merge_ok (g : h5gen) : bool :=
  forallb (fun n => match assoc n (g_merge g) with Some b => b | None => false end)
    ["idless_component_types_all_merged"; "idless_properties_all_merged"; "same_id_same_list_not_duplicated";
     "order_of_the_others_kept"; "same_id_in_other_lists_merged"; "source_untouched"].
(* whether a population gets its location table depends on the presence of <instance> children only (that is the decision of
   write_cgroup: dc_rows empty or not), never on its type attribute or its size; and the size the loader will report is the
   number of instances resp. the size attribute.  (has instances, type, size class, table written, size ok) *)
Definition popsel_ok (g : h5gen) : bool :=
  forallb (fun x => let '(has, _, _, written, size_ok) := x in Bool.eqb written has && (size_ok || (negb has))) (g_popsel g)
  && forallb (fun has => forallb (fun t => forallb (fun sc =>
        existsb (fun x => let '(h, t', sc', _, _) := x in Bool.eqb h has && String.eqb t' t && String.eqb sc' sc) (g_popsel g))
        ["unset"; "equal"; "other"]) ["None"; "population"; "populationList"]) [true; false].
Definition failing_popsel (g : h5gen) : list (bool * string * string) :=
  map (fun x => let '(h, t, sc, _, _) := x in (h, t, sc))
      (filter (fun x => let '(has, _, _, written, size_ok) := x in negb (Bool.eqb written has && (size_ok || negb has))) (g_popsel g)).
Definition select_ok (g : h5gen) : bool := forallb (selprobe_ok g) (g_select g) && (select_covers g && popsel_ok g).
(* negative clause: connections with different synapses / components are refused wherever the deviating one sits: in EVERY
   connection member list of the class (the lists come from the member specifications of the class, not from the probe), at the
   first, a middle and the last position, alone and next to the other lists *)
Definition mixed_fields (kind : string) : list string :=
  if String.eqb kind "electrical" then ["synapse"] else ["pre_component"; "post_component"].
Definition mixed_ok (g : h5gen) : bool :=
  forallb (fun x => snd x) (g_mixed g)
  && forallb (fun kind => match assoc kind (g_conn_lists g) with
       | Some lists => Nat.eqb (length lists) 3 &&
           forallb (fun l => forallb (fun fld => forallb (fun pos => forallb (fun across =>
             existsb (fun x => let '(k, l', f, p, a, _) := x in
                               String.eqb k kind && String.eqb l' l && String.eqb f fld && Nat.eqb p pos && Bool.eqb a across) (g_mixed g))
             [false; true]) [0; 1; 2]) (mixed_fields kind)) lists
       | None => false end) ["electrical"; "continuous"].
Definition failing_mixed (g : h5gen) : list (string * string * string * nat * bool) :=
  map (fun x => fst x) (filter (fun x => negb (snd x)) (g_mixed g)).

(* frame clause: the accessors and exportHdf5 write nothing on the objects, and an exported table follows an edit made after an
   earlier export (nothing is remembered between two uses) *)
Definition frame_ok (g : h5gen) : bool :=
  forallb (fun x => snd x) (g_frame g)
  && forallb (fun v => existsb (fun x => String.eqb (fst (fst x)) v && String.eqb (snd (fst x)) "export-follows-edit") (g_frame g)
                       && existsb (fun x => String.eqb (fst (fst x)) v && String.eqb (snd (fst x)) "pure:__str__") (g_frame g))
       ["Connection"; "ConnectionWD"; "ElectricalConnection"; "ElectricalConnectionInstance"; "ElectricalConnectionInstanceW";
        "ContinuousConnection"; "ContinuousConnectionInstance"; "ContinuousConnectionInstanceW"; "Input"; "InputW"]
  && forallb (fun c => existsb (fun x => String.eqb (fst (fst x)) c && String.eqb (snd (fst x)) "pure:exportHdf5") (g_frame g))
       ["Population"; "Projection"; "ElectricalProjection"; "ContinuousProjection"; "InputList"].
Definition failing_frame (g : h5gen) : list (string * string) := map (fun x => fst x) (filter (fun x => negb (snd x)) (g_frame g)).
Definition failing_select (g : h5gen) : list (string * string * list (option string)) :=
  map (fun p => (sp_kind p, sp_off p, sp_names p)) (filter (fun p => negb (selprobe_ok g p)) (g_select g)).
