(* Model of neuroml/nml/generatedssupersuper.py (add, __add, component_factory, _get_members, info, parentinfo,
   _check_arg_list) and of get_by_id (NeuroMLDocument / Network helper methods), over the MemberSpec_ tables
   that lib/supergen.py regenerates from nml.py on every run (Gen_Members.v) and the constructor tables of
   Model/Gds.v (Gen_Bindings.v).  Definitions only; proofs live in Proofs/SuperP*.v.

   What is abstract (Section variables, no hypotheses unless named):
     validate_ok      the outcome of GeneratedsSuperSuper.validate() on a component (modelled by another builder)
     setup_nml_cell   Cell.setup_nml_cell(), the one special case of component_factory
     str_ok           whether str(component) returns (the duplicate warning formats the child with it)
     shuffle          the order of list(set(...)) in _get_members: any function; the theorems hold for all of them
   Identity of python objects is not modelled: a component is its value (class + fields).  `x in list` (identity
   or ==) therefore is value equality, which is what GeneratedsSuper.__eq__ computes for components made by the
   constructors (same technical fields). *)
From Coq Require Import String List ZArith Bool Ascii.
From LNML Require Import Lib.Dec Model.Gds.
Import ListNotations.
Open Scope string_scope.

(* raw xs:any content, compared as infoset *)
Fixpoint sxml_eqb (a b : xml) {struct a} : bool :=
  match a, b with
  | Elem t1 a1 x1 k1, Elem t2 a2 x2 k2 =>
    String.eqb t1 t2 && String.eqb x1 x2
    && (fix attrs (l1 l2 : list (string * string)) : bool :=
          match l1, l2 with
          | [], [] => true
          | (n1, v1) :: r1, (n2, v2) :: r2 => String.eqb n1 n2 && String.eqb v1 v2 && attrs r1 r2
          | _, _ => false
          end) a1 a2
    && (fix kids (l1 l2 : list xml) : bool :=
          match l1, l2 with
          | [], [] => true
          | x :: r1, y :: r2 => sxml_eqb x y && kids r1 r2
          | _, _ => false
          end) k1 k2
  end.
Fixpoint sxmls_eqb (l1 l2 : list xml) : bool :=
  match l1, l2 with
  | [], [] => true
  | x :: r1, y :: r2 => sxml_eqb x y && sxmls_eqb r1 r2
  | _, _ => false
  end.

(* ------------------------------------------------------------------ MemberSpec_ tables *)
(* MemberSpec_.data_type is a string or a list of strings (a simple type and what it restricts) *)
Inductive dtype := DT (s : string) | DTChain (l : list string).

Record mspec := {
  ms_name : string;
  ms_dtype : dtype;
  ms_container : bool;      (* get_container() != 0 *)
  ms_optional : bool;       (* truth value of get_optional() *)
  ms_owner : string;        (* identity of the MemberSpec_ object: the class whose member_data_items_ holds it ... *)
  ms_idx : nat              (* ... and its position there *)
}.

Record mclass := { mc_name : string; mc_super : option string; mc_specs : list mspec }.
Definition mtables := list mclass.

(* MemberSpec_.get_data_type *)
Definition get_data_type (m : mspec) : string :=
  match ms_dtype m with
  | DT s => s
  | DTChain l => last l "xs:string"
  end.

Fixpoint find_mclass (M : mtables) (c : string) : option mclass :=
  match M with
  | [] => None
  | k :: r => if String.eqb (mc_name k) c then Some k else find_mclass r c
  end.

Definition mfuel (M : mtables) : nat := S (length M).

(* cls.__mro__ restricted to the classes that have member_data_items_ (single inheritance) *)
Fixpoint mro (fuel : nat) (M : mtables) (c : string) : list mclass :=
  match fuel with
  | O => []
  | S f =>
    match find_mclass M c with
    | None => []
    | Some k => k :: match mc_super k with Some s => mro f M s | None => [] end
    end
  end.

Definition ms_same (a b : mspec) : bool := String.eqb (ms_owner a) (ms_owner b) && Nat.eqb (ms_idx a) (ms_idx b).

(* set(...) over MemberSpec_ objects: by identity *)
Fixpoint dedup (l : list mspec) : list mspec :=
  match l with
  | [] => []
  | x :: r => if existsb (ms_same x) r then dedup r else x :: dedup r
  end.

(* copy.copy(cls.member_data_items_) ; for c in cls.__mro__: += c.member_data_items_ *)
Definition raw_members (M : mtables) (c : string) : list mspec :=
  match find_mclass M c with
  | None => []
  | Some k => (mc_specs k ++ flat_map mc_specs (mro (mfuel M) M c))%list
  end.

Definition members_set (M : mtables) (c : string) : list mspec := dedup (raw_members M c).

(* ------------------------------------------------------------------ names *)
Definition excluded_classes : list string :=
  ["GDSParseError"; "MixedContainer"; "MemberSpec_"; "BlockTypes"; "Metric"; "PlasticityTypes"; "ZeroOrOne";
   "allowedSpaces"; "channelTypes"; "gateTypes"; "networkTypes"; "populationTypes"; "_FixedOffsetTZ";
   "GdsCollector_"; "GeneratedsSuperSuper"; "attrgetter"].

Definition us : ascii := "_"%char.
Definition starts_us (s : string) : bool :=
  match s with String c _ => Ascii.eqb c us | EmptyString => false end.
Fixpoint ends_us (s : string) : bool :=
  match s with
  | EmptyString => false
  | String c EmptyString => Ascii.eqb c us
  | String _ r => ends_us r
  end.
(* ac.startswith("_") or ac.endswith("_") or ac in excluded_classes *)
Definition name_skipped (ac : string) : bool := starts_us ac || ends_us ac || mem ac excluded_classes.

(* ------------------------------------------------------------------ outcomes *)
Inductive exn :=
| ExNoMember (child parent : string)      (* Exception: "A member object of .. type could not be found .." *)
| ExAmbiguous (cands : list string)       (* Exception: "Multiple members can accept .." *)
| ExBadHint (h : string) (cands : list string)  (* Exception raised by the repaired add() only *)
| ExValidation                            (* ValueError from validate() *)
| ExArg (k : string)                      (* ValueError from _check_arg_list *)
| ExCtor                                  (* the constructor raised (a cast failed) *)
| ExNoClass                               (* getattr(module, name) failed *)
| ExKey (m : string)                      (* KeyError: vars(self)[m] *)
| ExAttr (m : string)                     (* AttributeError/TypeError: the member does not hold a list *)
| ExStr.                                  (* str(child) raised while the duplicate warning was being formatted *)

Inductive warning :=
| WOccupied (m : string)                  (* warnings.warn "<m> has already been assigned" *)
| WDuplicate (m : string)                 (* warnings.warn "<obj> already exists in <m>" *)
| WDisabled.                              (* logger.warning "Build time validation is disabled." *)

Inductive res (A : Type) := Ret (a : A) | Err (e : exn).
Arguments Ret {A} a.
Arguments Err {A} e.

(* the process-wide switch neuroml.build_time_validation.ENABLED *)
Inductive sw_op := SwEnable | SwDisable.
Definition sw_apply (s : bool) (o : sw_op) : bool := match o with SwEnable => true | SwDisable => false end.
Definition sw_run (s : bool) (h : list sw_op) : bool := fold_left sw_apply h s.

Section Super.
Variable F : Type.
Variable F_eqb : F -> F -> bool.
Variable F_of_dec : dec -> F.
Notation value := (value F).
Notation obj := (obj F).
Notation o_cls := (o_cls F).
Notation o_fields := (o_fields F).

Variable validate_ok : obj -> bool.
Variable setup_nml_cell : obj -> obj.
Variable str_ok : obj -> bool.            (* str(component) returns (the __str__ helper methods may raise) *)
Variable shuffle : list mspec -> list mspec.

(* cls._get_members(): list(set(...)) *)
Definition members_of (M : mtables) (c : string) : list mspec := shuffle (members_set M c).

(* ------------------------------------------------------------------ value equality (GeneratedsSuper.__eq__) *)
Fixpoint value_eqb (a b : value) {struct a} : bool :=
  match a, b with
  | VNone, VNone => true
  | VStr s, VStr t => String.eqb s t
  | VInt x, VInt y => Z.eqb x y
  | VFlt x, VFlt y => F_eqb x y
  | VInt x, VFlt y => F_eqb (F_of_dec (x, O)) y
  | VFlt x, VInt y => F_eqb x (F_of_dec (y, O))
  | VObj o, VObj p => obj_eqb o p
  | VObjs l, VObjs m =>
    (fix objs (l1 l2 : list obj) : bool :=
       match l1, l2 with
       | [], [] => true
       | x :: r1, y :: r2 => obj_eqb x y && objs r1 r2
       | _, _ => false
       end) l m
  | VRaw l, VRaw m => sxmls_eqb l m
  | _, _ => false
  end
with obj_eqb (a b : obj) {struct a} : bool :=
  match a, b with
  | Obj c1 f1, Obj c2 f2 =>
    String.eqb c1 c2
    && (fix flds (l1 l2 : list (string * value)) : bool :=
          match l1, l2 with
          | [], [] => true
          | (n1, v1) :: r1, (n2, v2) :: r2 => String.eqb n1 n2 && value_eqb v1 v2 && flds r1 r2
          | _, _ => false
          end) f1 f2
  end.

(* bool(v) *)
Definition py_truthy (v : value) : bool :=
  match v with
  | VNone => false
  | VStr s => negb (String.eqb s "")
  | VInt z => negb (Z.eqb z 0)
  | VFlt f => negb (F_eqb f (F_of_dec (0%Z, O)))
  | VObj _ => true
  | VObjs l => match l with [] => false | _ => true end
  | VRaw l => match l with [] => false | _ => true end
  end.

(* ------------------------------------------------------------------ _check_arg_list / component_factory *)
Definition member_names (ms : list mspec) : list string := map ms_name ms.

Fixpoint check_arg_list (names : list string) (kw : list (string * value)) : option string :=
  match kw with
  | [] => None
  | (k, _) :: r => if mem k names then check_arg_list names r else Some k
  end.

(* ms = _get_members() of the class being made *)
Definition component_factory_with (ms : list mspec) (T : tables) (enabled validate : bool) (c : string)
           (kw : list (string * value)) : res obj * list warning :=
  match find_cls T c with
  | None => (Err ExNoClass, [])
  | Some _ =>
    match init_fields F F_of_dec (cfuel T) T c kw with
    | None => (Err ExCtor, [])
    | Some fs =>
      let o0 := Obj c fs in
      let o := if String.eqb c "Cell" then setup_nml_cell o0 else o0 in
      match check_arg_list (member_names ms) kw with
      | Some k => (Err (ExArg k), [])
      | None =>
        if enabled && validate then
          (if validate_ok o then (Ret o, []) else (Err ExValidation, []))
        else (Ret o, [WDisabled])
      end
    end
  end.

Definition component_factory (M : mtables) (T : tables) (enabled validate : bool) (c : string)
           (kw : list (string * value)) : res obj * list warning :=
  component_factory_with (members_of M c) T enabled validate c kw.

(* ------------------------------------------------------------------ __add *)
Definition with_field (p : obj) (n : string) (v : value) : obj := Obj (o_cls p) (set_field F n v (o_fields p)).

Definition store (p child : obj) (t : mspec) (force : bool) : res obj * list warning :=
  let n := ms_name t in
  if negb (ms_container t) then
    if force then (Ret (with_field p n (VObj child)), [])
    else
      match lookup n (o_fields p) with
      | None => (Err (ExKey n), [])
      | Some v => if py_truthy v then (Ret p, [WOccupied n]) else (Ret (with_field p n (VObj child)), [])
      end
  else
    match lookup n (o_fields p) with
    | None => (Err (ExKey n), [])
    | Some (VObjs l) =>
      if force then (Ret (with_field p n (VObjs (l ++ [child])%list)), [])
      else if existsb (obj_eqb child) l then
             (* warnings.warn("{} already exists in {}...".format(obj, name)) : formats the child *)
             (if str_ok child then (Ret p, [WDuplicate n]) else (Err ExStr, []))
           else (Ret (with_field p n (VObjs (l ++ [child])%list)), [])
    | Some _ => (Err (ExAttr n), [])
    end.

(* ------------------------------------------------------------------ add *)
Inductive child_arg :=
| ChFalsy                                               (* None / "" / 0 : `if not obj` *)
| ChObj (o : obj)                                        (* a component *)
| ChCls (c : string) (kw : list (string * value)).       (* a class or its name, with constructor keywords *)

Record add_out := { ao_parent : obj; ao_res : res (option obj); ao_warn : list warning }.

Definition falsy_hint (h : option string) : bool :=
  match h with None => true | Some s => String.eqb s "" end.
Definition hint_str (h : option string) : string := match h with Some s => s | None => "" end.

Definition targets_of (ms : list mspec) (child_cls : string) : list mspec :=
  filter (fun m => String.eqb (get_data_type m) child_cls) ms.

(* the member add() decides on, when it decides *)
Definition chosen (tg : list mspec) (hint : option string) : option mspec :=
  match tg with
  | [] => None
  | [t] => Some t
  | _ => if falsy_hint hint then None else find (fun t => String.eqb (hint_str hint) (ms_name t)) tg
  end.

Definition place (fixed : bool) (tg : list mspec) (p o : obj) (hint : option string) (force : bool)
  : res obj * list warning :=
  match tg with
  | [] => (Err (ExNoMember (o_cls o) (o_cls p)), [])
  | [t] => store p o t force
  | _ =>
    if falsy_hint hint then (Err (ExAmbiguous (map ms_name tg)), [])
    else
      match find (fun t => String.eqb (hint_str hint) (ms_name t)) tg with
      | Some t => store p o t force
      | None => if fixed then (Err (ExBadHint (hint_str hint) (map ms_name tg)), [])
                else (Ret p, [])                       (* the loop falls through: nothing stored, nothing raised *)
      end
  end.

(* msf c = _get_members() of class c.  fixed = false: the code as it is in the repository;
   fixed = true: with fixes/C10-badhint.patch *)
Definition add_with (fixed : bool) (msf : string -> list mspec) (T : tables) (enabled : bool) (p : obj)
           (child : child_arg) (hint : option string) (force validate : bool) : add_out :=
  match child with
  | ChFalsy => {| ao_parent := p; ao_res := Ret None; ao_warn := [] |}
  | _ =>
    let made :=
      match child with
      | ChObj o => (Ret o, [])
      | ChCls c kw => component_factory_with (msf c) T enabled validate c kw
      | ChFalsy => (Err ExNoClass, [])
      end in
    match made with
    | (Err e, w0) => {| ao_parent := p; ao_res := Err e; ao_warn := w0 |}
    | (Ret o, w0) =>
      match place fixed (targets_of (msf (o_cls p)) (o_cls o)) p o hint force with
      | (Err e, w1) => {| ao_parent := p; ao_res := Err e; ao_warn := (w0 ++ w1)%list |}
      | (Ret p', w1) =>
        if enabled && validate then
          if validate_ok p' then {| ao_parent := p'; ao_res := Ret (Some o); ao_warn := (w0 ++ w1)%list |}
          else {| ao_parent := p'; ao_res := Err ExValidation; ao_warn := (w0 ++ w1)%list |}
        else {| ao_parent := p'; ao_res := Ret (Some o); ao_warn := (w0 ++ w1 ++ [WDisabled])%list |}
      end
    end
  end.

Definition add (fixed : bool) (M : mtables) := add_with fixed (members_of M).

(* histories of add calls on one parent (exceptions are caught by the caller, who carries on) *)
Record add_call := { ac_child : child_arg; ac_hint : option string; ac_force : bool; ac_validate : bool }.

Definition add_step (fixed : bool) (msf : string -> list mspec) (T : tables) (enabled : bool) (p : obj) (a : add_call) : obj :=
  ao_parent (add_with fixed msf T enabled p (ac_child a) (ac_hint a) (ac_force a) (ac_validate a)).

Definition run_adds (fixed : bool) (msf : string -> list mspec) (T : tables) (enabled : bool) (p : obj) (h : list add_call) : obj :=
  fold_left (add_step fixed msf T enabled) h p.

(* sessions mixing the global switch with factory and add calls: the state is (ENABLED, parent) *)
Inductive sess_op :=
| OpSwitch (o : sw_op)
| OpAdd (a : add_call)
| OpFactory (c : string) (kw : list (string * value)) (validate : bool).

Definition sess_step (fixed : bool) (msf : string -> list mspec) (T : tables) (st : bool * obj) (o : sess_op) : bool * obj :=
  match o with
  | OpSwitch s => (sw_apply (fst st) s, snd st)
  | OpAdd a => (fst st, add_step fixed msf T (fst st) (snd st) a)
  | OpFactory _ _ _ => st
  end.

Definition sess_run (fixed : bool) (msf : string -> list mspec) (T : tables) (st : bool * obj) (h : list sess_op) : bool * obj :=
  fold_left (sess_step fixed msf T) h st.

(* ------------------------------------------------------------------ info / parentinfo *)
Definition info_list (ms : list mspec) : list string := map ms_name ms.

Record info_entry := { ie_name : string; ie_required : bool; ie_type : string }.
Definition info_of (m : mspec) : info_entry :=
  {| ie_name := ms_name m; ie_required := negb (ms_optional m); ie_type := get_data_type m |}.
Definition info_dict (ms : list mspec) : list info_entry := map info_of ms.

(* info(show_contents=True, return_format="dict")[name]["members"] = getattr(self, name, None) *)
Definition info_contents (p : obj) (ms : list mspec) : list (string * value) :=
  map (fun m => (ms_name m, opt_value F (lookup (ms_name m) (o_fields p)))) ms.

Record parent_entry := { pe_parent : string; pe_member : string; pe_required : bool; pe_type : string }.

(* classes = the class names found in dir(module) *)
Definition parentinfo_with (msf : string -> list mspec) (classes : list string) (c : string) : list parent_entry :=
  flat_map (fun ac =>
    if name_skipped ac then []
    else flat_map (fun m => if String.eqb (get_data_type m) c
                            then [{| pe_parent := ac; pe_member := ms_name m;
                                     pe_required := negb (ms_optional m); pe_type := get_data_type m |}]
                            else []) (msf ac)) classes.

Definition parentinfo (M : mtables) (c : string) : list parent_entry :=
  parentinfo_with (members_of M) (map mc_name M) c.

(* ------------------------------------------------------------------ get_by_id (NeuroMLDocument, Network) *)
Inductive gres := GFound (o : obj) | GNone | GRaise.
Inductive gmsg := MNoId | MNotFound | MSuppress.

Definition id_val (o : obj) : option value := lookup "id" (o_fields o).       (* hasattr(m, "id") / m.id *)
Definition id_is (i : string) (v : value) : bool := match v with VStr s => String.eqb s i | _ => false end.
Definition id_matches (i : string) (o : obj) : bool :=
  match id_val o with Some v => id_is i v | None => false end.

Fixpoint scan_list (i : string) (l : list obj) (seen : list value) : obj + list value :=
  match l with
  | [] => inr seen
  | m :: r =>
    match id_val m with
    | None => scan_list i r seen
    | Some v => if id_is i v then inl m else scan_list i r (seen ++ [v])%list
    end
  end.

Inductive scan_res := SFound (o : obj) | SIds (l : list value) | SRaise.

(* for ms in self.member_data_items_: mlist = getattr(self, ms.get_name()); if None: continue; for m in mlist: ... *)
Fixpoint scan_members (i : string) (fs : list (string * value)) (ms : list mspec) (seen : list value) : scan_res :=
  match ms with
  | [] => SIds seen
  | m :: r =>
    match lookup (ms_name m) fs with
    | None => SRaise                                          (* AttributeError *)
    | Some VNone => scan_members i fs r seen
    | Some (VObjs l) =>
      match scan_list i l seen with
      | inl o => SFound o
      | inr s => scan_members i fs r s
      end
    | Some (VStr _) => scan_members i fs r seen               (* iterates the characters: none has an id *)
    | Some (VRaw _) => scan_members i fs r seen               (* raw content: no id attribute *)
    | Some _ => SRaise                                        (* int / float / component: not iterable *)
    end
  end.

Definition is_str (v : value) : bool := match v with VStr _ => true | _ => false end.
Definition is_num (v : value) : bool := match v with VInt _ | VFlt _ => true | _ => false end.
(* sorted(all_ids) succeeds *)
Definition sortable (l : list value) : bool := Nat.leb (length l) 1 || forallb is_str l || forallb is_num l.

Record gout := { g_res : gres; g_warn : nat; g_msg : option gmsg }.

(* own = type(self).member_data_items_ ; wc = self.warn_count.
   fixed = false: str(sorted(all_ids)) as in the repository; fixed = true: with fixes/C11-get-by-id-unsortable.patch
   (sorted(all_ids, key=str), which cannot raise) *)
Definition get_by_id (fixed : bool) (is_doc : bool) (own : list mspec) (d : obj) (wc : nat) (i : string) : gout :=
  if is_doc && String.eqb i "" then {| g_res := GNone; g_warn := wc; g_msg := Some MNoId |}
  else
    match scan_members i (o_fields d) own [] with
    | SFound o => {| g_res := GFound o; g_warn := wc; g_msg := None |}
    | SRaise => {| g_res := GRaise; g_warn := wc; g_msg := None |}
    | SIds ids =>
      if Nat.ltb wc 10 then
        if fixed || sortable ids then {| g_res := GNone; g_warn := S wc; g_msg := Some MNotFound |}
        else {| g_res := GRaise; g_warn := wc; g_msg := None |}
      else if Nat.eqb wc 10 then {| g_res := GNone; g_warn := wc; g_msg := Some MSuppress |}
      else {| g_res := GNone; g_warn := wc; g_msg := None |}
    end.

Definition own_specs (M : mtables) (c : string) : list mspec :=
  match find_mclass M c with Some k => mc_specs k | None => [] end.

(* histories on one document: arbitrary edits of the document (any function: remove a component, change an id,
   replace a component, append one ...) interleaved with look ups.  get_by_id is a function of the CURRENT document
   and of the warning counter only: a look up leaves the document as it is and keeps nothing else. *)
Inductive doc_op := DMutate (f : obj -> obj) | DLookup (i : string).

Definition doc_step (fixed is_doc : bool) (own : list mspec) (st : obj * nat) (o : doc_op) : obj * nat :=
  match o with
  | DMutate f => (f (fst st), snd st)
  | DLookup i => (fst st, g_warn (get_by_id fixed is_doc own (fst st) (snd st) i))
  end.

Definition doc_run (fixed is_doc : bool) (own : list mspec) (st : obj * nat) (ops : list doc_op) : obj * nat :=
  fold_left (doc_step fixed is_doc own) ops st.

Fixpoint mutations (ops : list doc_op) : list (obj -> obj) :=
  match ops with
  | [] => []
  | DMutate f :: r => f :: mutations r
  | DLookup _ :: r => mutations r
  end.

Definition mutate (fs : list (obj -> obj)) (d : obj) : obj := fold_left (fun x f => f x) fs d.

(* the edits used in the correspondence runs, as document functions *)
Fixpoint remove_nth {A} (k : nat) (l : list A) : list A :=
  match l, k with
  | [], _ => []
  | _ :: r, O => r
  | x :: r, S k' => x :: remove_nth k' r
  end.
Fixpoint update_nth {A} (k : nat) (f : A -> A) (l : list A) : list A :=
  match l, k with
  | [], _ => []
  | x :: r, O => f x :: r
  | x :: r, S k' => x :: update_nth k' f r
  end.
Definition on_list (m : string) (g : list obj -> list obj) (d : obj) : obj :=
  match lookup m (o_fields d) with
  | Some (VObjs l) => with_field d m (VObjs (g l))
  | _ => d
  end.
Definition m_remove (m : string) (k : nat) : obj -> obj := on_list m (remove_nth k).            (* del doc.m[k] *)
Definition m_rename (m : string) (k : nat) (v : value) : obj -> obj :=                            (* doc.m[k].id = v *)
  on_list m (update_nth k (fun o => Obj (o_cls o) (set_field F "id" v (o_fields o)))).
Definition m_replace (m : string) (k : nat) (o : obj) : obj -> obj := on_list m (update_nth k (fun _ => o)).
Definition m_append (m : string) (o : obj) : obj -> obj := on_list m (fun l => (l ++ [o])%list).

End Super.

(* ------------------------------------------------------------------ schema side (translators/tr_schema_members.py) *)
(* what the XSD declares for one attribute or element of a complex type, inherited ones included *)
Record sdecl := {
  sd_xml : string;          (* attribute name / element tag ("" for xs:any) *)
  sd_is_attr : bool;
  sd_type : string;         (* declared type, as written in the schema *)
  sd_required : bool;       (* use="required" / effective minOccurs >= 1 (a member of an xs:choice is not required) *)
  sd_required_literal : bool; (* use="required" / the element declaration's own minOccurs >= 1 *)
  sd_list : bool;           (* effective maxOccurs > 1 or unbounded *)
  sd_in_choice : bool
}.
Record sclass := { sc_name : string; sc_decls : list sdecl }.
(* simple types: name -> the type it restricts *)
Record schema := { s_classes : list sclass; s_simple_base : list (string * string) }.

Fixpoint find_sclass (l : list sclass) (c : string) : option sclass :=
  match l with
  | [] => None
  | k :: r => if String.eqb (sc_name k) c then Some k else find_sclass r c
  end.

(* python member name <-> xml name, from the export tables (inherited included) *)
Record pyxml := { px_py : string; px_xml : string; px_is_attr : bool }.

Fixpoint strs_eqb (a b : list string) : bool :=
  match a, b with
  | [], [] => true
  | x :: r, y :: s => String.eqb x y && strs_eqb r s
  | _, _ => false
  end.

(* the MemberSpec type agrees with the declared type: equal, or (element of a simple type) the chain
   [declared; what it restricts] that generateDS records *)
Definition type_agrees (S : schema) (d : dtype) (declared : string) : bool :=
  match d with
  | DT s => String.eqb s declared
  | DTChain l =>
    match lookup declared (s_simple_base S) with
    | Some b => strs_eqb l [declared; b]
    | None => false
    end
  end.

Fixpoint find_decl (ds : list sdecl) (xmlname : string) (is_attr : bool) : option sdecl :=
  match ds with
  | [] => None
  | d :: r => if String.eqb (sd_xml d) xmlname && Bool.eqb (sd_is_attr d) is_attr then Some d else find_decl r xmlname is_attr
  end.

Fixpoint find_px (l : list pyxml) (py : string) : option pyxml :=
  match l with
  | [] => None
  | x :: r => if String.eqb (px_py x) py then Some x else find_px r py
  end.

(* info() calls the xs:any member __ANY__; the constructor and the export table call it anytypeobjs_ *)
Definition rename_any (n : string) : string := if String.eqb n "__ANY__" then "anytypeobjs_" else n.

(* GeneratedsSuper.__eq__ compares the instance dictionaries pairwise after dropping a fixed set of attribute names
   (translators/tr_eq.py extracts the set).  The model's value equality obj_eqb compares every field of the model, i.e.
   every member attribute; it is the code's equality as long as no member attribute is among the dropped names. *)
Definition drop_excluded {A} (excluded : list string) (fs : list (string * A)) : list (string * A) :=
  filter (fun nv => negb (mem (fst nv) excluded)) fs.
Definition eq_sees_all_members (excluded : list string) (M : mtables) : bool :=
  forallb (fun k => forallb (fun m => negb (mem (rename_any (ms_name m)) excluded)) (mc_specs k)) M.

(* the calling conventions and class-level state the model assumes (translators/tr_supersig.py reads the real ones):
   add(self, obj=None, hint=None, force=False, validate=True, **kwargs),
   component_factory(cls, component_type, validate=True, **kwargs); parameters as (name, source text of the default) *)
Definition modelled_add_signature : list (string * string) :=
  [("self", ""); ("obj", "None"); ("hint", "None"); ("force", "False"); ("validate", "True"); ("**kwargs", "")].
Definition modelled_factory_signature : list (string * string) :=
  [("cls", ""); ("component_type", ""); ("validate", "True"); ("**kwargs", "")].
(* class attributes created at run time: the _get_members cache (keyed by class name) and the hierarchy cache *)
Definition modelled_class_attrs : list string := ["__all_members_"; "__nml_hier"].
Fixpoint sig_eqb (a b : list (string * string)) : bool :=
  match a, b with
  | [], [] => true
  | (n, d) :: r, (m, e) :: q => String.eqb n m && String.eqb d e && sig_eqb r q
  | _, _ => false
  end.

(* the global switch.  neuroml/build_time_validation.py binds the module-level name ENABLED ONCE, to a bool literal (on by default),
   and contains nothing else that could matter (unrelated plain functions, literal constants, docstring, comments are tolerated by
   the translator; imports, classes, global-declaring functions, anything touching module/thread-state machinery are reported); the helpers of neuroml/__init__.py assign / read that attribute of the module bound by
   `from . import build_time_validation`, and add()/component_factory read it as neuroml.build_time_validation.ENABLED
   (translators/tr_switch.py reads the real shapes, statement by statement; anything else shows up as "other: ...").
   A plain attribute in a plain module's dictionary is one cell shared by every thread of the process: that is what the single
   boolean `enabled` of component_factory / add / sess_run stands for. *)
Fixpoint strl_eqb (a b : list string) : bool :=
  match a, b with
  | [], [] => true
  | x :: r, y :: q => String.eqb x y && strl_eqb r q
  | _, _ => false
  end.
Fixpoint named_strl_eqb (a b : list (string * list string)) : bool :=
  match a, b with
  | [], [] => true
  | (n, x) :: r, (m, y) :: q => String.eqb n m && strl_eqb x y && named_strl_eqb r q
  | _, _ => false
  end.
Definition modelled_switch_module : list string := ["ENABLED = True"].   (* the one binding of ENABLED; nothing else that matters *)
Definition modelled_switch_helpers : list (string * list string) :=
  [("disable_build_time_validation", ["build_time_validation.ENABLED = False"]);
   ("enable_build_time_validation", ["build_time_validation.ENABLED = True"]);
   ("get_build_time_validation", ["return build_time_validation.ENABLED"])].
(* every statement of neuroml/__init__.py that binds the name build_time_validation *)
Definition modelled_switch_binding : list string := ["from . import build_time_validation"].
(* every other mention of ENABLED / build_time_validation in the package (file: use), sorted *)
Definition modelled_switch_uses : list string :=
  ["neuroml/nml/generatedssupersuper.py: import neuroml.build_time_validation";
   "neuroml/nml/generatedssupersuper.py: read neuroml.build_time_validation.ENABLED"].
Definition switch_plain_globalb (module : list string) (helpers : list (string * list string)) (binding uses : list string) : bool :=
  strl_eqb module modelled_switch_module && named_strl_eqb helpers modelled_switch_helpers
  && strl_eqb binding modelled_switch_binding && strl_eqb uses modelled_switch_uses.

(* the loops of add(): candidates are collected from all members by exact type name, and the hint is looked up among the
   CANDIDATES (translators/tr_supersig.py reads the loops of the real add() in source order and the collection iterated by the
   loop that compares the hint) *)
Definition modelled_add_loops : list string :=
  ["for member in all_members"; "for t in targets"; "for t in targets"; "for t in targets"].
Definition modelled_hint_loops : list string := ["targets"].
(* add() and the factories report through warnings.warn and log records; they do not configure the warnings / logging machinery
   (no filterwarnings / simplefilter / resetwarnings / logging.disable ...): a later refusal keeps its warning *)
Definition configures_nothingb (state_calls : list string) : bool := match state_calls with [] => true | _ => false end.
(* _get_members: the cache has ONE entry per class, written under the class's own name only (current_class), starting from a copy
   of its own list, extended by the ancestors' and rebuilt as a fresh list - so no class's entry is written while another class is
   asked, and no two entries share a list *)
Definition modelled_cache_writes : list string :=
  ["cls.__all_members_ = {}";
   "cls.__all_members_[current_class] = copy.copy(cls.member_data_items_)";
   "cls.__all_members_[current_class] += c.member_data_items_";
   "cls.__all_members_[current_class] = list(set(cls.__all_members_[current_class]))"].
Definition cache_writes_okb (found : list string) : bool := strl_eqb found modelled_cache_writes.
(* _check_arg_list: the permitted names are collected in a LIST of the members' names and a keyword is tested by membership in that
   list (member_names of the model) - not against a joined string or by prefix *)
Definition modelled_arg_check : list string :=
  ["member_names = []"; "member_names.append(m.get_name())"; "arg not in member_names"].
Definition arg_check_okb (found : list string) : bool := strl_eqb found modelled_arg_check.
(* the hint names a candidate by EQUALITY with the member's name (no substring / prefix / list membership) *)
Definition modelled_hint_tests : list string := ["hint == t.get_name()"].
Definition hint_test_okb (tests : list string) : bool := strl_eqb tests modelled_hint_tests.
Definition hint_loop_okb (loops hint_loops : list string) : bool :=
  strl_eqb loops modelled_add_loops && strl_eqb hint_loops modelled_hint_loops.

(* build-time validation is validate() as the user would call it.  The model's factories consult ONE validator `validate_ok`;
   the real validate(self, recursive=<default>) has a parameter, and the two build-time call sites may pass it.  validate_at_site
   is the validator a call site consults; it is the plain validate() exactly when the site passes nothing or the default itself. *)
Definition validate_at_site {O : Type} (v : bool -> O -> bool) (default : bool) (arg : option bool) : O -> bool :=
  v (match arg with Some b => b | None => default end).
Definition site_agrees (default : bool) (arg : option bool) : bool :=
  match arg with None => true | Some b => Bool.eqb b default end.
Definition bool_literal (s : string) : option bool :=
  if String.eqb s "True" then Some true else if String.eqb s "False" then Some false else None.
(* a site as translated: (where, source text of the recursive argument, "" when none is passed) *)
Definition site_arg (s : string) : option (option bool) :=
  if String.eqb s "" then Some None else match bool_literal s with Some b => Some (Some b) | None => None end.
Definition modelled_validate_sites : list string := ["add: self.validate"; "component_factory: comp.validate"].
Definition build_time_rec_agreesb (default : string) (sites : list (string * string)) : bool :=
  match bool_literal default with
  | None => false
  | Some d => strl_eqb (map fst sites) modelled_validate_sites
              && forallb (fun s => match site_arg (snd s) with Some a => site_agrees d a | None => false end) sites
  end.

(* a history of switch operations issued from several threads: the thread plays no role in the model (one cell).  ts_seen is
   what the threads alive after the operation (the main thread, every pool worker, a thread started just now) observe. *)
Record tstep := { ts_thread : nat; ts_op : option sw_op; ts_seen : list (nat * bool) }.   (* None: a factory/add call *)
Definition sw_next (st : bool) (o : option sw_op) : bool := match o with Some x => sw_apply st x | None => st end.
Fixpoint trace_ops (l : list tstep) : list sw_op :=
  match l with [] => [] | s :: r => match ts_op s with Some x => x :: trace_ops r | None => trace_ops r end end.
Fixpoint switch_trace_mismatches (st : bool) (i : nat) (l : list tstep) : list nat :=
  match l with
  | [] => []
  | s :: r => let st' := sw_next st (ts_op s) in
              let rest := switch_trace_mismatches st' (S i) r in
              if forallb (fun tv => Bool.eqb (snd tv) st') (ts_seen s) then rest else i :: rest
  end.

(* one member of one class against the schema: type and list nature as declared (effective occurrence), the
   required flag as the declaration itself says (use / own minOccurs), which outside an xs:choice is also the
   effective requirement *)
Definition decl_okb (S : schema) (m : mspec) (d : sdecl) : bool :=
  type_agrees S (ms_dtype m) (sd_type d)
  && Bool.eqb (ms_container m) (sd_list d)
  && Bool.eqb (negb (ms_optional m)) (sd_required_literal d)
  && (sd_in_choice d || Bool.eqb (negb (ms_optional m)) (sd_required d)).

Definition member_okb (S : schema) (ds : list sdecl) (px : list pyxml) (m : mspec) : bool :=
  match find_px px (rename_any (ms_name m)) with
  | None => false
  | Some x =>
    match find_decl ds (px_xml x) (px_is_attr x) with
    | None => false
    | Some d => decl_okb S m d
    end
  end.

(* every declaration of the schema is reported by some member *)
Definition decl_coveredb (px : list pyxml) (ms : list mspec) (d : sdecl) : bool :=
  existsb (fun m => match find_px px (rename_any (ms_name m)) with
                    | Some x => String.eqb (px_xml x) (sd_xml d) && Bool.eqb (px_is_attr x) (sd_is_attr d)
                    | None => false end) ms.

(* string sets *)
Definition subset (a b : list string) : bool := forallb (fun x => mem x b) a.
Definition set_eqb (a b : list string) : bool := subset a b && subset b a.

(* read-only helpers leave nothing on the instance.  add() recognises "an equal child is already present" with __eq__, which compares
   the instance dictionaries; the model's equality compares the member fields.  The two agree as long as methods that are read-only by
   their name (__str__, __repr__, summary, get_* / is_* / has_* ...) write nothing on self (translators/tr_readonly.py lists, per
   method, the writes it finds).  The ones below exist in the code under test today and are reported as a known finding; anything
   else breaks the obligation. *)
Definition known_reader_writes : list string :=
  ["Cell.get_graph: assigns self.cell_graph";
   "Cell.get_segment_adjacency_list: assigns self.adjacency_list";
   "Network.get_by_id: assigns self.warn_count";
   "NeuroMLDocument.get_by_id: assigns self.warn_count"].
Definition readers_write_nothing_newb (found : list string) : bool := subset found known_reader_writes.

(* ------------------------------------------------------------------ executable instance (correspondence runs only)
   F := finite decimals (as Model/GdsExec.v); the order of _get_members is the table order (the theorems hold for
   every order; the runs compare order-independent observables only); the validator and Cell.setup_nml_cell are
   oracles filled with what the real code answered on that call. *)
Definition XF := dec.
Definition xf_eqb (a b : dec) : bool := dec_eqb (dec_norm a) (dec_norm b).
Definition x_obj_eqb := obj_eqb XF xf_eqb dec_norm.
Definition x_members (M : mtables) (c : string) : list mspec := members_of (fun l => l) M c.

Definition exn_code (e : exn) : nat * list string :=
  match e with
  | ExNoMember c p => (1, [c; p])
  | ExAmbiguous l => (2, l)
  | ExBadHint h l => (3, l)
  | ExValidation => (4, [])
  | ExArg k => (5, [k])
  | ExCtor => (6, [])
  | ExNoClass => (7, [])
  | ExKey m => (8, [m])
  | ExAttr m => (9, [])
  | ExStr => (10, [])
  end%nat.

Definition warn_code (w : warning) : nat * string :=
  match w with WOccupied m => (1, m) | WDuplicate m => (2, m) | WDisabled => (3, "") end%nat.

Definition not_disabled (w : warning) : bool := match w with WDisabled => false | _ => true end.
Definition count_disabled (l : list warning) : nat := length (filter (fun w => negb (not_disabled w)) l).

Fixpoint codes_eqb (a b : list (nat * string)) : bool :=
  match a, b with
  | [], [] => true
  | (n, s) :: r, (m, t) :: q => Nat.eqb n m && String.eqb s t && codes_eqb r q
  | _, _ => false
  end.

Definition opt_xobj_eqb (a b : option (obj XF)) : bool :=
  match a, b with Some x, Some y => x_obj_eqb x y | None, None => true | _, _ => false end.

Record xcall := {
  xc_child : child_arg XF;
  xc_hint : option string;
  xc_force : bool;
  xc_validate : bool;
  xc_vchild : bool;                 (* oracle: validate() of the component the factory made *)
  xc_vparent : bool;                (* oracle: validate() of the parent after the call *)
  xc_cell : option (obj XF);        (* oracle: what Cell.setup_nml_cell made of the new cell *)
  xc_str : bool;                    (* oracle: str(child) returns *)
  xc_parent_after : list (string * value XF); (* observed parent after the call: the members that differ from before *)
  xc_code : nat * list string;      (* observed outcome: 0 returned the child, 20 returned None, else exn_code *)
  xc_ret : option (obj XF);         (* observed returned component, when it is not the one passed in *)
  xc_warn : list (nat * string);    (* observed warnings.warn calls, in order *)
  xc_disabled : option nat          (* observed number of "Build time validation is disabled." log records *)
}.

Record xcase := { xa_enabled : bool; xa_parent : obj XF; xa_calls : list xcall }.

Definition x_after (p : obj XF) (c : xcall) : obj XF :=
  Obj (o_cls XF p) (fold_left (fun fs nv => set_field XF (fst nv) (snd nv) fs) (xc_parent_after c) (o_fields XF p)).

Definition x_add (fixed : bool) (M : mtables) (T : tables) (enabled : bool) (p : obj XF) (c : xcall) : add_out XF :=
  let pa := x_after p c in
  add_with XF xf_eqb dec_norm
           (fun o => if x_obj_eqb o pa then xc_vparent c else xc_vchild c)
           (fun o => match xc_cell c with Some q => q | None => o end)
           (fun _ => xc_str c)
           fixed (x_members M) T enabled p (xc_child c) (xc_hint c) (xc_force c) (xc_validate c).

(* bit 1 parent afterwards, 2 outcome, 4 warnings, 8 log count, 16 returned component *)
Definition check_call (fixed : bool) (M : mtables) (T : tables) (enabled : bool) (p : obj XF) (c : xcall) : nat :=
  let r := x_add fixed M T enabled p c in
  let pa := x_after p c in
  let b1 := x_obj_eqb (ao_parent XF r) pa in
  let code := match ao_res XF r with
              | Ret None => (20%nat, [])
              | Ret (Some _) => (0%nat, [])
              | Err e => exn_code e
              end in
  let b2 := Nat.eqb (fst code) (fst (xc_code c)) && set_eqb (snd code) (snd (xc_code c)) in
  let b3 := codes_eqb (map warn_code (filter not_disabled (ao_warn XF r))) (xc_warn c) in
  let b4 := match xc_disabled c with Some n => Nat.eqb n (count_disabled (ao_warn XF r)) | None => true end in
  let b5 := match xc_ret c with
            | None => true
            | Some x => match ao_res XF r with Ret (Some o) => x_obj_eqb o x | _ => false end
            end in
  ((if b1 then 0 else 1) + (if b2 then 0 else 2) + (if b3 then 0 else 4) + (if b4 then 0 else 8) + (if b5 then 0 else 16))%nat.

Fixpoint check_calls (fixed : bool) (M : mtables) (T : tables) (enabled : bool) (p : obj XF) (j : nat) (l : list xcall)
  : list (nat * nat) :=
  match l with
  | [] => []
  | c :: r =>
    let k := check_call fixed M T enabled p c in
    let pa := x_after p c in
    let rest := check_calls fixed M T enabled pa (S j) r in
    if Nat.eqb k 0 then rest else (j, k) :: rest
  end.

(* (case index, call index, bits) of every disagreement *)
Fixpoint add_mismatches (fixed : bool) (M : mtables) (T : tables) (i : nat) (l : list xcase) : list (nat * (nat * nat)) :=
  match l with
  | [] => []
  | a :: r => (map (fun jk => (i, jk)) (check_calls fixed M T (xa_enabled a) (xa_parent a) 0 (xa_calls a))
               ++ add_mismatches fixed M T (S i) r)%list
  end.

(* constructor keywords without the two technical ones *)
Definition tech_params : list string := ["extensiontype_"; "gds_collector_"].
Definition ctor_keywords (kw : list (string * list string)) (c : string) : list string :=
  filter (fun n => negb (mem n tech_params)) (match lookup c kw with Some l => l | None => [] end).

Definition decls_of (S : schema) (c : string) : list sdecl :=
  match find_sclass (s_classes S) c with Some k => sc_decls k | None => [] end.
Definition px_of (P : list (string * list pyxml)) (c : string) : list pyxml :=
  match lookup c P with Some l => l | None => [] end.

(* the one known slip of the generated metadata *)
Definition is_property_slip (c : string) (m : mspec) : bool :=
  String.eqb c "ComponentType" && String.eqb (ms_name m) "Property".

(* ------------------------------------------------------------------ executable checks for the C11 correspondence *)
Record icase := {
  ic_cls : string;
  ic_info : list string;      (* real info(show_contents=True, return_format="dict"): "name|type|R" / "name|type|O" *)
  ic_list : list string;      (* real info(return_format="list") *)
  ic_parents : list string;   (* real parentinfo(return_format="dict"): "parent|member|type|R/O" *)
  ic_sig : list string        (* real inspect.signature of the constructor (without self, gds_collector_, **kwargs_) *)
}.

Definition ro (b : bool) : string := if b then "R" else "O".
Definition enc_info (e : info_entry) : string := ie_name e ++ "|" ++ ie_type e ++ "|" ++ ro (ie_required e).
Definition enc_parent (e : parent_entry) : string :=
  pe_parent e ++ "|" ++ pe_member e ++ "|" ++ pe_type e ++ "|" ++ ro (pe_required e).

(* bit 1 info dict, 2 info list, 4 parentinfo, 8 constructor signature *)
Definition check_icase (M : mtables) (kw : list (string * list string)) (c : icase) : nat :=
  let ms := x_members M (ic_cls c) in
  let b1 := set_eqb (map enc_info (info_dict ms)) (ic_info c) in
  let b2 := set_eqb (info_list ms) (ic_list c) && Nat.eqb (length (info_list ms)) (length (ic_list c)) in
  let b3 := set_eqb (map enc_parent (parentinfo (fun l => l) M (ic_cls c))) (ic_parents c) in
  let b4 := strs_eqb (filter (fun n => negb (String.eqb n "gds_collector_")) (match lookup (ic_cls c) kw with Some l => l | None => [] end))
                     (ic_sig c) in
  ((if b1 then 0 else 1) + (if b2 then 0 else 2) + (if b3 then 0 else 4) + (if b4 then 0 else 8))%nat.

Fixpoint info_mismatches (M : mtables) (kw : list (string * list string)) (i : nat) (l : list icase) : list (nat * nat) :=
  match l with
  | [] => []
  | c :: r => let k := check_icase M kw c in
              if Nat.eqb k 0 then info_mismatches M kw (S i) r else (i, k) :: info_mismatches M kw (S i) r
  end.

Record idcase := {
  gc_is_doc : bool;
  gc_obj : obj XF;
  gc_wc : nat;                 (* warn_count before the call *)
  gc_id : string;
  gc_res : nat;                (* observed: 0 None, 1 a component, 2 an exception *)
  gc_found : option (obj XF);
  gc_wc_after : nat;
  gc_msg : nat                 (* observed print: 0 nothing, 1 "asking for an element with no id", 2 "not found", 3 "Suppressing" *)
}.

Definition msg_code (m : option gmsg) : nat :=
  match m with None => 0 | Some MNoId => 1 | Some MNotFound => 2 | Some MSuppress => 3 end%nat.

(* bit 1 result kind, 2 component found, 4 counter, 8 message *)
Definition check_idcase (fixed : bool) (M : mtables) (c : idcase) : nat :=
  let r := get_by_id XF fixed (gc_is_doc c) (own_specs M (o_cls XF (gc_obj c))) (gc_obj c) (gc_wc c) (gc_id c) in
  let kind := match g_res XF r with GNone _ => 0 | GFound _ _ => 1 | GRaise _ => 2 end%nat in
  let b1 := Nat.eqb kind (gc_res c) in
  let b2 := match g_res XF r, gc_found c with
            | GFound _ o, Some x => x_obj_eqb o x
            | GFound _ _, None => false
            | _, Some _ => false
            | _, None => true
            end in
  let b3 := Nat.eqb (g_warn XF r) (gc_wc_after c) in
  let b4 := Nat.eqb (msg_code (g_msg XF r)) (gc_msg c) in
  ((if b1 then 0 else 1) + (if b2 then 0 else 2) + (if b3 then 0 else 4) + (if b4 then 0 else 8))%nat.

Fixpoint id_mismatches (fixed : bool) (M : mtables) (i : nat) (l : list idcase) : list (nat * nat) :=
  match l with
  | [] => []
  | c :: r => let k := check_idcase fixed M c in
              if Nat.eqb k 0 then id_mismatches fixed M (S i) r else (i, k) :: id_mismatches fixed M (S i) r
  end.

(* ------------------------------------------------------------------ executable check for the C09 correspondence *)
Record fcase := {
  fc_enabled : bool;
  fc_validate : bool;
  fc_cls : string;
  fc_kw : list (string * value XF);
  fc_vchild : bool;                 (* oracle: validate() of the same class constructed directly with the same keywords *)
  fc_cell : option (obj XF);        (* oracle: what Cell.setup_nml_cell made of it *)
  fc_code : nat * list string;      (* observed: 0 returned a component, else exn_code *)
  fc_ret : option (obj XF);         (* observed returned component *)
  fc_disabled : option nat          (* observed "Build time validation is disabled." records *)
}.

(* bit 1 outcome, 2 returned component, 4 log records *)
Definition check_fcase (M : mtables) (T : tables) (c : fcase) : nat :=
  let r := component_factory XF dec_norm (fun _ => fc_vchild c)
                             (fun o => match fc_cell c with Some q => q | None => o end) (fun l => l)
                             M T (fc_enabled c) (fc_validate c) (fc_cls c) (fc_kw c) in
  let code := match fst r with Ret _ => (0%nat, []) | Err e => exn_code e end in
  let b1 := Nat.eqb (fst code) (fst (fc_code c)) && set_eqb (snd code) (snd (fc_code c)) in
  let b2 := match fst r, fc_ret c with
            | Ret o, Some x => x_obj_eqb o x
            | Ret _, None => false
            | Err _, Some _ => false
            | Err _, None => true
            end in
  let b3 := match fc_disabled c with Some n => Nat.eqb n (count_disabled (snd r)) | None => true end in
  ((if b1 then 0 else 1) + (if b2 then 0 else 2) + (if b3 then 0 else 4))%nat.

Fixpoint factory_mismatches (M : mtables) (T : tables) (i : nat) (l : list fcase) : list (nat * nat) :=
  match l with
  | [] => []
  | c :: r => let k := check_fcase M T c in
              if Nat.eqb k 0 then factory_mismatches M T (S i) r else (i, k) :: factory_mismatches M T (S i) r
  end.
