(* Well-formedness of a translated table set (decidable, float-free: checked by vm_compute on the tables
   regenerated from nml.py on every run) and the domain of the round-trip theorems (typed trees). *)
From Coq Require Import String List ZArith Bool.
From LNML Require Import Lib.Dec Model.Gds.
Import ListNotations.
Open Scope string_scope.

Fixpoint nodupb (l : list string) : bool :=
  match l with [] => true | x :: r => negb (mem x r) && nodupb r end.

Definition akind_eqb (a b : akind) : bool :=
  match a, b with KStr, KStr | KInt, KInt | KFloat, KFloat | KDouble, KDouble => true | _, _ => false end.
Definition ckind_eqb (a b : ckind) : bool :=
  match a, b with CObj, CObj | CObjList, CObjList | CText, CText | CAny, CAny => true | _, _ => false end.

Definition find_ea (py : string) (l : list exp_attr) := find (fun a => String.eqb (ea_py a) py) l.
Definition find_ba (py : string) (l : list bld_attr) := find (fun a => String.eqb (ba_py a) py) l.
Definition find_ba_xml (x : string) (l : list bld_attr) := find (fun a => String.eqb (ba_xml a) x) l.
Definition find_ek (py : string) (l : list exp_kid) := find (fun a => String.eqb (ek_py a) py) l.

(* the literal an export guard compares with, and the constructor default, denote the same value *)
Definition lit_agree (k : akind) (g d : lit) : bool :=
  match k, g, d with
  | KStr, LStr a, LStr b => String.eqb a b
  | KInt, LInt a, LInt b => Z.eqb a b
  | (KFloat | KDouble), LDec a, LDec b => dec_eqb (dec_norm a) (dec_norm b)
  | (KFloat | KDouble), LInt a, LDec b => dec_eqb (dec_norm (a, O)) (dec_norm b)
  | _, _, _ => false
  end.

Definition lit_kind_ok (k : akind) (d : lit) : bool :=
  match k, d with
  | _, LNone => true
  | KStr, LStr _ | KInt, LInt _ | KFloat, LDec _ | KDouble, LDec _ => true
  | _, _ => false
  end.

Definition cls_wf (T : tables) (k : cls) : bool :=
  let c := c_name k in
  let n := cfuel T in
  let EA := exp_attrs_of n T c in
  let BA := bld_attrs_of n T c in
  let EK := exp_kids_of n T c in
  let BK := bld_kids_of n T c in
  let HC := hc_of n T c in
  match init_lits T c with
  | None => false
  | Some dfl =>
    let keys := map fst dfl in
    nodupb keys
    (* attributes: export and build tables describe the same (python name, xml name, kind) triples *)
    && nodupb (map ea_xml EA) && nodupb (map ea_py EA)
    && nodupb (map ba_xml BA) && nodupb (map ba_key BA) && nodupb (map ba_py BA)
    && Nat.eqb (length EA) (length BA)
    && forallb (fun a =>
         mem (ea_py a) keys
         && match find_ba (ea_py a) BA with
            | Some b => String.eqb (ba_xml b) (ea_xml a) && akind_eqb (ba_kind b) (ea_kind a)
            | None => false end
         && match lookup (ea_py a) dfl with
            | Some d => lit_kind_ok (ea_kind a) d
                        && match ea_guard a with
                           | GNotNone => true
                           | GNe g => lit_agree (ea_kind a) (lit_of_dflt g) d
                           end
            | None => false end) EA
    (* children *)
    && nodupb (map ek_tag EK) && nodupb (map ek_py EK) && nodupb (map bk_tag BK)
    && Nat.eqb (length EK) (length BK)
    && forallb (fun e =>
         mem (ek_py e) keys && mem (ek_py e) HC && negb (mem (ek_py e) (map ea_py EA))
         && match find_branch (ek_tag e) BK with
            | Some b => String.eqb (bk_py b) (ek_py e) && ckind_eqb (bk_kind b) (ek_kind e)
                        && match ek_kind e with
                           | CObj | CObjList => match find_cls T (bk_cls b) with Some _ => true | None => false end
                           | _ => true end
            | None => false end
         && match lookup (ek_py e) dfl, ek_kind e with
            | Some LNone, (CObj | CText) => true
            | Some LObjs, CObjList => true
            | Some LRaw, CAny => true
            | _, _ => false end
         && (negb (c_any_always k) || match ek_kind e with CAny => true | _ => false end)) EK
    (* every other field keeps a None-like default that build never touches *)
    && forallb (fun nv => mem (fst nv) (map ea_py EA) || mem (fst nv) (map ek_py EK)
                          || match snd nv with LNone => true | _ => false end) dfl
    && match find_cls T c with Some k' => String.eqb (c_name k') c | None => false end
  end.

Definition rt_wf (T : tables) : bool := nodupb (map c_name T) && forallb (cls_wf T) T.

(* diagnostic: the classes that fail *)
Definition rt_wf_failures (T : tables) : list string :=
  map c_name (filter (fun k => negb (cls_wf T k)) T).

Section Typed.
Variable F : Type.
Variable F_eqb : F -> F -> bool.
Variable F_of_dec : dec -> F.
Variable fmt_float : F -> string.
Variable parse_float : string -> option F.

Notation value := (value F).
Notation obj := (obj F).

(* a schema-float value that the 15 decimals carry exactly *)
Definition stable15 (f : F) : bool :=
  match parse_float (fmt_float f) with Some g => F_eqb g f | None => false end.

Definition range_ok (r : irange) (z : Z) : bool :=
  match r with RNone => true | RNonNeg => (0 <=? z)%Z | RPos => (0 <? z)%Z end.

Definition attr_val_ok (a : exp_attr) (b : bld_attr) (d : lit) (v : value) : bool :=
  match v with
  | VNone => match d, ea_guard a with LNone, GNotNone => true | _, _ => false end
  | VStr _ => match ea_kind a with KStr => true | _ => false end
  | VInt z => match ea_kind a with KInt => range_ok (ba_range b) z | _ => false end
  | VFlt f => match ea_kind a with KFloat => stable15 f | KDouble => true | _ => false end
  | _ => false
  end.

Fixpoint typedb (fuel : nat) (T : tables) (o : obj) : bool :=
  match fuel with
  | O => false
  | S f =>
    let c := o_cls F o in
    let n := cfuel T in
    match init_lits T c with
    | None => false
    | Some dfl =>
      let EA := exp_attrs_of n T c in
      let BA := bld_attrs_of n T c in
      let EK := exp_kids_of n T c in
      let BK := bld_kids_of n T c in
      (fix same_keys (l1 : list (string * value)) (l2 : list (string * lit)) : bool :=
         match l1, l2 with
         | [], [] => true
         | (a, _) :: r1, (b, _) :: r2 => String.eqb a b && same_keys r1 r2
         | _, _ => false
         end) (o_fields F o) dfl
      && forallb (fun nv =>
           let '(n_, v) := nv in
           match find_ea n_ EA, find_ba n_ BA, lookup n_ dfl with
           | Some a, Some b, Some d => attr_val_ok a b d v
           | Some _, _, _ => false
           | None, _, _ =>
             match find_ek n_ EK with
             | Some e =>
               match find_branch (ek_tag e) BK with
               | None => false
               | Some b =>
                 match ek_kind e, v with
                 | CObj, VNone => true
                 | CObj, VObj o' => String.eqb (o_cls F o') (bk_cls b) && typedb f T o'
                 | CObjList, VObjs l => forallb (fun o' => String.eqb (o_cls F o') (bk_cls b) && typedb f T o') l
                 | CText, VNone => true
                 | CText, VStr _ => true
                 | CAny, VRaw [] => true
                 | _, _ => false
                 end
               end
             | None => match v with VNone => true | _ => false end
             end
           end) (o_fields F o)
    end
  end.

End Typed.

(* ---------------------------------------------------------------- diagnostics (which clause, which member)
   used by the check to direct the search for a failing input when rt_wf is false *)
Definition cls_diag (T : tables) (k : cls) : list (string * string) :=
  let c := c_name k in
  let n := cfuel T in
  let EA := exp_attrs_of n T c in
  let BA := bld_attrs_of n T c in
  let EK := exp_kids_of n T c in
  let BK := bld_kids_of n T c in
  let HC := hc_of n T c in
  match init_lits T c with
  | None => [("constructor-chain-unresolved", c)]
  | Some dfl =>
    let keys := map fst dfl in
    ((if nodupb keys then [] else [("duplicate-field", c)])
     ++ (if nodupb (map ea_xml EA) && nodupb (map ea_py EA) then [] else [("duplicate-exported-attribute", c)])
     ++ (if nodupb (map ba_xml BA) && nodupb (map ba_key BA) && nodupb (map ba_py BA) then [] else [("duplicate-built-attribute", c)])
     ++ flat_map (fun a =>
          (if mem (ea_py a) keys then [] else [("exported-attribute-not-a-field", ea_py a)])
          ++ match find_ba (ea_py a) BA with
             | Some b => (if String.eqb (ba_xml b) (ea_xml a) then [] else [("attribute-xml-name-differs", ea_py a)])
                         ++ (if akind_eqb (ba_kind b) (ea_kind a) then [] else [("attribute-format-vs-parser-kind", ea_py a)])
             | None => [("attribute-exported-but-not-built", ea_py a)] end
          ++ match lookup (ea_py a) dfl with
             | Some d => (if lit_kind_ok (ea_kind a) d then [] else [("attribute-default-kind", ea_py a)])
                         ++ match ea_guard a with
                            | GNotNone => []
                            | GNe g => if lit_agree (ea_kind a) (lit_of_dflt g) d then [] else [("attribute-guard-vs-default", ea_py a)]
                            end
             | None => [] end) EA
     ++ flat_map (fun b => match find_ea (ba_py b) EA with Some _ => [] | None => [("attribute-built-but-not-exported", ba_py b)] end) BA
     ++ (if nodupb (map ek_tag EK) && nodupb (map ek_py EK) then [] else [("duplicate-exported-child", c)])
     ++ (if nodupb (map bk_tag BK) then [] else [("duplicate-built-child-tag", c)])
     ++ flat_map (fun e =>
          (if mem (ek_py e) keys then [] else [("exported-child-not-a-field", ek_py e)])
          ++ (if mem (ek_py e) HC then [] else [("child-missing-from-has-content", ek_py e)])
          ++ (if mem (ek_py e) (map ea_py EA) then [("member-both-attribute-and-child", ek_py e)] else [])
          ++ match find_branch (ek_tag e) BK with
             | Some b => (if String.eqb (bk_py b) (ek_py e) then [] else [("child-built-into-other-member", ek_py e)])
                         ++ (if ckind_eqb (bk_kind b) (ek_kind e) then [] else [("child-single-vs-list", ek_py e)])
                         ++ match ek_kind e with
                            | CObj | CObjList => match find_cls T (bk_cls b) with Some _ => [] | None => [("child-class-unknown", ek_py e)] end
                            | _ => [] end
             | None => [("child-exported-but-not-built", ek_py e)] end
          ++ match lookup (ek_py e) dfl, ek_kind e with
             | Some LNone, (CObj | CText) | Some LObjs, CObjList | Some LRaw, CAny => []
             | _, _ => [("child-default", ek_py e)] end) EK
     ++ flat_map (fun b => match find_ek (bk_py b) EK with Some _ => [] | None => [("child-built-but-not-exported", bk_py b)] end) BK
     ++ flat_map (fun nv => if mem (fst nv) (map ea_py EA) || mem (fst nv) (map ek_py EK)
                               || match snd nv with LNone => true | _ => false end
                            then [] else [("field-neither-exported-nor-default-none", fst nv)]) dfl)%list
  end.

Definition rt_diag (T : tables) : list (string * list (string * string)) :=
  flat_map (fun k => if cls_wf T k then [] else [(c_name k, cls_diag T k)]) T.
