(* C13 proofs, part 4: directed paths of the morphology graph, distances, Dijkstra on a tree, tips. *)
From Coq Require Import List ZArith QArith Qabs Bool Lia Permutation Setoid.
From LNML Require Import Model.Morph Proofs.MorphP Proofs.MorphP1 Proofs.MorphP2.
Import ListNotations.
Open Scope Z_scope.

(* paths with their number of edges *)
Inductive epath (es : list edge) : Z -> Z -> Q -> nat -> Prop :=
| ep_nil : forall n, epath es n n 0%Q O
| ep_step : forall a b t w d k, In (a, b, w) es -> epath es b t d k -> epath es a t (w + d)%Q (S k).

Lemma gpath_epath : forall g a t d, gpath g a t d <-> exists k, epath (gedges g) a t d k.
Proof.
  intros g a t d. split.
  - induction 1 as [n|a b t w d Hin _ [k IH]]; [exists O; constructor|exists (S k); econstructor; eauto].
  - intros [k H]. induction H; econstructor; eauto.
Qed.

Lemma epath_snoc : forall es a b d k, epath es a b d k -> forall t w, In (b, t, w) es ->
  exists d' k', epath es a t d' k'.
Proof.
  induction 1 as [x|a b t0 w0 d0 k0 Hin Hp0 IH0]; intros t w He.
  - exists (w + 0)%Q, 1%nat. econstructor; eauto. constructor.
  - destruct (IH0 _ _ He) as [d' [k' H']]. exists (w0 + d')%Q, (S k'). econstructor; eauto.
Qed.

(* ------------------------------------------------------------------ paths of a tree-shaped cell *)
Section TreePaths.
  Variable len : Z -> Q.
  Variable c : cell.
  Hypothesis Hwf : wf c.
  Let Hnd : NoDup (ids c) := wf_nodup c Hwf.

  (* going down an edge adds  len(parent) * fraction : a path from a to t of weight d puts t at (a's distance + d) *)
  Lemma epath_distroot : forall a t d k, epath (tree_edges len c) a t d k ->
    forall da, DistRoot len c a da -> DistRoot len c t (da + d)%Q.
  Proof.
    induction 1 as [n|a b t w d k Hin Hp IH]; intros da Hda.
    - eapply DR_eq; eauto. ring.
    - apply tree_edges_spec in Hin; auto. destruct Hin as [s [f [Hs [Hid [Hpar Hw]]]]].
      assert (Hb : DistRoot len c b (da + w)%Q) by (rewrite <- Hid, Hw; eapply DR_kid; eauto).
      eapply DR_eq; [apply (IH _ Hb)|]. ring.
  Qed.

  Lemma epath_rooted : forall a t d k, epath (tree_edges len c) a t d k ->
    forall n, Rooted c a n -> Rooted c t (n + k)%nat.
  Proof.
    induction 1 as [x|a b t w d k Hin Hp IH]; intros n Hn.
    - now rewrite Nat.add_0_r.
    - apply tree_edges_spec in Hin; auto. destruct Hin as [s [f [Hs [Hid [Hpar Hw]]]]].
      replace (n + S k)%nat with (S n + k)%nat by lia. apply IH. rewrite <- Hid. eapply R_kid; eauto.
  Qed.

  Lemma Rooted_unique : forall id n, Rooted c id n -> forall m, Rooted c id m -> n = m.
  Proof.
    induction 1 as [s Hs Hp|s p f n Hs Hp Hr IH]; intros m Hm.
    - remember (sid s) as id eqn:E. destruct Hm as [s' Hs' Hp'|s' p' f' m Hs' Hp' Hr']; auto.
      assert (s' = s) by (eapply nodup_same_id; eauto). subst. congruence.
    - remember (sid s) as id eqn:E. destruct Hm as [s' Hs' Hp'|s' p' f' m Hs' Hp' Hr'].
      + assert (s' = s) by (eapply nodup_same_id; eauto). subst. congruence.
      + assert (s' = s) by (eapply nodup_same_id; eauto). subst s'.
        rewrite Hp in Hp'. inversion Hp'; subst. f_equal. now apply IH.
  Qed.

  (* paths starting at a segment of the cell are shorter than the number of segments *)
  Lemma epath_short : forall a t d k, In a (ids c) -> epath (tree_edges len c) a t d k -> (k < length c)%nat.
  Proof.
    intros a t d k Ha Hp. apply ids_in in Ha. destruct Ha as [s [Hs Hid]].
    destruct (wf_rooted c s Hwf Hs) as [n [Hn _]]. rewrite Hid in Hn.
    pose proof (epath_rooted _ _ _ _ Hp _ Hn) as Ht.
    destruct (Rooted_in _ _ _ Ht) as [st [Hst Hidt]].
    destruct (wf_rooted c st Hwf Hst) as [m [Hm Hlt]]. rewrite Hidt in Hm.
    pose proof (Rooted_unique _ _ Ht _ Hm). lia.
  Qed.

  (* from the root there is a path to every segment *)
  Lemma rooted_epath : forall r, In r c -> sparent r = None ->
    forall id n, Rooted c id n -> exists d k, epath (tree_edges len c) (sid r) id d k.
  Proof.
    intros r Hr Hrp id n H. induction H as [s Hs Hp|s p f n Hs Hp Hroot [d [k IH]]].
    - destruct (wf_one_root c Hwf) as [r0 [_ [_ Hu]]].
      assert (s = r) by (rewrite (Hu s Hs Hp); symmetry; now apply Hu). subst.
      exists 0%Q, O. constructor.
    - assert (He : In (p, sid s, (len p * f)%Q) (tree_edges len c)) by (apply tree_edges_spec; eauto 7).
      eapply epath_snoc; eauto.
  Qed.
End TreePaths.

(* ------------------------------------------------------------------ rconcat *)
Lemma rconcat_in : forall {A} (l : list (res (list A))) r, rconcat l = Ok r ->
  forall x, In x r <-> exists r', In (Ok r') l /\ In x r'.
Proof.
  induction l as [|y t IH]; intros r H x; simpl in H.
  - inversion H; subst. simpl. split; [tauto|]. intros [r' [[] _]].
  - destruct y as [a|e]; simpl in H; [|discriminate].
    destruct (rconcat t) as [b|e] eqn:E; simpl in H; [|discriminate]. inversion H; subst.
    rewrite in_app_iff. rewrite (IH b eq_refl x). simpl. split.
    + intros [Hx|[r' [H1 H2]]]; [exists a; auto|exists r'; auto].
    + intros [r' [[Heq|Hin] Hx]]; [inversion Heq; subst; auto|right; eauto].
Qed.

Lemma rconcat_all_ok : forall {A} (l : list (res (list A))), rconcat l <> Err EFuel \/ True ->
  (forall x, In x l -> exists r, x = Ok r) -> exists r, rconcat l = Ok r.
Proof.
  intros A l _. induction l as [|y t IH]; intros H; simpl; [eauto|].
  destruct (H y (or_introl eq_refl)) as [a ->]. simpl.
  destruct IH as [b ->]; [intros; apply H; now right|]. simpl. eauto.
Qed.

Lemma rconcat_elem_ok : forall {A} (l : list (res (list A))) r, rconcat l = Ok r ->
  forall x, In x l -> exists r', x = Ok r'.
Proof.
  induction l as [|y t IH]; intros r H x Hx; [inversion Hx|]. simpl in H.
  destruct y as [a|e]; simpl in H; [|discriminate].
  destruct (rconcat t) as [b|e] eqn:E; simpl in H; [|discriminate].
  destruct Hx as [<-|Hx]; eauto.
Qed.

(* ------------------------------------------------------------------ reach = Dijkstra on a tree *)
Lemma reach_sound : forall fuel es cutoff n d rp l, reach fuel es cutoff n d rp = Ok l ->
  forall t dt p, In (t, dt, p) l -> exists w k, epath es n t w k /\ (dt == d + w)%Q.
Proof.
  induction fuel as [|f IH]; intros es cutoff n d rp l H t dt p Hin; simpl in H; [discriminate|].
  match type of H with (bind ?X _ = _) => destruct X as [sub|e] eqn:E end; simpl in H; [|discriminate].
  inversion H; subst l; clear H. destruct Hin as [Heq|Hin].
  - inversion Heq; subst. exists 0%Q, O. split; [constructor|ring].
  - rewrite (rconcat_in _ _ E) in Hin. destruct Hin as [r' [Hr' Hx]].
    apply in_map_iff in Hr'. destruct Hr' as [[[a b] w0] [He Hine]].
    unfold esrc, edst, ew in He. simpl in He.
    destruct ((a =? n) && negb (over cutoff (d + w0)%Q)) eqn:Ec.
    + apply andb_prop in Ec. destruct Ec as [Ea _]. apply Z.eqb_eq in Ea. subst a.
      destruct (IH _ _ _ _ _ _ He _ _ _ Hx) as [w [k [Hp Hd]]].
      exists (w0 + w)%Q, (S k). split; [econstructor; eauto|]. rewrite Hd. ring.
    + inversion He; subst. inversion Hx.
Qed.

Lemma reach_complete : forall es n t w k, epath es n t w k ->
  forall fuel d rp l, (k < fuel)%nat -> reach fuel es None n d rp = Ok l ->
  exists dt p, In (t, dt, p) l /\ (dt == d + w)%Q.
Proof.
  induction 1 as [n|a b t w0 d0 k Hin Hp IH]; intros fuel d rp l Hf H.
  - destruct fuel as [|f]; [lia|]. simpl in H.
    match type of H with (bind ?X _ = _) => destruct X as [sub|e] eqn:E end; simpl in H; [|discriminate].
    inversion H; subst. exists d, (rev rp). split; [now left|ring].
  - destruct fuel as [|f]; [lia|]. simpl in H.
    match type of H with (bind ?X _ = _) => destruct X as [sub|e] eqn:E end; simpl in H; [|discriminate].
    inversion H; subst l; clear H.
    set (g := fun e : edge => if (esrc e =? a) && negb (over None (d + ew e)%Q)
                              then reach f es None (edst e) (d + ew e)%Q (edst e :: rp) else Ok []) in E.
    assert (Hg : In (g (a, b, w0)) (map g es)) by now apply in_map.
    destruct (rconcat_elem_ok _ _ E _ Hg) as [r' Hr'].
    assert (Hgv : g (a, b, w0) = reach f es None b (d + w0)%Q (b :: rp)).
    { unfold g, esrc, edst, ew. simpl. now rewrite Z.eqb_refl. }
    rewrite Hgv in Hr'.
    destruct (IH f (d + w0)%Q (b :: rp) r' ltac:(lia) Hr') as [dt [p [Hx Hd]]].
    exists dt, p. split.
    + right. apply (rconcat_in _ _ E). exists r'. split; auto. rewrite <- Hr', <- Hgv. exact Hg.
    + rewrite Hd. ring.
Qed.

Lemma reach_total : forall fuel es cutoff n d rp,
  (forall t w k, epath es n t w k -> (k < fuel)%nat) -> exists l, reach fuel es cutoff n d rp = Ok l.
Proof.
  induction fuel as [|f IH]; intros es cutoff n d rp H.
  - specialize (H n 0%Q O (ep_nil es n)). lia.
  - simpl.
    match goal with |- context [rconcat ?L] => destruct (rconcat_all_ok L (or_intror I)) as [sub Hs] end.
    + intros x Hx. apply in_map_iff in Hx. destruct Hx as [[[a b] w0] [Hx Hin]]. subst x.
      unfold esrc, edst, ew. simpl. destruct ((a =? n) && negb (over cutoff (d + w0)%Q)) eqn:Ec; [|eauto].
      apply andb_prop in Ec. destruct Ec as [Ea _]. apply Z.eqb_eq in Ea. subst a.
      apply IH. intros t w k Hp. assert (S k < S f)%nat; [|lia].
      apply (H t (w0 + w)%Q (S k)). econstructor; eauto.
    + rewrite Hs. simpl. eauto.
Qed.

Lemma rlookup_in : forall (l : list reached) t d, rlookup l t = Some d -> exists p, In (t, d, p) l.
Proof.
  induction l as [|[[n d0] p0] r IH]; intros t d H; simpl in H; [discriminate|].
  destruct (n =? t) eqn:E.
  - apply Z.eqb_eq in E. inversion H; subst. exists p0. now left.
  - destruct (IH _ _ H) as [p Hp]. exists p. now right.
Qed.

Lemma in_rlookup : forall (l : list reached) t d p, In (t, d, p) l -> exists d', rlookup l t = Some d'.
Proof.
  induction l as [|[[n d0] p0] r IH]; intros t d p H; [inversion H|]. simpl.
  destruct (n =? t) eqn:E; [eauto|]. destruct H as [H|H].
  - inversion H; subst. rewrite Z.eqb_refl in E. discriminate.
  - eapply IH; eauto.
Qed.

(* ------------------------------------------------------------------ networkx as a section hypothesis *)
Section Networkx.
  (* nx g source target = networkx.dijkstra_path_length(g, source, target) *)
  Variable nx : graph -> Z -> Z -> res Q.
  Variable len : Z -> Q.
  Variable c : cell.
  Hypothesis Hwf : wf c.
  Let g := graph_of len c.
  (* on the directed tree g: the value returned is the weight of a path, and a value is returned whenever
     there is a path from a source that is a node *)
  Hypothesis nx_sound : forall s t d, nx g s t = Ok d -> exists d', gpath g s t d' /\ (d == d')%Q.
  Hypothesis nx_complete : forall s t d, In s (gnodes g) -> gpath g s t d -> exists d', nx g s t = Ok d'.

  Theorem nx_between : forall s t d ds, nx g s t = Ok d -> DistRoot len c s ds -> DistRoot len c t (ds + d)%Q.
  Proof.
    intros s t d ds H Hs. destruct (nx_sound _ _ _ H) as [d' [Hp Hd]].
    apply gpath_epath in Hp. destruct Hp as [k Hp]. simpl in Hp.
    eapply DR_eq; [eapply epath_distroot; eauto|]. rewrite Hd. reflexivity.
  Qed.

  (* get_distance(t, source=root) is the distance of t from the root by the definition *)
  Theorem nx_from_root : forall r t d, In r c -> sparent r = None -> nx g (sid r) t = Ok d -> DistRoot len c t d.
  Proof.
    intros r t d Hr Hrp H. eapply DR_eq; [eapply nx_between; eauto; now apply DR_root|]. ring.
  Qed.

  Theorem nx_from_root_total : forall r s, In r c -> sparent r = None -> In s c -> exists d, nx g (sid r) (sid s) = Ok d.
  Proof.
    intros r s Hr Hrp Hs. destruct (wf_rooted c s Hwf Hs) as [n [Hn _]].
    destruct (rooted_epath len c Hwf r Hr Hrp _ _ Hn) as [d [k Hp]].
    apply (nx_complete (sid r) (sid s) d).
    - apply graph_nodes; auto. now apply in_ids.
    - apply gpath_epath. exists k. exact Hp.
  Qed.
End Networkx.

(* the executable stand-in for networkx used in the correspondence run satisfies both hypotheses *)
Lemma nx_dist_sound : forall len c s t d, wf c ->
  nx_dist (fuel_of c) (graph_of len c) s t = Ok d -> exists d', gpath (graph_of len c) s t d' /\ (d == d')%Q.
Proof.
  intros len c s t d Hwf H. unfold nx_dist, nx_sssp in H.
  destruct (memZ s (gnodes (graph_of len c))); cbn [bind] in H; [|discriminate].
  destruct (reach (fuel_of c) (gedges (graph_of len c)) None s 0 [s]) as [l|e] eqn:E; cbn [bind] in H; [|discriminate].
  destruct (rlookup l t) as [d0|] eqn:El; [|discriminate]. inversion H; subst d0.
  destruct (rlookup_in _ _ _ El) as [p Hin].
  destruct (reach_sound _ _ _ _ _ _ _ E _ _ _ Hin) as [w [k [Hp Hd]]].
  exists w. split; [apply gpath_epath; eauto|]. rewrite Hd. ring.
Qed.

Lemma reach_tree_total : forall len c cutoff s d rp, wf c -> In s (ids c) ->
  exists l, reach (fuel_of c) (tree_edges len c) cutoff s d rp = Ok l.
Proof.
  intros len c cutoff s d rp Hwf Hs. apply reach_total. intros t w k Hp.
  pose proof (epath_short len c Hwf _ _ _ _ Hs Hp). unfold fuel_of. lia.
Qed.

Lemma nx_dist_complete : forall len c s t d, wf c -> In s (gnodes (graph_of len c)) ->
  gpath (graph_of len c) s t d -> exists d', nx_dist (fuel_of c) (graph_of len c) s t = Ok d'.
Proof.
  intros len c s t d Hwf Hs Hp. unfold nx_dist, nx_sssp.
  assert (memZ s (gnodes (graph_of len c)) = true) as -> by now apply memZ_spec.
  apply graph_nodes in Hs; auto.
  destruct (reach_tree_total len c None s 0%Q [s] Hwf Hs) as [l Hl].
  change (gedges (graph_of len c)) with (tree_edges len c). rewrite Hl. cbn [bind].
  apply gpath_epath in Hp. destruct Hp as [k Hp]. simpl in Hp.
  pose proof (epath_short len c Hwf _ _ _ _ Hs Hp) as Hk.
  destruct (reach_complete _ _ _ _ _ Hp (fuel_of c) 0%Q [s] l ltac:(unfold fuel_of; lia) Hl) as [dt [p [Hin _]]].
  destruct (in_rlookup _ _ _ _ Hin) as [d' ->]. eauto.
Qed.

(* hence, for the model's own Dijkstra: *)
Theorem nx_dist_root : forall len c r t d, wf c -> In r c -> sparent r = None ->
  nx_dist (fuel_of c) (graph_of len c) (sid r) t = Ok d -> DistRoot len c t d.
Proof.
  intros len c r t d Hwf. apply (nx_from_root (nx_dist (fuel_of c)) len c Hwf).
  intros s t' d'. now apply nx_dist_sound.
Qed.

Theorem nx_dist_root_total : forall len c r s, wf c -> In r c -> sparent r = None -> In s c ->
  exists d, nx_dist (fuel_of c) (graph_of len c) (sid r) (sid s) = Ok d /\ DistRoot len c (sid s) d.
Proof.
  intros len c r s Hwf Hr Hrp Hs.
  destruct (nx_from_root_total (nx_dist (fuel_of c)) len c Hwf
              (fun s t d => nx_dist_complete len c s t d Hwf) r s Hr Hrp Hs) as [d Hd].
  exists d. split; auto. exact (nx_dist_root len c r (sid s) d Hwf Hr Hrp Hd).
Qed.

(* ------------------------------------------------------------------ tips *)
Lemma map_res_ok : forall {A B} (f : A -> res B) l, (forall x, In x l -> exists y, f x = Ok y) ->
  exists r, map_res f l = Ok r.
Proof.
  induction l as [|x t IH]; intros H; simpl; [eauto|].
  destruct (H x (or_introl eq_refl)) as [y ->]. simpl.
  destruct IH as [r ->]; [intros; apply H; now right|]. simpl. eauto.
Qed.

Lemma map_res_in : forall {A B} (f : A -> res B) l r, map_res f l = Ok r ->
  forall y, In y r <-> exists x, In x l /\ f x = Ok y.
Proof.
  induction l as [|x t IH]; intros r H y; simpl in H.
  - inversion H; subst. simpl. split; [tauto|]. intros [x [[] _]].
  - destruct (f x) as [y0|e] eqn:E; simpl in H; [|discriminate].
    destruct (map_res f t) as [ys|e] eqn:Et; simpl in H; [|discriminate]. inversion H; subst. simpl.
    rewrite (IH ys eq_refl y). split.
    + intros [->|[x' [H1 H2]]]; [exists x; auto|exists x'; auto].
    + intros [x' [[->|H1] H2]]; [left; congruence|right; eauto].
Qed.

Lemma map_res_elem_ok : forall {A B} (f : A -> res B) l r, map_res f l = Ok r ->
  forall x, In x l -> exists y, f x = Ok y.
Proof.
  induction l as [|x t IH]; intros r H z Hz; [inversion Hz|]. simpl in H.
  destruct (f x) as [y0|e] eqn:E; simpl in H; [|discriminate].
  destruct (map_res f t) as [ys|e] eqn:Et; simpl in H; [|discriminate].
  destruct Hz as [<-|Hz]; eauto.
Qed.

(* the tips are exactly the segments without children, each with its distance from the root *)
Theorem extremities_spec : forall len c, wf c ->
  exists l, extremities (fuel_of c) c (graph_of len c) = Ok l /\
            (forall t d, In (t, d) l -> In t (ids c) /\ children c t = [] /\ DistRoot len c t d) /\
            (forall t, In t (ids c) -> children c t = [] -> exists d, In (t, d) l).
Proof.
  intros len c Hwf. unfold extremities.
  destruct (filter (fun n => (out_deg (graph_of len c) n =? 0)%nat) (gnodes (graph_of len c))) as [|t0 ts] eqn:Et.
  - exists []. split; auto. split; [intros t d []|]. intros t Ht Hc. exfalso.
    assert (Hin : In t (filter (fun n => (out_deg (graph_of len c) n =? 0)%nat) (gnodes (graph_of len c)))).
    { apply filter_In. split; [now apply graph_nodes|]. apply Nat.eqb_eq. rewrite out_deg_children, Hc. reflexivity. }
    rewrite Et in Hin. inversion Hin.
  - rewrite <- Et. clear t0 ts Et.
    destruct (morphology_root_spec len c Hwf) as [r [Hr [Hrp Hroot]]]. rewrite Hroot. cbn [bind].
    unfold nx_sssp. assert (Hrn : In (sid r) (gnodes (graph_of len c))) by (apply graph_nodes; auto; now apply in_ids).
    assert (memZ (sid r) (gnodes (graph_of len c)) = true) as -> by now apply memZ_spec.
    destruct (reach_tree_total len c None (sid r) 0%Q [sid r] Hwf (in_ids c r Hr)) as [rl Hrl].
    change (gedges (graph_of len c)) with (tree_edges len c). rewrite Hrl. cbn [bind].
    match goal with |- context [map_res ?F ?L] => destruct (map_res_ok F L) as [l Hl] end.
    + intros x Hx. apply filter_In in Hx. destruct Hx as [Hx _]. apply graph_nodes in Hx; auto.
      apply ids_in in Hx. destruct Hx as [s [Hs Hid]]. subst x.
      destruct (wf_rooted c s Hwf Hs) as [n [Hn _]].
      destruct (rooted_epath len c Hwf r Hr Hrp _ _ Hn) as [d [k Hp]].
      pose proof (epath_short len c Hwf _ _ _ _ (in_ids c r Hr) Hp) as Hk.
      destruct (reach_complete _ _ _ _ _ Hp (fuel_of c) 0%Q [sid r] rl ltac:(unfold fuel_of; lia) Hrl) as [dt [p [Hin _]]].
      destruct (in_rlookup _ _ _ _ Hin) as [d' ->]. eauto.
    + exists l. split; auto. split.
      * intros t d Hin. apply (map_res_in _ _ _ Hl) in Hin. destruct Hin as [x [Hx Hf]].
        apply filter_In in Hx. destruct Hx as [Hx Hdeg].
        destruct (rlookup rl x) as [d0|] eqn:El; [|discriminate]. inversion Hf; subst x d0.
        apply Nat.eqb_eq in Hdeg. rewrite out_deg_children in Hdeg.
        repeat split.
        -- now apply graph_nodes in Hx.
        -- now apply length_zero_iff_nil.
        -- destruct (rlookup_in _ _ _ El) as [p Hp].
           destruct (reach_sound _ _ _ _ _ _ _ Hrl _ _ _ Hp) as [w [k [Hpath Hd]]].
           eapply DR_eq; [eapply (epath_distroot len c Hwf _ _ _ _ Hpath); now apply DR_root|]. now rewrite Hd.
      * intros t Ht Hc.
        assert (Hin : In t (filter (fun n => (out_deg (graph_of len c) n =? 0)%nat) (gnodes (graph_of len c)))).
        { apply filter_In. split; [now apply graph_nodes|]. apply Nat.eqb_eq. rewrite out_deg_children, Hc. reflexivity. }
        destruct (map_res_elem_ok _ _ _ Hl _ Hin) as [[t' d] Hy].
        exists d. apply (map_res_in _ _ _ Hl). exists t. split; auto.
        destruct (rlookup rl t); [|discriminate]. inversion Hy; subst. reflexivity.
Qed.
