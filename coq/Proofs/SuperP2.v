(* Proofs about Model/Super.v, part 2: info / parentinfo / schema agreement / get_by_id (property C11).
   The checks over the generated tables are boolean functions; the lemmas here say what a `true` means, for every
   table set, so that the per-run instance obligation (vm_compute over the classes of the generated table) yields
   the stated property. *)
From Coq Require Import String List ZArith Bool Lia.
From LNML Require Import Lib.Dec Model.Gds Model.Super.
Import ListNotations.
Open Scope string_scope.

(* ------------------------------------------------------------------ string sets *)
Lemma mem_In k l : mem k l = true <-> In k l.
Proof.
  induction l as [|x r IH]; simpl.
  - split; [discriminate|intros []].
  - rewrite orb_true_iff, IH, String.eqb_eq. tauto.
Qed.

Lemma mem_false k l : mem k l = false <-> ~ In k l.
Proof. rewrite <- mem_In. destruct (mem k l); split; intro H; try reflexivity; try discriminate; exfalso; apply H; reflexivity. Qed.

Lemma subset_spec a b : subset a b = true <-> (forall x, In x a -> In x b).
Proof.
  unfold subset. rewrite forallb_forall. split; intros H x Hx.
  - apply mem_In. apply H. exact Hx.
  - apply mem_In. apply H. exact Hx.
Qed.

Lemma set_eqb_spec a b : set_eqb a b = true <-> (forall x, In x a <-> In x b).
Proof.
  unfold set_eqb. rewrite andb_true_iff, !subset_spec. split.
  - intros [H1 H2] x. split; auto.
  - intro H. split; intros x Hx; apply H; exact Hx.
Qed.

(* ------------------------------------------------------------------ the value equality behind add()'s duplicate test *)
Lemma drop_excluded_id {A} excluded (fs : list (string * A)) :
  (forall n, In n (map fst fs) -> ~ In n excluded) -> drop_excluded excluded fs = fs.
Proof.
  induction fs as [|[n v] r IH]; intro H; [reflexivity|]. unfold drop_excluded in *. simpl.
  assert (E : mem n excluded = false) by (apply mem_false; apply H; left; reflexivity).
  rewrite E. simpl. f_equal. apply IH. intros n' Hn'. apply H. right. exact Hn'.
Qed.

Lemma eq_sees_all_members_sound excluded M : eq_sees_all_members excluded M = true ->
  forall k m, In k M -> In m (mc_specs k) -> ~ In (rename_any (ms_name m)) excluded.
Proof.
  unfold eq_sees_all_members. rewrite forallb_forall. intros H k m Hk Hm.
  specialize (H k Hk). rewrite forallb_forall in H. specialize (H m Hm).
  apply negb_true_iff in H. apply mem_false. exact H.
Qed.

(* ------------------------------------------------------------------ info() vs constructor keywords *)
Definition info_ctor_okb (ms : list mspec) (ctor : list string) : bool :=
  set_eqb ctor (map rename_any (info_list ms)).

Lemma info_ctor_sound ms ctor : info_ctor_okb ms ctor = true ->
  forall n, In n ctor <-> In n (map rename_any (info_list ms)).
Proof. unfold info_ctor_okb. rewrite set_eqb_spec. auto. Qed.

Lemma rename_any_id l : ~ In "__ANY__" l -> map rename_any l = l.
Proof.
  induction l as [|x r IH]; simpl; [reflexivity|]. intro H.
  unfold rename_any at 1. destruct (String.eqb x "__ANY__") eqn:E.
  - apply String.eqb_eq in E. exfalso. apply H. left. exact E.
  - rewrite IH; [reflexivity|]. intro H2. apply H. right. exact H2.
Qed.

Lemma info_ctor_plain ms ctor : info_ctor_okb ms ctor = true -> ~ In "__ANY__" (info_list ms) ->
  forall n, In n ctor <-> In n (info_list ms).
Proof. intros H Hn n. rewrite (info_ctor_sound ms ctor H n). rewrite rename_any_id; tauto. Qed.

(* table-level: all classes *)
Definition all_info_ctor_okb (M : mtables) (kw : list (string * list string)) : bool :=
  forallb (fun k => info_ctor_okb (members_set M (mc_name k)) (ctor_keywords kw (mc_name k))) M.

Lemma all_info_ctor_sound M kw : all_info_ctor_okb M kw = true ->
  forall k, In k M -> forall n,
    In n (ctor_keywords kw (mc_name k)) <-> In n (map rename_any (info_list (members_set M (mc_name k)))).
Proof.
  unfold all_info_ctor_okb. rewrite forallb_forall. intros H k Hk. apply info_ctor_sound. apply H. exact Hk.
Qed.

(* ------------------------------------------------------------------ info() vs schema *)
Definition decl_spec (S : schema) (m : mspec) (d : sdecl) : Prop :=
  type_agrees S (ms_dtype m) (sd_type d) = true /\
  ms_container m = sd_list d /\
  negb (ms_optional m) = sd_required_literal d /\
  (sd_in_choice d = false -> negb (ms_optional m) = sd_required d).

Definition member_spec (S : schema) (ds : list sdecl) (px : list pyxml) (m : mspec) : Prop :=
  exists x d, find_px px (rename_any (ms_name m)) = Some x /\
              find_decl ds (px_xml x) (px_is_attr x) = Some d /\ decl_spec S m d.

Lemma decl_okb_iff S m d : decl_okb S m d = true <-> decl_spec S m d.
Proof.
  unfold decl_okb, decl_spec. rewrite !andb_true_iff, orb_true_iff, !eqb_true_iff. split.
  - intros [[[H1 H2] H3] H4]. repeat split; auto. intro Hc. destruct H4 as [H4|H4]; [congruence|exact H4].
  - intros [H1 [H2 [H3 H4]]]. repeat split; auto. destruct (sd_in_choice d); [left; reflexivity|right; auto].
Qed.

Lemma member_okb_iff S ds px m : member_okb S ds px m = true <-> member_spec S ds px m.
Proof.
  unfold member_okb, member_spec. split.
  - destruct (find_px px (rename_any (ms_name m))) as [x|] eqn:E1; [|discriminate].
    destruct (find_decl ds (px_xml x) (px_is_attr x)) as [d|] eqn:E2; [|discriminate].
    intro H. exists x, d. split; [reflexivity|]. split; [exact E2|]. apply decl_okb_iff. exact H.
  - intros [x [d [H1 [H2 H3]]]]. rewrite H1, H2. apply decl_okb_iff. exact H3.
Qed.

Definition decl_covered (px : list pyxml) (ms : list mspec) (d : sdecl) : Prop :=
  exists m x, In m ms /\ find_px px (rename_any (ms_name m)) = Some x /\
              px_xml x = sd_xml d /\ px_is_attr x = sd_is_attr d.

Lemma decl_coveredb_sound px ms d : decl_coveredb px ms d = true -> decl_covered px ms d.
Proof.
  unfold decl_coveredb, decl_covered. rewrite existsb_exists. intros [m [Hm H]].
  destruct (find_px px (rename_any (ms_name m))) as [x|] eqn:E; [|discriminate].
  apply andb_true_iff in H. destruct H as [H1 H2]. apply String.eqb_eq in H1. apply eqb_prop in H2.
  exists m, x. auto.
Qed.

(* table-level *)
Definition class_schema_okb (S : schema) (P : list (string * list pyxml)) (M : mtables) (k : mclass) : bool :=
  let c := mc_name k in
  forallb (fun m => is_property_slip c m || member_okb S (decls_of S c) (px_of P c) m) (members_set M c)
  && forallb (decl_coveredb (px_of P c) (members_set M c)) (decls_of S c).

Definition all_schema_okb (S : schema) (P : list (string * list pyxml)) (M : mtables) : bool :=
  forallb (class_schema_okb S P M) M.

Lemma all_schema_sound S P M : all_schema_okb S P M = true ->
  forall k, In k M ->
    (forall m, In m (members_set M (mc_name k)) -> is_property_slip (mc_name k) m = false ->
               member_spec S (decls_of S (mc_name k)) (px_of P (mc_name k)) m) /\
    (forall d, In d (decls_of S (mc_name k)) -> decl_covered (px_of P (mc_name k)) (members_set M (mc_name k)) d).
Proof.
  unfold all_schema_okb. rewrite forallb_forall. intros H k Hk. specialize (H k Hk).
  unfold class_schema_okb in H. apply andb_true_iff in H. destruct H as [H1 H2].
  rewrite forallb_forall in H1, H2. split.
  - intros m Hm Hs. specialize (H1 m Hm). rewrite Hs in H1. simpl in H1. apply member_okb_iff. exact H1.
  - intros d Hd. apply decl_coveredb_sound. apply H2. exact Hd.
Qed.

(* ------------------------------------------------------------------ parentinfo is the inverse of info *)
Lemma parentinfo_spec (msf : string -> list mspec) classes c e :
  In e (parentinfo_with msf classes c) <->
  In (pe_parent e) classes /\ name_skipped (pe_parent e) = false /\ pe_type e = c /\
  In {| ie_name := pe_member e; ie_required := pe_required e; ie_type := pe_type e |} (info_dict (msf (pe_parent e))).
Proof.
  unfold parentinfo_with. rewrite in_flat_map. split.
  - intros [ac [Hac H]]. destruct (name_skipped ac) eqn:Es; [destruct H|].
    apply in_flat_map in H. destruct H as [m [Hm H]].
    destruct (String.eqb (get_data_type m) c) eqn:Et; [|destruct H].
    destruct H as [<-|[]]. simpl. apply String.eqb_eq in Et. repeat split; auto.
    unfold info_dict. apply in_map_iff. exists m. split; [reflexivity|exact Hm].
  - intros [Hc [Hs [Ht Hi]]]. exists (pe_parent e). split; [exact Hc|]. rewrite Hs.
    unfold info_dict in Hi. apply in_map_iff in Hi. destruct Hi as [m [Hm Hin]].
    apply in_flat_map. exists m. split; [exact Hin|].
    unfold info_of in Hm. inversion Hm as [[H1 H2 H3]].
    rewrite H3, Ht, String.eqb_refl. left. destruct e; simpl in *. subst. reflexivity.
Qed.

Lemma parentinfo_no_class_skipped (msf : string -> list mspec) classes c :
  forallb (fun ac => negb (name_skipped ac)) classes = true ->
  forall p m, In p classes -> In m (msf p) -> get_data_type m = c ->
    In {| pe_parent := p; pe_member := ms_name m; pe_required := negb (ms_optional m); pe_type := get_data_type m |}
       (parentinfo_with msf classes c).
Proof.
  intros Hall p m Hp Hm Ht. apply parentinfo_spec. simpl.
  rewrite forallb_forall in Hall. specialize (Hall p Hp). apply negb_true_iff in Hall.
  repeat split; auto. unfold info_dict. apply in_map_iff. exists m. split; [reflexivity|exact Hm].
Qed.

(* ------------------------------------------------------------------ get_by_id *)
Section GetById.
Variable F : Type.
Notation value := (value F).
Notation obj := (obj F).
Notation o_fields := (o_fields F).
Notation id_matches := (id_matches F).
Notation id_val := (id_val F).
Notation scan_list := (scan_list F).
Notation scan_members := (scan_members F).
Notation get_by_id := (get_by_id F).

Lemma scan_list_found i l : forall seen o, scan_list i l seen = inl o -> In o l /\ id_matches i o = true.
Proof.
  induction l as [|m r IH]; simpl; intros seen o; [discriminate|].
  unfold Super.id_matches. destruct (id_val m) as [v|] eqn:E.
  - destruct (id_is F i v) eqn:Ei.
    + intro H; inversion H; subst. split; [left; reflexivity|]. rewrite E. exact Ei.
    + intro H. destruct (IH _ _ H). split; [right; assumption|assumption].
  - intro H. destruct (IH _ _ H). split; [right; assumption|assumption].
Qed.

Lemma scan_list_none i l : forall seen s, scan_list i l seen = inr s ->
  (forall o, In o l -> id_matches i o = false) /\
  exists extra, s = (seen ++ extra)%list /\ forall v, In v extra -> exists o, In o l /\ id_val o = Some v.
Proof.
  induction l as [|m r IH]; simpl; intros seen s.
  - intro H; inversion H; subst. split; [intros o []|]. exists []. rewrite app_nil_r. split; [reflexivity|intros v []].
  - unfold Super.id_matches. destruct (id_val m) as [v|] eqn:E.
    + destruct (id_is F i v) eqn:Ei; [discriminate|]. intro H.
      destruct (IH _ _ H) as [H1 [extra [H2 H3]]]. split.
      * intros o [<-|Ho]; [rewrite E; exact Ei|apply H1; exact Ho].
      * exists (v :: extra). split; [rewrite H2, <- app_assoc; reflexivity|].
        intros v' [<-|Hv]; [exists m; split; [left; reflexivity|exact E]|].
        destruct (H3 v' Hv) as [o [Ho1 Ho2]]. exists o. split; [right; exact Ho1|exact Ho2].
    + intro H. destruct (IH _ _ H) as [H1 [extra [H2 H3]]]. split.
      * intros o [<-|Ho]; [rewrite E; reflexivity|apply H1; exact Ho].
      * exists extra. split; [exact H2|]. intros v' Hv. destruct (H3 v' Hv) as [o [Ho1 Ho2]]. exists o. split; [right; exact Ho1|exact Ho2].
Qed.

(* the searched lists: the own list members of the document *)
Definition in_searched (fs : list (string * value)) (ms : list mspec) (x : obj) : Prop :=
  exists m l, In m ms /\ lookup (ms_name m) fs = Some (VObjs l) /\ In x l.

(* every own member holds None, a list of components, a string or raw content (what the constructors put there) *)
Definition iterable (v : value) : bool :=
  match v with VNone | VObjs _ | VStr _ | VRaw _ => true | _ => false end.
Definition all_iterable (fs : list (string * value)) (ms : list mspec) : Prop :=
  forall m, In m ms -> exists v, lookup (ms_name m) fs = Some v /\ iterable v = true.

Lemma scan_members_found i fs ms : forall seen o, scan_members i fs ms seen = SFound F o ->
  in_searched fs ms o /\ id_matches i o = true.
Proof.
  induction ms as [|m r IH]; simpl; intros seen o; [discriminate|].
  destruct (lookup (ms_name m) fs) as [v|] eqn:L; [|discriminate].
  assert (Hrest : forall s, scan_members i fs r s = SFound F o -> in_searched fs (m :: r) o /\ id_matches i o = true).
  { intros s H. destruct (IH _ _ H) as [[m' [l [H1 [H2 H3]]]] H4]. split; [|exact H4].
    exists m', l. split; [right; exact H1|]. split; assumption. }
  destruct v; try discriminate; try (apply Hrest).
  destruct (scan_list i l seen) as [x|s] eqn:E.
  - intro H; inversion H; subst. apply scan_list_found in E. destruct E as [E1 E2]. split; [|exact E2].
    exists m, l. split; [left; reflexivity|]. split; assumption.
  - apply Hrest.
Qed.

Lemma scan_members_complete i fs ms : forall seen,
  all_iterable fs ms -> (exists x, in_searched fs ms x /\ id_matches i x = true) ->
  exists o, scan_members i fs ms seen = SFound F o.
Proof.
  induction ms as [|m r IH]; intros seen Hit [x [[m' [l [H1 [H2 H3]]]] H4]]; [destruct H1|].
  simpl. destruct (Hit m (or_introl eq_refl)) as [v [Lv Iv]]. rewrite Lv.
  assert (Hit' : all_iterable fs r) by (intros m0 Hm0; apply Hit; right; exact Hm0).
  assert (Hrest : forall s, (forall l0, v = VObjs l0 -> forall o, In o l0 -> id_matches i o = false) ->
                            exists o, scan_members i fs r s = SFound F o).
  { intros s Hno. apply IH; [exact Hit'|]. destruct H1 as [<-|H1].
    - exfalso. rewrite Lv in H2. inversion H2 as [H2']. rewrite (Hno l H2' x H3) in H4. discriminate.
    - exists x. split; [|exact H4]. exists m', l. auto. }
  destruct v as [|s0|z0|f0|o0|l0|rw]; simpl in Iv; try discriminate.
  - apply Hrest. intros l1 E1. discriminate.
  - apply Hrest. intros l1 E1. discriminate.
  - destruct (scan_list i l0 seen) as [o|s] eqn:E; [exists o; reflexivity|].
    apply Hrest. intros l1 E1 o Ho. inversion E1; subst l1. apply scan_list_none in E. destruct E as [E _]. apply E. exact Ho.
  - apply Hrest. intros l1 E1. discriminate.
Qed.

Lemma scan_members_none i fs ms : forall seen,
  all_iterable fs ms -> (forall x, in_searched fs ms x -> id_matches i x = false) ->
  exists extra, scan_members i fs ms seen = SIds F (seen ++ extra)%list /\
                forall v, In v extra -> exists o, in_searched fs ms o /\ id_val o = Some v.
Proof.
  induction ms as [|m r IH]; intros seen Hit Hno.
  - exists []. rewrite app_nil_r. split; [reflexivity|intros v []].
  - simpl. destruct (Hit m (or_introl eq_refl)) as [v [Lv Iv]]. rewrite Lv.
    assert (Hit' : all_iterable fs r) by (intros m0 Hm0; apply Hit; right; exact Hm0).
    assert (Hno' : forall x, in_searched fs r x -> id_matches i x = false).
    { intros x [m' [l [H1 [H2 H3]]]]. apply Hno. exists m', l. split; [right; exact H1|]. split; assumption. }
    assert (Hrest : forall s, exists extra, scan_members i fs r s = SIds F (s ++ extra)%list /\
                      forall v0, In v0 extra -> exists o, in_searched fs (m :: r) o /\ id_val o = Some v0).
    { intro s. destruct (IH s Hit' Hno') as [extra [E1 E2]]. exists extra. split; [exact E1|].
      intros v0 Hv0. destruct (E2 v0 Hv0) as [o [[m' [l [H1 [H2 H3]]]] Ho]]. exists o. split; [|exact Ho].
      exists m', l. split; [right; exact H1|]. split; assumption. }
    destruct v; simpl in Iv; try discriminate; try (apply Hrest).
    destruct (scan_list i l seen) as [o|s] eqn:E.
    + apply scan_list_found in E. destruct E as [E1 E2].
      rewrite (Hno o) in E2; [discriminate|]. exists m, l. split; [left; reflexivity|]. split; assumption.
    + apply scan_list_none in E. destruct E as [_ [ex1 [-> Hex1]]].
      destruct (Hrest (seen ++ ex1)%list) as [ex2 [E1 E2]]. exists (ex1 ++ ex2)%list. split.
      * rewrite E1, app_assoc. reflexivity.
      * intros v0 Hv0. apply in_app_or in Hv0. destruct Hv0 as [Hv0|Hv0]; [|apply E2; exact Hv0].
        destruct (Hex1 v0 Hv0) as [o [Ho1 Ho2]]. exists o. split; [|exact Ho2].
        exists m, l. split; [left; reflexivity|]. split; assumption.
Qed.

(* the result carries the id and is in the document *)
Lemma get_by_id_sound fixed is_doc own d wc i x :
  g_res F (get_by_id fixed is_doc own d wc i) = GFound F x ->
  id_matches i x = true /\ in_searched (o_fields d) own x.
Proof.
  unfold Super.get_by_id. destruct (is_doc && String.eqb i ""); [discriminate|].
  destruct (scan_members i (o_fields d) own []) as [o|ids|] eqn:E; simpl.
  - intro H; inversion H; subst. apply scan_members_found in E. tauto.
  - destruct (Nat.ltb wc 10); [destruct (fixed || sortable F ids)|destruct (Nat.eqb wc 10)]; discriminate.
  - discriminate.
Qed.

(* an existing non-empty id in a searched list is found *)
Lemma get_by_id_complete fixed is_doc own d wc i :
  i <> "" -> all_iterable (o_fields d) own ->
  (exists x, in_searched (o_fields d) own x /\ id_matches i x = true) ->
  exists y, g_res F (get_by_id fixed is_doc own d wc i) = GFound F y.
Proof.
  intros Hi Hit Hex. unfold Super.get_by_id.
  assert (E0 : String.eqb i "" = false) by (apply String.eqb_neq; exact Hi).
  rewrite E0, andb_false_r.
  destruct (scan_members_complete i (o_fields d) own [] Hit Hex) as [o Ho]. rewrite Ho. exists o. reflexivity.
Qed.

(* a Network also finds the empty id (no special case there) *)
Lemma get_by_id_complete_network fixed own d wc i :
  all_iterable (o_fields d) own ->
  (exists x, in_searched (o_fields d) own x /\ id_matches i x = true) ->
  exists y, g_res F (get_by_id fixed false own d wc i) = GFound F y.
Proof.
  intros Hit Hex. unfold Super.get_by_id. simpl.
  destruct (scan_members_complete i (o_fields d) own [] Hit Hex) as [o Ho]. rewrite Ho. exists o. reflexivity.
Qed.

(* no component carries the id: None (repaired code: always; the code as it is: when the ids seen can be sorted,
   or once the warning counter has reached 10) *)
Lemma get_by_id_none fixed is_doc own d wc i :
  all_iterable (o_fields d) own -> (forall x, in_searched (o_fields d) own x -> id_matches i x = false) ->
  (fixed = true \/ (10 <= wc)%nat \/
   forall x v, in_searched (o_fields d) own x -> id_val x = Some v -> is_str F v = true) ->
  g_res F (get_by_id fixed is_doc own d wc i) = GNone F.
Proof.
  intros Hit Hno Hs. unfold Super.get_by_id. destruct (is_doc && String.eqb i ""); [reflexivity|].
  destruct (scan_members_none i (o_fields d) own [] Hit Hno) as [extra [E Hex]]. rewrite E. simpl.
  destruct (Nat.ltb wc 10) eqn:Ew.
  - destruct Hs as [->|[Hs|Hs]]; [reflexivity|apply Nat.ltb_lt in Ew; lia|].
    assert (Hstr : forallb (is_str F) extra = true).
    { apply forallb_forall. intros v Hv. destruct (Hex v Hv) as [o [Ho1 Ho2]]. exact (Hs o v Ho1 Ho2). }
    unfold Super.sortable. rewrite Hstr. rewrite orb_true_r. simpl. rewrite orb_true_r. reflexivity.
  - destruct (Nat.eqb wc 10); reflexivity.
Qed.

(* the warning counter: never beyond 10 once it is at most 10, never decreases, moves by at most one *)
Lemma get_by_id_warn fixed is_doc own d wc i :
  let r := get_by_id fixed is_doc own d wc i in
  (wc <= g_warn F r <= S wc)%nat /\ ((wc <= 10)%nat -> (g_warn F r <= 10)%nat).
Proof.
  unfold Super.get_by_id. destruct (is_doc && String.eqb i ""); simpl; [lia|].
  destruct (scan_members i (o_fields d) own []); simpl; try lia.
  destruct (Nat.ltb wc 10) eqn:Ew.
  - apply Nat.ltb_lt in Ew. destruct (fixed || sortable F l); simpl; lia.
  - destruct (Nat.eqb wc 10); simpl; lia.
Qed.

(* any sequence of lookups on one document keeps the counter within 10 *)
Definition lookups (fixed is_doc : bool) (own : list mspec) (d : obj) (wc : nat) (ids : list string) : nat :=
  fold_left (fun w i => g_warn F (get_by_id fixed is_doc own d w i)) ids wc.

Lemma lookups_bounded fixed is_doc own d ids : forall wc, (wc <= 10)%nat -> (lookups fixed is_doc own d wc ids <= 10)%nat.
Proof.
  induction ids as [|i r IH]; intros wc Hw; [exact Hw|].
  unfold lookups in *. simpl. apply IH. apply (get_by_id_warn fixed is_doc own d wc i). exact Hw.
Qed.

(* ---- histories on one document *)
Notation doc_run := (doc_run F).
Notation mutate := (mutate F).
Notation mutations := (mutations F).

(* look ups never edit the document: after any history it is the original with the edits applied, in order *)
Lemma doc_run_doc fixed is_doc own ops : forall d wc,
  fst (doc_run fixed is_doc own (d, wc) ops) = mutate (mutations ops) d.
Proof.
  induction ops as [|o r IH]; intros d wc; [reflexivity|].
  unfold Super.doc_run in *. simpl. destruct o as [f|i]; simpl; apply IH.
Qed.

Lemma doc_run_counter fixed is_doc own ops : forall d wc,
  (wc <= 10)%nat -> (snd (doc_run fixed is_doc own (d, wc) ops) <= 10)%nat.
Proof.
  induction ops as [|o r IH]; intros d wc Hw; [exact Hw|].
  unfold Super.doc_run in *. simpl. destruct o as [f|i]; simpl; apply IH; [exact Hw|].
  apply (get_by_id_warn fixed is_doc own d wc i). exact Hw.
Qed.

(* repaired code: the answer does not depend on the counter at all *)
Lemma get_by_id_res_counter is_doc own d wc wc' i :
  g_res F (get_by_id true is_doc own d wc i) = g_res F (get_by_id true is_doc own d wc' i).
Proof.
  unfold Super.get_by_id. destruct (is_doc && String.eqb i ""); [reflexivity|].
  destruct (scan_members i (o_fields d) own []); simpl; try reflexivity.
  destruct (Nat.ltb wc 10), (Nat.ltb wc' 10); simpl;
    try destruct (Nat.eqb wc 10); try destruct (Nat.eqb wc' 10); reflexivity.
Qed.

(* get_by_id after ANY sequence of edits and earlier look ups = the model on the document as it is now:
   nothing an earlier look up found or missed is remembered *)
Lemma get_by_id_history is_doc own ops d wc i :
  let st := doc_run true is_doc own (d, wc) ops in
  g_res F (get_by_id true is_doc own (fst st) (snd st) i)
  = g_res F (get_by_id true is_doc own (mutate (mutations ops) d) 0 i).
Proof.
  simpl. rewrite doc_run_doc. apply get_by_id_res_counter.
Qed.

(* code as it is: the same, the counter being the only state carried along *)
Lemma get_by_id_history_orig fixed is_doc own ops d wc i :
  let st := doc_run fixed is_doc own (d, wc) ops in
  get_by_id fixed is_doc own (fst st) (snd st) i
  = get_by_id fixed is_doc own (mutate (mutations ops) d) (snd st) i.
Proof. simpl. rewrite doc_run_doc. reflexivity. Qed.

(* the specification after any history, about the document as it is NOW *)
Lemma get_by_id_history_spec is_doc own ops d wc i :
  let st := doc_run true is_doc own (d, wc) ops in
  let now := mutate (mutations ops) d in
  let r := g_res F (get_by_id true is_doc own (fst st) (snd st) i) in
  (forall x, r = GFound F x -> id_matches i x = true /\ in_searched (o_fields now) own x) /\
  (i <> "" -> all_iterable (o_fields now) own ->
   (exists x, in_searched (o_fields now) own x /\ id_matches i x = true) -> exists y, r = GFound F y) /\
  (all_iterable (o_fields now) own -> (forall x, in_searched (o_fields now) own x -> id_matches i x = false) ->
   r = GNone F).
Proof.
  simpl. rewrite get_by_id_history. split; [|split].
  - intros x H. exact (get_by_id_sound true is_doc own _ 0 i x H).
  - intros Hi Hit Hex. exact (get_by_id_complete true is_doc own _ 0 i Hi Hit Hex).
  - intros Hit Hno. apply get_by_id_none; auto.
Qed.

End GetById.
