(* C15, part D: the invariant of the cell builder, its preservation by every operation (C15_step),
   by every operation sequence (induction over the list), and what it gives after the documented
   closing step reorder + optimise. *)
From Coq Require Import String List ZArith Bool Arith Lia Permutation.
From LNML Require Import Model.Groups Model.Builder Proofs.GroupsP Proofs.GroupsSortP Proofs.GroupsC14P
     Proofs.BuilderSegP Proofs.BuilderGroupP Proofs.BuilderOrderP.
Import ListNotations.
Open Scope string_scope.

Definition Inv (c : cell) : Prop :=
  SInv c /\ GStruct (groups c) /\ Sound (segs c) (groups c) /\ Complete (segs c) (groups c).

(* ------------------------------------------------------------------ the two initial cells *)
Lemma Inv_init_bare : Inv init_bare.
Proof.
  unfold Inv, init_bare, SInv, GStruct, Sound, Complete, roles_ok, ids; simpl.
  repeat split; try constructor; try (intros; contradiction); auto.
Qed.

Lemma Inv_init_factory : Inv init_factory.
Proof.
  unfold Inv, init_factory, SInv, roles_ok, ids; simpl. split; [|split; [|split]].
  - repeat split; try constructor; intros; contradiction.
  - unfold GStruct; simpl. split; [repeat constructor; simpl; intuition discriminate|].
    split; [intuition discriminate|]. split.
    + intros g [H|[H|[]]] _; subst; reflexivity.
    + intros g i [H|[H|[]]] Hi; subst; simpl in Hi; contradiction.
  - intros g [H|[H|[]]]; subst; simpl; split; intros x [].
  - intros s t [].
Qed.

(* ------------------------------------------------------------------ graph hypotheses of C14 from GStruct *)
Definition brank (a : string) : nat := if is_default a then 1 else 0.

Lemma GStruct_acyclic : forall G, GStruct G -> acyclic G.
Proof.
  intros G [_ [_ [Hu Hd]]]. exists brank. intros g i Hg Hi. unfold brank.
  destruct (Hd g i Hg Hi) as [Hi0 _]. rewrite Hi0.
  destruct (is_default (gid g)) eqn:E; [lia|]. rewrite (Hu g Hg E) in Hi. contradiction.
Qed.

Lemma GStruct_closed : forall G, GStruct G -> closed G.
Proof. intros G [_ [_ [_ Hd]]] g i Hg Hi. left. apply (Hd g i Hg Hi). Qed.

(* ------------------------------------------------------------------ optimise *)
Lemma Inv_optimise : forall c c', Inv c -> optimise c = BRet c' -> Inv c'.
Proof.
  intros c c' [HS [HG [Hso Hco]]] H. destruct (optimise_shape c c' H) as [Es [_ Ho]].
  pose proof (optimise_all_equiv natsortS isortZ natsortS_perm isortZ_perm (ids c) _ _ _ (GStruct_acyclic _ HG) Ho) as Heq.
  split; [eapply SInv_same_segs; eassumption|]. rewrite Es.
  split; [eapply GStruct_same_shape; [apply Heq | exact HG]|].
  split; [eapply Sound_same_shape; [apply Heq | exact Hso]|].
  eapply Complete_equiv; eassumption.
Qed.

Lemma optimise_total : forall c, Inv c -> exists c', optimise c = BRet c'.
Proof.
  intros c [_ [HG _]]. unfold optimise.
  destruct (optimise_all_total natsortS isortZ natsortS_perm isortZ_perm (ids c) (default_fuel (groups c)) (groups c))
    as [G' HG'].
  - apply GStruct_acyclic; exact HG.
  - apply GStruct_closed; exact HG.
  - unfold default_fuel. lia.
  - apply HG.
  - unfold optimise_all_c. rewrite HG'. simpl. eexists; reflexivity.
Qed.

(* ------------------------------------------------------------------ reorder, add_segment_group, set_prop *)
Lemma Inv_reorder : forall c, Inv c -> Inv (mkCell (segs c) (reorder (groups c)) (props c)).
Proof.
  intros c [HS [HG [Hso Hco]]]. assert (HP : Permutation (groups c) (reorder (groups c))) by (apply Permutation_sym, reorder_perm).
  split; [eapply SInv_same_segs; [|exact HS]; reflexivity|]. simpl.
  split; [apply GStruct_reorder; exact HG|].
  split; [eapply Sound_perm; eassumption|].
  eapply Complete_grow; [apply grow_perm; [exact HP | apply HG] | exact Hco].
Qed.

Lemma Inv_add_group : forall c a nl, Inv c -> a <> "" -> Inv (add_segment_group c a nl).
Proof.
  intros c a nl [HS [HG [Hso Hco]]] Ha. unfold add_segment_group.
  split; [eapply SInv_same_segs; [|exact HS]; reflexivity|]. simpl.
  split; [apply GStruct_ensure; assumption|].
  split; [apply Sound_ensure; exact Hso|].
  eapply Complete_grow; [apply grow_ensure | exact Hco].
Qed.

Lemma Inv_set_prop : forall c k v valid g c', Inv c -> set_prop c k v valid g = BRet c' -> Inv c'.
Proof.
  intros c k v valid g c' HI H. unfold set_prop in H.
  assert (Hk : forall p, (if existsb (prop_eqb p) (props c) then c else mkCell (segs c) (groups c) (props c ++ [p])) = c' -> Inv c').
  { intros p E. destruct (existsb (prop_eqb p) (props c)); subst c'; [exact HI|].
    destruct HI as [HS [HG [Hso Hco]]]. split; [eapply SInv_same_segs; [|exact HS]; reflexivity | simpl; auto]. }
  destruct k.
  - injection H as E. eapply Hk. exact E.
  - injection H as E. eapply Hk. exact E.
  - injection H as E. eapply Hk. exact E.
  - injection H as E. eapply Hk. exact E.
  - destruct (negb valid); [discriminate|]. injection H as E. eapply Hk. exact E.
Qed.

(* ------------------------------------------------------------------ add_segment *)
Lemma opt_group_nonempty : forall group g, opt_group group = Some g -> g <> "".
Proof.
  intros group g H. unfold opt_group in H. destruct group as [x|]; [|discriminate].
  destruct (String.eqb x "") eqn:E; [discriminate|]. inversion H; subst. apply String.eqb_neq. exact E.
Qed.

Definition seg_ok (c : cell) (group : option string) (conv : bool) (ty : option string) : bool :=
  match opt_group group with
  | Some g => group_ok c g (tag_of conv ty)
  | None => true
  end.

Lemma group_ok_spec : forall c g tag, group_ok c g tag = true ->
  (is_default g = false /\ role_free c g tag = true) \/ (g = "all" /\ tag <> None) \/
  (exists t, g = dname t /\ tag = Some t).
Proof.
  intros c g tag H. unfold group_ok in H. destruct (String.eqb g "all") eqn:Ea.
  - apply String.eqb_eq in Ea. right. left. split; [exact Ea|]. destruct tag; [discriminate | discriminate].
  - destruct (is_default g) eqn:Ed.
    + destruct tag as [t|]; [|discriminate]. apply String.eqb_eq in H. right. right. exists t. split; [exact H | reflexivity].
    + left. split; [reflexivity | exact H].
Qed.

Lemma Inv_add_segment : forall c prox seg_id name parent frac group conv ty reord opt c',
  Inv c -> seg_ok c group conv ty = true ->
  add_segment true c prox seg_id name parent frac group conv ty reord opt = BRet c' ->
  Inv c' /\ seg_ok c' group conv ty = true.
Proof.
  intros c prox seg_id name parent frac group conv ty reord opt c' [HS [HG [Hso Hco]]] Hok H.
  destruct (add_segment_shape _ _ _ _ _ _ _ _ _ _ _ _ H) as [i [sp [nm [tag [Hfresh [Hpar [Htag [_ Hrest]]]]]]]].
  set (s := mkSeg i sp prox nm tag (opt_group group)) in *.
  set (S' := (segs c ++ [s])%list) in *.
  set (G' := seg_groups true (groups c) (opt_group group) i tag reord) in *.
  set (c1 := mkCell S' G' (props c)) in *.
  assert (Hgok : forall g, sgrp s = Some g -> g <> "" /\ group_ok c g (stag s) = true).
  { intros g E. simpl in E. unfold seg_ok in Hok. rewrite E in Hok.
    split; [eapply opt_group_nonempty; exact E|]. simpl. rewrite Htag. exact Hok. }
  assert (HsS : In s S') by (unfold S'; apply in_or_app; right; left; reflexivity).
  assert (Hso' : Sound S' (groups c)) by (eapply Sound_mono; [|exact Hso]; unfold S'; apply incl_appl, incl_refl).
  destruct (seg_groups_inv S' (groups c) s reord HG Hso' HsS) as [HG1 [Hso1 [Hgr1 Hnew]]].
  { intros g E. destruct (Hgok g E) as [A B]. split; [exact A|].
    destruct (group_ok_spec _ _ _ B) as [[D _]|[[Ea Et]|[t [Ed Et]]]]; [left; exact D | right; left; split; assumption | right; right; exists t; split; assumption]. }
  change (seg_groups true (groups c) (sgrp s) (sid s) (stag s) reord) with G' in *.
  assert (HI1 : Inv c1).
  { split; [|split; [exact HG1 | split; [exact Hso1|]]].
    - unfold c1, S'. apply SInv_app; [exact HS | exact Hfresh | exact Hpar |].
      intros g E Hd. destruct (Hgok g E) as [_ B]. unfold group_ok in B.
      destruct (String.eqb g "all") eqn:Ea; [apply String.eqb_eq in Ea; subst g; discriminate|].
      rewrite Hd in B. exact B.
    - intros x t Hx Ht. unfold c1 in Hx; simpl in Hx. unfold S' in Hx. apply in_app_or in Hx.
      destruct Hx as [Hx|[Hx|[]]].
      + destruct (Hco x t Hx Ht) as [A B]. split; eapply preach_grow; eassumption.
      + subst x. apply Hnew. exact Ht. }
  assert (Hok1 : seg_ok c1 group conv ty = true).
  { unfold seg_ok in *. destruct (opt_group group) as [g|] eqn:Eg; [|reflexivity].
    unfold group_ok in *. destruct (String.eqb g "all"); [exact Hok|]. destruct (is_default g); [exact Hok|].
    unfold role_free in *. unfold c1, S'; simpl. rewrite forallb_app. rewrite Hok. simpl.
    rewrite String.eqb_refl. rewrite Htag. destruct (tag_of conv ty) as [t|]; [destruct t|]; reflexivity. }
  destruct opt.
  - split; [eapply Inv_optimise; eassumption|].
    destruct (optimise_shape _ _ Hrest) as [Es _]. unfold seg_ok, group_ok, role_free in *. rewrite Es. exact Hok1.
  - simpl in Hrest. rewrite Hrest. split; assumption.
Qed.

Lemma Inv_add_rest : forall k c group conv ty c',
  Inv c -> seg_ok c group conv ty = true -> add_rest true k c group conv ty = BRet c' ->
  Inv c' /\ seg_ok c' group conv ty = true.
Proof.
  induction k as [|k IH]; intros c group conv ty c' HI Hok H; simpl in H.
  - inversion H; subst. split; assumption.
  - destruct (add_segment true c true None None (Some (length (segs c) - 1)) 4 group conv ty false true) as [c1|e] eqn:E; [|discriminate].
    destruct (Inv_add_segment _ _ _ _ _ _ _ _ _ _ _ _ HI Hok E) as [HI1 Hok1].
    eapply IH; eassumption.
Qed.

Lemma seg_ok_same_segs : forall c c' group conv ty, segs c' = segs c -> seg_ok c group conv ty = seg_ok c' group conv ty.
Proof. intros c c' group conv ty E. unfold seg_ok, group_ok, role_free. rewrite E. reflexivity. Qed.

Lemma Inv_add_unbranched : forall c np parent frac group conv ty reord opt c',
  Inv c -> seg_ok c group conv ty = true ->
  add_unbranched true c np parent frac group conv ty reord opt = BRet c' -> Inv c'.
Proof.
  intros c np parent frac group conv ty reord opt c' HI Hok H. unfold add_unbranched in H.
  destruct (Nat.ltb np 2); [discriminate|].
  set (gname := match group with Some g => g | None => "" end) in *.
  destruct (string_dec gname "") as [Eg|Eg].
  { (* the call cannot return: the group "" is never found at the end *)
    exfalso. rewrite Eg in H.
    destruct (add_segment true _ true None None parent frac group conv ty false true) as [c1|e]; [|discriminate].
    destruct (add_rest true (np - 2) c1 group conv ty) as [c2|e]; [|discriminate].
    destruct (if opt then _ else _) as [c4|e]; [|discriminate].
    unfold get_group in H. simpl in H. discriminate. }
  set (c0 := add_segment_group c gname (Some section_nlex)) in *.
  assert (HI0 : Inv c0) by (apply Inv_add_group; assumption).
  assert (Hok0 : seg_ok c0 group conv ty = true) by (rewrite <- (seg_ok_same_segs c c0); [exact Hok | reflexivity]).
  destruct (add_segment true c0 true None None parent frac group conv ty false true) as [c1|e] eqn:E1; [|discriminate].
  destruct (Inv_add_segment _ _ _ _ _ _ _ _ _ _ _ _ HI0 Hok0 E1) as [HI1 Hok1].
  destruct (add_rest true (np - 2) c1 group conv ty) as [c2|e] eqn:E2; [|discriminate].
  destruct (Inv_add_rest _ _ _ _ _ _ HI1 Hok1 E2) as [HI2 _].
  set (c3 := if reord then mkCell (segs c2) (reorder (groups c2)) (props c2) else c2) in *.
  assert (HI3 : Inv c3) by (unfold c3; destruct reord; [apply Inv_reorder; exact HI2 | exact HI2]).
  destruct opt.
  - destruct (optimise c3) as [c4|e] eqn:E4; [|discriminate].
    destruct (get_group (groups c4) gname); [|discriminate]. inversion H; subst. eapply Inv_optimise; eassumption.
  - destruct (get_group (groups c3) gname); [|discriminate]. inversion H; subst. exact HI3.
Qed.

(* ------------------------------------------------------------------ one operation, any sequence *)
Theorem Inv_step : forall c o c', Inv c -> op_ok c o = true -> step true c o = BRet c' -> Inv c'.
Proof.
  intros c o c' HI Hok H. destruct o; simpl in H.
  - eapply Inv_add_segment; [exact HI | exact Hok | exact H].
  - eapply Inv_add_unbranched; [exact HI | exact Hok | exact H].
  - inversion H; subst. simpl in Hok.
    apply Inv_add_group; [exact HI|]. apply String.eqb_neq. apply negb_true_iff. exact Hok.
  - inversion H; subst. simpl in Hok.
    apply Inv_add_group; [exact HI|]. apply String.eqb_neq. apply negb_true_iff. exact Hok.
  - inversion H; subst. apply Inv_reorder. exact HI.
  - eapply Inv_optimise; eassumption.
  - eapply Inv_set_prop; eassumption.
  - inversion H; subst. destruct HI as [HS [HG [Hso Hco]]].
    split; [eapply SInv_same_segs; [|exact HS]; reflexivity | simpl; auto].
Qed.

Theorem Inv_run : forall ops c c', Inv c -> run_ok true ops c = true -> run true ops c = BRet c' -> Inv c'.
Proof.
  induction ops as [|o ops IH]; intros c c' HI Hok H; simpl in *.
  - inversion H; subst. exact HI.
  - apply andb_true_iff in Hok. destruct Hok as [Ho Hr].
    destruct (step true c o) as [c1|e] eqn:E; [|discriminate].
    eapply IH; [eapply Inv_step; eassumption | exact Hr | exact H].
Qed.

(* ------------------------------------------------------------------ what the invariant means *)
Lemma tagged_in : forall t c m, In m (tagged t c) <-> exists s, In s (segs c) /\ sid s = m /\ stag s = Some t.
Proof.
  intros t c m. unfold tagged. rewrite in_map_iff. split.
  - intros [s [Hs Hf]]. apply filter_In in Hf. destruct Hf as [Hin Hf]. exists s. split; [exact Hin|]. split; [exact Hs|].
    destruct (stag s) as [t'|]; [|discriminate]. destruct t, t'; simpl in Hf; try discriminate; reflexivity.
  - intros [s [Hin [Hs Ht]]]. exists s. split; [exact Hs|]. apply filter_In. split; [exact Hin|]. rewrite Ht.
    destruct t; reflexivity.
Qed.

Lemma conv_in : forall c m, In m (conv_ids c) <-> exists s, In s (segs c) /\ sid s = m /\ stag s <> None.
Proof.
  intros c m. unfold conv_ids. rewrite in_map_iff. split.
  - intros [s [Hs Hf]]. apply filter_In in Hf. destruct Hf as [Hin Hf]. exists s. split; [exact Hin|]. split; [exact Hs|].
    destruct (stag s); [discriminate | discriminate].
  - intros [s [Hin [Hs Ht]]]. exists s. split; [exact Hs|]. apply filter_In. split; [exact Hin|].
    destruct (stag s); [reflexivity | congruence].
Qed.

(* a default group resolves to exactly the segments of its role *)
Lemma reach_default_sound : forall c a m,
  Inv c -> is_default a = true -> reach (ids c) (groups c) a m -> lookup (groups c) a <> None ->
  exists s, In s (segs c) /\ sid s = m /\
            ((a = "all" /\ stag s <> None) \/ (exists t, a = dname t /\ stag s = Some t)).
Proof.
  intros c a m [[_ [_ Hroles]] [HG [Hso _]]] Hd Hr Hl.
  destruct HG as [Hn [Hne [Hu Hdd]]].
  inversion Hr as [a' g s' Hlg Hm Ea Es | a' g i s' Hlg Hi Hri Ea Es | s' Hlg Hs Ea Es]; subst.
  - destruct (lookup_some _ _ _ Hlg) as [HgG Hga]. destruct (Hso g HgG) as [Hmj _].
    destruct (Hmj m Hm) as [s [Hs [Hsid R]]]. rewrite Hga in R. exists s. split; [exact Hs|]. split; [exact Hsid|].
    destruct R as [[R _]|R]; [congruence | exact R].
  - destruct (lookup_some _ _ _ Hlg) as [HgG Hga]. destruct (Hso g HgG) as [_ Hij].
    destruct (Hij i Hi) as [s' [Hs' [Hgrp' R']]]. rewrite Hga in R'.
    destruct (Hdd g i HgG Hi) as [Hind Hiin].
    (* i is a user group: m is one of its members *)
    inversion Hri as [i' gi s2 Hli Hmi Ei Es2 | i' gi j s2 Hli Hj Hrj Ei Es2 | s2 Hli Hs2 Ei Es2]; subst.
    + destruct (lookup_some _ _ _ Hli) as [HgiG Hgii]. destruct (Hso gi HgiG) as [Hmj _].
      destruct (Hmj m Hmi) as [s [Hs [Hsid R]]]. rewrite Hgii in R.
      assert (Hsg : sgrp s = Some i).
      { destruct R as [[_ R]|[[R _]|[t [R _]]]].
        - exact R.
        - exfalso. rewrite R in Hind. simpl in Hind. discriminate Hind.
        - exfalso. rewrite R in Hind. rewrite dname_default in Hind. discriminate Hind. }
      exists s. split; [exact Hs|]. split; [exact Hsid|].
      rewrite (Hroles s s' i Hs Hs' Hind Hsg Hgrp'). exact R'.
    + destruct (lookup_some _ _ _ Hli) as [HgiG Hgii]. rewrite <- Hgii in Hind. rewrite (Hu gi HgiG Hind) in Hj. contradiction.
    + discriminate.
  - congruence.
Qed.

Lemma same_set_iff : forall a b, (forall x, In x a <-> In x b) -> same_set a b = true.
Proof.
  intros a b H. unfold same_set. apply andb_true_iff. split; apply forallb_forall; intros x Hx; apply memZ_iff; apply H; exact Hx.
Qed.

Lemma nodupZb_NoDup : forall l, NoDup l -> nodupZb l = true.
Proof. intros l H. unfold nodupZb. rewrite (dedupZ_id l H). apply Nat.eqb_refl. Qed.

Lemma resolves_to_intro : forall c a want,
  Inv c -> (In a (map gid (groups c)) \/ a = "all") ->
  (forall m, reach (ids c) (groups c) a m <-> In m want) -> resolves_to c a want = true.
Proof.
  intros c a want HI Ha Hiff. destruct HI as [[Hnd _] [HG _]].
  destruct (closure (ids c) (groups c) (default_fuel (groups c)) a (GStruct_acyclic _ HG) (GStruct_closed _ HG) Hnd)
    as [l [Hl [Hndl Hls]]]; [unfold default_fuel; lia | exact Ha|].
  unfold resolves_to. rewrite Hl. apply andb_true_iff. split; [apply nodupZb_NoDup; exact Hndl|].
  apply same_set_iff. intros x. rewrite Hls. apply Hiff.
Qed.

Lemma default_ok_inv : forall c t, Inv c -> default_ok c t = true.
Proof.
  intros c t HI. unfold default_ok. destruct (lookup (groups c) (dname t)) as [g|] eqn:El.
  - apply resolves_to_intro; [exact HI | left; destruct (lookup_some _ _ _ El) as [Hin Hid]; apply in_map_iff; exists g; split; assumption|].
    intros m. rewrite tagged_in. split.
    + intros Hr. destruct (reach_default_sound c (dname t) m HI (dname_default t) Hr) as [s [Hs [Hsid R]]]; [congruence|].
      exists s. split; [exact Hs|]. split; [exact Hsid|].
      destruct R as [[R _]|[t' [R Ht]]]; [exfalso; exact (dname_not_all t R)|]. apply dname_inj in R. subst t'. exact Ht.
    + intros [s [Hs [Hsid Ht]]]. destruct HI as [_ [_ [_ Hco]]]. destruct (Hco s t Hs Ht) as [A _].
      rewrite <- Hsid. apply preach_reach. exact A.
  - destruct (tagged t c) as [|m r] eqn:Et; [reflexivity|]. exfalso.
    assert (Hm : In m (tagged t c)) by (rewrite Et; left; reflexivity).
    apply tagged_in in Hm. destruct Hm as [s [Hs [_ Ht]]]. destruct HI as [_ [_ [_ Hco]]].
    destruct (Hco s t Hs Ht) as [A _]. apply preach_lookup in A. congruence.
Qed.

Lemma all_ok_inv : forall c, Inv c -> all_ok c = true.
Proof.
  intros c HI. unfold all_ok. destruct (lookup (groups c) "all") as [g|] eqn:El.
  - apply resolves_to_intro; [exact HI | right; reflexivity|].
    intros m. rewrite conv_in. split.
    + intros Hr. destruct (reach_default_sound c "all" m HI eq_refl Hr) as [s [Hs [Hsid R]]]; [congruence|].
      exists s. split; [exact Hs|]. split; [exact Hsid|].
      destruct R as [[_ R]|[t' [R Ht]]]; [exact R | exfalso; exact (dname_not_all t' (eq_sym R))].
    + intros [s [Hs [Hsid Ht]]]. destruct HI as [_ [_ [_ Hco]]].
      destruct (stag s) as [t|] eqn:Est; [|congruence]. destruct (Hco s t Hs Est) as [_ A].
      rewrite <- Hsid. apply preach_reach. exact A.
  - destruct (conv_ids c) as [|m r] eqn:Ec.
    + apply resolves_to_intro; [exact HI | right; reflexivity|].
      intros m. split.
      * intros Hr. inversion Hr as [a' g s' Hlg Hm Ea Es | a' g i s' Hlg Hi Hri Ea Es | s' Hlg Hs Ea Es]; subst; congruence.
      * intros Hm. apply reach_all; assumption.
    + exfalso. assert (Hm : In m (conv_ids c)) by (rewrite Ec; left; reflexivity).
      apply conv_in in Hm. destruct Hm as [s [Hs [_ Ht]]]. destruct HI as [_ [_ [_ Hco]]].
      destruct (stag s) as [t|] eqn:Est; [|congruence]. destruct (Hco s t Hs Est) as [_ A].
      apply preach_lookup in A. congruence.
Qed.

Lemma parents_ok_inv : forall c, Inv c -> parents_ok c = true.
Proof.
  intros c [[_ [Hp _]] _]. unfold parents_ok. apply forallb_forall. intros s Hs.
  destruct (spar s) as [[p f]|] eqn:E; [|reflexivity]. apply memZ_iff. eapply Hp; eassumption.
Qed.

(* ------------------------------------------------------------------ the closing step and the theorem *)
Theorem finish_wellformed : forall c, Inv c -> exists c', finish c = BRet c' /\ Inv c' /\ wellformed c' = true.
Proof.
  intros c HI. unfold finish.
  pose proof (Inv_reorder c HI) as HI1.
  destruct (optimise_total _ HI1) as [c' Hc']. exists c'. split; [exact Hc'|].
  pose proof (Inv_optimise _ _ HI1 Hc') as HI2. split; [exact HI2|].
  unfold wellformed. repeat (apply andb_true_iff; split).
  - apply nodupZb_NoDup. apply HI2.
  - apply parents_ok_inv; exact HI2.
  - apply all_ok_inv; exact HI2.
  - apply default_ok_inv; exact HI2.
  - apply default_ok_inv; exact HI2.
  - apply default_ok_inv; exact HI2.
  - destruct (optimise_shape _ _ Hc') as [_ [_ Ho]]. simpl in Ho.
    destruct HI1 as [_ [HG1 _]]. simpl in HG1.
    pose proof (optimise_all_equiv natsortS isortZ natsortS_perm isortZ_perm _ _ _ _ (GStruct_acyclic _ HG1) Ho) as [Hss _].
    unfold ordered. eapply ordered_same_shape; [exact Hss|]. apply reorder_ordered. apply HI.
Qed.

Theorem builder_reach : forall factory ops c,
  run true ops (init_of factory) = BRet c -> run_ok true ops (init_of factory) = true ->
  exists c', finish c = BRet c' /\ wellformed c' = true.
Proof.
  intros factory ops c Hrun Hok.
  assert (HI0 : Inv (init_of factory)) by (destruct factory; [apply Inv_init_factory | apply Inv_init_bare]).
  destruct (finish_wellformed c (Inv_run ops _ _ HI0 Hok Hrun)) as [c' [H1 [_ H2]]]. exists c'. split; assumption.
Qed.
