(* C05 proofs: a layout that meets the boolean obligations round-trips every row, every table of any length, and every
   construct (rows re-sorted into element lists by the builder), up to float32 rounding of the cells.
   PyTables, float32 and python's int()/== are Section variables with the hypotheses listed below. *)
From Coq Require Import String List Bool Arith Lia Permutation ZArith.
From LNML Require Import Model.H5.
Import ListNotations.
Open Scope string_scope.

(* ------------------------------------------------------------------ list helpers *)
Lemma mem_In s l : mem s l = true <-> In s l.
Proof.
  induction l as [|x t IH]; simpl; [split; [discriminate|tauto]|].
  rewrite orb_true_iff, IH, String.eqb_eq. split; intros [H|H]; auto.
Qed.

Lemma ostr_eqb_eq a b : ostr_eqb a b = true -> a = b.
Proof. destruct a, b; simpl; try discriminate; auto. intro H. apply String.eqb_eq in H. congruence. Qed.

Lemma cst_eqb_eq a b : cst_eqb a b = true <-> a = b.
Proof. destruct a, b; simpl; split; intro; try discriminate; auto. Qed.

Lemma ocst_eqb_eq a b : ocst_eqb a b = true -> a = b.
Proof. destruct a, b; simpl; try discriminate; auto. intro H. apply cst_eqb_eq in H. congruence. Qed.

Lemma dflt_eqb_eq a b : dflt_eqb a b = true -> a = b.
Proof. destruct a, b; simpl; try discriminate; auto. intro H. apply cst_eqb_eq in H. congruence. Qed.

Lemma filter_filter_same {A} (p : A -> bool) l : filter p (filter p l) = filter p l.
Proof. induction l as [|x t IH]; simpl; auto. destruct (p x) eqn:E; simpl; rewrite ?E, IH; auto. Qed.

Lemma filter_filter_neg {A} (p : A -> bool) l : filter p (filter (fun x => negb (p x)) l) = [].
Proof. induction l as [|x t IH]; simpl; auto. destruct (p x) eqn:E; simpl; rewrite ?E; auto. Qed.

Lemma filter_neg_filter {A} (p : A -> bool) l : filter (fun x => negb (p x)) (filter p l) = [].
Proof. induction l as [|x t IH]; simpl; auto. destruct (p x) eqn:E; simpl; rewrite ?E; auto. Qed.

Lemma filter_neg_neg {A} (p : A -> bool) l :
  filter (fun x => negb (p x)) (filter (fun x => negb (p x)) l) = filter (fun x => negb (p x)) l.
Proof. apply filter_filter_same. Qed.

Lemma filter_all {A} (p : A -> bool) l : (forall x, In x l -> p x = true) -> filter p l = l.
Proof.
  induction l as [|x t IH]; simpl; auto. intro H. rewrite (H x (or_introl eq_refl)). f_equal. auto.
Qed.

Lemma filter_none {A} (p : A -> bool) l : (forall x, In x l -> p x = false) -> filter p l = [].
Proof.
  induction l as [|x t IH]; simpl; auto. intro H. rewrite (H x (or_introl eq_refl)). auto.
Qed.

Lemma find_col_bound names n : forall j k, find_col names n j = Some k -> j <= k /\ k - j < length names.
Proof.
  induction names as [|[x|] t IH]; simpl; intros j k H; try discriminate.
  - destruct (String.eqb x n). + inversion H; subst. lia. + apply IH in H. lia.
  - apply IH in H. lia.
Qed.

Section Proofs.
  Variable F : Type.
  Variables (r32 rint : F -> F) (cval : cst -> F) (ofnat : nat -> F) (other : F) (weq : F -> F -> bool) (isint : F -> bool).
  (* what is assumed of float32 cells, python's int() and == *)
  Hypothesis rint_r32 : forall x, isint x = true -> rint (r32 x) = r32 x.   (* int() of a stored integer is that integer *)
  Hypothesis rint_cst : forall c, c <> CHalf -> rint (cval c) = cval c.
  Hypothesis r32_cst : forall c, r32 (cval c) = cval c.                       (* 0, 1, 1/2, -1 are float32 numbers *)
  Hypothesis weq_spec : forall x y, weq x y = true <-> x = y.

  Notation sem_row := (sem_row F).
  Notation encode_row := (encode_row F r32 cval).
  Notation decode_arg := (decode_arg F rint cval ofnat other).
  Notation decode_field := (decode_field F rint cval ofnat other).
  Notation decode_sem := (decode_sem F rint cval ofnat other).
  Notation decode_table := (decode_table F rint cval ofnat other).
  Notation encode_table := (encode_table F r32 cval).
  Notation sem32_of := (sem32_of F r32).
  Notation unitw := (unitw F cval weq).
  Notation zerod := (zerod F cval weq).
  Notation canon := (canon F cval weq).
  Notation classify := (classify F cval weq).
  Notation rebuild := (rebuild F cval weq).
  Notation sem_rows := (sem_rows F cval weq).
  Notation load_rows := (load_rows F rint cval ofnat other weq).
  Notation write_rows := (write_rows F r32 cval).

  (* a row is well typed when its integer fields hold integers *)
  Definition typed (fields : sem_row) : Prop := forall f, int_field f = true -> isint (fields f) = true.
  (* the fields a table does not store hold their semantic default in this row (that is how the writer chooses the
     table: no weight column <-> no weighted entry, no segment/fraction columns <-> all of them at 0 / 0.5) *)
  Definition defaults_ok (cols : list src) (fields : sem_row) : Prop :=
    forall f c, field_stored cols f = false -> sem_default f = Some c -> fields f = cval c.

  Lemma nth_encode cols fields j s :
    nth_error cols j = Some s -> nth_error (encode_row cols fields) j = Some (encode_cell F r32 cval fields s).
  Proof. intro H. unfold H5.encode_row. rewrite nth_error_map, H. reflexivity. Qed.

  (* ---------------------------------------------------------------- one cell *)
  Lemma decode_arg_ok kind names cols pe f fields i :
    pe_ok kind names cols pe = true -> field_of kind (pe_arg pe) = Some f ->
    typed fields -> defaults_ok cols fields ->
    field_stored cols f = true \/ sem_default f <> None ->
    decode_arg names pe i (encode_row cols fields) = Some (r32 (fields f)).
  Proof.
    intros Hok Hf Hty Hdef Hheld. unfold pe_ok in Hok. rewrite Hf in Hok. unfold H5.decode_arg.
    destruct (find_col names (pe_name pe) 0) as [j|] eqn:Ej.
    - apply andb_true_iff in Hok as [Hg Hc]. rewrite Hg.
      destruct (nth_error cols j) as [[g|c]|] eqn:En; try discriminate.
      + apply andb_true_iff in Hc as [Hgf Hint]. apply String.eqb_eq in Hgf. subst g.
        rewrite (nth_encode _ _ _ _ En). simpl. f_equal.
        destruct (pe_int pe); [|reflexivity]. simpl in Hint. apply rint_r32. apply Hty. exact Hint.
      + apply andb_true_iff in Hc as [Hc Hint]. apply andb_true_iff in Hc as [Hns Hd].
        apply negb_true_iff in Hns. apply ocst_eqb_eq in Hd.
        rewrite (nth_encode _ _ _ _ En). simpl. rewrite (Hdef f c Hns Hd), r32_cst. f_equal.
        destruct (pe_int pe); [|reflexivity]. simpl in Hint. apply rint_cst. intro E. subst c. discriminate.
    - apply andb_true_iff in Hok as [Hns Hd]. apply negb_true_iff in Hns.
      destruct (sem_default f) as [c|] eqn:Ed.
      + apply dflt_eqb_eq in Hd. rewrite Hd. simpl. rewrite (Hdef f c Hns Ed), r32_cst. reflexivity.
      + destruct Hheld as [H|H]; congruence.
  Qed.

  (* ---------------------------------------------------------------- one semantic field, one row *)
  Lemma decode_field_ok kind rargs names cols fields i f :
    variant_ok kind rargs names cols = true -> args_cover kind rargs = true -> In f (sfields kind) ->
    typed fields -> defaults_ok cols fields ->
    decode_field kind names rargs i (encode_row cols fields) f = Some (r32 (fields f)).
  Proof.
    intros Hv Hcov Hin Hty Hdef. unfold variant_ok in Hv.
    apply andb_true_iff in Hv as [Hv Hheld]. apply andb_true_iff in Hv as [Hv _]. apply andb_true_iff in Hv as [_ Hpe].
    unfold H5.decode_field.
    destruct (find (fun pe => ostr_eqb (field_of kind (pe_arg pe)) (Some f)) rargs) as [pe|] eqn:Efind.
    - apply find_some in Efind as [Hinpe Hfo]. apply ostr_eqb_eq in Hfo.
      rewrite forallb_forall in Hpe. apply (decode_arg_ok kind names cols pe f); auto.
      unfold sfields_held in Hheld. rewrite forallb_forall in Hheld. specialize (Hheld f Hin).
      apply orb_true_iff in Hheld as [H|H]; auto. right. destruct (sem_default f); [discriminate|discriminate H].
    - exfalso. unfold args_cover in Hcov. rewrite forallb_forall in Hcov. specialize (Hcov f Hin).
      apply existsb_exists in Hcov as [pe [Hinpe Hpe']]. apply (find_none _ _ Efind) in Hinpe. congruence.
  Qed.

  Lemma all_some_map {A B} (g : A -> option B) (h : A -> B) l :
    (forall x, In x l -> g x = Some (h x)) -> all_some (map g l) = Some (map h l).
  Proof.
    induction l as [|x t IH]; simpl; auto. intro H. rewrite (H x (or_introl eq_refl)), IH; auto.
  Qed.

  Theorem row_roundtrip kind rargs names cols fields i :
    variant_ok kind rargs names cols = true -> args_cover kind rargs = true ->
    typed fields -> defaults_ok cols fields ->
    decode_sem kind names rargs i (encode_row cols fields) = Some (sem32_of kind fields).
  Proof.
    intros Hv Hcov Hty Hdef. unfold H5.decode_sem, H5.sem32_of.
    apply all_some_map. intros f Hin. apply (decode_field_ok kind rargs names cols); auto.
  Qed.

  (* ---------------------------------------------------------------- tables of any length *)
  Definition row_wf (vs : list wvariant) (r : trow F) : Prop :=
    exists cols, cols_of vs (fst r) = Some cols /\ typed (snd r) /\ defaults_ok cols (snd r).

  Lemma cols_of_In vs v cols : cols_of vs v = Some cols -> exists w, In w vs /\ wv_cols w = cols.
  Proof.
    unfold cols_of. destruct (find _ vs) as [w|] eqn:E; [|discriminate]. intro H. inversion H; subst.
    apply find_some in E as [Hin _]. eauto.
  Qed.

  Theorem table_roundtrip rargs wt :
    table_ok rargs wt = true ->
    forall rows, Forall (row_wf (wt_variants wt)) rows ->
    exists cells, write_rows wt rows = Some cells /\ length cells = length rows /\
      forall i, decode_table (wt_kind wt) (wt_names wt) rargs i cells
                = Some (map (fun r => sem32_of (wt_kind wt) (snd r)) rows).
  Proof.
    intros Hok. unfold table_ok in Hok.
    apply andb_true_iff in Hok as [Hok Hvs]. apply andb_true_iff in Hok as [Hok _]. apply andb_true_iff in Hok as [_ Hcov].
    rewrite forallb_forall in Hvs.
    induction rows as [|[v fields] t IH]; intro Hwf.
    - exists []. simpl. auto.
    - inversion Hwf as [|? ? Hr Ht]; subst. destruct (IH Ht) as [cells [Hw [Hlen Hd]]].
      destruct Hr as [cols [Hc [Hty Hdef]]]. simpl in Hc, Hty, Hdef.
      exists (encode_row cols fields :: cells). unfold H5.write_rows in *. simpl. rewrite Hc, Hw.
      split; [reflexivity|]. split; [simpl; congruence|]. intro i. simpl.
      destruct (cols_of_In _ _ _ Hc) as [w [Hinw Hwc]]. specialize (Hvs w Hinw). rewrite Hwc in Hvs.
      rewrite (row_roundtrip _ _ _ _ _ i Hvs Hcov Hty Hdef), Hd. reflexivity.
  Qed.

  (* ---------------------------------------------------------------- rows re-sorted into element lists *)
  Lemma rebuild_with_split (cl : list F -> option string) (p : list F -> bool) va vb :
    va <> vb ->
    forall l tagged, (forall s, In s l -> cl s = Some (if p s then va else vb)) ->
    rebuild_with F cl l = Some tagged ->
    list_of F va tagged = filter p l /\ list_of F vb tagged = filter (fun s => negb (p s)) l /\
    forall v, v <> va -> v <> vb -> list_of F v tagged = [].
  Proof.
    intros Hne. induction l as [|s t IH]; intros tagged Hcl Hr.
    - simpl in Hr. inversion Hr. simpl. auto.
    - simpl in Hr. rewrite (Hcl s (or_introl eq_refl)) in Hr.
      destruct (rebuild_with F cl t) as [rest|] eqn:Er; [|discriminate]. inversion Hr; subst. clear Hr.
      destruct (IH rest (fun x H => Hcl x (or_intror H)) eq_refl) as [Ha [Hb Ho]].
      unfold list_of in *. simpl.
      destruct (p s) eqn:Ep; simpl.
      + rewrite String.eqb_refl. simpl. rewrite Ha.
        assert (E : String.eqb va vb = false) by (apply String.eqb_neq; auto). rewrite E, Hb.
        split; auto. split; auto. intros v H1 H2.
        assert (E' : String.eqb va v = false) by (apply String.eqb_neq; auto). rewrite E'. auto.
      + rewrite String.eqb_refl. simpl. rewrite Hb.
        assert (E : String.eqb vb va = false) by (apply String.eqb_neq; auto). rewrite E, Ha.
        split; auto. split; auto. intros v H1 H2.
        assert (E' : String.eqb vb v = false) by (apply String.eqb_neq; auto). rewrite E'. auto.
  Qed.

  Lemma rebuild_with_all (cl : list F -> option string) va :
    forall l tagged, (forall s, In s l -> cl s = Some va) -> rebuild_with F cl l = Some tagged ->
    list_of F va tagged = l /\ forall v, v <> va -> list_of F v tagged = [].
  Proof.
    induction l as [|s t IH]; intros tagged Hcl Hr.
    - simpl in Hr. inversion Hr. simpl. auto.
    - simpl in Hr. rewrite (Hcl s (or_introl eq_refl)) in Hr.
      destruct (rebuild_with F cl t) as [rest|] eqn:Er; [|discriminate]. inversion Hr; subst. clear Hr.
      destruct (IH rest (fun x H => Hcl x (or_intror H)) eq_refl) as [Ha Ho].
      unfold list_of in *. simpl. rewrite String.eqb_refl. simpl. rewrite Ha. split; auto.
      intros v Hv. assert (E : String.eqb va v = false) by (apply String.eqb_neq; auto). rewrite E. auto.
  Qed.

  Lemma rebuild_with_In cl : forall l tagged, rebuild_with F cl l = Some tagged -> forall s, In s l -> cl s <> None.
  Proof.
    induction l as [|x t IH]; intros tagged Hr s Hin; [destruct Hin|].
    simpl in Hr. destruct (cl x) eqn:Ex; [|discriminate]. destruct (rebuild_with F cl t) eqn:Et; [|discriminate].
    destruct Hin as [H|H]; [subst; congruence|eauto].
  Qed.

  Lemma canon_canon kind l : canon kind (canon kind l) = canon kind l.
  Proof.
    unfold H5.canon. rewrite !filter_app.
    rewrite filter_filter_same, filter_filter_neg, filter_neg_filter, filter_neg_neg. simpl. rewrite app_nil_r. reflexivity.
  Qed.

  Lemma canon_units kind l : (forall s, In s l -> unitw kind s = true) -> canon kind l = l.
  Proof.
    intro H. unfold H5.canon. rewrite (filter_all _ _ H).
    rewrite filter_none; [apply app_nil_r|]. intros s Hs. rewrite (H s Hs). reflexivity.
  Qed.

  (* the order of the rows a loaded construct presents, in terms of the decoded rows *)
  Theorem rebuild_order kind inst cols l tagged :
    In kind table_kinds ->
    (kind = "projection" -> cols = false -> forall s, In s l -> unitw kind s = true /\ zerod kind s = true) ->
    rebuild kind inst cols l = Some tagged ->
    sem_rows kind (doc_order F (variants_of kind) tagged) = sem_rows kind l.
  Proof.
    intros Hk Hproj Hr. unfold H5.rebuild in Hr.
    unfold table_kinds in Hk. simpl in Hk. destruct Hk as [K|[K|[K|[K|[K|[]]]]]]; subst kind.
    - (* population *)
      assert (H1 : forall s, In s l -> classify "population" inst cols s = Some "Instance") by (intros; reflexivity).
      destruct (rebuild_with_all _ "Instance" l tagged H1 Hr) as [Ha _].
      unfold H5.sem_rows, doc_order. simpl. rewrite Ha, app_nil_r. reflexivity.
    - (* chemical projection: one list after a load *)
      unfold H5.sem_rows, doc_order. simpl. destruct cols.
      + assert (H1 : forall s, In s l -> classify "projection" inst true s = Some "ConnectionWD") by (intros; reflexivity).
        destruct (rebuild_with_all _ "ConnectionWD" l tagged H1 Hr) as [Ha Ho].
        rewrite Ha, (Ho "Connection"); [simpl; rewrite app_nil_r; reflexivity|discriminate].
      + assert (H1 : forall s, In s l -> classify "projection" inst false s = Some "Connection").
        { intros s Hs. destruct (Hproj eq_refl eq_refl s Hs) as [Hu Hz].
          unfold H5.classify, classify_b. simpl. rewrite Hu, Hz. reflexivity. }
        destruct (rebuild_with_all _ "Connection" l tagged H1 Hr) as [Ha Ho].
        rewrite Ha, (Ho "ConnectionWD"); [rewrite !app_nil_r; reflexivity|discriminate].
    - (* electrical *)
      unfold H5.sem_rows, doc_order. simpl. destruct inst.
      + assert (H1 : forall s, In s l -> classify "electrical" true cols s
                       = Some (if unitw "electrical" s then "ElectricalConnectionInstance" else "ElectricalConnectionInstanceW")).
        { intros s _. unfold H5.classify, classify_b. simpl. destruct (unitw "electrical" s); reflexivity. }
        destruct (rebuild_with_split _ (unitw "electrical") "ElectricalConnectionInstance" "ElectricalConnectionInstanceW"
                    ltac:(discriminate) l tagged H1 Hr) as [Ha [Hb Ho]].
        rewrite Ha, Hb, (Ho "ElectricalConnection"); try discriminate. simpl. rewrite app_nil_r.
        apply (canon_canon "electrical").
      + assert (Hall : forall s, In s l -> unitw "electrical" s = true).
        { intros s Hs. pose proof (rebuild_with_In _ _ _ Hr s Hs) as Hn.
          unfold H5.classify, classify_b in Hn. simpl in Hn. destruct (unitw "electrical" s); congruence. }
        assert (H1 : forall s, In s l -> classify "electrical" false cols s = Some "ElectricalConnection").
        { intros s Hs. unfold H5.classify, classify_b. simpl. rewrite (Hall s Hs). reflexivity. }
        destruct (rebuild_with_all _ "ElectricalConnection" l tagged H1 Hr) as [Ha Ho].
        rewrite Ha, (Ho "ElectricalConnectionInstance"), (Ho "ElectricalConnectionInstanceW"); try discriminate.
        rewrite !app_nil_r. reflexivity.
    - (* continuous *)
      unfold H5.sem_rows, doc_order. simpl. destruct inst.
      + assert (H1 : forall s, In s l -> classify "continuous" true cols s
                       = Some (if unitw "continuous" s then "ContinuousConnectionInstance" else "ContinuousConnectionInstanceW")).
        { intros s _. unfold H5.classify, classify_b. simpl. destruct (unitw "continuous" s); reflexivity. }
        destruct (rebuild_with_split _ (unitw "continuous") "ContinuousConnectionInstance" "ContinuousConnectionInstanceW"
                    ltac:(discriminate) l tagged H1 Hr) as [Ha [Hb Ho]].
        rewrite Ha, Hb, (Ho "ContinuousConnection"); try discriminate. simpl. rewrite app_nil_r.
        apply (canon_canon "continuous").
      + assert (Hall : forall s, In s l -> unitw "continuous" s = true).
        { intros s Hs. pose proof (rebuild_with_In _ _ _ Hr s Hs) as Hn.
          unfold H5.classify, classify_b in Hn. simpl in Hn. destruct (unitw "continuous" s); congruence. }
        assert (H1 : forall s, In s l -> classify "continuous" false cols s = Some "ContinuousConnection").
        { intros s Hs. unfold H5.classify, classify_b. simpl. rewrite (Hall s Hs). reflexivity. }
        destruct (rebuild_with_all _ "ContinuousConnection" l tagged H1 Hr) as [Ha Ho].
        rewrite Ha, (Ho "ContinuousConnectionInstance"), (Ho "ContinuousConnectionInstanceW"); try discriminate.
        rewrite !app_nil_r. reflexivity.
    - (* input list *)
      unfold H5.sem_rows, doc_order. simpl.
      assert (H1 : forall s, In s l -> classify "inputlist" inst cols s = Some (if unitw "inputlist" s then "Input" else "InputW")).
      { intros s _. unfold H5.classify, classify_b. simpl. destruct (unitw "inputlist" s); reflexivity. }
      destruct (rebuild_with_split _ (unitw "inputlist") "Input" "InputW" ltac:(discriminate) l tagged H1 Hr) as [Ha [Hb _]].
      rewrite Ha, Hb, app_nil_r. apply (canon_canon "inputlist").
  Qed.

  (* ---------------------------------------------------------------- one construct, written and loaded *)
  Lemma weq_refl x : weq x x = true.
  Proof. apply weq_spec. reflexivity. Qed.

  (* a chemical projection table that stores neither weight nor delay decodes to unit weight, zero delay *)
  Lemma proj_defaults fields :
    fields "weight" = cval COne -> fields "delay" = cval CZero ->
    unitw "projection" (sem32_of "projection" fields) = true /\ zerod "projection" (sem32_of "projection" fields) = true.
  Proof.
    intros Hw Hd. unfold H5.unitw, H5.zerod, H5.sem_get, H5.sem32_of. simpl.
    rewrite Hw, Hd, !r32_cst, !weq_refl. auto.
  Qed.

  Theorem construct_roundtrip rargs wt inst :
    table_ok rargs wt = true ->
    In (wt_kind wt) table_kinds ->
    forall rows, Forall (row_wf (wt_variants wt)) rows ->
    exists cells, write_rows wt rows = Some cells /\
      forall out, load_rows (wt_kind wt) inst (wt_names wt) rargs cells = Some out ->
                  out = sem_rows (wt_kind wt) (map (fun r => sem32_of (wt_kind wt) (snd r)) rows).
  Proof.
    intros Hok Hk rows Hwf.
    destruct (table_roundtrip rargs wt Hok rows Hwf) as [cells [Hw [_ Hd]]].
    exists cells. split; [exact Hw|]. intros out Hl. unfold H5.load_rows in Hl. rewrite (Hd 0) in Hl.
    destruct (rebuild (wt_kind wt) inst (has_wd_cols (wt_names wt)) _) as [tagged|] eqn:Er; [|discriminate].
    inversion Hl; subst out. clear Hl.
    apply (rebuild_order _ inst (has_wd_cols (wt_names wt))); auto.
    intros Hkind Hcols s Hs.
    (* no weight / delay column: no variant stores them, so every row is at the defaults *)
    unfold table_ok in Hok. apply andb_true_iff in Hok as [Hok _]. apply andb_true_iff in Hok as [_ Hwd].
    unfold wd_flag_ok in Hwd. rewrite Hkind in Hwd. simpl in Hwd. rewrite Hcols in Hwd. simpl in Hwd.
    rewrite forallb_forall in Hwd.
    apply in_map_iff in Hs as [[v fields] [Hs Hin]]. subst s. simpl.
    rewrite Forall_forall in Hwf. destruct (Hwf _ Hin) as [cols [Hc [_ Hdef]]]. simpl in Hc, Hdef.
    destruct (cols_of_In _ _ _ Hc) as [w [Hinw Hwc]]. specialize (Hwd w Hinw). rewrite Hwc in Hwd.
    apply andb_true_iff in Hwd as [H1 H2]. apply negb_true_iff in H1, H2.
    rewrite Hkind. apply proj_defaults; [apply (Hdef "weight" COne H1 eq_refl)|apply (Hdef "delay" CZero H2 eq_refl)].
  Qed.


  (* ---------------------------------------------------------------- the writer's choice of the table *)
  (* a row as the document holds it: the fields its variant does not carry are at their semantic default *)
  Definition full_wf (kind : string) (r : trow F) : Prop :=
    forall f c, mem f (vfields kind (fst r)) = false -> sem_default f = Some c -> snd r f = cval c.

  Lemma seg_default_fields (fields : sem_row) f c :
    seg_default F cval weq fields = true -> In f seg_fields -> sem_default f = Some c -> fields f = cval c.
  Proof.
    unfold H5.seg_default. intros H Hin Hd. repeat (apply andb_true_iff in H as [H ?]).
    repeat match goal with h : weq _ _ = true |- _ => apply weq_spec in h end.
    unfold seg_fields in Hin. simpl in Hin.
    destruct Hin as [E|[E|[E|[E|[]]]]]; subst f; vm_compute in Hd; inversion Hd; subst c; assumption.
  Qed.

  Lemma segfract_false rows : segfract F cval weq rows = false -> forall r, In r rows -> seg_default F cval weq (snd r) = true.
  Proof.
    unfold H5.segfract. intros H r Hin. destruct (seg_default F cval weq (snd r)) eqn:E; auto.
    exfalso. assert (X : existsb (fun r0 => negb (seg_default F cval weq (snd r0))) rows = true).
    { apply existsb_exists. exists r. rewrite E. auto. } congruence.
  Qed.

  Lemma cols_of_some vs v : In v (map wv_name vs) -> exists w, cols_of vs v = Some (wv_cols w) /\ In w vs /\ wv_name w = v.
  Proof.
    unfold cols_of. induction vs as [|x t IH]; simpl; [tauto|]. intros [H|H].
    - exists x. rewrite H, String.eqb_refl. auto.
    - destruct (String.eqb (wv_name x) v) eqn:E.
      + exists x. apply String.eqb_eq in E. auto.
      + destruct (IH H) as [w [H1 [H2 H3]]]. exists w. auto.
  Qed.

  Lemma variants_not_segfract kind v : In v (variants_of kind) -> v <> "segfract".
  Proof.
    unfold variants_of. repeat (destruct (String.eqb kind _)); simpl; intros H E; subst v;
      repeat (destruct H as [H|H]; [discriminate|]); exact H.
  Qed.

  Lemma mem_app s a b : mem s (a ++ b) = mem s a || mem s b.
  Proof. induction a as [|x t IH]; simpl; auto. rewrite IH, orb_assoc. reflexivity. Qed.

  Lemma strs_eqb_eq a : forall b, strs_eqb a b = true -> a = b.
  Proof.
    induction a as [|x a IH]; intros [|y b] H; simpl in H; try discriminate; auto.
    apply andb_true_iff in H as [H1 H2]. apply String.eqb_eq in H1. subst. f_equal. auto.
  Qed.

  Theorem select_row_wf g kind rows wt :
    select_table F cval weq g kind rows = Some wt -> stores_ok wt = true ->
    Forall (full_wf kind) rows -> Forall (fun r => typed (snd r)) rows -> Forall (fun r => In (fst r) (variants_of kind)) rows ->
    wt_kind wt = kind /\ Forall (row_wf (wt_variants wt)) rows.
  Proof.
    intros Hsel Hst Hfull Hty Hvar. unfold H5.select_table in Hsel. apply find_some in Hsel as [_ Hsel].
    apply andb_true_iff in Hsel as [Hk Hfl]. apply String.eqb_eq in Hk. apply strs_eqb_eq in Hfl. split; [exact Hk|].
    unfold stores_ok in Hst. apply andb_true_iff in Hst as [Hnames Hstore]. apply strs_eqb_eq in Hnames.
    rewrite forallb_forall in Hstore. rewrite Forall_forall in *. intros [v fields] Hin.
    specialize (Hfull _ Hin). specialize (Hty _ Hin). specialize (Hvar _ Hin). simpl in Hty, Hvar.
    (* the variant is one of the table's *)
    assert (Hv : In v (map wv_name (wt_variants wt))).
    { rewrite Hnames, Hfl. apply filter_In. split.
      - unfold H5.flags_of. apply in_or_app. left. unfold H5.present. apply filter_In. split; auto.
        apply existsb_exists. exists (v, fields). simpl. rewrite String.eqb_refl. auto.
      - apply negb_true_iff. apply String.eqb_neq. apply (variants_not_segfract kind); auto. }
    destruct (cols_of_some _ _ Hv) as [w [Hc [Hw Hwn]]].
    exists (wv_cols w). split; [exact Hc|]. split; [exact Hty|].
    intros f c Hns Hd. destruct (mem f (vfields kind v)) eqn:Em.
    - specialize (Hstore w Hw). rewrite forallb_forall in Hstore. rewrite Hwn, Hk in Hstore.
      apply mem_In in Em. specialize (Hstore f Em). rewrite Hns in Hstore. simpl in Hstore.
      apply andb_true_iff in Hstore as [Hstore Hnf]. apply andb_true_iff in Hstore as [Hp Hseg].
      apply negb_true_iff in Hnf. rewrite Hfl in Hnf. unfold H5.flags_of in Hnf. rewrite mem_app in Hnf.
      apply orb_false_iff in Hnf as [_ Hnf]. rewrite Hp in Hnf. simpl in Hnf.
      destruct (segfract F cval weq rows) eqn:Es; [simpl in Hnf; discriminate|].
      apply (seg_default_fields fields f c); auto.
      + apply (segfract_false rows Es (v, fields) Hin).
      + apply mem_In. exact Hseg.
    - apply (Hfull f c Em Hd).
  Qed.

  (* ---------------------------------------------------------------- group attributes *)
  Lemma assoc_write_attrs w fields a s :
    assoc a w = Some s ->
    assoc a (write_attrs w fields) = Some (match s with GField f => fields f | GConst c => Some c | _ => None end).
  Proof.
    induction w as [|[k g] t IH]; simpl; [discriminate|]. destruct (String.eqb a k); auto. intro H. inversion H. reflexivity.
  Qed.

  Theorem gattrs_roundtrip kind w r bs fields :
    gattrs_ok kind w r bs = true ->
    forall a f arg, In (a, f, arg) (gspec kind) -> read_attr (write_attrs w fields) a = fields f.
  Proof.
    intros Hok a f arg Hin. unfold gattrs_ok in Hok. rewrite forallb_forall in Hok. specialize (Hok _ Hin).
    unfold gattr_ok in Hok. apply andb_true_iff in Hok as [Hok _]. apply andb_true_iff in Hok as [Hw _].
    destruct (assoc a w) as [s|] eqn:Ea; [|discriminate].
    unfold read_attr. rewrite (assoc_write_attrs _ fields _ _ Ea).
    destruct s; simpl in Hw; try discriminate. apply String.eqb_eq in Hw. subst. reflexivity.
  Qed.
End Proofs.

(* ------------------------------------------------------------------ over a generated table set: what the instance obligations buy *)
Lemma all_layouts_table g wt :
  all_layouts_ok g = true -> In wt (g_writer g) ->
  table_ok (reader_of g (wt_kind wt)) wt = true /\ In (wt_kind wt) table_kinds.
Proof.
  intros H Hin. unfold all_layouts_ok in H. rewrite forallb_forall in H. specialize (H wt Hin).
  unfold layout_ok in H. apply andb_true_iff in H as [H _]. apply andb_true_iff in H as [H1 H2].
  split; auto. apply mem_In. exact H2.
Qed.

Theorem gen_row_roundtrip (g : h5gen) (Hall : all_layouts_ok g = true) :
  forall (F : Type) (r32 rint : F -> F) (cval : cst -> F) (ofnat : nat -> F) (other : F) (isint : F -> bool),
  (forall x, isint x = true -> rint (r32 x) = r32 x) -> (forall c, c <> CHalf -> rint (cval c) = cval c) ->
  (forall c, r32 (cval c) = cval c) ->
  forall wt v, In wt (g_writer g) -> In v (wt_variants wt) ->
  forall (fields : string -> F) (i : nat), typed F isint fields -> defaults_ok F cval (wv_cols v) fields ->
    decode_sem F rint cval ofnat other (wt_kind wt) (wt_names wt) (reader_of g (wt_kind wt)) i
               (encode_row F r32 cval (wv_cols v) fields)
    = Some (sem32_of F r32 (wt_kind wt) fields).
Proof.
  intros F r32 rint cval ofnat other isint H1 H2 H3 wt v Hwt Hv fields i Hty Hdef.
  destruct (all_layouts_table g wt Hall Hwt) as [Hok _]. unfold table_ok in Hok.
  apply andb_true_iff in Hok as [Hok Hvs]. apply andb_true_iff in Hok as [Hok _]. apply andb_true_iff in Hok as [_ Hcov].
  rewrite forallb_forall in Hvs.
  apply (row_roundtrip F r32 rint cval ofnat other isint H1 H2 H3); auto.
Qed.

Theorem gen_table_roundtrip (g : h5gen) (Hall : all_layouts_ok g = true) :
  forall (F : Type) (r32 rint : F -> F) (cval : cst -> F) (ofnat : nat -> F) (other : F) (isint : F -> bool),
  (forall x, isint x = true -> rint (r32 x) = r32 x) -> (forall c, c <> CHalf -> rint (cval c) = cval c) ->
  (forall c, r32 (cval c) = cval c) ->
  forall wt, In wt (g_writer g) ->
  forall rows, Forall (row_wf F cval isint (wt_variants wt)) rows ->
  exists cells, write_rows F r32 cval wt rows = Some cells /\ length cells = length rows /\
    forall i, decode_table F rint cval ofnat other (wt_kind wt) (wt_names wt) (reader_of g (wt_kind wt)) i cells
              = Some (map (fun r => sem32_of F r32 (wt_kind wt) (snd r)) rows).
Proof.
  intros F r32 rint cval ofnat other isint H1 H2 H3 wt Hwt rows Hwf.
  destruct (all_layouts_table g wt Hall Hwt) as [Hok _].
  apply (table_roundtrip F r32 rint cval ofnat other isint H1 H2 H3); auto.
Qed.

Theorem gen_construct_roundtrip (g : h5gen) (Hall : all_layouts_ok g = true) :
  forall (F : Type) (r32 rint : F -> F) (cval : cst -> F) (ofnat : nat -> F) (other : F) (weq : F -> F -> bool) (isint : F -> bool),
  (forall x, isint x = true -> rint (r32 x) = r32 x) -> (forall c, c <> CHalf -> rint (cval c) = cval c) ->
  (forall c, r32 (cval c) = cval c) -> (forall x y, weq x y = true <-> x = y) ->
  forall wt, In wt (g_writer g) ->
  forall (inst : bool) rows, Forall (row_wf F cval isint (wt_variants wt)) rows ->
  exists cells, write_rows F r32 cval wt rows = Some cells /\
    forall out, load_rows F rint cval ofnat other weq (wt_kind wt) inst (wt_names wt) (reader_of g (wt_kind wt)) cells = Some out ->
                out = sem_rows F cval weq (wt_kind wt) (map (fun r => sem32_of F r32 (wt_kind wt) (snd r)) rows).
Proof.
  intros F r32 rint cval ofnat other weq isint H1 H2 H3 H4 wt Hwt inst rows Hwf.
  destruct (all_layouts_table g wt Hall Hwt) as [Hok Hk].
  apply (construct_roundtrip F r32 rint cval ofnat other weq isint H1 H2 H3 H4); auto.
Qed.

Theorem gen_gattrs (g : h5gen) : groups_ok g = true ->
  (forall wt, In wt (g_writer g) -> forall (fields : string -> option string) a f arg, In (a, f, arg) (gspec (wt_kind wt)) ->
      read_attr (write_attrs (wt_gattrs wt) fields) a = fields f) /\
  (forall (fields : string -> option string) a f arg, In (a, f, arg) (gspec "sized_population") ->
      read_attr (write_attrs (g_sized_pop_w g) fields) a = fields f) /\
  (forall (fields : string -> option string) a f arg, In (a, f, arg) (gspec "document") ->
      read_attr (write_attrs (g_doc_w g) fields) a = fields f) /\
  (forall (fields : string -> option string) a f arg, In (a, f, arg) (gspec "network") ->
      read_attr (write_attrs (g_net_w g) fields) a = fields f).
Proof.
  unfold groups_ok. intro H. repeat (apply andb_true_iff in H as [H ?]).
  repeat split.
  - intros wt Hwt fields a f arg Hin. rewrite forallb_forall in H. specialize (H wt Hwt). unfold table_gattrs_ok in H.
    destruct (find _ (g_reader g)) as [r|]; [|discriminate]. eapply gattrs_roundtrip; eauto.
  - intros; eapply gattrs_roundtrip; eauto.
  - intros; eapply gattrs_roundtrip; eauto.
  - intros; eapply gattrs_roundtrip; eauto.
Qed.

(* the construct as the document holds it: the writer picks the table from the data (row variants present, segment /
   fraction information), so no assumption about the table is left *)
Theorem gen_select_roundtrip (g : h5gen) (Hall : all_layouts_ok g = true) (Hst : all_stores_ok g = true) :
  forall (F : Type) (r32 rint : F -> F) (cval : cst -> F) (ofnat : nat -> F) (other : F) (weq : F -> F -> bool) (isint : F -> bool),
  (forall x, isint x = true -> rint (r32 x) = r32 x) -> (forall c, c <> CHalf -> rint (cval c) = cval c) ->
  (forall c, r32 (cval c) = cval c) -> (forall x y, weq x y = true <-> x = y) ->
  forall kind (inst : bool) rows wt,
  select_table F cval weq g kind rows = Some wt ->
  Forall (full_wf F cval kind) rows -> Forall (fun r => typed F isint (snd r)) rows ->
  Forall (fun r => In (fst r) (variants_of kind)) rows ->
  exists cells, write_rows F r32 cval wt rows = Some cells /\
    forall out, load_rows F rint cval ofnat other weq kind inst (wt_names wt) (reader_of g kind) cells = Some out ->
                out = sem_rows F cval weq kind (map (fun r => sem32_of F r32 kind (snd r)) rows).
Proof.
  intros F r32 rint cval ofnat other weq isint H1 H2 H3 H4 kind inst rows wt Hsel Hfull Hty Hvar.
  assert (Hin : In wt (g_writer g)) by (unfold select_table in Hsel; apply find_some in Hsel; tauto).
  assert (Hs : stores_ok wt = true) by (unfold all_stores_ok in Hst; rewrite forallb_forall in Hst; auto).
  destruct (select_row_wf F cval weq isint H4 g kind rows wt Hsel Hs Hfull Hty Hvar) as [Hk Hwf].
  subst kind. apply (gen_construct_roundtrip g Hall F r32 rint cval ofnat other weq isint H1 H2 H3 H4 wt Hin inst rows Hwf).
Qed.

(* ------------------------------------------------------------------ any number of constructs in one file *)
Lemma all_some_inv {A} (l : list (option A)) r : all_some l = Some r -> l = map Some r.
Proof.
  revert r. induction l as [|[x|] t IH]; simpl; intros r H; try discriminate.
  - inversion H. reflexivity.
  - destruct (all_some t) as [r'|]; [|discriminate]. inversion H. simpl. f_equal. apply IH. reflexivity.
Qed.

Lemma map_some_inj {A} (a b : list A) : map Some a = map Some b -> a = b.
Proof.
  revert b. induction a as [|x a IH]; intros [|y b] H; simpl in H; try discriminate; auto.
  inversion H. f_equal. auto.
Qed.

Lemma map_rel {A B C} (W : A -> option B) (L : B -> option C) (S : A -> C) :
  forall cs nodes, map W cs = map Some nodes ->
  (forall c n, In c cs -> W c = Some n -> forall s, L n = Some s -> s = S c) ->
  (forall n, In n nodes -> exists s, L n = Some s) ->
  map L nodes = map Some (map S cs).
Proof.
  induction cs as [|c t IH]; intros [|n ns] Hw One AS; simpl in Hw; try discriminate; auto.
  inversion Hw as [[Hc Ht]]. simpl.
  destruct (AS n (or_introl eq_refl)) as [s Es]. rewrite Es.
  rewrite (One c n (or_introl eq_refl) Hc s Es). f_equal.
  apply IH; auto.
  - intros c' n' Hc' Hw' s' Hs'. apply (One c' n'); auto. right. exact Hc'.
  - intros n' Hn'. apply AS. right. exact Hn'.
Qed.

Theorem gen_net_roundtrip (g : h5gen) (Hall : all_layouts_ok g = true) (Hst : all_stores_ok g = true) (Hgr : groups_ok g = true) :
  forall (F : Type) (r32 rint : F -> F) (cval : cst -> F) (ofnat : nat -> F) (other : F) (weq : F -> F -> bool) (isint : F -> bool)
         (order : list (node F) -> list (node F)),
  (forall x, isint x = true -> rint (r32 x) = r32 x) -> (forall c, c <> CHalf -> rint (cval c) = cval c) ->
  (forall c, r32 (cval c) = cval c) -> (forall x y, weq x y = true <-> x = y) ->
  (forall l, Permutation (order l) l) ->
  forall (cs : list (construct F)) nodes sems,
  Forall (fun c => Forall (full_wf F cval (c_kind F c)) (c_rows F c) /\ Forall (fun r => typed F isint (snd r)) (c_rows F c)
                   /\ Forall (fun r => In (fst r) (variants_of (c_kind F c))) (c_rows F c)) cs ->
  write_net F r32 cval weq g cs = Some nodes ->
  load_net F rint cval ofnat other weq order g nodes = Some sems ->
  Permutation sems (map (sem32_construct F r32 cval weq) cs).
Proof.
  intros F r32 rint cval ofnat other weq isint order H1 H2 H3 H4 Hperm cs nodes sems Hwf Hw Hl.
  set (L := load_node F rint cval ofnat other weq g).
  (* one construct *)
  assert (One : forall c n, In c cs -> write_construct F r32 cval weq g c = Some n ->
                            forall s, L n = Some s -> s = sem32_construct F r32 cval weq c).
  { intros c n Hc Hwc s Hs. rewrite Forall_forall in Hwf. destruct (Hwf c Hc) as [Hf [Ht Hv]].
    unfold write_construct in Hwc.
    destruct (select_table F cval weq g (c_kind F c) (c_rows F c)) as [wt|] eqn:Esel; [|discriminate].
    destruct (gen_select_roundtrip g Hall Hst F r32 rint cval ofnat other weq isint H1 H2 H3 H4
                (c_kind F c) (c_inst F c) (c_rows F c) wt Esel Hf Ht Hv) as [cells [Hcells Hout]].
    rewrite Hcells in Hwc. inversion Hwc; subst n. clear Hwc.
    unfold L, load_node in Hs. simpl in Hs.
    destruct (load_rows F rint cval ofnat other weq (c_kind F c) (c_inst F c) (wt_names wt) (reader_of g (c_kind F c)) cells)
      as [out|] eqn:El; [|discriminate].
    inversion Hs; subst s. clear Hs. rewrite (Hout out eq_refl). unfold sem32_construct. f_equal. f_equal.
    unfold attr_fields. rewrite map_map. apply map_ext_in. intros [[a f] arg] Hin. simpl. f_equal.
    assert (Hwt : In wt (g_writer g) /\ wt_kind wt = c_kind F c).
    { unfold select_table in Esel. apply find_some in Esel as [E1 E2]. apply andb_true_iff in E2 as [E2 _].
      apply String.eqb_eq in E2. auto. }
    destruct Hwt as [Hwt Hk]. destruct (gen_gattrs g Hgr) as [G _]. apply (G wt Hwt (c_attrs F c) a f arg). rewrite Hk. exact Hin. }
  unfold write_net in Hw. apply all_some_inv in Hw. unfold load_net in Hl. apply all_some_inv in Hl. fold L in Hl.
  (* every node loads to the image of its construct *)
  assert (PL : Permutation (map L nodes) (map Some sems)).
  { rewrite <- Hl. apply Permutation_map. apply Permutation_sym. apply Hperm. }
  assert (AllSome : forall n, In n nodes -> exists s, L n = Some s).
  { intros n Hn. assert (X : In (L n) (map Some sems)).
    { apply (Permutation_in _ PL). apply in_map. exact Hn. }
    apply in_map_iff in X as [s [E _]]. eauto. }
  assert (E : map L nodes = map Some (map (sem32_construct F r32 cval weq) cs)).
  { apply (map_rel (write_construct F r32 cval weq g) L (sem32_construct F r32 cval weq) cs nodes Hw One AllSome). }
  rewrite E in PL. apply Permutation_sym in PL. apply Permutation_map_inv in PL as [l3 [E3 P3]].
  apply map_some_inj in E3. subst l3. apply Permutation_sym. exact P3.
Qed.

Lemma names_eqb_eq a : forall b, names_eqb a b = true -> a = b.
Proof.
  induction a as [|x a IH]; intros [|y b] H; simpl in H; try discriminate; auto.
  apply andb_true_iff in H as [H1 H2]. apply ostr_eqb_eq in H1. subst. f_equal. auto.
Qed.

Theorem gen_select (g : h5gen) : select_ok g = true ->
  forall p, In p (g_select g) ->
  exists wt, select_table Z zc Z.eqb g (sp_kind p) (probe_rows p) = Some wt /\ wt_names wt = sp_names p.
Proof.
  unfold select_ok. intros H p Hp. apply andb_true_iff in H as [H _]. rewrite forallb_forall in H. specialize (H p Hp).
  unfold selprobe_ok in H. destruct (select_table Z zc Z.eqb g (sp_kind p) (probe_rows p)) as [wt|]; [|discriminate].
  exists wt. split; auto. apply names_eqb_eq. exact H.
Qed.

Theorem gen_refuse (g : h5gen) : refuse_ok g = true -> forall n, In n must_refuse -> assoc n (g_refusals g) = Some true.
Proof.
  unfold refuse_ok. intros H n Hn. rewrite forallb_forall in H. specialize (H n Hn).
  destruct (assoc n (g_refusals g)) as [[|]|]; try discriminate. reflexivity.
Qed.

Theorem gen_builder (g : h5gen) : builder_ok g = true -> forall b, In b (g_builder g) ->
  match classify_b (be_kind b) (be_inst b) (be_cols b) (be_unitw b) (be_zerod b) with
  | None => be_variant b = "RAISE"
  | Some v => be_variant b = v /\ be_lost b = [] /\ forall f a, In (f, a) (be_fields b) -> field_of (be_kind b) a = Some f
  end.
Proof.
  unfold builder_ok. intros H b Hb. apply andb_true_iff in H as [H _]. rewrite forallb_forall in H. specialize (H b Hb).
  unfold bentry_ok in H. destruct (classify_b _ _ _ _ _) as [v|].
  - apply andb_true_iff in H as [H _]. apply andb_true_iff in H as [H Hf]. apply andb_true_iff in H as [Hv Hl].
    apply String.eqb_eq in Hv. split; auto. split; [destruct (be_lost b); [reflexivity|discriminate]|].
    intros f a Hin. unfold fields_ok in Hf. rewrite forallb_forall in Hf. specialize (Hf (f, a) Hin). simpl in Hf.
    apply ostr_eqb_eq in Hf. exact Hf.
  - apply String.eqb_eq. exact H.
Qed.

(* ------------------------------------------------------------------ the layouts as shipped at the pinned commit refute the
   round trip (each was confirmed on the real code; see design_notes/C05.md).  Instance: F = nat, r32 = id. *)
Definition nval (c : cst) : nat := match c with CZero => 0 | COne => 1 | CHalf => 5 | CMinusOne => 99 end.

Definition shipped_elec_names : list (option string) :=
  [Some "id"; Some "pre_cell_id"; Some "post_cell_id"; Some "pre_segment_id"; Some "post_segment_id";
   Some "pre_fraction_along"; Some "post_fraction_along"].
Definition shipped_elec_cols : list src :=
  [SField "id"; SField "pre_cell"; SField "post_cell"; SField "pre_seg"; SField "post_seg"; SField "pre_fract"; SField "post_fract"].
(* parse_dataset: id = int(row[indexId]) if indexId > 0 else i *)
Definition shipped_id_arg : pentry :=
  {| pe_arg := "conn_id"; pe_name := "id"; pe_at0 := false; pe_atpos := true; pe_int := true; pe_dflt := DRowIndex |}.

Theorem ids_refuted :
  exists fields : string -> nat,
    decode_arg nat (fun x => x) nval (fun i => i) 0 shipped_elec_names shipped_id_arg 0
               (encode_row nat (fun x => x) nval shipped_elec_cols fields) <> Some (fields "id").
Proof. exists (fun f => if String.eqb f "id" then 7 else 3). vm_compute. discriminate. Qed.

(* an Input in a list that also holds an InputW: the weight cell is left 0 and is read back as weight 0, not 1 *)
Definition shipped_input_names : list (option string) :=
  [Some "id"; Some "target_cell_id"; Some "segment_id"; Some "fraction_along"; Some "weight"].
Definition shipped_input_cols_plain : list src := [SField "id"; SField "cell"; SField "seg"; SField "fract"; SConst CZero].
Definition shipped_weight_arg : pentry :=
  {| pe_arg := "weight"; pe_name := "weight"; pe_at0 := true; pe_atpos := true; pe_int := false; pe_dflt := DConst COne |}.

Theorem mixed_refuted :
  exists fields : string -> nat,
    fields "weight" = nval COne /\
    decode_arg nat (fun x => x) nval (fun i => i) 0 shipped_input_names shipped_weight_arg 0
               (encode_row nat (fun x => x) nval shipped_input_cols_plain fields) <> Some (fields "weight").
Proof. exists (fun f => if String.eqb f "weight" then 1 else 3). split; [reflexivity|]. vm_compute. discriminate. Qed.

(* the obligations do reject those layouts *)
Example shipped_elec_rejected :
  pe_ok "electrical" shipped_elec_names shipped_elec_cols shipped_id_arg = false.
Proof. vm_compute. reflexivity. Qed.
Example shipped_mixed_rejected :
  pe_ok "inputlist" shipped_input_names shipped_input_cols_plain shipped_weight_arg = false.
Proof. vm_compute. reflexivity. Qed.

(* non-vacuity: a fixed layout satisfies the hypotheses of the theorems *)
Definition fixed_id_arg : pentry :=
  {| pe_arg := "id"; pe_name := "id"; pe_at0 := true; pe_atpos := true; pe_int := true; pe_dflt := DRowIndex |}.
Definition ex_input_args : list pentry :=
  [fixed_id_arg;
   {| pe_arg := "cellId"; pe_name := "target_cell_id"; pe_at0 := true; pe_atpos := true; pe_int := true; pe_dflt := DOther |};
   {| pe_arg := "segId"; pe_name := "segment_id"; pe_at0 := true; pe_atpos := true; pe_int := true; pe_dflt := DConst CZero |};
   {| pe_arg := "fract"; pe_name := "fraction_along"; pe_at0 := true; pe_atpos := true; pe_int := false; pe_dflt := DConst CHalf |};
   shipped_weight_arg].
Definition ex_input_table : wtable :=
  {| wt_kind := "inputlist"; wt_flags := ["Input"; "InputW"]; wt_names := shipped_input_names;
     wt_variants := [ {| wv_name := "Input"; wv_cols := [SField "id"; SField "cell"; SField "seg"; SField "fract"; SConst COne] |};
                      {| wv_name := "InputW"; wv_cols := [SField "id"; SField "cell"; SField "seg"; SField "fract"; SField "weight"] |} ];
     wt_gattrs := [] |}.
Example ex_table_ok : table_ok ex_input_args ex_input_table = true.
Proof. vm_compute. reflexivity. Qed.

(* ====================================================================== the whole document through the file tree *)
Lemma prefix_app_self p s : String.prefix p (p ++ s) = true.
Proof. induction p as [|a p IH]; simpl; [destruct s; reflexivity|]. destruct (Ascii.ascii_dec a a); [exact IH|congruence]. Qed.

Lemma prefix_app_cases q : forall p s, String.prefix q (p ++ s) = true -> String.prefix q p = true \/ String.prefix p q = true.
Proof.
  induction q as [|a q IH]; intros p s H.
  - left. destruct p; reflexivity.
  - destruct p as [|b p]; [right; reflexivity|]. simpl in H. simpl.
    destruct (Ascii.ascii_dec a b) as [E|E]; [|discriminate]. subst b.
    destruct (Ascii.ascii_dec a a); [|congruence]. apply (IH p s H).
Qed.

Lemma all_some_map_some {A} (r : list A) : all_some (map Some r) = Some r.
Proof. induction r as [|x r IH]; simpl; auto. rewrite IH. reflexivity. Qed.

Lemma existsb_perm {A} (p : A -> bool) l l' : Permutation l l' -> existsb p l = existsb p l'.
Proof.
  induction 1; simpl; auto.
  - rewrite IHPermutation. reflexivity.
  - destruct (p x), (p y); reflexivity.
  - congruence.
Qed.

Section Doc.
  Variable F : Type.
  Variables (r32 rint : F -> F) (cval : cst -> F) (ofnat : nat -> F) (other : F) (weq : F -> F -> bool) (isint : F -> bool).
  Hypothesis H1 : forall x, isint x = true -> rint (r32 x) = r32 x.
  Hypothesis H2 : forall c, c <> CHalf -> rint (cval c) = cval c.
  Hypothesis H3 : forall c, r32 (cval c) = cval c.
  Hypothesis H4 : forall x y, weq x y = true <-> x = y.
  Variables X XML : Type.
  Variable xcls : X -> string.
  Variable xexport : X -> option XML.
  Variable xbuild : string -> XML -> option X.
  Variable corder : list (cgroup F) -> list (cgroup F).
  Hypothesis Hcorder : forall l, Permutation (corder l) l.            (* PyTables: the children, in some order *)
  Variable g : h5gen.
  Hypothesis Hall : all_layouts_ok g = true.
  Hypothesis Hst : all_stores_ok g = true.
  Hypothesis Hgr : groups_ok g = true.
  Hypothesis Hsk : skeleton_ok g = true.

  Notation dconstruct := (dconstruct F).
  Notation write_cgroup := (write_cgroup F r32 cval weq g).
  Notation load_cgroup := (load_cgroup F rint cval ofnat other weq g).
  Notation sem32_dc := (sem32_dc F r32 cval weq).
  Notation dc_inst := (dc_inst F).
  Notation pops_of := (pops_of F).

  (* what "the format supports" means for one construct of a network whose constructs are cs *)
  Definition supported_c (cs : list dconstruct) (c : dconstruct) : Prop :=
    In (dc_kind F c) table_kinds /\
    Forall (full_wf F cval (dc_kind F c)) (dc_rows F c) /\ Forall (fun r => typed F isint (snd r)) (dc_rows F c) /\
    Forall (fun r => In (fst r) (variants_of (dc_kind F c))) (dc_rows F c) /\
    (* without rows only a (sized) population or a chemical projection can be written *)
    (dc_rows F c = [] -> dc_kind F c = "population" \/ dc_kind F c = "projection") /\
    (* the writer has a table for the combination of row variants present *)
    (dc_rows F c <> [] -> select_table F cval weq g (dc_kind F c) (dc_rows F c) <> None) /\
    (* an electrical / continuous connection between two populations without instances has no place for a weight *)
    ((dc_kind F c = "electrical" \/ dc_kind F c = "continuous") -> dc_inst cs c = false ->
       Forall (fun r => unitw F cval weq (dc_kind F c) (sem32_of F r32 (dc_kind F c) (snd r)) = true) (dc_rows F c)).

  Lemma sk_parts :
    forallb (dispatch_ok (g_skel g)) table_kinds = true /\
    forallb (fun wt => type_attr_ok (wt_kind wt) (wt_gattrs wt)) (g_writer g) = true /\
    type_attr_ok "projection" (sk_empty_proj_w (g_skel g)) = true /\
    forallb (fun x => let '(a, f, _) := x in
                       match assoc a (sk_empty_proj_w (g_skel g)) with Some s => gsrc_eqb s (GField f) | None => false end
                       && match assoc f (sk_empty_proj_read (g_skel g)) with Some b => b | None => false end) (gspec "projection") = true.
  Proof.
    unfold skeleton_ok in Hsk. repeat (apply andb_true_iff in Hsk as [Hsk ?]). auto.
  Qed.

  Lemma class_of_written kind s :
    In kind table_kinds -> group_class g (kind_prefix g kind ++ s) = Some (class_of_kind kind).
  Proof.
    intro Hk. destruct sk_parts as [D _]. rewrite forallb_forall in D. specialize (D kind Hk).
    unfold dispatch_ok in D. unfold kind_prefix, group_class.
    destruct (assoc kind (sk_wprefix (g_skel g))) as [p|]; [|discriminate]. simpl.
    apply andb_true_iff in D as [Dall Dex]. rewrite forallb_forall in Dall.
    destruct (find (fun pc => String.prefix (fst pc) (p ++ s)) (sk_rprefix (g_skel g))) as [pc|] eqn:Ef.
    - apply find_some in Ef as [Hin Hp]. specialize (Dall pc Hin).
      destruct (prefix_app_cases _ _ _ Hp) as [E|E]; rewrite E in Dall; simpl in Dall.
      + apply String.eqb_eq in Dall. rewrite Dall. reflexivity.
      + rewrite orb_true_r in Dall. apply String.eqb_eq in Dall. rewrite Dall. reflexivity.
    - exfalso. apply existsb_exists in Dex as [pc [Hin Hp]]. apply String.eqb_eq in Hp.
      pose proof (find_none _ _ Ef pc Hin) as N. simpl in N. rewrite Hp, prefix_app_self in N. discriminate.
  Qed.

  (* attribute fields read back from what write_attrs wrote, given the writer's map agrees with the specification *)
  Lemma fields_back (w : list (string * gsrc)) gk (attrs : string -> option string) :
    (forall a f arg, In (a, f, arg) (gspec gk) -> read_attr (write_attrs w attrs) a = attrs f) ->
    map (fun x => (snd (fst x), read_attr (write_attrs w attrs) (fst (fst x)))) (gspec gk)
    = map (fun f => (f, attrs f)) (attr_fields gk).
  Proof.
    intro H. unfold attr_fields. rewrite map_map. apply map_ext_in. intros [[a f] arg] Hin. simpl. f_equal. eapply H; eauto.
  Qed.

  Lemma empty_proj_attrs (attrs : string -> option string) a f arg :
    In (a, f, arg) (gspec "projection") -> read_attr (write_attrs (sk_empty_proj_w (g_skel g)) attrs) a = attrs f.
  Proof.
    intro Hin. destruct sk_parts as [_ [_ [_ E]]]. rewrite forallb_forall in E. specialize (E _ Hin). simpl in E.
    apply andb_true_iff in E as [E _].
    destruct (assoc a (sk_empty_proj_w (g_skel g))) as [s|] eqn:Ea; [|discriminate].
    unfold read_attr. rewrite (assoc_write_attrs _ attrs _ _ Ea).
    destruct s; simpl in E; try discriminate. apply String.eqb_eq in E. subst. reflexivity.
  Qed.

  Lemma type_attr_read kind w (attrs : string -> option string) :
    type_attr_ok kind w = true -> class_of_kind kind = "projection" ->
    kind_of_type (read_attr (write_attrs w attrs) "type") = kind.
  Proof.
    unfold type_attr_ok. intros H Hc. rewrite Hc in H. simpl in H.
    destruct (assoc "type" w) as [s|] eqn:Ea; [|discriminate]. destruct s; try discriminate.
    unfold read_attr. rewrite (assoc_write_attrs _ attrs _ _ Ea). simpl. apply String.eqb_eq in H. exact H.
  Qed.

  Lemma classify_total kind inst cols s :
    In kind table_kinds -> (kind = "electrical" \/ kind = "continuous" -> inst = false -> unitw F cval weq kind s = true) ->
    classify F cval weq kind inst cols s <> None.
  Proof.
    intros Hk Hu. unfold table_kinds in Hk. simpl in Hk. unfold H5.classify, classify_b.
    destruct Hk as [K|[K|[K|[K|[K|[]]]]]]; subst kind; simpl; try discriminate.
    - destruct inst; [destruct (unitw F cval weq "electrical" s); discriminate|].
      rewrite (Hu (or_introl eq_refl) eq_refl). discriminate.
    - destruct inst; [destruct (unitw F cval weq "continuous" s); discriminate|].
      rewrite (Hu (or_intror eq_refl) eq_refl). discriminate.
  Qed.

  Lemma rebuild_total cl : forall l, (forall s, In s l -> cl s <> None) -> exists t, rebuild_with F cl l = Some t.
  Proof.
    induction l as [|s t IH]; intro H; simpl; [eauto|].
    destruct (cl s) as [v|] eqn:E; [|exfalso; apply (H s (or_introl eq_refl) E)].
    destruct (IH (fun x Hx => H x (or_intror Hx))) as [r Er]. rewrite Er. eauto.
  Qed.

  (* a written table is loaded (no refusal) to the float32 image of its rows *)
  Lemma rows_back kind inst rows wt :
    In kind table_kinds ->
    select_table F cval weq g kind rows = Some wt ->
    Forall (full_wf F cval kind) rows -> Forall (fun r => typed F isint (snd r)) rows ->
    Forall (fun r => In (fst r) (variants_of kind)) rows ->
    (kind = "electrical" \/ kind = "continuous" -> inst = false ->
       Forall (fun r => unitw F cval weq kind (sem32_of F r32 kind (snd r)) = true) rows) ->
    exists cells, write_rows F r32 cval wt rows = Some cells /\ length cells = length rows /\
      load_rows F rint cval ofnat other weq kind inst (wt_names wt) (reader_of g kind) cells
      = Some (sem_rows F cval weq kind (map (fun r => sem32_of F r32 kind (snd r)) rows)).
  Proof.
    intros Hk Hsel Hf Ht Hv Hu.
    assert (Hin : In wt (g_writer g)) by (unfold select_table in Hsel; apply find_some in Hsel; tauto).
    assert (Hs : stores_ok wt = true) by (unfold all_stores_ok in Hst; rewrite forallb_forall in Hst; auto).
    destruct (select_row_wf F cval weq isint H4 g kind rows wt Hsel Hs Hf Ht Hv) as [Hkk Hwf]. subst kind.
    destruct (gen_table_roundtrip g Hall F r32 rint cval ofnat other isint H1 H2 H3 wt Hin rows Hwf) as [cells [Hw [Hlen Hd]]].
    destruct (gen_construct_roundtrip g Hall F r32 rint cval ofnat other weq isint H1 H2 H3 H4 wt Hin inst rows Hwf)
      as [cells' [Hw' Hout]].
    rewrite Hw in Hw'. inversion Hw'; subst cells'. clear Hw'.
    exists cells. split; [exact Hw|]. split; [exact Hlen|].
    destruct (load_rows F rint cval ofnat other weq (wt_kind wt) inst (wt_names wt) (reader_of g (wt_kind wt)) cells) as [out|] eqn:El.
    - rewrite (Hout out eq_refl). reflexivity.
    - exfalso. unfold H5.load_rows in El. rewrite (Hd 0) in El.
      destruct (rebuild_total (classify F cval weq (wt_kind wt) inst (has_wd_cols (wt_names wt)))
                  (map (fun r => sem32_of F r32 (wt_kind wt) (snd r)) rows)) as [t Et].
      { intros s Hs'. apply classify_total; auto. intros K I. apply in_map_iff in Hs' as [r [E Hr]]. subst s.
        specialize (Hu K I). rewrite Forall_forall in Hu. apply (Hu r Hr). }
      unfold H5.rebuild in El. rewrite Et in El. discriminate.
  Qed.

  Lemma id_in_gspec gk : In gk ["population"; "projection"; "electrical"; "continuous"; "inputlist"; "sized_population"] ->
    exists arg, In ("id", "id", arg) (gspec gk).
  Proof.
    simpl. intros [K|[K|[K|[K|[K|[K|[]]]]]]]; subst gk; vm_compute; eauto.
  Qed.

  Lemma group_kind_of cg kind :
    In kind table_kinds -> group_class g (cg_name F cg) = Some (class_of_kind kind) ->
    (class_of_kind kind = "projection" -> kind_of_type (read_attr (cg_attrs F cg) "type") = kind) ->
    group_kind F g cg = Some kind.
  Proof.
    intros Hk Hc Ht. unfold group_kind. rewrite Hc. unfold table_kinds in Hk. simpl in Hk.
    destruct Hk as [K|[K|[K|[K|[K|[]]]]]]; subst kind; simpl in *; try reflexivity; rewrite (Ht eq_refl); reflexivity.
  Qed.

  Lemma cgroup_back cs c :
    supported_c cs c ->
    exists cg, write_cgroup c = Some cg /\
      group_class g (cg_name F cg) = Some (class_of_kind (dc_kind F c)) /\
      read_attr (cg_attrs F cg) "id" = dc_attrs F c "id" /\
      (match cg_array F cg with Some (_, cells) => nonempty cells | None => false end) = nonempty (dc_rows F c) /\
      forall pops,
        ((dc_kind F c = "electrical" \/ dc_kind F c = "continuous") ->
           pop_inst pops (dc_attrs F c "pre") (dc_attrs F c "post") = dc_inst cs c) ->
        load_cgroup pops cg = Some (sem32_dc cs c).
  Proof.
    intros (Hk & Hf & Ht & Hv & Hempty & Hsel & Hu).
    destruct (gen_gattrs g Hgr) as [Gt [Gs _]].
    destruct sk_parts as [_ [Ty [Tye _]]]. rewrite forallb_forall in Ty.
    unfold H5.write_cgroup. destruct c as [kind attrs rows]. cbn [H5.dc_kind H5.dc_attrs H5.dc_rows] in *.
    destruct rows as [|r0 rt].
    - (* no rows *)
      destruct (Hempty eq_refl) as [K|K]; subst kind; simpl.
      + eexists. split; [reflexivity|]. simpl. split; [apply (class_of_written "population"); exact Hk|].
        split; [apply (Gs attrs "id" "id" "population_id"); vm_compute; auto|]. split; [reflexivity|].
        intros pops _. unfold H5.load_cgroup.
        erewrite (group_kind_of _ "population" Hk); [|simpl; apply (class_of_written "population"); exact Hk|intro E; discriminate E].
        simpl. unfold H5.sem32_dc. simpl. f_equal. f_equal. f_equal.
        apply (fields_back (g_sized_pop_w g) "sized_population" attrs). intros a f arg Hin. eapply Gs; eauto.
      + eexists. split; [reflexivity|]. simpl. split; [apply (class_of_written "projection"); exact Hk|].
        split; [apply (empty_proj_attrs attrs "id" "id" "id"); vm_compute; auto|]. split; [reflexivity|].
        intros pops _. unfold H5.load_cgroup.
        erewrite (group_kind_of _ "projection" Hk);
          [|simpl; apply (class_of_written "projection"); exact Hk|intros _; simpl; apply (type_attr_read "projection" _ attrs Tye eq_refl)].
        simpl. unfold H5.sem32_dc. simpl. f_equal. f_equal. f_equal.
        apply (fields_back (sk_empty_proj_w (g_skel g)) "projection" attrs). intros a f arg Hin. eapply empty_proj_attrs; eauto.
    - (* a table *)
      set (rows := r0 :: rt) in *.
      destruct (select_table F cval weq g kind rows) as [wt|] eqn:Esel; [|exfalso; apply Hsel; [discriminate|reflexivity]].
      assert (Hwt : In wt (g_writer g) /\ wt_kind wt = kind).
      { unfold select_table in Esel. apply find_some in Esel as [E1 E2]. apply andb_true_iff in E2 as [E2 _].
        apply String.eqb_eq in E2. auto. }
      destruct Hwt as [Hwt Hwk].
      destruct (rows_back kind true rows wt Hk Esel Hf Ht Hv) as [cells [Hw [Hlen _]]]; [intros _ E; discriminate E|].
      fold rows. rewrite Hw.
      eexists. split; [reflexivity|]. simpl. split; [apply class_of_written; exact Hk|].
      assert (Fields : forall a f arg, In (a, f, arg) (gspec kind) -> read_attr (write_attrs (wt_gattrs wt) attrs) a = attrs f).
      { intros a f arg Hin. apply (Gt wt Hwt attrs a f arg). rewrite Hwk. exact Hin. }
      split.
      { assert (Hgk : In kind ["population"; "projection"; "electrical"; "continuous"; "inputlist"; "sized_population"]).
        { unfold table_kinds in Hk. simpl in *. tauto. }
        destruct (id_in_gspec kind Hgk) as [arg Hin]. eapply Fields; eauto. }
      split.
      { destruct cells; [simpl in Hlen; discriminate|reflexivity]. }
      intros pops Hinst. unfold H5.load_cgroup. simpl.
      assert (GK : group_kind F g {| cg_name := (kind_prefix g kind ++ str_of (attrs "id"))%string;
                                     cg_attrs := write_attrs (wt_gattrs wt) attrs; cg_array := Some (wt_names wt, cells) |} = Some kind).
      { apply group_kind_of; auto; [apply class_of_written; exact Hk|]. simpl. intro Hc.
        apply type_attr_read; auto. specialize (Ty wt Hwt). rewrite Hwk in Ty. exact Ty. }
      rewrite GK. simpl.
      set (inst := pop_inst pops (read_attr (write_attrs (wt_gattrs wt) attrs) (attr_name_of kind "pre"))
                            (read_attr (write_attrs (wt_gattrs wt) attrs) (attr_name_of kind "post"))).
      assert (Hu' : kind = "electrical" \/ kind = "continuous" -> inst = false ->
                    Forall (fun r => unitw F cval weq kind (sem32_of F r32 kind (snd r)) = true) rows).
      { intros K I. apply (Hu K). rewrite <- (Hinst K). transitivity inst; [|exact I]. unfold inst.
        destruct K as [K|K]; rewrite K; f_equal; symmetry.
        - apply (Fields "presynapticPopulation" "pre" "prePop"). rewrite K. vm_compute. auto.
        - apply (Fields "postsynapticPopulation" "post" "postPop"). rewrite K. vm_compute. auto.
        - apply (Fields "presynapticPopulation" "pre" "prePop"). rewrite K. vm_compute. auto.
        - apply (Fields "postsynapticPopulation" "post" "postPop"). rewrite K. vm_compute. auto. }
      destruct (rows_back kind inst rows wt Hk Esel Hf Ht Hv Hu') as [cells' [Hw' [_ Hl]]].
      rewrite Hw in Hw'. inversion Hw'; subst cells'. rewrite Hl.
      unfold H5.sem32_dc. simpl.
      assert (GKK : gkind kind true = kind).
      { unfold gkind. destruct (String.eqb kind "population"); reflexivity. }
      rewrite GKK. f_equal. f_equal. f_equal. apply (fields_back (wt_gattrs wt) kind attrs). exact Fields.
  Qed.

  (* ---------------------------------------------------------------- one network: any number of constructs *)
  Definition supported_n (n : dnetwork F) : Prop := Forall (supported_c (dn_constructs F n)) (dn_constructs F n).

  Definition wrote (cs0 : list dconstruct) (c : dconstruct) (cg : cgroup F) : Prop :=
    In (dc_kind F c) table_kinds /\
    group_class g (cg_name F cg) = Some (class_of_kind (dc_kind F c)) /\
    read_attr (cg_attrs F cg) "id" = dc_attrs F c "id" /\
    (match cg_array F cg with Some (_, cells) => nonempty cells | None => false end) = nonempty (dc_rows F c) /\
    forall pops,
      ((dc_kind F c = "electrical" \/ dc_kind F c = "continuous") ->
         pop_inst pops (dc_attrs F c "pre") (dc_attrs F c "post") = dc_inst cs0 c) ->
      load_cgroup pops cg = Some (sem32_dc cs0 c).

  Lemma write_all cs0 : forall l, Forall (supported_c cs0) l ->
    exists cgs, all_some (map write_cgroup l) = Some cgs /\ Forall2 (wrote cs0) l cgs.
  Proof.
    induction l as [|c t IH]; intro H; [exists []; simpl; auto|].
    inversion H as [|? ? Hc Ht]; subst. destruct (IH Ht) as [cgs [Hw Hf]].
    destruct (cgroup_back cs0 c Hc) as [cg [Hcg [A [B [C D]]]]].
    exists (cg :: cgs). simpl. rewrite Hcg, Hw. split; [reflexivity|]. constructor; auto.
    split; [destruct Hc; assumption|]. auto.
  Qed.

  Lemma is_pop_class kind : In kind table_kinds ->
    ostr_eqb (Some (class_of_kind kind)) (Some "population") = String.eqb kind "population".
  Proof.
    unfold table_kinds. simpl. intros [K|[K|[K|[K|[K|[]]]]]]; subst kind; reflexivity.
  Qed.

  Lemma loaded_pops_eq cs0 : forall l cgs, Forall2 (wrote cs0) l cgs -> loaded_pops F g cgs = pops_of l.
  Proof.
    induction 1 as [|c cg l cgs (Hk & Hc & Hid & Hne & _) _ IH]; [reflexivity|].
    unfold H5.loaded_pops, H5.pops_of in *. simpl. rewrite Hc, (is_pop_class _ Hk).
    destruct (String.eqb (dc_kind F c) "population"); simpl; rewrite IH; [rewrite Hid, Hne|]; reflexivity.
  Qed.

  Lemma existsb_map_filter {A B} (q : A -> bool) (f : A -> B) (p : B -> bool) l :
    existsb p (map f (filter q l)) = existsb (fun x => q x && p (f x)) l.
  Proof. induction l as [|x t IH]; simpl; auto. destruct (q x); simpl; rewrite IH; reflexivity. Qed.

  Lemma pop_inst_order cgs pre post :
    pop_inst (loaded_pops F g (corder cgs)) pre post = pop_inst (loaded_pops F g cgs) pre post.
  Proof.
    unfold pop_inst, H5.loaded_pops. rewrite !existsb_map_filter. apply existsb_perm. apply Hcorder.
  Qed.

  Lemma loads_all cs0 pops : forall l cgs, Forall2 (wrote cs0) l cgs ->
    (forall pre post, pop_inst pops pre post = pop_inst (pops_of cs0) pre post) ->
    map (load_cgroup pops) cgs = map Some (map (sem32_dc cs0) l).
  Proof.
    induction 1 as [|c cg l cgs (_ & _ & _ & _ & Hl) _ IH]; intro Hp; [reflexivity|].
    simpl. rewrite IH by exact Hp. f_equal. apply Hl. intros _. apply Hp.
  Qed.

  Lemma all_some_perm {A} (l : list (option A)) r : Permutation l (map Some r) -> exists r', all_some l = Some r' /\ Permutation r' r.
  Proof.
    intro P. apply Permutation_map_inv in P as [r' [E P]]. exists r'. subst l. split; [apply all_some_map_some|].
    apply Permutation_sym. exact P.
  Qed.

  Theorem network_back (n : dnetwork F) : supported_n n ->
    exists ng, write_network F r32 cval weq g n = Some ng /\
    exists sems, load_network F rint cval ofnat other weq corder g ng
                 = Some (map (fun f => (f, dn_attrs F n f)) (attr_fields "network"), sems)
              /\ Permutation sems (map (sem32_dc (dn_constructs F n)) (dn_constructs F n)).
  Proof.
    intro Hs. unfold supported_n in Hs. set (cs := dn_constructs F n) in *.
    destruct (write_all cs cs Hs) as [cgs [Hw Hf]].
    unfold H5.write_network. fold cs. rewrite Hw. eexists. split; [reflexivity|].
    unfold H5.load_network. simpl.
    set (pops := loaded_pops F g (corder cgs)).
    assert (Hp : forall pre post, pop_inst pops pre post = pop_inst (pops_of cs) pre post).
    { intros pre post. unfold pops. rewrite pop_inst_order, (loaded_pops_eq cs cs cgs Hf). reflexivity. }
    pose proof (loads_all cs pops cs cgs Hf Hp) as HL.
    assert (P : Permutation (map (load_cgroup pops) (corder cgs)) (map Some (map (sem32_dc cs) cs))).
    { rewrite <- HL. apply Permutation_map. apply Hcorder. }
    destruct (all_some_perm _ _ P) as [sems [Ha Hperm]].
    rewrite Ha. exists sems. split; [|exact Hperm]. f_equal. f_equal.
    destruct (gen_gattrs g Hgr) as [_ [_ [_ Gn]]].
    apply (fields_back (g_net_w g) "network" (dn_attrs F n)). intros a f arg Hin. eapply Gn; eauto.
  Qed.

  (* ---------------------------------------------------------------- the document *)
  Definition supported_d (d : document F X) : Prop :=
    length (dd_networks F X d) <= 1 /\ Forall supported_n (dd_networks F X d).

  (* the part of the document that travels as embedded XML: EXACTLY the conclusion of the C01 theorem
     (Proofs/GdsP.v roundtrip: export gives an element from which build, told the class, gives the object back) *)
  Definition c01_premise (d : document F X) : Prop :=
    forall o, In o (dd_top F X d) -> exists x, xexport o = Some x /\ xbuild (xcls o) x = Some o.

  Definition net_image (n : dnetwork F) (ln : list (string * option string) * list (csem F)) : Prop :=
    fst ln = map (fun f => (f, dn_attrs F n f)) (attr_fields "network") /\
    Permutation (snd ln) (map (sem32_dc (dn_constructs F n)) (dn_constructs F n)).

  Lemma top_back (l : list X) : (forall o, In o l -> exists x, xexport o = Some x /\ xbuild (xcls o) x = Some o) ->
    exists xs, all_some (map (fun o => match xexport o with Some x => Some (xcls o, x) | None => None end) l) = Some xs /\
               all_some (map (fun cx => xbuild (fst cx) (snd cx)) xs) = Some l.
  Proof.
    induction l as [|o t IH]; intro H; [exists []; auto|].
    destruct (H o (or_introl eq_refl)) as [x [Ex Eb]]. destruct (IH (fun o' Ho' => H o' (or_intror Ho'))) as [xs [E1 E2]].
    exists ((xcls o, x) :: xs). simpl. rewrite Ex, E1. simpl. rewrite Eb, E2. auto.
  Qed.

  Lemma nets_back (l : list (dnetwork F)) : Forall supported_n l ->
    exists ngs, all_some (map (write_network F r32 cval weq g) l) = Some ngs /\
    exists lns, all_some (map (load_network F rint cval ofnat other weq corder g) ngs) = Some lns /\ Forall2 net_image l lns.
  Proof.
    induction l as [|n t IH]; intro H; [exists []; split; auto; exists []; auto|].
    inversion H as [|? ? Hn Ht]; subst. destruct (IH Ht) as [ngs [E1 [lns [E2 F2]]]].
    destruct (network_back n Hn) as [ng [Ew [sems [El Hp]]]].
    exists (ng :: ngs). simpl. rewrite Ew, E1. split; [reflexivity|].
    eexists. simpl. rewrite El, E2. split; [reflexivity|]. constructor; auto. split; auto.
  Qed.

  Theorem document_roundtrip (d : document F X) :
    supported_d d -> c01_premise d ->
    exists f, write_document F r32 cval weq X XML xcls xexport g d = Some f /\
    exists nets, load_document F rint cval ofnat other weq X XML xbuild corder g f
                 = Some (map (fun f => (f, dd_attrs F X d f)) (attr_fields "document"), dd_top F X d, nets)
              /\ Forall2 net_image (dd_networks F X d) nets.
  Proof.
    intros [Hlen Hn] Hx.
    destruct (top_back (dd_top F X d) Hx) as [xs [Ex Eb]].
    destruct (nets_back (dd_networks F X d) Hn) as [ngs [Ew [lns [El F2]]]].
    unfold H5.write_document.
    assert (W : match dd_networks F X d with
                | _ :: _ :: _ => None
                | nets => match all_some (map (write_network F r32 cval weq g) nets),
                                all_some (map (fun o => match xexport o with Some x => Some (xcls o, x) | None => None end) (dd_top F X d)) with
                          | Some ngs0, Some xs0 => Some {| f_root := sk_root (g_skel g); f_attrs := write_attrs (g_doc_w g) (dd_attrs F X d);
                                                           f_xml := xs0; f_networks := ngs0 |}
                          | _, _ => None end
                end = Some {| f_root := sk_root (g_skel g); f_attrs := write_attrs (g_doc_w g) (dd_attrs F X d);
                              f_xml := xs; f_networks := ngs |}).
    { destruct (dd_networks F X d) as [|n1 [|n2 t]]; [| |simpl in Hlen; lia]; rewrite Ew, Ex; reflexivity. }
    rewrite W. eexists. split; [reflexivity|].
    unfold H5.load_document. simpl. rewrite Eb, El. exists lns. split; [|exact F2]. f_equal. f_equal. f_equal.
    destruct (gen_gattrs g Hgr) as [_ [_ [Gd _]]].
    apply (fields_back (g_doc_w g) "document" (dd_attrs F X d)). intros a f arg Hin. eapply Gd; eauto.
  Qed.
End Doc.

(* ====================================================================== the optimized loader as a second reader *)
Section Opt.
  Variable F : Type.
  Variables (r32 rint : F -> F) (cval : cst -> F) (ofnat : nat -> F) (isint : F -> bool).
  Hypothesis H1 : forall x, isint x = true -> rint (r32 x) = r32 x.
  Hypothesis H3 : forall c, r32 (cval c) = cval c.

  Lemma opt_decode_ok names cols oe (fields : sem_row F) i :
    oe_ok names cols oe = true -> typed F isint fields -> defaults_ok F cval cols fields ->
    field_stored cols (oe_field oe) = true \/ sem_default (oe_field oe) <> None ->
    opt_decode F rint cval ofnat names oe i (encode_row F r32 cval cols fields) = Some (r32 (fields (oe_field oe))).
  Proof.
    intros Hok Hty Hdef Hheld. unfold oe_ok in Hok. apply andb_true_iff in Hok as [_ Hok]. unfold opt_decode.
    destruct (find_col names (oe_name oe) 0) as [j|] eqn:Ej.
    - apply andb_true_iff in Hok as [Hg Hc]. rewrite Hg.
      destruct (nth_error cols j) as [[f|c]|] eqn:En; try discriminate.
      apply andb_true_iff in Hc as [Hf Hint]. apply String.eqb_eq in Hf. subst f.
      unfold H5.encode_row. rewrite nth_error_map, En. simpl. f_equal.
      destruct (oe_int oe); [|reflexivity]. simpl in Hint. apply H1. apply Hty. exact Hint.
    - apply andb_true_iff in Hok as [Hns Hd]. apply negb_true_iff in Hns.
      destruct (sem_default (oe_field oe)) as [c|] eqn:Ed.
      + destruct (oe_dflt oe); try discriminate. apply cst_eqb_eq in Hd. subst c0. simpl.
        rewrite (Hdef _ c Hns Ed), H3. reflexivity.
      + destruct Hheld as [H|H]; congruence.
  Qed.

  Theorem gen_optimized_row (g : h5gen) : optimized_ok g = true ->
    forall wt v ot oe, In wt (g_writer g) -> opt_supported wt = true -> In v (wt_variants wt) ->
    find (fun ot => String.eqb (ot_kind ot) (wt_kind wt)) (g_opt g) = Some ot -> In oe (ot_entries ot) ->
    forall (fields : sem_row F) i, typed F isint fields -> defaults_ok F cval (wv_cols v) fields ->
    field_stored (wv_cols v) (oe_field oe) = true \/ sem_default (oe_field oe) <> None ->
    opt_decode F rint cval ofnat (wt_names wt) oe i (encode_row F r32 cval (wv_cols v) fields) = Some (r32 (fields (oe_field oe))).
  Proof.
    unfold optimized_ok. intros H wt v ot oe Hwt Hs Hv Hot Hoe fields i Hty Hdef Hheld.
    apply andb_true_iff in H as [H _]. rewrite forallb_forall in H. specialize (H wt Hwt).
    unfold opt_table_ok in H. rewrite Hs in H. simpl in H. rewrite forallb_forall in H. specialize (H v Hv).
    rewrite Hot in H. apply andb_true_iff in H as [H _]. rewrite forallb_forall in H.
    apply opt_decode_ok; auto.
  Qed.
End Opt.
