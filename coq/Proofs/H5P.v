(* C05 proofs: a layout that meets the boolean obligations round-trips every row, every table of any length, and every
   construct (rows re-sorted into element lists by the builder), up to float32 rounding of the cells.
   PyTables, float32 and python's int()/== are Section variables with the hypotheses listed below. *)
From Coq Require Import String List Bool Arith Lia.
From LNML Require Import Model.H5.
Import ListNotations.
Open Scope string_scope.

(* ------------------------------------------------------------------ list helpers *)
Lemma mem_In s l : mem s l = true <-> In s l.
Proof.
  induction l as [|x t IH]; simpl; [split; [discriminate|tauto]|].
  rewrite orb_true_iff, IH, String.eqb_eq. split; intros [H|H]; auto.
Qed.

Lemma ostr_eqb_eq a b : ostr_eqb a b = true -> a = b.
Proof. destruct a, b; simpl; try discriminate; auto. intro H. apply String.eqb_eq in H. congruence. Qed.

Lemma cst_eqb_eq a b : cst_eqb a b = true <-> a = b.
Proof. destruct a, b; simpl; split; intro; try discriminate; auto. Qed.

Lemma ocst_eqb_eq a b : ocst_eqb a b = true -> a = b.
Proof. destruct a, b; simpl; try discriminate; auto. intro H. apply cst_eqb_eq in H. congruence. Qed.

Lemma dflt_eqb_eq a b : dflt_eqb a b = true -> a = b.
Proof. destruct a, b; simpl; try discriminate; auto. intro H. apply cst_eqb_eq in H. congruence. Qed.

Lemma filter_filter_same {A} (p : A -> bool) l : filter p (filter p l) = filter p l.
Proof. induction l as [|x t IH]; simpl; auto. destruct (p x) eqn:E; simpl; rewrite ?E, IH; auto. Qed.

Lemma filter_filter_neg {A} (p : A -> bool) l : filter p (filter (fun x => negb (p x)) l) = [].
Proof. induction l as [|x t IH]; simpl; auto. destruct (p x) eqn:E; simpl; rewrite ?E; auto. Qed.

Lemma filter_neg_filter {A} (p : A -> bool) l : filter (fun x => negb (p x)) (filter p l) = [].
Proof. induction l as [|x t IH]; simpl; auto. destruct (p x) eqn:E; simpl; rewrite ?E; auto. Qed.

Lemma filter_neg_neg {A} (p : A -> bool) l :
  filter (fun x => negb (p x)) (filter (fun x => negb (p x)) l) = filter (fun x => negb (p x)) l.
Proof. apply filter_filter_same. Qed.

Lemma filter_all {A} (p : A -> bool) l : (forall x, In x l -> p x = true) -> filter p l = l.
Proof.
  induction l as [|x t IH]; simpl; auto. intro H. rewrite (H x (or_introl eq_refl)). f_equal. auto.
Qed.

Lemma filter_none {A} (p : A -> bool) l : (forall x, In x l -> p x = false) -> filter p l = [].
Proof.
  induction l as [|x t IH]; simpl; auto. intro H. rewrite (H x (or_introl eq_refl)). auto.
Qed.

Lemma find_col_bound names n : forall j k, find_col names n j = Some k -> j <= k /\ k - j < length names.
Proof.
  induction names as [|[x|] t IH]; simpl; intros j k H; try discriminate.
  - destruct (String.eqb x n). + inversion H; subst. lia. + apply IH in H. lia.
  - apply IH in H. lia.
Qed.

Section Proofs.
  Variable F : Type.
  Variables (r32 rint : F -> F) (cval : cst -> F) (ofnat : nat -> F) (other : F) (weq : F -> F -> bool) (isint : F -> bool).
  (* what is assumed of float32 cells, python's int() and == *)
  Hypothesis rint_r32 : forall x, isint x = true -> rint (r32 x) = r32 x.   (* int() of a stored integer is that integer *)
  Hypothesis rint_cst : forall c, c <> CHalf -> rint (cval c) = cval c.
  Hypothesis r32_cst : forall c, r32 (cval c) = cval c.                       (* 0, 1, 1/2, -1 are float32 numbers *)
  Hypothesis weq_spec : forall x y, weq x y = true <-> x = y.

  Notation sem_row := (sem_row F).
  Notation encode_row := (encode_row F r32 cval).
  Notation decode_arg := (decode_arg F rint cval ofnat other).
  Notation decode_field := (decode_field F rint cval ofnat other).
  Notation decode_sem := (decode_sem F rint cval ofnat other).
  Notation decode_table := (decode_table F rint cval ofnat other).
  Notation encode_table := (encode_table F r32 cval).
  Notation sem32_of := (sem32_of F r32).
  Notation unitw := (unitw F cval weq).
  Notation zerod := (zerod F cval weq).
  Notation canon := (canon F cval weq).
  Notation classify := (classify F cval weq).
  Notation rebuild := (rebuild F cval weq).
  Notation sem_rows := (sem_rows F cval weq).
  Notation load_rows := (load_rows F rint cval ofnat other weq).
  Notation write_rows := (write_rows F r32 cval).

  (* a row is well typed when its integer fields hold integers *)
  Definition typed (fields : sem_row) : Prop := forall f, int_field f = true -> isint (fields f) = true.
  (* the fields a table does not store hold their semantic default in this row (that is how the writer chooses the
     table: no weight column <-> no weighted entry, no segment/fraction columns <-> all of them at 0 / 0.5) *)
  Definition defaults_ok (cols : list src) (fields : sem_row) : Prop :=
    forall f c, field_stored cols f = false -> sem_default f = Some c -> fields f = cval c.

  Lemma nth_encode cols fields j s :
    nth_error cols j = Some s -> nth_error (encode_row cols fields) j = Some (encode_cell F r32 cval fields s).
  Proof. intro H. unfold H5.encode_row. rewrite nth_error_map, H. reflexivity. Qed.

  (* ---------------------------------------------------------------- one cell *)
  Lemma decode_arg_ok kind names cols pe f fields i :
    pe_ok kind names cols pe = true -> field_of kind (pe_arg pe) = Some f ->
    typed fields -> defaults_ok cols fields ->
    field_stored cols f = true \/ sem_default f <> None ->
    decode_arg names pe i (encode_row cols fields) = Some (r32 (fields f)).
  Proof.
    intros Hok Hf Hty Hdef Hheld. unfold pe_ok in Hok. rewrite Hf in Hok. unfold H5.decode_arg.
    destruct (find_col names (pe_name pe) 0) as [j|] eqn:Ej.
    - apply andb_true_iff in Hok as [Hg Hc]. rewrite Hg.
      destruct (nth_error cols j) as [[g|c]|] eqn:En; try discriminate.
      + apply andb_true_iff in Hc as [Hgf Hint]. apply String.eqb_eq in Hgf. subst g.
        rewrite (nth_encode _ _ _ _ En). simpl. f_equal.
        destruct (pe_int pe); auto. simpl in Hint. apply rint_r32. apply Hty. exact Hint.
      + apply andb_true_iff in Hc as [Hc Hint]. apply andb_true_iff in Hc as [Hns Hd].
        apply negb_true_iff in Hns. apply ocst_eqb_eq in Hd.
        rewrite (nth_encode _ _ _ _ En). simpl. rewrite (Hdef f c Hns Hd), r32_cst. f_equal.
        destruct (pe_int pe); auto. simpl in Hint. apply rint_cst. intro E. subst c. discriminate.
    - apply andb_true_iff in Hok as [Hns Hd]. apply negb_true_iff in Hns.
      destruct (sem_default f) as [c|] eqn:Ed.
      + apply dflt_eqb_eq in Hd. rewrite Hd. simpl. rewrite (Hdef f c Hns Ed), r32_cst. reflexivity.
      + destruct Hheld as [H|H]; congruence.
  Qed.

  (* ---------------------------------------------------------------- one semantic field, one row *)
  Lemma decode_field_ok kind rargs names cols fields i f :
    variant_ok kind rargs names cols = true -> args_cover kind rargs = true -> In f (sfields kind) ->
    typed fields -> defaults_ok cols fields ->
    decode_field kind names rargs i (encode_row cols fields) f = Some (r32 (fields f)).
  Proof.
    intros Hv Hcov Hin Hty Hdef. unfold variant_ok in Hv.
    apply andb_true_iff in Hv as [Hv Hheld]. apply andb_true_iff in Hv as [Hv _]. apply andb_true_iff in Hv as [_ Hpe].
    unfold H5.decode_field.
    destruct (find (fun pe => ostr_eqb (field_of kind (pe_arg pe)) (Some f)) rargs) as [pe|] eqn:Efind.
    - apply find_some in Efind as [Hinpe Hfo]. apply ostr_eqb_eq in Hfo.
      rewrite forallb_forall in Hpe. apply (decode_arg_ok kind names cols pe f); auto.
      unfold sfields_held in Hheld. rewrite forallb_forall in Hheld. specialize (Hheld f Hin).
      apply orb_true_iff in Hheld as [H|H]; auto. right. destruct (sem_default f); [discriminate|discriminate H].
    - exfalso. unfold args_cover in Hcov. rewrite forallb_forall in Hcov. specialize (Hcov f Hin).
      apply existsb_exists in Hcov as [pe [Hinpe Hpe']]. apply (find_none _ _ Efind) in Hinpe. congruence.
  Qed.

  Lemma all_some_map {A B} (g : A -> option B) (h : A -> B) l :
    (forall x, In x l -> g x = Some (h x)) -> all_some F (map g l) = Some (map h l).
  Proof.
    induction l as [|x t IH]; simpl; auto. intro H. rewrite (H x (or_introl eq_refl)), IH; auto.
  Qed.

  Theorem row_roundtrip kind rargs names cols fields i :
    variant_ok kind rargs names cols = true -> args_cover kind rargs = true ->
    typed fields -> defaults_ok cols fields ->
    decode_sem kind names rargs i (encode_row cols fields) = Some (sem32_of kind fields).
  Proof.
    intros Hv Hcov Hty Hdef. unfold H5.decode_sem, H5.sem32_of.
    apply all_some_map. intros f Hin. apply (decode_field_ok kind rargs names cols); auto.
  Qed.

  (* ---------------------------------------------------------------- tables of any length *)
  Definition row_wf (vs : list wvariant) (r : trow F) : Prop :=
    exists cols, cols_of vs (fst r) = Some cols /\ typed (snd r) /\ defaults_ok cols (snd r).

  Lemma cols_of_In vs v cols : cols_of vs v = Some cols -> exists w, In w vs /\ wv_cols w = cols.
  Proof.
    unfold cols_of. destruct (find _ vs) as [w|] eqn:E; [|discriminate]. intro H. inversion H; subst.
    apply find_some in E as [Hin _]. eauto.
  Qed.

  Theorem table_roundtrip rargs wt :
    table_ok rargs wt = true ->
    forall rows, Forall (row_wf (wt_variants wt)) rows ->
    exists cells, write_rows wt rows = Some cells /\ length cells = length rows /\
      forall i, decode_table (wt_kind wt) (wt_names wt) rargs i cells
                = Some (map (fun r => sem32_of (wt_kind wt) (snd r)) rows).
  Proof.
    intros Hok. unfold table_ok in Hok.
    apply andb_true_iff in Hok as [Hok Hvs]. apply andb_true_iff in Hok as [Hok _]. apply andb_true_iff in Hok as [_ Hcov].
    rewrite forallb_forall in Hvs.
    induction rows as [|[v fields] t IH]; intro Hwf.
    - exists []. simpl. auto.
    - inversion Hwf as [|? ? Hr Ht]; subst. destruct (IH Ht) as [cells [Hw [Hlen Hd]]].
      destruct Hr as [cols [Hc [Hty Hdef]]]. simpl in Hc.
      exists (encode_row cols fields :: cells). unfold H5.write_rows in *. simpl. rewrite Hc, Hw.
      split; [reflexivity|]. split; [simpl; congruence|]. intro i. simpl.
      destruct (cols_of_In _ _ _ Hc) as [w [Hinw Hwc]]. specialize (Hvs w Hinw). rewrite Hwc in Hvs.
      rewrite (row_roundtrip _ _ _ _ _ i Hvs Hcov Hty Hdef), Hd. reflexivity.
  Qed.

  (* ---------------------------------------------------------------- rows re-sorted into element lists *)
  Lemma rebuild_with_split (cl : list F -> option string) (p : list F -> bool) va vb :
    va <> vb ->
    forall l tagged, (forall s, In s l -> cl s = Some (if p s then va else vb)) ->
    rebuild_with F cl l = Some tagged ->
    list_of F va tagged = filter p l /\ list_of F vb tagged = filter (fun s => negb (p s)) l /\
    forall v, v <> va -> v <> vb -> list_of F v tagged = [].
  Proof.
    intros Hne. induction l as [|s t IH]; intros tagged Hcl Hr.
    - simpl in Hr. inversion Hr. simpl. auto.
    - simpl in Hr. rewrite (Hcl s (or_introl eq_refl)) in Hr.
      destruct (rebuild_with F cl t) as [rest|] eqn:Er; [|discriminate]. inversion Hr; subst. clear Hr.
      destruct (IH rest (fun x H => Hcl x (or_intror H)) eq_refl) as [Ha [Hb Ho]].
      unfold list_of in *. simpl.
      destruct (p s) eqn:Ep; simpl.
      + rewrite String.eqb_refl. simpl. rewrite Ha.
        assert (E : String.eqb va vb = false) by (apply String.eqb_neq; auto). rewrite E, Hb.
        split; auto. split; auto. intros v H1 H2.
        assert (E' : String.eqb va v = false) by (apply String.eqb_neq; auto). rewrite E'. auto.
      + rewrite String.eqb_refl. simpl. rewrite Hb.
        assert (E : String.eqb vb va = false) by (apply String.eqb_neq; auto). rewrite E, Ha.
        split; auto. split; auto. intros v H1 H2.
        assert (E' : String.eqb vb v = false) by (apply String.eqb_neq; auto). rewrite E'. auto.
  Qed.

  Lemma rebuild_with_all (cl : list F -> option string) va :
    forall l tagged, (forall s, In s l -> cl s = Some va) -> rebuild_with F cl l = Some tagged ->
    list_of F va tagged = l /\ forall v, v <> va -> list_of F v tagged = [].
  Proof.
    induction l as [|s t IH]; intros tagged Hcl Hr.
    - simpl in Hr. inversion Hr. simpl. auto.
    - simpl in Hr. rewrite (Hcl s (or_introl eq_refl)) in Hr.
      destruct (rebuild_with F cl t) as [rest|] eqn:Er; [|discriminate]. inversion Hr; subst. clear Hr.
      destruct (IH rest (fun x H => Hcl x (or_intror H)) eq_refl) as [Ha Ho].
      unfold list_of in *. simpl. rewrite String.eqb_refl. simpl. rewrite Ha. split; auto.
      intros v Hv. assert (E : String.eqb va v = false) by (apply String.eqb_neq; auto). rewrite E. auto.
  Qed.

  Lemma rebuild_with_In cl : forall l tagged, rebuild_with F cl l = Some tagged -> forall s, In s l -> cl s <> None.
  Proof.
    induction l as [|x t IH]; intros tagged Hr s Hin; [destruct Hin|].
    simpl in Hr. destruct (cl x) eqn:Ex; [|discriminate]. destruct (rebuild_with F cl t) eqn:Et; [|discriminate].
    destruct Hin as [H|H]; [subst; congruence|eauto].
  Qed.

  Lemma canon_canon kind l : canon kind (canon kind l) = canon kind l.
  Proof.
    unfold H5.canon. rewrite !filter_app.
    rewrite filter_filter_same, filter_filter_neg, filter_neg_filter, filter_neg_neg. simpl. rewrite app_nil_r. reflexivity.
  Qed.

  Lemma canon_units kind l : (forall s, In s l -> unitw kind s = true) -> canon kind l = l.
  Proof.
    intro H. unfold H5.canon. rewrite (filter_all _ _ H).
    rewrite filter_none; [apply app_nil_r|]. intros s Hs. rewrite (H s Hs). reflexivity.
  Qed.

  (* the order of the rows a loaded construct presents, in terms of the decoded rows *)
  Theorem rebuild_order kind inst cols l tagged :
    In kind ["population"; "projection"; "electrical"; "continuous"; "inputlist"] ->
    (kind = "projection" -> cols = false -> forall s, In s l -> unitw kind s = true /\ zerod kind s = true) ->
    rebuild kind inst cols l = Some tagged ->
    sem_rows kind (doc_order F (variants_of kind) tagged) = sem_rows kind l.
  Proof.
    intros Hk Hproj Hr. unfold H5.rebuild in Hr.
    simpl in Hk. destruct Hk as [K|[K|[K|[K|[K|[]]]]]]; subst kind.
    - (* population *)
      destruct (rebuild_with_all _ "Instance" l tagged) as [Ha _]; auto.
      unfold H5.sem_rows, doc_order. simpl. rewrite Ha, app_nil_r. reflexivity.
    - (* chemical projection: one list after a load *)
      unfold H5.sem_rows, doc_order. simpl. destruct cols.
      + destruct (rebuild_with_all _ "ConnectionWD" l tagged) as [Ha Ho]; auto.
        rewrite Ha, (Ho "Connection"); [reflexivity|discriminate].
      + destruct (rebuild_with_all _ "Connection" l tagged) as [Ha Ho]; auto.
        * intros s Hs. destruct (Hproj eq_refl eq_refl s Hs) as [Hu Hz].
          unfold H5.classify, classify_b. simpl. rewrite Hu, Hz. reflexivity.
        * rewrite Ha, (Ho "ConnectionWD"); [apply app_nil_r|discriminate].
    - (* electrical *)
      unfold H5.sem_rows, doc_order. simpl. destruct inst.
      + destruct (rebuild_with_split _ (unitw "electrical") "ElectricalConnectionInstance" "ElectricalConnectionInstanceW"
                    ltac:(discriminate) l tagged) as [Ha [Hb Ho]]; auto.
        * intros s _. unfold H5.classify, classify_b. simpl. destruct (unitw "electrical" s); reflexivity.
        * rewrite Ha, Hb, (Ho "ElectricalConnection"); try discriminate. simpl. rewrite app_nil_r.
          apply (canon_canon "electrical").
      + assert (Hall : forall s, In s l -> unitw "electrical" s = true).
        { intros s Hs. pose proof (rebuild_with_In _ _ _ Hr s Hs) as Hn.
          unfold H5.classify, classify_b in Hn. simpl in Hn. destruct (unitw "electrical" s); congruence. }
        destruct (rebuild_with_all _ "ElectricalConnection" l tagged) as [Ha Ho]; auto.
        * intros s Hs. unfold H5.classify, classify_b. simpl. rewrite (Hall s Hs). reflexivity.
        * rewrite Ha, (Ho "ElectricalConnectionInstance"), (Ho "ElectricalConnectionInstanceW"); try discriminate.
          rewrite !app_nil_r. reflexivity.
    - (* continuous *)
      unfold H5.sem_rows, doc_order. simpl. destruct inst.
      + destruct (rebuild_with_split _ (unitw "continuous") "ContinuousConnectionInstance" "ContinuousConnectionInstanceW"
                    ltac:(discriminate) l tagged) as [Ha [Hb Ho]]; auto.
        * intros s _. unfold H5.classify, classify_b. simpl. destruct (unitw "continuous" s); reflexivity.
        * rewrite Ha, Hb, (Ho "ContinuousConnection"); try discriminate. simpl. rewrite app_nil_r.
          apply (canon_canon "continuous").
      + assert (Hall : forall s, In s l -> unitw "continuous" s = true).
        { intros s Hs. pose proof (rebuild_with_In _ _ _ Hr s Hs) as Hn.
          unfold H5.classify, classify_b in Hn. simpl in Hn. destruct (unitw "continuous" s); congruence. }
        destruct (rebuild_with_all _ "ContinuousConnection" l tagged) as [Ha Ho]; auto.
        * intros s Hs. unfold H5.classify, classify_b. simpl. rewrite (Hall s Hs). reflexivity.
        * rewrite Ha, (Ho "ContinuousConnectionInstance"), (Ho "ContinuousConnectionInstanceW"); try discriminate.
          rewrite !app_nil_r. reflexivity.
    - (* input list *)
      unfold H5.sem_rows, doc_order. simpl.
      destruct (rebuild_with_split _ (unitw "inputlist") "Input" "InputW" ltac:(discriminate) l tagged) as [Ha [Hb _]]; auto.
      + intros s _. unfold H5.classify, classify_b. simpl. destruct (unitw "inputlist" s); reflexivity.
      + rewrite Ha, Hb, app_nil_r. apply (canon_canon "inputlist").
  Qed.

  (* ---------------------------------------------------------------- one construct, written and loaded *)
  Lemma weq_refl x : weq x x = true.
  Proof. apply weq_spec. reflexivity. Qed.

  (* a chemical projection table that stores neither weight nor delay decodes to unit weight, zero delay *)
  Lemma proj_defaults fields :
    fields "weight" = cval COne -> fields "delay" = cval CZero ->
    unitw "projection" (sem32_of "projection" fields) = true /\ zerod "projection" (sem32_of "projection" fields) = true.
  Proof.
    intros Hw Hd. unfold H5.unitw, H5.zerod, H5.sem_get, H5.sem32_of. simpl.
    rewrite Hw, Hd, !r32_cst, !weq_refl. auto.
  Qed.

  Theorem construct_roundtrip rargs wt inst :
    table_ok rargs wt = true ->
    In (wt_kind wt) ["population"; "projection"; "electrical"; "continuous"; "inputlist"] ->
    forall rows, Forall (row_wf (wt_variants wt)) rows ->
    exists cells, write_rows wt rows = Some cells /\
      forall out, load_rows (wt_kind wt) inst (wt_names wt) rargs cells = Some out ->
                  out = sem_rows (wt_kind wt) (map (fun r => sem32_of (wt_kind wt) (snd r)) rows).
  Proof.
    intros Hok Hk rows Hwf.
    destruct (table_roundtrip rargs wt Hok rows Hwf) as [cells [Hw [_ Hd]]].
    exists cells. split; [exact Hw|]. intros out Hl. unfold H5.load_rows in Hl. rewrite (Hd 0) in Hl.
    destruct (rebuild (wt_kind wt) inst (has_wd_cols (wt_names wt)) _) as [tagged|] eqn:Er; [|discriminate].
    inversion Hl; subst out. clear Hl.
    apply (rebuild_order _ inst (has_wd_cols (wt_names wt))); auto.
    intros Hkind Hcols s Hs.
    (* no weight / delay column: no variant stores them, so every row is at the defaults *)
    unfold table_ok in Hok. apply andb_true_iff in Hok as [Hok _]. apply andb_true_iff in Hok as [_ Hwd].
    unfold wd_flag_ok in Hwd. rewrite Hkind in Hwd. simpl in Hwd. rewrite Hcols in Hwd. simpl in Hwd.
    rewrite forallb_forall in Hwd.
    apply in_map_iff in Hs as [[v fields] [Hs Hin]]. subst s. simpl.
    rewrite Forall_forall in Hwf. destruct (Hwf _ Hin) as [cols [Hc [_ Hdef]]]. simpl in Hc, Hdef.
    destruct (cols_of_In _ _ _ Hc) as [w [Hinw Hwc]]. specialize (Hwd w Hinw). rewrite Hwc in Hwd.
    apply andb_true_iff in Hwd as [H1 H2]. apply negb_true_iff in H1, H2.
    rewrite Hkind. apply proj_defaults; [apply (Hdef "weight" COne H1 eq_refl)|apply (Hdef "delay" CZero H2 eq_refl)].
  Qed.

  (* ---------------------------------------------------------------- group attributes *)
  Lemma assoc_write_attrs w fields a s :
    assoc a w = Some s ->
    assoc a (write_attrs w fields) = Some (match s with GField f => fields f | GConst c => Some c | _ => None end).
  Proof.
    induction w as [|[k g] t IH]; simpl; [discriminate|]. destruct (String.eqb a k); auto. intro H. inversion H. reflexivity.
  Qed.

  Theorem gattrs_roundtrip kind w r bs fields :
    gattrs_ok kind w r bs = true ->
    forall a f arg, In (a, f, arg) (gspec kind) -> read_attr (write_attrs w fields) a = fields f.
  Proof.
    intros Hok a f arg Hin. unfold gattrs_ok in Hok. rewrite forallb_forall in Hok. specialize (Hok _ Hin).
    unfold gattr_ok in Hok. apply andb_true_iff in Hok as [Hok _]. apply andb_true_iff in Hok as [Hw _].
    destruct (assoc a w) as [s|] eqn:Ea; [|discriminate].
    unfold read_attr. rewrite (assoc_write_attrs _ fields _ _ Ea).
    destruct s; simpl in Hw; try discriminate. apply String.eqb_eq in Hw. subst. reflexivity.
  Qed.
End Proofs.

(* ------------------------------------------------------------------ the layouts as shipped at the pinned commit refute the
   round trip (each was confirmed on the real code; see design_notes/C05.md).  Instance: F = nat, r32 = id. *)
Definition nval (c : cst) : nat := match c with CZero => 0 | COne => 1 | CHalf => 5 | CMinusOne => 99 end.

Definition shipped_elec_names : list (option string) :=
  [Some "id"; Some "pre_cell_id"; Some "post_cell_id"; Some "pre_segment_id"; Some "post_segment_id";
   Some "pre_fraction_along"; Some "post_fraction_along"].
Definition shipped_elec_cols : list src :=
  [SField "id"; SField "pre_cell"; SField "post_cell"; SField "pre_seg"; SField "post_seg"; SField "pre_fract"; SField "post_fract"].
(* parse_dataset: id = int(row[indexId]) if indexId > 0 else i *)
Definition shipped_id_arg : pentry :=
  {| pe_arg := "conn_id"; pe_name := "id"; pe_at0 := false; pe_atpos := true; pe_int := true; pe_dflt := DRowIndex |}.

Theorem ids_refuted :
  exists fields : string -> nat,
    decode_arg nat (fun x => x) nval (fun i => i) 0 shipped_elec_names shipped_id_arg 0
               (encode_row nat (fun x => x) nval shipped_elec_cols fields) <> Some (fields "id").
Proof. exists (fun f => if String.eqb f "id" then 7 else 3). vm_compute. discriminate. Qed.

(* an Input in a list that also holds an InputW: the weight cell is left 0 and is read back as weight 0, not 1 *)
Definition shipped_input_names : list (option string) :=
  [Some "id"; Some "target_cell_id"; Some "segment_id"; Some "fraction_along"; Some "weight"].
Definition shipped_input_cols_plain : list src := [SField "id"; SField "cell"; SField "seg"; SField "fract"; SConst CZero].
Definition shipped_weight_arg : pentry :=
  {| pe_arg := "weight"; pe_name := "weight"; pe_at0 := true; pe_atpos := true; pe_int := false; pe_dflt := DConst COne |}.

Theorem mixed_refuted :
  exists fields : string -> nat,
    fields "weight" = nval COne /\
    decode_arg nat (fun x => x) nval (fun i => i) 0 shipped_input_names shipped_weight_arg 0
               (encode_row nat (fun x => x) nval shipped_input_cols_plain fields) <> Some (fields "weight").
Proof. exists (fun f => if String.eqb f "weight" then 1 else 3). split; [reflexivity|]. vm_compute. discriminate. Qed.

(* the obligations do reject those layouts *)
Example shipped_elec_rejected :
  pe_ok "electrical" shipped_elec_names shipped_elec_cols shipped_id_arg = false.
Proof. vm_compute. reflexivity. Qed.
Example shipped_mixed_rejected :
  pe_ok "inputlist" shipped_input_names shipped_input_cols_plain shipped_weight_arg = false.
Proof. vm_compute. reflexivity. Qed.

(* non-vacuity: a fixed layout satisfies the hypotheses of the theorems *)
Definition fixed_id_arg : pentry :=
  {| pe_arg := "id"; pe_name := "id"; pe_at0 := true; pe_atpos := true; pe_int := true; pe_dflt := DRowIndex |}.
Definition ex_input_args : list pentry :=
  [fixed_id_arg;
   {| pe_arg := "cellId"; pe_name := "target_cell_id"; pe_at0 := true; pe_atpos := true; pe_int := true; pe_dflt := DOther |};
   {| pe_arg := "segId"; pe_name := "segment_id"; pe_at0 := true; pe_atpos := true; pe_int := true; pe_dflt := DConst CZero |};
   {| pe_arg := "fract"; pe_name := "fraction_along"; pe_at0 := true; pe_atpos := true; pe_int := false; pe_dflt := DConst CHalf |};
   shipped_weight_arg].
Definition ex_input_table : wtable :=
  {| wt_kind := "inputlist"; wt_flags := ["Input"; "InputW"]; wt_names := shipped_input_names;
     wt_variants := [ {| wv_name := "Input"; wv_cols := [SField "id"; SField "cell"; SField "seg"; SField "fract"; SConst COne] |};
                      {| wv_name := "InputW"; wv_cols := [SField "id"; SField "cell"; SField "seg"; SField "fract"; SField "weight"] |} ];
     wt_gattrs := [] |}.
Example ex_table_ok : table_ok ex_input_args ex_input_table = true.
Proof. vm_compute. reflexivity. Qed.
