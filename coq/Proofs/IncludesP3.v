(* C06 proofs, part 3: consequences of the read specification ("once"), independence of the working
   directory, and the refutation of termination for the reader before the patch (rd_old). *)
From Coq Require Import String List Bool ZArith Arith Lia Relations.
From LNML Require Import Model.Includes Proofs.IncludesP Proofs.IncludesP2.
Import ListNotations.
Open Scope string_scope.

(* ------------------------------------------------------------------------ *)
(*  union / once                                                              *)
(* ------------------------------------------------------------------------ *)
Section Once.
  Variable fs : fsys.
  Variable cwd : path.

  (* everything in the result was defined by a file reachable from the entry file *)
  Theorem result_from_reachable : forall fuel p d al' c,
    read_entry_file fs cwd fuel p [] = Done (d, al') ->
    In c (d_comps d) -> exists q, reach fs cwd p q /\ In c (contrib fs q).
  Proof.
    intros fuel p d al' c H Hc.
    destruct (read_entry_file_spec fs cwd fuel p d al' H) as [new [E [Nd [Rc [Ed Ei]]]]].
    rewrite Ed in Hc. apply In_merge_all in Hc. destruct Hc as [Hc|[s [Hs Hc]]].
    - exists p. split; [apply rt_refl | exact Hc].
    - apply in_map_iff in Hs. destruct Hs as [q [Eq Hq]]. subst s.
      exists q. split; [apply Rc; rewrite E; right; exact Hq | exact Hc].
  Qed.

  (* every component of every reachable file is in the result, or - when its class has an id - an
     entry with the same id of the same member list is (the first one met wins) *)
  Theorem result_covers_reachable : forall fuel p d al' q c,
    read_entry_file fs cwd fuel p [] = Done (d, al') ->
    reach fs cwd p q -> In c (contrib fs q) ->
    In c (d_comps d) \/ keyed c (d_comps d) = true.
  Proof.
    intros fuel p d al' q c H R Hc.
    destruct (read_entry_file_spec fs cwd fuel p d al' H) as [new [E [Nd [Rc [Ed Ei]]]]].
    apply Rc in R. rewrite E in R. rewrite Ed. destruct R as [Eq|Hq].
    - subst q. left. apply In_merge_all_tgt. exact Hc.
    - apply (merge_all_covers _ _ (contrib fs q)); [apply in_map; exact Hq | exact Hc].
  Qed.

  (* an id appears once per member list (given that the entry file itself does not repeat one) *)
  Theorem result_ids_once : forall fuel p d al',
    read_entry_file fs cwd fuel p [] = Done (d, al') ->
    keys_unique (contrib fs p) -> keys_unique (d_comps d).
  Proof.
    intros fuel p d al' H U.
    destruct (read_entry_file_spec fs cwd fuel p d al' H) as [new [E [Nd [Rc [Ed Ei]]]]].
    rewrite Ed. apply keys_unique_merge_all. exact U.
  Qed.

  (* a file contributes once however many paths lead to it: an id-less component (which the merge can
     never drop) occurs exactly as often as in the reachable files, each file counted once *)
  Theorem result_idless_count : forall fuel p d al' e,
    read_entry_file fs cwd fuel p [] = Done (d, al') -> c_id e = NoIdField ->
    NoDup al' /\ (forall q, In q al' <-> reach fs cwd p q) /\
    count_occ comp_eq_dec (d_comps d) e = count_occ comp_eq_dec (concat (map (contrib fs) al')) e.
  Proof.
    intros fuel p d al' e H He.
    destruct (read_entry_file_spec fs cwd fuel p d al' H) as [new [E [Nd [Rc [Ed Ei]]]]].
    split; [exact Nd|]. split; [exact Rc|].
    rewrite Ed, E, count_merge_all_noid by exact He. simpl. rewrite count_occ_app. reflexivity.
  Qed.
End Once.

(* ------------------------------------------------------------------------ *)
(*  independence of the working directory                                     *)
(* ------------------------------------------------------------------------ *)
Definition all_hrefs (fs : fsys) : list href := flat_map (fun pf => incs_file (snd pf)) (fs_files fs).

Lemma lookup_hrefs : forall fs loc f, lookup loc (fs_files fs) = Some f -> incl (incs_file f) (all_hrefs fs).
Proof.
  intros fs loc f H h Hh. apply lookup_In in H. unfold all_hrefs. apply in_flat_map.
  exists (loc, f). split; [exact H | exact Hh].
Qed.

Section Cwd.
  Variable fs : fsys.
  Variables cwd cwd' : path.
  Variable good : href -> Prop.
  Hypothesis same : forall base h, good h -> resolve fs cwd base h = resolve fs cwd' base h.
  Hypothesis all_good : forall h, In h (all_hrefs fs) -> good h.

  Lemma loop_cwd : forall r1 r2, (forall b l a, r1 b l a = r2 b l a) ->
    forall base incs d al, (forall h, In h incs -> good h) ->
      incl_loop fs cwd r1 base incs d al = incl_loop fs cwd' r2 base incs d al.
  Proof.
    intros r1 r2 Hr base incs. induction incs as [|h rest IH]; intros d al G; simpl; [reflexivity|].
    rewrite (same base h) by (apply G; left; reflexivity).
    assert (G' : forall h', In h' rest -> good h') by (intros; apply G; right; assumption).
    destruct (mem_path (resolve fs cwd' base h) al); [apply IH; exact G'|].
    destruct (kind_bad (incl_kind (resolve fs cwd' base h))); [reflexivity|].
    rewrite Hr.
    destruct (r2 (kind_h5 (incl_kind (resolve fs cwd' base h))) (resolve fs cwd' base h) (al ++ [resolve fs cwd' base h])%list)
      as [[sub al1]| |]; try reflexivity.
    apply IH; exact G'.
  Qed.

  Lemma read_x_cwd : forall r1 r2, (forall b l a, r1 b l a = r2 b l a) ->
    forall base x al, (forall h, In h (x_incs x) -> good h) ->
      read_x fs cwd r1 base x al = read_x fs cwd' r2 base x al.
  Proof. intros r1 r2 Hr base x al G. unfold read_x. rewrite (loop_cwd r1 r2 Hr) by exact G. reflexivity. Qed.

  Lemma load_h5_cwd : forall r1 r2, (forall b l a, r1 b l a = r2 b l a) ->
    forall loc al, load_h5 fs cwd r1 loc al = load_h5 fs cwd' r2 loc al.
  Proof.
    intros r1 r2 Hr loc al. unfold load_h5.
    destruct (lookup loc (fs_files fs)) as [[x|nets [x|]]|] eqn:L; try reflexivity.
    rewrite (read_x_cwd r1 r2 Hr); [reflexivity|].
    intros h Hh. apply all_good. apply (lookup_hrefs fs loc _ L). exact Hh.
  Qed.

  Lemma read_file_cwd : forall r1 r2, (forall b l a, r1 b l a = r2 b l a) ->
    forall loc al, read_file fs cwd r1 loc al = read_file fs cwd' r2 loc al.
  Proof.
    intros r1 r2 Hr loc al. unfold read_file.
    destruct (negb (is_file fs loc)); [reflexivity|].
    destruct (entry_is_h5 loc); [apply load_h5_cwd; exact Hr|].
    destruct (lookup loc (fs_files fs)) as [[x|nets emb]|] eqn:L; try reflexivity.
    apply read_x_cwd; [exact Hr|].
    intros h Hh. apply all_good. apply (lookup_hrefs fs loc _ L). exact Hh.
  Qed.

  Lemma rd_cwd : forall k h5 loc al, rd fs cwd k h5 loc al = rd fs cwd' k h5 loc al.
  Proof.
    induction k as [|k IH]; intros h5 loc al; [reflexivity|].
    simpl. destruct h5; [apply load_h5_cwd | apply read_file_cwd]; exact IH.
  Qed.
End Cwd.

(* an href is insensitive to the working directory when it is absolute or resolves from neither *)
Definition cwd_free (fs : fsys) (cwd cwd' : path) (h : href) : Prop :=
  h_abs h = true \/ (os_exists fs cwd h = false /\ os_exists fs cwd' h = false).

Lemma cwd_free_same : forall fs cwd cwd' base h, cwd_free fs cwd cwd' h ->
  resolve fs cwd base h = resolve fs cwd' base h.
Proof.
  intros fs cwd cwd' base h [A|[E1 E2]]; unfold resolve.
  - unfold join_norm. rewrite A. destruct (os_exists fs cwd h), (os_exists fs cwd' h); reflexivity.
  - rewrite E1, E2. reflexivity.
Qed.

Theorem read_entry_file_cwd : forall fs cwd cwd',
  (forall h, In h (all_hrefs fs) -> cwd_free fs cwd cwd' h) ->
  forall fuel p al, read_entry_file fs cwd fuel p al = read_entry_file fs cwd' fuel p al.
Proof.
  intros fs cwd cwd' G fuel p al. unfold read_entry_file.
  apply (read_file_cwd fs cwd cwd' (cwd_free fs cwd cwd')).
  - intros base h. apply cwd_free_same.
  - exact G.
  - apply (rd_cwd fs cwd cwd' (cwd_free fs cwd cwd')); [intros base h; apply cwd_free_same | exact G].
Qed.

Theorem read_entry_string_cwd : forall fs cwd cwd' x,
  (forall h, In h (all_hrefs fs) -> cwd_free fs cwd cwd' h) ->
  (forall h, In h (x_incs x) -> cwd_free fs cwd cwd' h) ->
  forall fuel b al,
    read_entry_string fs cwd fuel x (Some b) al = read_entry_string fs cwd' fuel x (Some b) al.
Proof.
  intros fs cwd cwd' x G Gx fuel b al. unfold read_entry_string.
  apply (read_x_cwd fs cwd cwd' (cwd_free fs cwd cwd')).
  - intros base h. apply cwd_free_same.
  - apply (rd_cwd fs cwd cwd' (cwd_free fs cwd cwd')); [intros base h; apply cwd_free_same | exact G].
  - exact Gx.
Qed.

(* ------------------------------------------------------------------------ *)
(*  before the patch: a cycle never ends                                      *)
(* ------------------------------------------------------------------------ *)
Section Old.
  Variable fs : fsys.
  Variable cwd : path.

  Lemma read_file_old_xml : forall rec g loc x s,
    lookup loc (fs_files fs) = Some (FXml x) -> entry_is_h5 loc = false ->
    read_file_old fs cwd rec g loc s = read_x_old fs cwd rec g (dirname loc) x s.
  Proof.
    intros rec g loc x s L E. unfold read_file_old, is_file. rewrite L, E. reflexivity.
  Qed.

  Lemma loop_old_first_diverges : forall rec g base h rest d s loc,
    resolve fs cwd base h = loc -> mem_path loc (cur g s) = false -> incl_kind loc = IKXml ->
    rec false g loc s = OutOfFuel ->
    incl_loop_old fs cwd rec g base (h :: rest) d s = OutOfFuel.
  Proof.
    intros rec g base h rest d s loc R M K C. simpl. rewrite R, M, K. simpl. rewrite C. reflexivity.
  Qed.

  (* the list handed down is the same object with the same content at every level: the include is
     appended only after the recursive call has returned, which it never does *)
  Theorem old_self_include_diverges : forall p x h rest s,
    lookup p (fs_files fs) = Some (FXml x) -> entry_is_h5 p = false -> incl_kind p = IKXml ->
    x_incs x = h :: rest -> resolve fs cwd (dirname p) h = p -> mem_path p (l_own s) = false ->
    forall fuel, rd_old fs cwd fuel false false p s = OutOfFuel.
  Proof.
    intros p x h rest s L E K I R M. induction fuel as [|k IH]; [reflexivity|].
    simpl. rewrite (read_file_old_xml _ _ _ _ _ L E). unfold read_x_old. rewrite I.
    rewrite (loop_old_first_diverges (rd_old fs cwd k) false (dirname p) h rest (x_comps x) s p R M K IH).
    reflexivity.
  Qed.

  Theorem old_mutual_include_diverges : forall p q x y h rest h' rest' s,
    lookup p (fs_files fs) = Some (FXml x) -> entry_is_h5 p = false -> incl_kind p = IKXml ->
    lookup q (fs_files fs) = Some (FXml y) -> entry_is_h5 q = false -> incl_kind q = IKXml ->
    x_incs x = h :: rest -> resolve fs cwd (dirname p) h = q ->
    x_incs y = h' :: rest' -> resolve fs cwd (dirname q) h' = p ->
    mem_path p (l_own s) = false -> mem_path q (l_own s) = false ->
    forall fuel, rd_old fs cwd fuel false false p s = OutOfFuel /\ rd_old fs cwd fuel false false q s = OutOfFuel.
  Proof.
    intros p q x y h rest h' rest' s Lp Ep Kp Lq Eq Kq Ix Rx Iy Ry Mp Mq.
    induction fuel as [|k [IHp IHq]]; [split; reflexivity|]. split.
    - simpl. rewrite (read_file_old_xml _ _ _ _ _ Lp Ep). unfold read_x_old. rewrite Ix.
      rewrite (loop_old_first_diverges (rd_old fs cwd k) false (dirname p) h rest (x_comps x) s q Rx Mq Kq IHq).
      reflexivity.
    - simpl. rewrite (read_file_old_xml _ _ _ _ _ Lq Eq). unfold read_x_old. rewrite Iy.
      rewrite (loop_old_first_diverges (rd_old fs cwd k) false (dirname q) h' rest' (x_comps y) s p Ry Mp Kp IHp).
      reflexivity.
  Qed.
End Old.

(* the hypotheses are satisfiable: the two stored witnesses of checks/c06.py *)
Definition fs_self : fsys :=
  {| fs_files := [(["a.nml"], FXml {| x_comps := [ {| c_list := "ion_channel"; c_id := Id "x"; c_tag := 1 |};
                                                    {| c_list := "ComponentType"; c_id := NoIdField; c_tag := 2 |} ];
                                      x_incs := [ {| h_abs := false; h_segs := ["a.nml"] |} ] |})];
     fs_dirs := [[]] |}.

Definition fs_mutual : fsys :=
  {| fs_files := [(["d0"; "a.nml"], FXml {| x_comps := [ {| c_list := "cells"; c_id := Id "x"; c_tag := 1 |} ];
                                            x_incs := [ {| h_abs := false; h_segs := ["d1"; "b.nml"] |} ] |});
                  (["d0"; "d1"; "b.nml"], FXml {| x_comps := [ {| c_list := "cells"; c_id := Id "y"; c_tag := 3 |} ];
                                                  x_incs := [ {| h_abs := false; h_segs := [".."; "a.nml"] |} ] |})];
     fs_dirs := [[]; ["d0"]; ["d0"; "d1"]; ["e"]] |}.

Definition s0 : lists := {| l_own := []; l_glob := [] |}.

Theorem old_self_witness : forall fuel, read_entry_file_old fs_self [] fuel ["a.nml"] s0 = OutOfFuel.
Proof.
  intro fuel. unfold read_entry_file_old.
  change (read_file_old fs_self [] (rd_old fs_self [] fuel) false ["a.nml"] s0)
    with (rd_old fs_self [] (S fuel) false false ["a.nml"] s0).
  eapply old_self_include_diverges; try reflexivity.
Qed.

Theorem old_mutual_witness : forall fuel, read_entry_file_old fs_mutual ["e"] fuel ["d0"; "a.nml"] s0 = OutOfFuel.
Proof.
  intro fuel. unfold read_entry_file_old.
  change (read_file_old fs_mutual ["e"] (rd_old fs_mutual ["e"] fuel) false ["d0"; "a.nml"] s0)
    with (rd_old fs_mutual ["e"] (S fuel) false false ["d0"; "a.nml"] s0).
  eapply (old_mutual_include_diverges fs_mutual ["e"] ["d0"; "a.nml"] ["d0"; "d1"; "b.nml"]); try reflexivity.
Qed.

(* after the patch the same two reads end, with every component once *)
Example new_self_witness :
  exists d, read_entry_file fs_self [] (enough fs_self) ["a.nml"] [] = Done (d, [["a.nml"]])
            /\ d_comps d = contrib fs_self ["a.nml"] /\ d_incs d = [].
Proof. eexists. vm_compute. repeat split. Qed.

Example new_mutual_witness :
  exists d, read_entry_file fs_mutual ["e"] (enough fs_mutual) ["d0"; "a.nml"] [] =
            Done (d, [["d0"; "a.nml"]; ["d0"; "d1"; "b.nml"]])
            /\ map c_tag (d_comps d) = [1%Z; 3%Z].
Proof. eexists. vm_compute. repeat split. Qed.

(* ------------------------------------------------------------------------ *)
(*  when every include that can be met names a loadable file, the read succeeds *)
(* ------------------------------------------------------------------------ *)
Section Total.
  Variable fs : fsys.
  Variable cwd : path.

  (* the loader chosen for loc finds what it expects *)
  Definition loads_ok (h5 : bool) (loc : path) : Prop :=
    if h5 then exists nets emb, lookup loc (fs_files fs) = Some (FH5 nets emb)
    else if entry_is_h5 loc then exists nets emb, lookup loc (fs_files fs) = Some (FH5 nets emb)
         else exists x, lookup loc (fs_files fs) = Some (FXml x).

  Definition good (t : path) : Prop :=
    kind_bad (incl_kind t) = false /\ loads_ok (kind_h5 (incl_kind t)) t.

  (* every include of every file reachable from loc is good *)
  Definition safe (loc : path) : Prop :=
    forall q q', reach fs cwd loc q -> edge fs cwd q q' -> good q'.

  Lemma safe_step : forall loc t, safe loc -> edge fs cwd loc t -> safe t.
  Proof.
    intros loc t S E q q' R E'. apply (S q q'); [|exact E'].
    eapply rt_trans; [apply rt_step; exact E | exact R].
  Qed.

  Lemma loop_no_err : forall rec,
    (forall h5 t al, safe t -> loads_ok h5 t -> forall e, rec h5 t al <> Err e) ->
    forall base incs d al,
      (forall h, In h incs -> good (resolve fs cwd base h) /\ safe (resolve fs cwd base h)) ->
      forall e, incl_loop fs cwd rec base incs d al <> Err e.
  Proof.
    intros rec Hrec base incs. induction incs as [|h rest IH]; intros d al G e; simpl; [discriminate|].
    destruct (G h (or_introl eq_refl)) as [[Gk Gl] Gs].
    assert (G' : forall h', In h' rest -> good (resolve fs cwd base h') /\ safe (resolve fs cwd base h'))
      by (intros; apply G; right; assumption).
    destruct (mem_path (resolve fs cwd base h) al); [apply IH; exact G'|].
    rewrite Gk.
    pose proof (Hrec _ _ (al ++ [resolve fs cwd base h])%list Gs Gl) as N.
    destruct (rec (kind_h5 (incl_kind (resolve fs cwd base h))) (resolve fs cwd base h) (al ++ [resolve fs cwd base h])%list)
      as [[sub al1]|e'|]; [apply IH; exact G' | exfalso; apply (N e'); reflexivity | discriminate].
  Qed.

  Lemma body_no_err : forall rec,
    (forall h5 t al, safe t -> loads_ok h5 t -> forall e, rec h5 t al <> Err e) ->
    forall loc x al, safe loc -> incs_at fs loc = x_incs x ->
      forall e, read_x fs cwd rec (dirname loc) x al <> Err e.
  Proof.
    intros rec Hrec loc x al S Hi e. unfold read_x.
    assert (G : forall h, In h (x_incs x) ->
                good (resolve fs cwd (dirname loc) h) /\ safe (resolve fs cwd (dirname loc) h)).
    { intros h Hh. assert (E : edge fs cwd loc (resolve fs cwd (dirname loc) h)).
      { exists h. split; [rewrite Hi; exact Hh | reflexivity]. }
      split; [apply (S loc _ (rt_refl _ _ _) E) | apply (safe_step loc _ S E)]. }
    pose proof (loop_no_err rec Hrec (dirname loc) (x_incs x) (x_comps x) al G) as N.
    destruct (incl_loop fs cwd rec (dirname loc) (x_incs x) (x_comps x) al) as [[d1 al1]|e'|];
      [discriminate | intro; apply (N e'); reflexivity | discriminate].
  Qed.

  Lemma load_h5_no_err : forall rec,
    (forall h5 t al, safe t -> loads_ok h5 t -> forall e, rec h5 t al <> Err e) ->
    forall loc al nets emb, safe loc -> lookup loc (fs_files fs) = Some (FH5 nets emb) ->
      forall e, load_h5 fs cwd rec loc al <> Err e.
  Proof.
    intros rec Hrec loc al nets emb S L e. unfold load_h5. rewrite L.
    destruct emb as [x|]; [|discriminate].
    pose proof (body_no_err rec Hrec loc x al S (incs_at_lookup fs _ _ L)) as N.
    destruct (read_x fs cwd rec (dirname loc) x al) as [[d1 al1]|e'|];
      [discriminate | intro; apply (N e'); reflexivity | discriminate].
  Qed.

  Theorem rd_no_err : forall k h5 loc al, safe loc -> loads_ok h5 loc -> forall e, rd fs cwd k h5 loc al <> Err e.
  Proof.
    induction k as [|k IH]; intros h5 loc al S L e; [discriminate|].
    simpl. unfold loads_ok in L. destruct h5.
    - destruct L as [nets [emb L]]. apply (load_h5_no_err _ IH loc al nets emb S L).
    - unfold read_file, is_file. destruct (entry_is_h5 loc).
      + destruct L as [nets [emb L]]. rewrite L. simpl. apply (load_h5_no_err _ IH loc _ nets emb S L).
      + destruct L as [x L]. rewrite L. simpl. apply (body_no_err _ IH loc x _ S (incs_at_lookup fs _ _ L)).
  Qed.

  (* the entry file can be loaded and every include that can be met is good: the read is Done *)
  Theorem read_entry_file_total : forall p al,
    loads_ok false p -> safe p ->
    exists d al', forall k, enough fs <= k -> read_entry_file fs cwd k p al = Done (d, al').
  Proof.
    intros p al L Sf.
    destruct (read_entry_file_terminates fs cwd p al) as [N Stab].
    unfold read_entry_file in N.
    change (read_file fs cwd (rd fs cwd (enough fs)) p al) with (rd fs cwd (S (enough fs)) false p al) in N.
    pose proof (rd_no_err (S (enough fs)) false p al Sf L) as E.
    destruct (rd fs cwd (S (enough fs)) false p al) as [[d al']|e|] eqn:R;
      [| exfalso; apply (E e); reflexivity | congruence].
    exists d, al'. intros k Hk. rewrite (Stab k Hk). exact R.
  Qed.
End Total.

Example safe_self : loads_ok fs_self false ["a.nml"] /\ safe fs_self [] ["a.nml"].
Proof.
  split; [vm_compute; eexists; reflexivity|].
  intros q q' _ [h [Hh E]]. unfold incs_at in Hh. simpl in Hh.
  destruct (path_eqb q ["a.nml"]) eqn:Q; [|destruct Hh].
  apply path_eqb_eq in Q. subst q. destruct Hh as [Hh|[]]. subst h. subst q'.
  vm_compute. split; [reflexivity | eexists; reflexivity].
Qed.

(* ------------------------------------------------------------------------ *)
(*  optimized=True on an HDF5 entry file                                      *)
(* ------------------------------------------------------------------------ *)
From Coq Require Import Permutation.

Lemma add_all_disjoint : forall s t, keys_unique s -> (forall e, In e s -> keyed e t = false) ->
  add_all s t = (t ++ s)%list.
Proof.
  induction s as [|e s IH]; intros t U D; [simpl; rewrite app_nil_r; reflexivity|].
  destruct U as [Ue Us]. rewrite add_all_cons, add_one_unfold, (D e (or_introl eq_refl)).
  rewrite IH; [rewrite <- app_assoc; reflexivity | exact Us |].
  intros c Hc. rewrite keyed_app, (D c (or_intror Hc)). simpl. rewrite orb_false_r.
  rewrite same_key_sym. destruct (same_key e c) eqn:K; [|reflexivity]. exfalso.
  assert (keyed e s = true) by (unfold keyed; apply existsb_exists; exists c; split; assumption). congruence.
Qed.

Section Opt.
  Variable fs : fsys.
  Variable cwd : path.

  (* the plain and the optimized read of one entry: same outcome, same files opened, and the components
     differ at most in how the file's own networks are put in (merged first / appended last) *)
  Definition opt_rel (r r' : res) : Prop :=
    match r, r' with
    | Done (d, al), Done (d', al') =>
      al' = al /\ (d' = d \/ (d_incs d' = d_incs d /\ exists extra nets,
                               d_comps d = add_all extra nets /\ d_comps d' = (extra ++ nets)%list))
    | Err e, Err e' => e = e'
    | OutOfFuel, OutOfFuel => True
    | _, _ => False
    end.

  Lemma opt_rel_refl : forall r, opt_rel r r.
  Proof. intros [[d al]|e|]; simpl; auto. Qed.

  Theorem optimized_vs_plain : forall fuel opt p al,
    opt_rel (read_entry_file fs cwd fuel p al) (read_entry_file_opt fs cwd fuel opt p al).
  Proof.
    intros fuel opt p al. unfold read_entry_file_opt.
    destruct (opt && entry_is_h5 p) eqn:O; [|apply opt_rel_refl].
    apply andb_true_iff in O. destruct O as [_ E]. unfold read_entry_file, read_file. rewrite E.
    destruct (negb (is_file fs p)); [reflexivity|]. unfold load_h5, load_h5_opt.
    destruct (lookup p (fs_files fs)) as [[x|nets [x|]]|]; try reflexivity; [|simpl; auto].
    destruct (read_x fs cwd (rd fs cwd fuel) (dirname p) x (mark p al)) as [[extra al']|e|]; try reflexivity.
    simpl. split; [reflexivity|]. right. split; [reflexivity|]. exists (d_comps extra), nets. split; reflexivity.
  Qed.

  Lemma load_h5_opt_extends : forall r1 r2, extends r1 r2 -> forall loc al r,
    load_h5_opt fs cwd r1 loc al = r -> r <> OutOfFuel -> load_h5_opt fs cwd r2 loc al = r.
  Proof.
    intros r1 r2 Hx loc al r H N. unfold load_h5_opt in *.
    destruct (lookup loc (fs_files fs)) as [[x|nets [x|]]|]; try exact H.
    destruct (read_x fs cwd r1 (dirname loc) x al) as [[d1 al1]| |] eqn:L.
    - rewrite (read_x_extends fs cwd r1 r2 Hx _ _ _ _ L) by discriminate. exact H.
    - rewrite (read_x_extends fs cwd r1 r2 Hx _ _ _ _ L) by discriminate. exact H.
    - subst r. congruence.
  Qed.

  Theorem read_entry_file_opt_terminates : forall opt p al,
    read_entry_file_opt fs cwd (enough fs) opt p al <> OutOfFuel /\
    forall k, enough fs <= k ->
      read_entry_file_opt fs cwd k opt p al = read_entry_file_opt fs cwd (enough fs) opt p al.
  Proof.
    intros opt p al.
    assert (N : read_entry_file_opt fs cwd (enough fs) opt p al <> OutOfFuel).
    { pose proof (optimized_vs_plain (enough fs) opt p al) as R.
      destruct (read_entry_file_terminates fs cwd p al) as [Np _].
      destruct (read_entry_file fs cwd (enough fs) p al) as [[d a]|e|];
        destruct (read_entry_file_opt fs cwd (enough fs) opt p al) as [[d' a']|e'|]; simpl in R; try contradiction; congruence. }
    split; [exact N|]. intros k Hk. revert N. unfold read_entry_file_opt.
    destruct (opt && entry_is_h5 p); [|intros _; apply (proj2 (read_entry_file_terminates fs cwd p al) k Hk)].
    destruct (negb (is_file fs p)); [reflexivity|]. intro N.
    apply (load_h5_opt_extends _ _ (rd_mono fs cwd _ _ Hk)); [reflexivity | exact N].
  Qed.

  (* the two flag values return the same union (as a multiset; per member list only the position of the
     file's own network differs) whenever no component met through the includes carries the id of one of
     the file's own networks *)
  Theorem optimized_same_union : forall fuel p al nets x extra al',
    lookup p (fs_files fs) = Some (FH5 nets (Some x)) -> entry_is_h5 p = true ->
    read_entry_string fs cwd fuel x (Some (dirname p)) (mark p al) = Done (extra, al') ->
    read_entry_file fs cwd fuel p al = Done ({| d_comps := add_all (d_comps extra) nets; d_incs := [] |}, al') /\
    read_entry_file_opt fs cwd fuel true p al = Done ({| d_comps := (d_comps extra ++ nets)%list; d_incs := [] |}, al') /\
    (keys_unique (d_comps extra) -> (forall e, In e (d_comps extra) -> keyed e nets = false) ->
     Permutation (add_all (d_comps extra) nets) (d_comps extra ++ nets)).
  Proof.
    intros fuel p al nets x extra al' L E H. unfold read_entry_string in H.
    unfold read_entry_file_opt, read_entry_file, read_file, is_file, load_h5, load_h5_opt. rewrite E, L. simpl. rewrite H.
    split; [reflexivity|]. split; [reflexivity|].
    intros U D. rewrite (add_all_disjoint _ _ U D). apply Permutation_app_comm.
  Qed.
End Opt.

(* ... and not otherwise: the included file defines a network with the id of the HDF5 file's own network;
   the plain read keeps one of them, the optimized read returns both *)
Definition fs_optdup : fsys :=
  {| fs_files := [(["n.nml.h5"], FH5 [ {| c_list := "networks"; c_id := Id "net0"; c_tag := 1 |} ]
                                     (Some {| x_comps := []; x_incs := [ {| h_abs := false; h_segs := ["a.nml"] |} ] |}));
                  (["a.nml"], FXml {| x_comps := [ {| c_list := "networks"; c_id := Id "net0"; c_tag := 2 |} ]; x_incs := [] |})];
     fs_dirs := [[]] |}.

Theorem optimized_id_twice_witness :
  exists d d' al,
    read_entry_file fs_optdup [] (enough fs_optdup) ["n.nml.h5"] [] = Done (d, al) /\
    read_entry_file_opt fs_optdup [] (enough fs_optdup) true ["n.nml.h5"] [] = Done (d', al) /\
    map c_tag (d_comps d) = [1%Z] /\ map c_tag (d_comps d') = [2%Z; 1%Z] /\ ~ keys_unique (d_comps d').
Proof.
  eexists. eexists. eexists. split; [vm_compute; reflexivity|]. split; [vm_compute; reflexivity|].
  split; [reflexivity|]. split; [reflexivity|]. simpl. intros [K _]. vm_compute in K. discriminate.
Qed.
