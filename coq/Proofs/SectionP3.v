(* C16: the hypotheses are satisfiable, and a concrete run of the list-level model next to the rose-tree function. *)
From Coq Require Import List ZArith QArith Bool Lia Permutation String.
From LNML Require Import Model.Morph Model.Section Proofs.MorphP Proofs.MorphP1 Proofs.MorphP5 Proofs.SectionP Proofs.SectionP2.
Import ListNotations.
Open Scope Z_scope.

Example ex_all_ok : all_ok ex_cell.
Proof. exact (wf_all_ok ex_cell ex_wf ex_root_has_prox). Qed.

(* 0 -> 1 -> {2, 3 -> 4}, sectioned from the inner segment 3 (which has no proximal of its own) *)
Definition ex16 : cell :=
  [SG 0 None (Some (P4 0 0 0 2)) (P4 4 0 0 2);
   SG 1 (Some (0, 1%Q)) None (P4 8 0 0 2);
   SG 2 (Some (1, 1%Q)) None (P4 8 4 0 1);
   SG 3 (Some (1, (1 # 2)%Q)) None (P4 6 0 3 1);
   SG 4 (Some (3, 1%Q)) None (P4 6 0 5 1)].

Example ex16_subroot :
  match create_branches ex16 [] 3 true false with
  | Ok st => list_eqb (group_eqb false) (st_groups st) [G "seg_group_0_seg_3" [3; 4] [] (Some section_nlx)]
             && optpt_eqb (sprox (nth 3 (st_segs st) (SG 0 None None (P4 0 0 0 0)))) (Some (P4 6 0 0 2))
  | Err _ => false
  end = true.
Proof. vm_compute. reflexivity. Qed.

Example ex16_root :
  match create_branches ex16 [G "all" [0; 1; 2; 3; 4] [] None] 0 true false, build_tree 6 (adjacency ex16) 0 with
  | Ok st, Some t =>
      list_eqb (group_eqb false) (st_groups st)
               (name_groups 1 0 (sect_tree t []) ++ [G "all" [0; 1; 2; 3; 4] [] None])
      && list_eqb (list_eqb Z.eqb) (sect_tree t []) [[0; 1]; [2]; [3; 4]]
  | _, _ => false
  end = true.
Proof. vm_compute. reflexivity. Qed.
