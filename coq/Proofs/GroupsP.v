(* Proofs about Model/Groups.v (C14).  Main results, all for group lists / include graphs of any
   size and shape:
     resolve_spec         resolve returns exactly the transitive closure `reach`, without duplicates
     resolve_total        on an acyclic, closed include graph  #groups < fuel  suffices
     optimise_all_equiv   optimising leaves the closure of every group unchanged
     optimise_all_clean   afterwards no duplicate member / include, no member an include supplies
     optimise_all_idem    twice = once                                                         *)
From Coq Require Import String List ZArith Bool Arith Lia Permutation.
From LNML Require Import Model.Groups.
Import ListNotations.
Open Scope string_scope.

(* ------------------------------------------------------------------ generic list facts *)
Section Dedup.
  Context {A : Type}.
  Variable eqb : A -> A -> bool.
  Hypothesis eqb_spec : forall x y, eqb x y = true <-> x = y.

  Definition gmem (x : A) (l : list A) : bool := existsb (eqb x) l.
  Definition gadd (acc l : list A) : list A :=
    fold_left (fun acc x => if gmem x acc then acc else (acc ++ [x])%list) l acc.

  Lemma gmem_iff : forall x l, gmem x l = true <-> In x l.
  Proof.
    intros x l. unfold gmem. rewrite existsb_exists. split.
    - intros [y [Hy He]]. apply eqb_spec in He. subst. exact Hy.
    - intros H. exists x. split; [exact H | apply eqb_spec; reflexivity].
  Qed.

  Lemma gmem_false_iff : forall x l, gmem x l = false <-> ~ In x l.
  Proof.
    intros x l. rewrite <- gmem_iff. destruct (gmem x l); split; intro H.
    - discriminate.
    - exfalso. apply H. reflexivity.
    - intro H0. discriminate.
    - reflexivity.
  Qed.

  Lemma gadd_in : forall l acc x, In x (gadd acc l) <-> In x acc \/ In x l.
  Proof.
    induction l as [|y l IH]; intros acc x; simpl.
    - tauto.
    - unfold gadd in *. simpl. rewrite IH. destruct (gmem y acc) eqn:Hm.
      + apply gmem_iff in Hm. split; intros [H|H]; auto. destruct H; subst; auto.
      + rewrite in_app_iff. simpl. tauto.
  Qed.

  Lemma gadd_nodup : forall l acc, NoDup acc -> NoDup (gadd acc l).
  Proof.
    induction l as [|y l IH]; intros acc Hn; simpl; [exact Hn|].
    unfold gadd in *. simpl. apply IH. destruct (gmem y acc) eqn:Hm; [exact Hn|].
    apply gmem_false_iff in Hm.
    apply NoDup_rev in Hn. rewrite <- (rev_involutive (acc ++ [y])). apply NoDup_rev.
    rewrite rev_app_distr. simpl. constructor; [|exact Hn].
    rewrite <- in_rev. exact Hm.
  Qed.

  Lemma gadd_id : forall l acc, NoDup (acc ++ l) -> gadd acc l = (acc ++ l)%list.
  Proof.
    induction l as [|y l IH]; intros acc Hn; simpl.
    - rewrite app_nil_r. reflexivity.
    - unfold gadd in *. simpl.
      assert (Hy : ~ In y acc).
      { intro Hin. apply NoDup_remove_2 in Hn. apply Hn. apply in_or_app. left. exact Hin. }
      apply gmem_false_iff in Hy. rewrite Hy.
      rewrite IH; rewrite <- app_assoc; simpl; [reflexivity | exact Hn].
  Qed.
End Dedup.

Lemma Zeqb_spec : forall x y, Z.eqb x y = true <-> x = y.
Proof. intros. apply Z.eqb_eq. Qed.
Lemma Seqb_spec : forall x y, String.eqb x y = true <-> x = y.
Proof. intros. apply String.eqb_eq. Qed.

Lemma memZ_iff : forall x l, memZ x l = true <-> In x l.
Proof. exact (gmem_iff Z.eqb Zeqb_spec). Qed.
Lemma memZ_false_iff : forall x l, memZ x l = false <-> ~ In x l.
Proof. exact (gmem_false_iff Z.eqb Zeqb_spec). Qed.
Lemma memS_iff : forall x l, memS x l = true <-> In x l.
Proof. exact (gmem_iff String.eqb Seqb_spec). Qed.

Lemma add_new_in : forall l acc x, In x (add_new acc l) <-> In x acc \/ In x l.
Proof. exact (gadd_in Z.eqb Zeqb_spec). Qed.
Lemma add_new_nodup : forall l acc, NoDup acc -> NoDup (add_new acc l).
Proof. exact (gadd_nodup Z.eqb Zeqb_spec). Qed.

Lemma dedupZ_in : forall l x, In x (dedupZ l) <-> In x l.
Proof. intros. unfold dedupZ. rewrite (gadd_in Z.eqb Zeqb_spec l [] x). simpl. tauto. Qed.
Lemma dedupZ_nodup : forall l, NoDup (dedupZ l).
Proof. intros. apply (gadd_nodup Z.eqb Zeqb_spec). constructor. Qed.
Lemma dedupZ_id : forall l, NoDup l -> dedupZ l = l.
Proof. intros. apply (gadd_id Z.eqb Zeqb_spec l []). exact H. Qed.
Lemma dedupS_in : forall l x, In x (dedupS l) <-> In x l.
Proof. intros. unfold dedupS. rewrite (gadd_in String.eqb Seqb_spec l [] x). simpl. tauto. Qed.
Lemma dedupS_nodup : forall l, NoDup (dedupS l).
Proof. intros. apply (gadd_nodup String.eqb Seqb_spec). constructor. Qed.
Lemma dedupS_id : forall l, NoDup l -> dedupS l = l.
Proof. intros. apply (gadd_id String.eqb Seqb_spec l []). exact H. Qed.

Lemma filter_all : forall (A : Type) (f : A -> bool) l, (forall x, In x l -> f x = true) -> filter f l = l.
Proof.
  induction l as [|y l IH]; intros H; simpl; [reflexivity|].
  rewrite (H y (or_introl eq_refl)). rewrite IH; [reflexivity|].
  intros x Hx. apply H. right. exact Hx.
Qed.

Lemma group_eta : forall g, mkGroup (gid g) (members g) (includes g) (nlex g) = g.
Proof. destruct g; reflexivity. Qed.

(* ------------------------------------------------------------------ lookup / replace_first *)
Lemma lookup_some : forall G a g, lookup G a = Some g -> In g G /\ gid g = a.
Proof.
  induction G as [|h G IH]; intros a g H; simpl in H; [discriminate|].
  destruct (String.eqb (gid h) a) eqn:E.
  - inversion H; subst. apply String.eqb_eq in E. split; [left; reflexivity | exact E].
  - destruct (IH _ _ H) as [Hi Hg]. split; [right; exact Hi | exact Hg].
Qed.

Lemma lookup_none : forall G a, lookup G a = None <-> ~ In a (map gid G).
Proof.
  induction G as [|h G IH]; intros a; simpl.
  - tauto.
  - destruct (String.eqb (gid h) a) eqn:E.
    + apply String.eqb_eq in E. split; [discriminate | intros H; exfalso; apply H; left; exact E].
    + apply String.eqb_neq in E. rewrite IH. tauto.
Qed.

Lemma lookup_in : forall G a, In a (map gid G) -> exists g, lookup G a = Some g.
Proof.
  intros G a H. destruct (lookup G a) eqn:E; [eexists; reflexivity|].
  apply lookup_none in E. contradiction.
Qed.

Lemma lookup_unique : forall G g, NoDup (map gid G) -> In g G -> lookup G (gid g) = Some g.
Proof.
  induction G as [|h G IH]; intros g Hn Hi; simpl in *; [contradiction|].
  inversion Hn as [|x l Hx Hn']; subst.
  destruct Hi as [Hi|Hi].
  - subst. rewrite String.eqb_refl. reflexivity.
  - destruct (String.eqb (gid h) (gid g)) eqn:E.
    + apply String.eqb_eq in E. exfalso. apply Hx. rewrite E. apply in_map. exact Hi.
    + apply IH; assumption.
Qed.

Lemma replace_first_gids : forall G a g', gid g' = a -> map gid (replace_first G a g') = map gid G.
Proof.
  induction G as [|h G IH]; intros a g' H; simpl; [reflexivity|].
  destruct (String.eqb (gid h) a) eqn:E; simpl.
  - apply String.eqb_eq in E. congruence.
  - rewrite IH; [reflexivity | exact H].
Qed.

Lemma replace_first_same : forall G a g, lookup G a = Some g -> replace_first G a g = G.
Proof.
  induction G as [|h G IH]; intros a g H; simpl in *; [reflexivity|].
  destruct (String.eqb (gid h) a) eqn:E.
  - inversion H; subst. reflexivity.
  - rewrite IH; [reflexivity | exact H].
Qed.

Lemma lookup_replace_first_eq : forall G a g g', lookup G a = Some g -> gid g' = a ->
  lookup (replace_first G a g') a = Some g'.
Proof.
  induction G as [|h G IH]; intros a g g' H Hg; simpl in *; [discriminate|].
  destruct (String.eqb (gid h) a) eqn:E; simpl.
  - subst a. rewrite String.eqb_refl. reflexivity.
  - rewrite E. eapply IH; eassumption.
Qed.

Lemma lookup_replace_first_neq : forall G a b g', gid g' = a -> a <> b ->
  lookup (replace_first G a g') b = lookup G b.
Proof.
  induction G as [|h G IH]; intros a b g' Hg Hab; simpl; [reflexivity|].
  destruct (String.eqb (gid h) a) eqn:E; simpl.
  - apply String.eqb_eq in E.
    assert (String.eqb (gid g') b = false) by (apply String.eqb_neq; congruence).
    assert (String.eqb (gid h) b = false) by (apply String.eqb_neq; congruence).
    rewrite H, H0. reflexivity.
  - destruct (String.eqb (gid h) b); [reflexivity|]. apply IH; assumption.
Qed.

Lemma replace_first_twice : forall G a g1 g2, gid g1 = a ->
  replace_first (replace_first G a g1) a g2 = replace_first G a g2.
Proof.
  induction G as [|h G IH]; intros a g1 g2 H; simpl; [reflexivity|].
  destruct (String.eqb (gid h) a) eqn:E; simpl.
  - subst a. rewrite String.eqb_refl. reflexivity.
  - rewrite E. rewrite IH; [reflexivity | exact H].
Qed.

Lemma in_replace_first : forall G a g' h, NoDup (map gid G) -> In h (replace_first G a g') ->
  h = g' \/ (In h G /\ gid h <> a).
Proof.
  induction G as [|k G IH]; intros a g' h Hn Hi; simpl in *; [contradiction|].
  inversion Hn as [|x l Hx Hn']; subst.
  destruct (String.eqb (gid k) a) eqn:E.
  - apply String.eqb_eq in E. destruct Hi as [Hi|Hi]; [left; congruence|].
    right. split; [right; exact Hi|]. intro Hh. apply Hx. rewrite E, <- Hh. apply in_map. exact Hi.
  - apply String.eqb_neq in E. destruct Hi as [Hi|Hi].
    + subst. right. split; [left; reflexivity | exact E].
    + destruct (IH _ _ _ Hn' Hi) as [H|[H1 H2]]; [left; exact H | right; split; [right; exact H1 | exact H2]].
Qed.

(* ------------------------------------------------------------------ the closure (specification) *)
Section Closure.
  Variable segs : list Z.

  (* segment s belongs to group a: through a member, through an included group, or - when no group
     "all" is defined - because the code's assume_all_means_all default makes "all" mean all *)
  Inductive reach (G : list group) : string -> Z -> Prop :=
  | reach_mem : forall a g s, lookup G a = Some g -> In s (members g) -> reach G a s
  | reach_inc : forall a g i s, lookup G a = Some g -> In i (includes g) -> reach G i s -> reach G a s
  | reach_all : forall s, lookup G "all" = None -> In s segs -> reach G "all" s.

  (* the loop over includes *)
  Lemma fold_step_err : forall rec incs e, fold_left (resolve_step rec) incs (Err e) = Err e.
  Proof. induction incs as [|i incs IH]; intros e; simpl; [reflexivity | apply IH]. Qed.

  Lemma fold_step_spec : forall rec incs acc l,
    fold_left (resolve_step rec) incs (Ret acc) = Ret l ->
    (forall i, In i incs -> exists li, rec i = Ret li) /\
    (forall s, In s l <-> In s acc \/ exists i li, In i incs /\ rec i = Ret li /\ In s li) /\
    (NoDup acc -> NoDup l).
  Proof.
    induction incs as [|i incs IH]; intros acc l H; simpl in H.
    - inversion H; subst. split; [intros i []|]. split; [|auto].
      intros s. split; [auto|]. intros [Hs|[i [li [[] _]]]]. exact Hs.
    - destruct (rec i) as [li|e] eqn:Hr; [|rewrite fold_step_err in H; discriminate].
      destruct (IH _ _ H) as [H1 [H2 H3]]. split; [|split].
      + intros j [Hj|Hj]; [subst; eexists; exact Hr | apply H1; exact Hj].
      + intros s. rewrite H2. rewrite add_new_in. split.
        * intros [[Hs|Hs]|[j [lj [Hj [Hrj Hs]]]]].
          -- left. exact Hs.
          -- right. exists i, li. split; [left; reflexivity | split; assumption].
          -- right. exists j, lj. split; [right; exact Hj | split; assumption].
        * intros [Hs|[j [lj [[Hj|Hj] [Hrj Hs]]]]].
          -- left. left. exact Hs.
          -- subst j. rewrite Hr in Hrj. inversion Hrj; subst. left. right. exact Hs.
          -- right. exists j, lj. split; [exact Hj | split; assumption].
      + intros Hn. apply H3. apply add_new_nodup. exact Hn.
  Qed.

  Lemma fold_step_total : forall rec incs acc,
    (forall i, In i incs -> exists li, rec i = Ret li) ->
    exists l, fold_left (resolve_step rec) incs (Ret acc) = Ret l.
  Proof.
    induction incs as [|i incs IH]; intros acc H; simpl.
    - eexists; reflexivity.
    - destruct (H i (or_introl eq_refl)) as [li Hr]. rewrite Hr.
      apply IH. intros j Hj. apply H. right. exact Hj.
  Qed.

  Lemma fold_step_mono : forall (rec rec' : string -> result (list Z)) incs acc l,
    (forall i li, In i incs -> rec i = Ret li -> rec' i = Ret li) ->
    fold_left (resolve_step rec) incs acc = Ret l -> fold_left (resolve_step rec') incs acc = Ret l.
  Proof.
    induction incs as [|i incs IH]; intros acc l Hm H; simpl in *; [exact H|].
    destruct acc as [a|e]; [|simpl in H; rewrite fold_step_err in H; discriminate].
    simpl in *. destruct (rec i) as [li|e] eqn:Hr; [|rewrite fold_step_err in H; discriminate].
    rewrite (Hm i li (or_introl eq_refl) Hr). apply IH; [|exact H].
    intros j lj Hj. apply Hm. right. exact Hj.
  Qed.

  (* --- resolve computes the closure --- *)
  Theorem resolve_spec : forall G fuel a l,
    resolve segs fuel G a = Ret l ->
    (forall s, In s l <-> reach G a s) /\ (NoDup segs -> NoDup l).
  Proof.
    intros G. induction fuel as [|f IH]; intros a l H; simpl in H; [discriminate|].
    destruct (lookup G a) as [g|] eqn:Hl.
    - destruct (fold_step_spec _ _ _ _ H) as [H1 [H2 H3]]. split.
      + intros s. rewrite H2. rewrite dedupZ_in. split.
        * intros [Hs|[i [li [Hi [Hr Hs]]]]].
          -- eapply reach_mem; eassumption.
          -- eapply reach_inc; [exact Hl | exact Hi |]. apply (proj1 (IH _ _ Hr)). exact Hs.
        * intros Hr. inversion Hr as [a' g' s' Hl' Hm | a' g' i s' Hl' Hi Hri | s' Hl' Hs]; subst.
          -- rewrite Hl in Hl'. inversion Hl'; subst. left. exact Hm.
          -- rewrite Hl in Hl'. inversion Hl'; subst. right.
             destruct (H1 i Hi) as [li Hli]. exists i, li. split; [exact Hi|]. split; [exact Hli|].
             apply (proj1 (IH _ _ Hli)). exact Hri.
          -- rewrite Hl in Hl'. discriminate.
      + intros _. apply H3. apply dedupZ_nodup.
    - destruct (String.eqb a "all") eqn:Ea; [|discriminate].
      apply String.eqb_eq in Ea. inversion H; subst. split.
      + intros s. split.
        * intros Hs. apply reach_all; assumption.
        * intros Hr. inversion Hr as [a' g' s' Hl' Hm | a' g' i s' Hl' Hi Hri | s' Hl' Hs]; subst;
            try (rewrite Hl in Hl'; discriminate). exact Hs.
      + auto.
  Qed.

  (* the one-step reading of the same fact: members, then the resolved lists of the includes *)
  Theorem resolve_unfold : forall G f a g l,
    lookup G a = Some g -> resolve segs (S f) G a = Ret l ->
    forall s, In s l <-> In s (members g) \/ exists i li, In i (includes g) /\ resolve segs f G i = Ret li /\ In s li.
  Proof.
    intros G f a g l Hl H. simpl in H. rewrite Hl in H.
    destruct (fold_step_spec _ _ _ _ H) as [_ [H2 _]]. intros s. rewrite H2, dedupZ_in. tauto.
  Qed.

  Lemma resolve_mono : forall G f a l, resolve segs f G a = Ret l -> resolve segs (S f) G a = Ret l.
  Proof.
    intros G. induction f as [|f IH]; intros a l H; [discriminate|].
    simpl in H. change (resolve segs (S (S f)) G a) with
      (match lookup G a with
       | None => if String.eqb a "all" then Ret segs else Err (ENoGroup a)
       | Some g => fold_left (resolve_step (resolve segs (S f) G)) (includes g) (Ret (dedupZ (members g)))
       end).
    destruct (lookup G a) as [g|]; [|exact H].
    eapply fold_step_mono; [|exact H]. intros i li _. apply IH.
  Qed.

  Lemma resolve_mono_le : forall G f f' a l, f <= f' -> resolve segs f G a = Ret l -> resolve segs f' G a = Ret l.
  Proof.
    intros G f f' a l Hle H. induction Hle; [exact H | apply resolve_mono; exact IHHle].
  Qed.

  (* --- acyclic include graphs --- *)
  Definition acyclic (G : list group) : Prop :=
    exists rank : string -> nat, forall g i, In g G -> In i (includes g) -> rank i < rank (gid g).

  (* every include names a defined group (or "all", which the code resolves even when undefined) *)
  Definition closed (G : list group) : Prop :=
    forall g i, In g G -> In i (includes g) -> In i (map gid G) \/ i = "all".

  Lemma resolve_total_aux : forall G (rank : string -> nat),
    (forall g i, In g G -> In i (includes g) -> rank i < rank (gid g)) -> closed G ->
    forall fuel up a, NoDup up -> incl up (map gid G) -> (forall u, In u up -> rank a < rank u) ->
      length G < fuel + length up -> (In a (map gid G) \/ a = "all") ->
      exists l, resolve segs fuel G a = Ret l.
  Proof.
    intros G rank Hrank Hclosed. induction fuel as [|f IH]; intros up a Hnd Hincl Hup Hlen Ha.
    - exfalso. apply NoDup_incl_length in Hincl; [|exact Hnd]. rewrite map_length in Hincl. simpl in Hlen. lia.
    - simpl. destruct (lookup G a) as [g|] eqn:Hl.
      + destruct (lookup_some _ _ _ Hl) as [Hg Hga].
        apply fold_step_total. intros i Hi.
        apply (IH (a :: up) i).
        * constructor; [|exact Hnd]. intro Hin. specialize (Hup _ Hin). lia.
        * intros x [Hx|Hx]; [subst x; rewrite <- Hga; apply in_map; exact Hg | apply Hincl; exact Hx].
        * specialize (Hrank g i Hg Hi). rewrite Hga in Hrank.
          intros u [Hu|Hu]; [subst; exact Hrank | specialize (Hup _ Hu); lia].
        * simpl. lia.
        * apply (Hclosed g i Hg Hi).
      + destruct Ha as [Ha|Ha]; [apply lookup_none in Hl; contradiction|].
        subst a. simpl. eexists; reflexivity.
  Qed.

  Theorem resolve_total : forall G fuel a,
    acyclic G -> closed G -> length G < fuel -> (In a (map gid G) \/ a = "all") ->
    exists l, resolve segs fuel G a = Ret l.
  Proof.
    intros G fuel a [rank Hrank] Hc Hf Ha.
    apply (resolve_total_aux G rank Hrank Hc fuel [] a); simpl; auto.
    - constructor.
    - intros x [].
    - intros u [].
    - lia.
  Qed.

  Lemma resolve_union_spec : forall G fuel incs l,
    resolve_union segs fuel G incs = Ret l ->
    forall s, In s l <-> exists i, In i incs /\ reach G i s.
  Proof.
    intros G fuel incs l H. unfold resolve_union in H.
    destruct (fold_step_spec _ _ _ _ H) as [H1 [H2 _]]. intros s. rewrite H2. split.
    - intros [[]|[i [li [Hi [Hr Hs]]]]]. exists i. split; [exact Hi|].
      apply (proj1 (resolve_spec _ _ _ _ Hr)). exact Hs.
    - intros [i [Hi Hr]]. right. destruct (H1 i Hi) as [li Hli]. exists i, li.
      split; [exact Hi|]. split; [exact Hli|]. apply (proj1 (resolve_spec _ _ _ _ Hli)). exact Hr.
  Qed.

  Lemma resolve_union_total : forall G fuel incs,
    acyclic G -> closed G -> length G < fuel -> (forall i, In i incs -> In i (map gid G) \/ i = "all") ->
    exists l, resolve_union segs fuel G incs = Ret l.
  Proof.
    intros G fuel incs Ha Hc Hf Hi. unfold resolve_union. apply fold_step_total.
    intros i Hin. apply resolve_total; auto.
  Qed.

  (* --- two group lists with the same closure --- *)
  Definition same_shape (G G' : list group) : Prop :=
    Forall2 (fun g g' => gid g' = gid g /\ (forall i, In i (includes g') <-> In i (includes g)) /\ nlex g' = nlex g /\
                         (forall s, In s (members g') -> In s (members g))) G G'.

  Definition equiv (G G' : list group) : Prop :=
    same_shape G G' /\ forall a s, reach G a s <-> reach G' a s.

  Lemma same_shape_refl : forall G, same_shape G G.
  Proof. induction G; constructor; [split; [reflexivity | split; [tauto | split; [reflexivity | auto]]] | assumption]. Qed.

  Lemma same_shape_trans : forall G1 G2 G3, same_shape G1 G2 -> same_shape G2 G3 -> same_shape G1 G3.
  Proof.
    intros G1 G2 G3 H12. revert G3. induction H12 as [|g1 g2 l1 l2 [Ha [Hb [Hc Hm]]] H12 IH]; intros G3 H23.
    - inversion H23. constructor.
    - inversion H23 as [|x g3 l l3 [Hd [He [Hf Hm']]] H23']; subst. constructor.
      + split; [congruence|]. split; [|split; [congruence | auto]]. intros i. rewrite He. apply Hb.
      + apply IH. exact H23'.
  Qed.

  Lemma same_shape_gids : forall G G', same_shape G G' -> map gid G' = map gid G.
  Proof. intros G G' H. induction H as [|g g' l l' [Ha _] _ IH]; simpl; [reflexivity | congruence]. Qed.

  Lemma same_shape_length : forall G G', same_shape G G' -> length G' = length G.
  Proof. intros G G' H. induction H; simpl; congruence. Qed.

  Lemma same_shape_in : forall G G' g', same_shape G G' -> In g' G' ->
    exists g, In g G /\ gid g' = gid g /\ (forall i, In i (includes g') <-> In i (includes g)) /\
              (forall s, In s (members g') -> In s (members g)).
  Proof.
    intros G G' g' H. induction H as [|g h l l' [Ha [Hb [_ Hm]]] _ IH]; intros Hi; [contradiction|].
    destruct Hi as [Hi|Hi].
    - subst. exists g. split; [left; reflexivity | split; [assumption | split; assumption]].
    - destruct (IH Hi) as [k [Hk1 Hk2]]. exists k. split; [right; exact Hk1 | exact Hk2].
  Qed.

  Lemma same_shape_acyclic : forall G G', same_shape G G' -> acyclic G -> acyclic G'.
  Proof.
    intros G G' H [rank Hr]. exists rank. intros g' i Hg' Hi.
    destruct (same_shape_in _ _ _ H Hg') as [g [Hg [He [Hinc _]]]]. rewrite He. apply (Hr g i Hg). apply Hinc. exact Hi.
  Qed.

  Lemma same_shape_closed : forall G G', same_shape G G' -> closed G -> closed G'.
  Proof.
    intros G G' H Hc g' i Hg' Hi. rewrite (same_shape_gids _ _ H).
    destruct (same_shape_in _ _ _ H Hg') as [g [Hg [He [Hinc _]]]]. apply (Hc g i Hg). apply Hinc. exact Hi.
  Qed.

  Lemma equiv_refl : forall G, equiv G G.
  Proof. intros G. split; [apply same_shape_refl | tauto]. Qed.

  Lemma equiv_trans : forall G1 G2 G3, equiv G1 G2 -> equiv G2 G3 -> equiv G1 G3.
  Proof.
    intros G1 G2 G3 [S12 R12] [S23 R23]. split; [eapply same_shape_trans; eassumption|].
    intros a s. rewrite R12. apply R23.
  Qed.

  (* replacing the (first) group called a by one with the same includes (as a set), whose members
     are a subset, the dropped ones being supplied by an include, keeps every closure *)
  Definition member_step (G : list group) (g g' : group) : Prop :=
    gid g' = gid g /\ (forall i, In i (includes g') <-> In i (includes g)) /\ nlex g' = nlex g /\
    (forall s, In s (members g') -> In s (members g)) /\
    (forall s, In s (members g) -> In s (members g') \/ exists i, In i (includes g) /\ reach G i s).

  Lemma same_shape_replace : forall G a g g', lookup G a = Some g ->
    gid g' = gid g -> (forall i, In i (includes g') <-> In i (includes g)) -> nlex g' = nlex g ->
    (forall s, In s (members g') -> In s (members g)) ->
    same_shape G (replace_first G a g').
  Proof.
    induction G as [|h G IH]; intros a g g' Hl H1 H2 H3 H4; simpl in *; [discriminate|].
    destruct (String.eqb (gid h) a) eqn:E.
    - inversion Hl; subst. constructor; [split; [assumption | split; [assumption | split; assumption]] | apply same_shape_refl].
    - constructor; [split; [reflexivity | split; [tauto | split; [reflexivity | auto]]]|]. eapply IH; eassumption.
  Qed.

  Lemma reach_replace : forall G a g g',
    acyclic G -> lookup G a = Some g -> member_step G g g' ->
    forall b s, reach G b s <-> reach (replace_first G a g') b s.
  Proof.
    intros G a0 g g' [rank Hrank] Hl [Hid [Hinc [_ [Hsub Hcov]]]].
    destruct (lookup_some _ _ _ Hl) as [HgG Hga]. subst a0.
    set (a := gid g) in *.
    set (G' := replace_first G a g').
    assert (Hla : lookup G' a = Some g') by (eapply lookup_replace_first_eq; eassumption).
    assert (Hlb : forall b, a <> b -> lookup G' b = lookup G b)
      by (intros b Hab; apply lookup_replace_first_neq; assumption).
    assert (Hrk : forall b h i, lookup G b = Some h -> In i (includes h) -> rank i < rank b).
    { intros b h i Hb Hi. destruct (lookup_some _ _ _ Hb) as [Hh Hhb]. rewrite <- Hhb. apply (Hrank h i Hh Hi). }
    clearbody a G'.
    assert (Hmain : forall n b s, rank b < n -> (reach G b s <-> reach G' b s)).
    { induction n as [|n IH]; intros b s Hn; [lia|]. split; intros Hr.
      - inversion Hr as [b' h s' Hb Hm Eb Es | b' h i s' Hb Hi Hri Eb Es | s' Hb Hs Eb Es].
        + destruct (string_dec a b) as [Hab|Hab].
          * rewrite <- Hab in Hb. rewrite Hl in Hb. inversion Hb as [Hh]. rewrite <- Hh in Hm.
            destruct (Hcov _ Hm) as [Hm'|[i [Hi Hri]]].
            -- rewrite <- Hab. eapply reach_mem; eassumption.
            -- rewrite <- Hab. eapply reach_inc; [exact Hla | apply Hinc; exact Hi |].
               apply IH; [|exact Hri]. specialize (Hrk _ _ _ Hl Hi). rewrite Hab in Hrk. lia.
          * eapply reach_mem; [rewrite Hlb; eassumption | exact Hm].
        + assert (Hlt : rank i < n) by (specialize (Hrk _ _ _ Hb Hi); lia).
          destruct (string_dec a b) as [Hab|Hab].
          * rewrite <- Hab in Hb. rewrite Hl in Hb. inversion Hb as [Hh]. rewrite <- Hh in Hi.
            rewrite <- Hab. eapply reach_inc; [exact Hla | apply Hinc; exact Hi | apply IH; assumption].
          * eapply reach_inc; [rewrite Hlb; eassumption | exact Hi | apply IH; assumption].
        + apply reach_all; [|exact Hs].
          destruct (string_dec a "all") as [Hab|Hab]; [rewrite <- Hab in Hb; rewrite Hl in Hb; discriminate|].
          rewrite Hlb; assumption.
      - inversion Hr as [b' h s' Hb Hm Eb Es | b' h i s' Hb Hi Hri Eb Es | s' Hb Hs Eb Es].
        + destruct (string_dec a b) as [Hab|Hab].
          * rewrite <- Hab in Hb. rewrite Hla in Hb. inversion Hb as [Hh]. rewrite <- Hh in Hm.
            rewrite <- Hab. eapply reach_mem; [exact Hl | apply Hsub; exact Hm].
          * rewrite Hlb in Hb by assumption. eapply reach_mem; eassumption.
        + destruct (string_dec a b) as [Hab|Hab].
          * rewrite <- Hab in Hb. rewrite Hla in Hb. inversion Hb as [Hh]. rewrite <- Hh in Hi. apply Hinc in Hi.
            rewrite <- Hab. eapply reach_inc; [exact Hl | exact Hi |]. apply IH; [|exact Hri].
            specialize (Hrk _ _ _ Hl Hi). rewrite Hab in Hrk. lia.
          * rewrite Hlb in Hb by assumption.
            eapply reach_inc; [exact Hb | exact Hi |]. apply IH; [|exact Hri].
            specialize (Hrk _ _ _ Hb Hi). lia.
        + apply reach_all; [|exact Hs].
          destruct (string_dec a "all") as [Hab|Hab]; [rewrite <- Hab in Hb; rewrite Hla in Hb; discriminate|].
          rewrite Hlb in Hb; assumption. }
    intros b s. apply (Hmain (S (rank b))). lia.
  Qed.

  Lemma equiv_replace : forall G a g g',
    acyclic G -> lookup G a = Some g -> member_step G g g' -> equiv G (replace_first G a g').
  Proof.
    intros G a g g' Ha Hl Hs. split.
    - destruct Hs as [H1 [H2 [H3 [H4 _]]]]. eapply same_shape_replace; eassumption.
    - eapply reach_replace; eassumption.
  Qed.
End Closure.

(* ------------------------------------------------------------------ optimising *)
Section OptimiseP.
  Variable sortS : list string -> list string.
  Variable sortZ : list Z -> list Z.
  Hypothesis sortS_perm : forall l, Permutation (sortS l) l.
  Hypothesis sortZ_perm : forall l, Permutation (sortZ l) l.
  Variable segs : list Z.

  Notation og := (optimise_group sortS sortZ segs).
  Notation oall := (optimise_all sortS sortZ segs).

  Lemma sortS_in : forall l x, In x (sortS l) <-> In x l.
  Proof. intros. split; apply Permutation_in; [|symmetry]; apply sortS_perm. Qed.
  Lemma sortZ_in : forall l x, In x (sortZ l) <-> In x l.
  Proof. intros. split; apply Permutation_in; [|symmetry]; apply sortZ_perm. Qed.
  Lemma sortS_nodup : forall l, NoDup l -> NoDup (sortS l).
  Proof. intros l H. eapply Permutation_NoDup; [symmetry; apply sortS_perm | exact H]. Qed.
  Lemma sortZ_nodup : forall l, NoDup l -> NoDup (sortZ l).
  Proof. intros l H. eapply Permutation_NoDup; [symmetry; apply sortZ_perm | exact H]. Qed.
  Lemma sortS_nil : forall l, sortS l = [] -> l = [].
  Proof. intros l H. apply Permutation_nil. rewrite <- H. apply sortS_perm. Qed.

  Lemma get_group_some : forall G a g, get_group G a = Some g -> lookup G a = Some g /\ a <> "".
  Proof.
    intros G a g H. unfold get_group in H. destruct (String.eqb a "") eqn:E; [discriminate|].
    apply String.eqb_neq in E. auto.
  Qed.

  (* no duplicate member or include, no member that an included group supplies *)
  Definition clean (G : list group) (g : group) : Prop :=
    NoDup (members g) /\ NoDup (includes g) /\
    forall s i, In s (members g) -> In i (includes g) -> ~ reach segs G i s.

  (* what one call of optimise_segment_group does, abstractly *)
  Lemma optimise_group_spec : forall fuel G a G',
    acyclic G -> og fuel G a = Ret G' ->
    exists g g', lookup G a = Some g /\ a <> "" /\ G' = replace_first G a g' /\ lookup G' a = Some g' /\
                 equiv segs G G' /\ clean G' g' /\
                 includes g' = sortS (dedupS (includes g)) /\
                 (includes g' <> [] -> members g' <> [] -> exists l, members g' = sortZ l).
  Proof.
    intros fuel G a G' Hac H. unfold optimise_group in H.
    destruct (get_group G a) as [g|] eqn:Hg; [|discriminate].
    destruct (get_group_some _ _ _ Hg) as [Hl Hne].
    destruct (lookup_some _ _ _ Hl) as [HgG Hga]. rewrite Hga in H.
    set (ms := dedupZ (members g)) in *.
    set (incs := sortS (dedupS (includes g))) in *.
    set (g1 := mkGroup a ms incs (nlex g)) in *.
    set (G1 := replace_first G a g1) in *.
    assert (Hinc1 : forall i, In i incs <-> In i (includes g)).
    { intros i. unfold incs. rewrite sortS_in, dedupS_in. tauto. }
    assert (Hstep1 : member_step segs G g g1).
    { unfold member_step, g1; simpl. split; [auto|]. split; [exact Hinc1|]. split; [reflexivity|].
      split; intros s Hs; [apply dedupZ_in; exact Hs | left; apply dedupZ_in; exact Hs]. }
    assert (Heq1 : equiv segs G G1) by (eapply equiv_replace; eassumption).
    assert (Hl1 : lookup G1 a = Some g1) by (eapply lookup_replace_first_eq; [exact Hl | reflexivity]).
    assert (Hnd_incs : NoDup incs) by (apply sortS_nodup, dedupS_nodup).
    assert (Hnd_ms : NoDup ms) by apply dedupZ_nodup.
    destruct (nonemptyS incs && nonemptyZ ms) eqn:Hb.
    - destruct (resolve_union segs fuel G1 incs) as [covered|e] eqn:Hu; [|discriminate].
      set (ms' := sortZ (filter (fun m => negb (memZ m covered)) ms)) in *.
      set (g2 := mkGroup a ms' incs (nlex g)) in *.
      assert (Hrr : replace_first G1 a g2 = replace_first G a g2)
        by (unfold G1; apply replace_first_twice; reflexivity).
      assert (HG' : G' = replace_first G a g2) by (inversion H; exact Hrr).
      clear H. subst G'.
      pose proof (resolve_union_spec segs _ _ _ _ Hu) as Hcov.
      assert (Hac1 : acyclic G1) by (eapply same_shape_acyclic; [apply Heq1 | exact Hac]).
      assert (Hms' : forall s, In s ms' <-> In s ms /\ ~ In s covered).
      { intros s. unfold ms'. rewrite sortZ_in, filter_In, negb_true_iff, memZ_false_iff. tauto. }
      assert (Hstep2 : member_step segs G1 g1 g2).
      { unfold member_step, g1, g2; simpl. split; [reflexivity|]. split; [tauto|]. split; [reflexivity|]. split.
        - intros s Hs. apply Hms' in Hs. tauto.
        - intros s Hs. destruct (in_dec Z.eq_dec s covered) as [Hc|Hc].
          + right. apply Hcov. exact Hc.
          + left. apply Hms'. tauto. }
      assert (Heq2 : equiv segs G1 (replace_first G1 a g2)) by (eapply equiv_replace; eassumption).
      exists g, g2. split; [exact Hl|]. split; [exact Hne|].
      split; [reflexivity|]. rewrite Hrr in Heq2.
      split; [eapply lookup_replace_first_eq; [exact Hl | reflexivity]|].
      split; [eapply equiv_trans; eassumption|].
      split; [|split; [reflexivity|]].
      + unfold clean, g2; simpl. split; [apply sortZ_nodup, NoDup_filter, Hnd_ms|]. split; [exact Hnd_incs|].
        intros s i Hs Hi Hr. apply Hms' in Hs. destruct Hs as [_ Hs]. apply Hs. apply Hcov.
        exists i. split; [exact Hi|]. apply (proj2 Heq2). exact Hr.
      + intros _ _. simpl. eexists; reflexivity.
    - inversion H; subst G'; clear H.
      exists g, g1. split; [exact Hl|]. split; [exact Hne|]. split; [reflexivity|]. split; [exact Hl1|].
      split; [exact Heq1|]. split; [|split; [reflexivity|]].
      + unfold clean, g1; simpl. split; [exact Hnd_ms|]. split; [exact Hnd_incs|].
        intros s i Hs Hi. apply andb_false_iff in Hb. destruct Hb as [Hb|Hb].
        * destruct incs; [contradiction | discriminate].
        * destruct ms; [contradiction | discriminate].
      + simpl. intros Hi Hm. apply andb_false_iff in Hb. destruct Hb as [Hb|Hb].
        * destruct incs; [congruence | discriminate].
        * destruct ms; [congruence | discriminate].
  Qed.

  (* --- the loop over all groups --- *)
  Lemma optimise_ids_err : forall fuel ids e,
    fold_left (fun acc a => match acc with Ret G' => og fuel G' a | Err e => Err e end) ids (Err e) = Err e.
  Proof. induction ids as [|a ids IH]; intros e; simpl; [reflexivity | apply IH]. Qed.

  Lemma optimise_ids_cons : forall fuel a ids G G',
    optimise_ids og fuel (a :: ids) G = Ret G' ->
    exists G1, og fuel G a = Ret G1 /\ optimise_ids og fuel ids G1 = Ret G'.
  Proof.
    intros fuel a ids G G' H. unfold optimise_ids in *. simpl in H.
    destruct (og fuel G a) as [G1|e] eqn:E; [exists G1; auto|].
    rewrite optimise_ids_err in H. discriminate.
  Qed.

  Theorem optimise_ids_equiv : forall fuel ids G G',
    acyclic G -> optimise_ids og fuel ids G = Ret G' -> equiv segs G G'.
  Proof.
    intros fuel. induction ids as [|a ids IH]; intros G G' Hac H.
    - unfold optimise_ids in H. simpl in H. inversion H. apply equiv_refl.
    - destruct (optimise_ids_cons _ _ _ _ _ H) as [G1 [H1 H2]].
      destruct (optimise_group_spec _ _ _ _ Hac H1) as [g [g' [_ [_ [_ [_ [Heq _]]]]]]].
      eapply equiv_trans; [exact Heq|]. apply IH; [|exact H2].
      eapply same_shape_acyclic; [apply Heq | exact Hac].
  Qed.

  Theorem optimise_all_equiv : forall fuel G G',
    acyclic G -> oall fuel G = Ret G' -> equiv segs G G'.
  Proof. intros fuel G G' Hac H. eapply optimise_ids_equiv; eassumption. Qed.

  (* sortedness facts kept for idempotence *)
  Definition settled (G : list group) (g : group) : Prop :=
    clean G g /\ (exists l, includes g = sortS l) /\
    (includes g <> [] -> members g <> [] -> exists l, members g = sortZ l).

  Lemma clean_equiv : forall G G' g, equiv segs G G' -> clean G g -> clean G' g.
  Proof.
    intros G G' g [_ Hr] [H1 [H2 H3]]. split; [exact H1|]. split; [exact H2|].
    intros s i Hs Hi Hreach. apply (H3 s i Hs Hi). apply Hr. exact Hreach.
  Qed.

  Lemma optimise_ids_settled : forall fuel ids G G' done,
    acyclic G -> NoDup (map gid G) ->
    (forall g, In g G -> In (gid g) done -> settled G g) ->
    optimise_ids og fuel ids G = Ret G' ->
    forall g, In g G' -> In (gid g) (done ++ ids) -> settled G' g.
  Proof.
    intros fuel. induction ids as [|a ids IH]; intros G G' done Hac Hnd Hdone H g Hg Hid.
    - unfold optimise_ids in H. simpl in H. inversion H; subst. rewrite app_nil_r in Hid. auto.
    - destruct (optimise_ids_cons _ _ _ _ _ H) as [G1 [H1 H2]].
      destruct (optimise_group_spec _ _ _ _ Hac H1) as [g0 [g' [Hl [_ [HG1 [Hl1 [Heq [Hcl [Hinc Hmem]]]]]]]]].
      apply (IH G1 G' (done ++ [a])%list); auto.
      + eapply same_shape_acyclic; [apply Heq | exact Hac].
      + rewrite (same_shape_gids G G1); [exact Hnd | apply Heq].
      + intros h Hh Hhd. rewrite HG1 in Hh. apply in_replace_first in Hh; [|exact Hnd].
        destruct (lookup_some _ _ _ Hl1) as [_ Hg'a].
        destruct Hh as [Hh|[Hh Hne]].
        * subst h. split; [exact Hcl|]. split; [eexists; exact Hinc | exact Hmem].
        * apply in_app_or in Hhd. destruct Hhd as [Hhd|[Hhd|[]]]; [|congruence].
          destruct (Hdone h Hh Hhd) as [Hc [Hs1 Hs2]].
          split; [eapply clean_equiv; eassumption | split; assumption].
      + rewrite <- app_assoc. exact Hid.
  Qed.

  Theorem optimise_all_clean : forall fuel G G',
    acyclic G -> NoDup (map gid G) -> oall fuel G = Ret G' ->
    forall g, In g G' -> clean G' g.
  Proof.
    intros fuel G G' Hac Hnd H g Hg.
    assert (Hs : settled G' g).
    { apply (optimise_ids_settled fuel (map gid G) G G' []); auto.
      - intros h _ [].
      - simpl. rewrite <- (same_shape_gids G G'); [apply in_map; exact Hg|].
        apply (optimise_all_equiv fuel); assumption. }
    apply Hs.
  Qed.

  (* --- totality: on an acyclic closed graph with non-empty ids nothing is raised --- *)
  Lemma optimise_group_total : forall fuel G a,
    acyclic G -> closed G -> length G < fuel -> In a (map gid G) -> a <> "" ->
    exists G', og fuel G a = Ret G'.
  Proof.
    intros fuel G a Hac Hcl Hf Ha Hne. unfold optimise_group, get_group.
    apply String.eqb_neq in Hne. rewrite Hne.
    destruct (lookup_in _ _ Ha) as [g Hl]. rewrite Hl.
    destruct (lookup_some _ _ _ Hl) as [HgG Hga].
    set (ms := dedupZ (members g)). set (incs := sortS (dedupS (includes g))).
    set (g1 := mkGroup (gid g) ms incs (nlex g)).
    destruct (nonemptyS incs && nonemptyZ ms); [|eexists; reflexivity].
    assert (Hss : same_shape G (replace_first G (gid g) g1)).
    { rewrite Hga. eapply same_shape_replace; [exact Hl | reflexivity | | reflexivity |].
      - intros i. unfold g1, incs; simpl. rewrite sortS_in, dedupS_in. tauto.
      - intros s. unfold g1, ms; simpl. rewrite dedupZ_in. tauto. }
    destruct (resolve_union_total segs (replace_first G (gid g) g1) fuel incs) as [l Hu].
    - eapply same_shape_acyclic; eassumption.
    - eapply same_shape_closed; eassumption.
    - rewrite (same_shape_length _ _ Hss). exact Hf.
    - intros i Hi. rewrite (same_shape_gids _ _ Hss). apply (Hcl g i HgG).
      unfold incs in Hi. rewrite sortS_in, dedupS_in in Hi. exact Hi.
    - rewrite Hu. eexists; reflexivity.
  Qed.

  Lemma optimise_ids_total : forall fuel ids G,
    acyclic G -> closed G -> length G < fuel -> incl ids (map gid G) -> ~ In "" ids ->
    exists G', optimise_ids og fuel ids G = Ret G'.
  Proof.
    intros fuel. induction ids as [|a ids IH]; intros G Hac Hcl Hf Hin Hne.
    - eexists; reflexivity.
    - destruct (optimise_group_total fuel G a Hac Hcl Hf) as [G1 H1].
      + apply Hin. left. reflexivity.
      + intro E. apply Hne. left. exact E.
      + destruct (optimise_group_spec _ _ _ _ Hac H1) as [g0 [g' [_ [_ [_ [_ [[Hss _] _]]]]]]].
        destruct (IH G1) as [G' H2].
        * eapply same_shape_acyclic; eassumption.
        * eapply same_shape_closed; eassumption.
        * rewrite (same_shape_length _ _ Hss). exact Hf.
        * rewrite (same_shape_gids _ _ Hss). intros x Hx. apply Hin. right. exact Hx.
        * intro E. apply Hne. right. exact E.
        * exists G'. unfold optimise_ids in *. simpl. rewrite H1. exact H2.
  Qed.

  Theorem optimise_all_total : forall fuel G,
    acyclic G -> closed G -> length G < fuel -> ~ In "" (map gid G) ->
    exists G', oall fuel G = Ret G'.
  Proof. intros. apply optimise_ids_total; auto. apply incl_refl. Qed.

  (* --- idempotence --- *)
  Hypothesis sortS_idem : forall l, sortS (sortS l) = sortS l.
  Hypothesis sortZ_idem : forall l, sortZ (sortZ l) = sortZ l.

  Lemma optimise_group_settled_id : forall fuel G a g,
    acyclic G -> closed G -> length G < fuel ->
    lookup G a = Some g -> a <> "" -> settled G g -> og fuel G a = Ret G.
  Proof.
    intros fuel G a g Hac Hcl Hf Hl Hne [[Hn1 [Hn2 Hcov]] [[li Hsi] Hsm]].
    destruct (lookup_some _ _ _ Hl) as [HgG Hga]. subst a.
    unfold optimise_group, get_group. apply String.eqb_neq in Hne. rewrite Hne, Hl.
    rewrite (dedupZ_id _ Hn1), (dedupS_id _ Hn2).
    assert (Hsort : sortS (includes g) = includes g) by (rewrite Hsi; apply sortS_idem).
    rewrite Hsort. rewrite group_eta.
    rewrite (replace_first_same _ _ _ Hl).
    destruct (nonemptyS (includes g) && nonemptyZ (members g)) eqn:Hb; [|reflexivity].
    apply andb_true_iff in Hb. destruct Hb as [Hb1 Hb2].
    destruct (resolve_union_total segs G fuel (includes g) Hac Hcl Hf) as [cov Hu].
    - intros i Hi. apply (Hcl g i HgG Hi).
    - rewrite Hu. pose proof (resolve_union_spec segs _ _ _ _ Hu) as Hc.
      rewrite filter_all.
      + destruct Hsm as [lm Hlm].
        * destruct (includes g); [discriminate | congruence].
        * destruct (members g); [discriminate | congruence].
        * assert (Hz : sortZ (members g) = members g) by (rewrite Hlm; apply sortZ_idem).
          rewrite Hz. rewrite group_eta. rewrite (replace_first_same _ _ _ Hl). reflexivity.
      + intros s Hs. apply negb_true_iff. apply memZ_false_iff. intro Hin.
        apply Hc in Hin. destruct Hin as [i [Hi Hr]]. exact (Hcov s i Hs Hi Hr).
  Qed.

  Lemma optimise_ids_settled_id : forall fuel ids G,
    acyclic G -> closed G -> length G < fuel -> ~ In "" ids ->
    (forall a, In a ids -> exists g, lookup G a = Some g /\ settled G g) ->
    optimise_ids og fuel ids G = Ret G.
  Proof.
    intros fuel. induction ids as [|a ids IH]; intros G Hac Hcl Hf Hne Hall; [reflexivity|].
    unfold optimise_ids in *. simpl.
    destruct (Hall a (or_introl eq_refl)) as [g [Hl Hs]].
    assert (Hne' : a <> "") by (intro E; apply Hne; left; exact E).
    rewrite (optimise_group_settled_id fuel G a g Hac Hcl Hf Hl Hne' Hs).
    apply IH; [exact Hac | exact Hcl | exact Hf | |].
    - intro E. apply Hne. right. exact E.
    - intros b Hb. apply Hall. right. exact Hb.
  Qed.

  Lemma optimise_ids_nonempty : forall fuel ids G G',
    acyclic G -> optimise_ids og fuel ids G = Ret G' -> ~ In "" ids.
  Proof.
    intros fuel. induction ids as [|a ids IH]; intros G G' Hac H; [intros []|].
    destruct (optimise_ids_cons _ _ _ _ _ H) as [G1 [H1 H2]].
    destruct (optimise_group_spec _ _ _ _ Hac H1) as [g0 [g' [_ [Hne [_ [_ [[Hss _] _]]]]]]].
    intros [E|E]; [congruence|].
    revert E. eapply IH; [|exact H2]. eapply same_shape_acyclic; eassumption.
  Qed.

  Theorem optimise_all_idem : forall fuel G G',
    acyclic G -> closed G -> NoDup (map gid G) -> length G < fuel ->
    oall fuel G = Ret G' -> oall fuel G' = Ret G'.
  Proof.
    intros fuel G G' Hac Hcl Hnd Hf H.
    pose proof (optimise_all_equiv fuel G G' Hac H) as [Hss Hr].
    pose proof (optimise_ids_nonempty _ _ _ _ Hac H) as Hne.
    unfold optimise_all. rewrite (same_shape_gids _ _ Hss).
    apply optimise_ids_settled_id.
    - eapply same_shape_acyclic; eassumption.
    - eapply same_shape_closed; eassumption.
    - rewrite (same_shape_length _ _ Hss). exact Hf.
    - exact Hne.
    - intros a Ha. rewrite <- (same_shape_gids _ _ Hss) in Ha.
      destruct (lookup_in _ _ Ha) as [g Hl]. exists g. split; [exact Hl|].
      destruct (lookup_some _ _ _ Hl) as [HgG Hga].
      apply (optimise_ids_settled fuel (map gid G) G G' []); auto.
      + intros h _ [].
      + simpl. rewrite Hga. rewrite <- (same_shape_gids _ _ Hss). exact Ha.
  Qed.
End OptimiseP.
