(* C12 — forward error bound for the binary64 evaluation of Segment.length / Point3DWithDiam.distance_to.

   Part 1 (no Flocq): for ANY rounding function rnd with the standard relative-error model
        rnd x = x (1 + delta), |delta| <= u      (for x = 0 or |x| >= tiny)
   and ANY function ph standing for libm's pow(x, 0.5) with   ph x = sqrt x (1 + eps), |eps| <= 2u   (x >= 0),
   the rounded evaluation
        fl_length = ph (rnd (rnd (rnd (dx'*dx') + rnd (dy'*dy')) + rnd (dz'*dz'))),  dx' = rnd (px - qx), ...
   of the Euclidean distance L satisfies  |fl_length - L| <= 6 u L,  provided each exact coordinate difference is
   0 or at least bt in magnitude (bt*bt/2 >= tiny: no intermediate result underflows).  All coordinates, no enumeration.
   Part 2: Flocq instance  rnd = round radix2 (FLT_exp (-1074) 53) ZnearestE,  u = 2^-53,  tiny = 2^-1022,  bt = 2^-500.
   The per-run instance lemma (Inst_C12_float.v) shows that the term regenerated from the Python source, evaluated in
   the rounded reading RndA of Model/Geom.v, IS fl_length. *)
From Coq Require Import ZArith List Bool Reals Lra Psatz.
From Flocq Require Import Core Relative.
From LNML Require Import Model.Geom Proofs.GeomP.
Import ListNotations.
Local Open Scope R_scope.

Definition fl_length (rnd ph : R -> R) (p d : pt R) : R :=
  let dx := rnd (p_x p - p_x d) in
  let dy := rnd (p_y p - p_y d) in
  let dz := rnd (p_z p - p_z d) in
  ph (rnd (rnd (rnd (dx * dx) + rnd (dy * dy)) + rnd (dz * dz))).

Definition fl_volume (rnd ph : R -> R) (p d : pt R) : R :=
  let r1 := rnd (p_d p / 2) in
  let r2 := rnd (p_d d / 2) in
  rnd (rnd (rnd (rnd PI / 3) * fl_length rnd ph p d) * rnd (rnd (rnd (r1 * r1) + rnd (r2 * r2)) + rnd (r1 * r2))).

Definition fl_area (rnd ph : R -> R) (p d : pt R) : R :=
  let r1 := rnd (p_d p / 2) in
  let r2 := rnd (p_d d / 2) in
  let dr := rnd (r1 - r2) in
  let Lf := fl_length rnd ph p d in
  rnd (rnd (rnd PI * rnd (r1 + r2)) * rnd (sqrt (rnd (rnd (dr * dr) + rnd (Lf * Lf))))).

Section Abstract.
  Variables (rnd ph : R -> R) (u tiny bt : R).
  Hypothesis u_pos : 0 <= u.
  Hypothesis u_small : u <= / 64.
  Hypothesis tiny_pos : 0 <= tiny.
  Hypothesis tiny_le_bt : tiny <= bt.
  Hypothesis bt_pos : 0 < bt.
  Hypothesis tiny_le_bt2 : tiny <= bt * bt / 2.
  (* the standard model of a rounding to nearest, away from the underflow range *)
  Hypothesis rnd_rel : forall x, x = 0 \/ tiny <= Rabs x -> exists dl, Rabs dl <= u /\ rnd x = x * (1 + dl).
  (* libm's pow(x, 0.5): relative error at most 2u = 2^-52, i.e. within one unit in the last place *)
  Hypothesis ph_rel : forall x, 0 <= x -> exists ep, Rabs ep <= 2 * u /\ ph x = sqrt x * (1 + ep).

  (* x' approximates x >= 0 within k roundings *)
  Definition rel (k : nat) (x' x : R) : Prop := 0 <= x /\ (1 - u) ^ k * x <= x' /\ x' <= (1 + u) ^ k * x.

  Lemma one_minus_u : 0 <= 1 - u /\ 1 - u <= 1.
  Proof. split; lra. Qed.

  Lemma pow_lo_pos : forall k, 0 <= (1 - u) ^ k.
  Proof. intros. apply pow_le. lra. Qed.

  Lemma pow_hi_pos : forall k, 0 < (1 + u) ^ k.
  Proof. intros. apply pow_lt. lra. Qed.

  Lemma rel_S : forall k x' x, rel k x' x -> rel (S k) x' x.
  Proof.
    intros k x' x (Hx & Hl & Hh). repeat split; [assumption | |].
    - simpl. pose proof (pow_lo_pos k) as P.
      assert (0 <= (1 - u) ^ k * x) by (apply Rmult_le_pos; assumption).
      assert ((1 - u) * ((1 - u) ^ k * x) <= (1 - u) ^ k * x) by nra. nra.
    - simpl. pose proof (pow_hi_pos k) as P.
      assert (0 <= (1 + u) ^ k * x) by (apply Rmult_le_pos; [lra | assumption]).
      assert ((1 + u) ^ k * x <= (1 + u) * ((1 + u) ^ k * x)) by nra. nra.
  Qed.

  Lemma rel_nonneg : forall k x' x, rel k x' x -> 0 <= x'.
  Proof.
    intros k x' x (Hx & Hl & _). pose proof (pow_lo_pos k).
    assert (0 <= (1 - u) ^ k * x) by (apply Rmult_le_pos; assumption). lra.
  Qed.

  Lemma rel_zero : forall k x', rel k x' 0 -> x' = 0.
  Proof. intros k x' (_ & Hl & Hh). rewrite Rmult_0_r in *. lra. Qed.

  Lemma rel_add : forall k a' a b' b, rel k a' a -> rel k b' b -> rel k (a' + b') (a + b).
  Proof.
    intros k a' a b' b (Ha & Hal & Hah) (Hb & Hbl & Hbh). repeat split; [lra | |];
      rewrite Rmult_plus_distr_l; lra.
  Qed.

  (* Bernoulli: (1-u)^k >= 1 - k u *)
  Lemma bernoulli : forall k, 1 - INR k * u <= (1 - u) ^ k.
  Proof.
    induction k as [|k IH].
    - simpl. lra.
    - rewrite S_INR. simpl. pose proof (pos_INR k) as Pk.
      assert (0 <= INR k * u * u) by (apply Rmult_le_pos; [apply Rmult_le_pos|]; assumption).
      assert ((1 - u) * (1 - INR k * u) <= (1 - u) * (1 - u) ^ k) by (apply Rmult_le_compat_l; lra).
      nra.
  Qed.

  Lemma pow_lo_half : forall k, (k <= 8)%nat -> / 2 <= (1 - u) ^ k.
  Proof.
    intros k Hk. pose proof (bernoulli k) as B.
    assert (H8 : INR k <= INR 8) by (apply le_INR; assumption).
    assert (E8 : INR 8 = 8) by (simpl; lra). rewrite E8 in H8.
    assert (INR k * u <= 8 * / 64) by (apply Rmult_le_compat; [apply pos_INR | | |]; lra). lra.
  Qed.

  (* no underflow for an approximation of a quantity that is 0 or at least bt^2 *)
  Definition big (x : R) : Prop := x = 0 \/ bt * bt <= x.

  Lemma rel_ok : forall k x' x, (k <= 8)%nat -> rel k x' x -> big x -> x' = 0 \/ tiny <= Rabs x'.
  Proof.
    intros k x' x Hk Hr [E | B].
    - left. subst. eapply rel_zero. eassumption.
    - right. pose proof (rel_nonneg _ _ _ Hr) as P. rewrite Rabs_pos_eq by assumption.
      destruct Hr as (Hx & Hl & _). pose proof (pow_lo_half k Hk) as Hh.
      assert (/ 2 * (bt * bt) <= (1 - u) ^ k * x).
      { apply Rmult_le_compat; try lra; nra. }
      lra.
  Qed.

  Lemma rel_round : forall k x' x, (k <= 8)%nat -> rel k x' x -> big x -> rel (S k) (rnd x') x.
  Proof.
    intros k x' x Hk Hr Hb. destruct (rnd_rel x' (rel_ok k x' x Hk Hr Hb)) as (dl & Hd & E).
    pose proof (rel_nonneg _ _ _ Hr) as P. destruct Hr as (Hx & Hl & Hh).
    apply Rabs_le_inv in Hd. rewrite E. repeat split; [assumption | |].
    - simpl. pose proof (pow_lo_pos k).
      assert (0 <= (1 - u) ^ k * x) by (apply Rmult_le_pos; assumption).
      assert ((1 - u) * ((1 - u) ^ k * x) <= (1 - u) * x') by (apply Rmult_le_compat_l; lra).
      assert ((1 - u) * x' <= x' * (1 + dl)) by nra. nra.
    - simpl. pose proof (pow_hi_pos k).
      assert ((1 + u) * x' <= (1 + u) * ((1 + u) ^ k * x)) by (apply Rmult_le_compat_l; lra).
      assert (x' * (1 + dl) <= (1 + u) * x') by nra. nra.
  Qed.

  (* the square of a rounded difference *)
  Definition okd (t : R) : Prop := t = 0 \/ bt <= Rabs t.

  Lemma okd_big_sq : forall t, okd t -> big (t * t).
  Proof.
    intros t [E | B]; [left; subst; ring | right].
    assert (0 <= bt) by lra. unfold Rabs in B. destruct (Rcase_abs t); nra.
  Qed.

  Lemma sq_rounded : forall t, okd t -> rel 2 (rnd t * rnd t) (t * t).
  Proof.
    intros t Ht.
    assert (U : t = 0 \/ tiny <= Rabs t) by (destruct Ht as [E | B]; [left; assumption | right; lra]).
    destruct (rnd_rel t U) as (dl & Hd & E). apply Rabs_le_inv in Hd. rewrite E.
    assert (0 <= t * t) by nra.
    repeat split; [assumption | |]; simpl.
    - assert ((1 - u) * (1 - u) <= (1 + dl) * (1 + dl)) by nra.
      replace (t * (1 + dl) * (t * (1 + dl))) with ((1 + dl) * (1 + dl) * (t * t)) by ring.
      replace ((1 - u) * ((1 - u) * 1) * (t * t)) with ((1 - u) * (1 - u) * (t * t)) by ring.
      apply Rmult_le_compat_r; assumption.
    - assert ((1 + dl) * (1 + dl) <= (1 + u) * (1 + u)) by nra.
      replace (t * (1 + dl) * (t * (1 + dl))) with ((1 + dl) * (1 + dl) * (t * t)) by ring.
      replace ((1 + u) * ((1 + u) * 1) * (t * t)) with ((1 + u) * (1 + u) * (t * t)) by ring.
      apply Rmult_le_compat_r; assumption.
  Qed.

  Lemma big_add : forall a b, 0 <= a -> 0 <= b -> big a -> big b -> big (a + b).
  Proof.
    intros a b Ha Hb [Ea | Ba] [Eb | Bb]; subst; [left; ring | right; lra | right; lra | right; lra].
  Qed.

  Lemma rel_sqrt : forall s' s, rel 6 s' s -> rel 3 (sqrt s') (sqrt s).
  Proof.
    intros s' s Hr. pose proof (rel_nonneg _ _ _ Hr) as P. destruct Hr as (Hs & Hl & Hh).
    repeat split; [apply sqrt_pos | |].
    - assert (E : (1 - u) ^ 6 * s = ((1 - u) ^ 3 * (1 - u) ^ 3) * s) by ring.
      rewrite E in Hl. pose proof (pow_lo_pos 3) as Q.
      replace ((1 - u) ^ 3 * sqrt s) with (sqrt ((1 - u) ^ 3 * (1 - u) ^ 3 * s)).
      + apply sqrt_le_1_alt. assumption.
      + rewrite sqrt_mult; [| nra | assumption]. rewrite sqrt_square by assumption. reflexivity.
    - assert (E : (1 + u) ^ 6 * s = ((1 + u) ^ 3 * (1 + u) ^ 3) * s) by ring.
      rewrite E in Hh. pose proof (pow_hi_pos 3) as Q.
      replace ((1 + u) ^ 3 * sqrt s) with (sqrt ((1 + u) ^ 3 * (1 + u) ^ 3 * s)).
      + apply sqrt_le_1_alt. assumption.
      + rewrite sqrt_mult; [| nra | assumption]. rewrite sqrt_square by lra. reflexivity.
  Qed.

  Theorem fl_length_error : forall p d : pt R,
    okd (p_x p - p_x d) -> okd (p_y p - p_y d) -> okd (p_z p - p_z d) ->
    Rabs (fl_length rnd ph p d - dist p d) <= 6 * u * dist p d.
  Proof.
    intros p d Hx Hy Hz. unfold fl_length, dist.
    set (tx := p_x p - p_x d) in *. set (ty := p_y p - p_y d) in *. set (tz := p_z p - p_z d) in *.
    pose proof (okd_big_sq _ Hx) as Bx. pose proof (okd_big_sq _ Hy) as By. pose proof (okd_big_sq _ Hz) as Bz.
    assert (Px : 0 <= tx * tx) by nra. assert (Py : 0 <= ty * ty) by nra. assert (Pz : 0 <= tz * tz) by nra.
    (* squares: 2 roundings inside, 1 for the product *)
    assert (Rx : rel 3 (rnd (rnd tx * rnd tx)) (tx * tx)) by (apply rel_round; [lia | apply sq_rounded; assumption | assumption]).
    assert (Ry : rel 3 (rnd (rnd ty * rnd ty)) (ty * ty)) by (apply rel_round; [lia | apply sq_rounded; assumption | assumption]).
    assert (Rz : rel 3 (rnd (rnd tz * rnd tz)) (tz * tz)) by (apply rel_round; [lia | apply sq_rounded; assumption | assumption]).
    assert (Rxy : rel 4 (rnd (rnd (rnd tx * rnd tx) + rnd (rnd ty * rnd ty))) (tx * tx + ty * ty)).
    { apply rel_round; [lia | apply rel_add; assumption | apply big_add; assumption]. }
    assert (Rs : rel 5 (rnd (rnd (rnd (rnd tx * rnd tx) + rnd (rnd ty * rnd ty)) + rnd (rnd tz * rnd tz)))
                       (tx * tx + ty * ty + tz * tz)).
    { apply rel_round; [lia | apply rel_add; [assumption | apply rel_S; assumption] |].
      apply big_add; try assumption; [lra | apply big_add; assumption]. }
    apply rel_S in Rs. pose proof (rel_nonneg _ _ _ Rs) as Ps. apply rel_sqrt in Rs.
    set (s' := rnd (rnd (rnd (rnd tx * rnd tx) + rnd (rnd ty * rnd ty)) + rnd (rnd tz * rnd tz))) in *.
    set (L := sqrt (tx * tx + ty * ty + tz * tz)) in *.
    destruct (ph_rel s' Ps) as (ep & He & E). rewrite E. apply Rabs_le_inv in He.
    destruct Rs as (HL & Hlo & Hhi). simpl in Hlo, Hhi.
    assert (Q : 0 <= sqrt s') by apply sqrt_pos.
    apply Rabs_le. split.
    - (* lower: (1-u)^3 (1-2u) >= 1 - 6u *)
      assert (A : (1 - 6 * u) * L <= (1 - 2 * u) * ((1 - u) * ((1 - u) * ((1 - u) * 1)) * L)).
      { assert (1 - 6 * u <= (1 - 2 * u) * ((1 - u) * ((1 - u) * ((1 - u) * 1)))) by nra.
        rewrite <- Rmult_assoc. apply Rmult_le_compat_r; assumption. }
      assert (B : (1 - 2 * u) * ((1 - u) * ((1 - u) * ((1 - u) * 1)) * L) <= (1 - 2 * u) * sqrt s')
        by (apply Rmult_le_compat_l; lra).
      assert (C : (1 - 2 * u) * sqrt s' <= sqrt s' * (1 + ep)) by nra.
      lra.
    - assert (A : (1 + 2 * u) * ((1 + u) * ((1 + u) * ((1 + u) * 1)) * L) <= (1 + 6 * u) * L).
      { assert ((1 + 2 * u) * ((1 + u) * ((1 + u) * ((1 + u) * 1))) <= 1 + 6 * u) by nra.
        rewrite <- Rmult_assoc. apply Rmult_le_compat_r; assumption. }
      assert (B : (1 + 2 * u) * sqrt s' <= (1 + 2 * u) * ((1 + u) * ((1 + u) * ((1 + u) * 1)) * L))
        by (apply Rmult_le_compat_l; lra).
      assert (C : sqrt s' * (1 + ep) <= (1 + 2 * u) * sqrt s') by nra.
      lra.
  Qed.
  (* ---------------------------------------------------------------- volume and surface area of the frustum *)
  Lemma rel_le : forall k k' x' x, (k <= k')%nat -> rel k x' x -> rel k' x' x.
  Proof. intros k k' x' x H. induction H; intro R; [assumption | apply rel_S; auto]. Qed.

  Lemma pow_lo_half32 : forall k, (k <= 32)%nat -> / 2 <= (1 - u) ^ k.
  Proof.
    intros k Hk. pose proof (bernoulli k) as B.
    assert (H8 : INR k <= INR 32) by (apply le_INR; assumption).
    assert (E8 : INR 32 = 32) by (simpl; lra). rewrite E8 in H8.
    assert (INR k * u <= 32 * / 64) by (apply Rmult_le_compat; [apply pos_INR | | |]; lra). lra.
  Qed.

  (* rounding an approximation of a quantity that is 0 or at least 2 tiny *)
  Lemma rel_round_gen : forall k x' x, (k <= 32)%nat -> rel k x' x -> (x = 0 \/ 2 * tiny <= x) -> rel (S k) (rnd x') x.
  Proof.
    intros k x' x Hk Hr Hb.
    assert (U : x' = 0 \/ tiny <= Rabs x').
    { destruct Hb as [E | B].
      - left. subst. eapply rel_zero. eassumption.
      - right. pose proof (rel_nonneg _ _ _ Hr) as P. rewrite Rabs_pos_eq by assumption.
        destruct Hr as (Hx & Hl & _). pose proof (pow_lo_half32 k Hk) as Hh.
        assert (/ 2 * (2 * tiny) <= (1 - u) ^ k * x) by (apply Rmult_le_compat; lra). lra. }
    destruct (rnd_rel x' U) as (dl & Hd & E).
    pose proof (rel_nonneg _ _ _ Hr) as P. destruct Hr as (Hx & Hl & Hh).
    apply Rabs_le_inv in Hd. rewrite E. repeat split; [assumption | |].
    - simpl. pose proof (pow_lo_pos k).
      assert (0 <= (1 - u) ^ k * x) by (apply Rmult_le_pos; assumption).
      assert ((1 - u) * ((1 - u) ^ k * x) <= (1 - u) * x') by (apply Rmult_le_compat_l; lra).
      assert ((1 - u) * x' <= x' * (1 + dl)) by nra. nra.
    - simpl. pose proof (pow_hi_pos k).
      assert ((1 + u) * x' <= (1 + u) * ((1 + u) ^ k * x)) by (apply Rmult_le_compat_l; lra).
      assert (x' * (1 + dl) <= (1 + u) * x') by nra. nra.
  Qed.

  Lemma rel_mul : forall k j a' a b' b, rel k a' a -> rel j b' b -> rel (k + j) (a' * b') (a * b).
  Proof.
    intros k j a' a b' b Ra Rb. pose proof (rel_nonneg _ _ _ Ra) as Pa. pose proof (rel_nonneg _ _ _ Rb) as Pb.
    destruct Ra as (Ha & Hal & Hah). destruct Rb as (Hb & Hbl & Hbh).
    pose proof (pow_lo_pos k). pose proof (pow_lo_pos j).
    assert (0 <= (1 - u) ^ k * a) by (apply Rmult_le_pos; assumption).
    assert (0 <= (1 - u) ^ j * b) by (apply Rmult_le_pos; assumption).
    repeat split; [apply Rmult_le_pos; assumption | |]; rewrite pow_add.
    - replace ((1 - u) ^ k * (1 - u) ^ j * (a * b)) with (((1 - u) ^ k * a) * ((1 - u) ^ j * b)) by ring.
      apply Rmult_le_compat; assumption.
    - replace ((1 + u) ^ k * (1 + u) ^ j * (a * b)) with (((1 + u) ^ k * a) * ((1 + u) ^ j * b)) by ring.
      apply Rmult_le_compat; assumption.
  Qed.

  Lemma rel_exact : forall x, 0 <= x -> rel 0 x x.
  Proof. intros x H. repeat split; [assumption | |]; simpl; lra. Qed.

  Lemma rel_sqrt_gen : forall k s' s, rel (k + k) s' s -> rel k (sqrt s') (sqrt s).
  Proof.
    intros k s' s Hr. pose proof (rel_nonneg _ _ _ Hr) as P. destruct Hr as (Hs & Hl & Hh).
    rewrite pow_add in Hl, Hh.
    repeat split; [apply sqrt_pos | |].
    - pose proof (pow_lo_pos k) as Q.
      replace ((1 - u) ^ k * sqrt s) with (sqrt ((1 - u) ^ k * (1 - u) ^ k * s)).
      + apply sqrt_le_1_alt. assumption.
      + rewrite sqrt_mult; [| nra | assumption]. rewrite sqrt_square by assumption. reflexivity.
    - pose proof (pow_hi_pos k) as Q.
      replace ((1 + u) ^ k * sqrt s) with (sqrt ((1 + u) ^ k * (1 + u) ^ k * s)).
      + apply sqrt_le_1_alt. assumption.
      + rewrite sqrt_mult; [| nra | assumption]. rewrite sqrt_square by lra. reflexivity.
  Qed.

  (* (1+u)^k (1 - k u) <= 1 : the usual gamma_k = k u / (1 - k u) *)
  Lemma gamma_hi : forall k, (1 + u) ^ k * (1 - INR k * u) <= 1.
  Proof.
    induction k as [|k IH].
    - simpl. lra.
    - rewrite S_INR. pose proof (pow_hi_pos k) as P. pose proof (pos_INR k) as Pk.
      change ((1 + u) ^ S k) with ((1 + u) * (1 + u) ^ k).
      assert (A : (1 + u) * (1 - (INR k + 1) * u) <= 1 - INR k * u).
      { assert (0 <= (INR k + 1) * u * u) by (apply Rmult_le_pos; [apply Rmult_le_pos|]; lra). nra. }
      assert (B : (1 + u) ^ k * ((1 + u) * (1 - (INR k + 1) * u)) <= (1 + u) ^ k * (1 - INR k * u))
        by (apply Rmult_le_compat_l; lra).
      lra.
  Qed.

  (* from k roundings to an explicit relative bound *)
  Lemma rel_bound : forall k x' x, rel k x' x -> (INR k + 1) * (INR k * u) <= 1 ->
    Rabs (x' - x) <= (INR k + 1) * u * x.
  Proof.
    intros k x' x (Hx & Hl & Hh) Hk. pose proof (bernoulli k) as B. pose proof (gamma_hi k) as G.
    pose proof (pos_INR k) as Pk. pose proof (pow_hi_pos k) as Ph.
    apply Rabs_le. split.
    - assert ((1 - INR k * u) * x <= (1 - u) ^ k * x) by (apply Rmult_le_compat_r; assumption).
      assert (0 <= u * x) by (apply Rmult_le_pos; assumption). nra.
    - (* (1+u)^k <= 1 + (k+1) u  because (1 + (k+1)u)(1 - k u) >= 1 *)
      assert (Pku : 0 <= INR k * u) by (apply Rmult_le_pos; assumption).
      assert (C : 1 <= (1 + (INR k + 1) * u) * (1 - INR k * u)) by nra.
      assert (D : 0 < 1 - INR k * u) by nra.
      assert (E : (1 + u) ^ k <= 1 + (INR k + 1) * u).
      { apply Rmult_le_reg_r with (1 - INR k * u); [assumption|]. lra. }
      assert ((1 + u) ^ k * x <= (1 + (INR k + 1) * u) * x) by (apply Rmult_le_compat_r; assumption).
      lra.
  Qed.

  Lemma fl_length_rel6 : forall p d : pt R,
    okd (p_x p - p_x d) -> okd (p_y p - p_y d) -> okd (p_z p - p_z d) -> rel 6 (fl_length rnd ph p d) (dist p d).
  Proof.
    intros p d Hx Hy Hz. unfold fl_length, dist.
    set (tx := p_x p - p_x d) in *. set (ty := p_y p - p_y d) in *. set (tz := p_z p - p_z d) in *.
    pose proof (okd_big_sq _ Hx) as Bx. pose proof (okd_big_sq _ Hy) as By. pose proof (okd_big_sq _ Hz) as Bz.
    assert (Px : 0 <= tx * tx) by nra. assert (Py : 0 <= ty * ty) by nra. assert (Pz : 0 <= tz * tz) by nra.
    assert (Rx : rel 3 (rnd (rnd tx * rnd tx)) (tx * tx)) by (apply rel_round; [lia | apply sq_rounded; assumption | assumption]).
    assert (Ry : rel 3 (rnd (rnd ty * rnd ty)) (ty * ty)) by (apply rel_round; [lia | apply sq_rounded; assumption | assumption]).
    assert (Rz : rel 3 (rnd (rnd tz * rnd tz)) (tz * tz)) by (apply rel_round; [lia | apply sq_rounded; assumption | assumption]).
    assert (Rxy : rel 4 (rnd (rnd (rnd tx * rnd tx) + rnd (rnd ty * rnd ty))) (tx * tx + ty * ty)).
    { apply rel_round; [lia | apply rel_add; assumption | apply big_add; assumption]. }
    assert (Rs : rel 5 (rnd (rnd (rnd (rnd tx * rnd tx) + rnd (rnd ty * rnd ty)) + rnd (rnd tz * rnd tz)))
                       (tx * tx + ty * ty + tz * tz)).
    { apply rel_round; [lia | apply rel_add; [assumption | apply rel_S; assumption] |].
      apply big_add; try assumption; [lra | apply big_add; assumption]. }
    apply rel_S in Rs. pose proof (rel_nonneg _ _ _ Rs) as Ps. apply rel_sqrt in Rs.
    set (s' := rnd (rnd (rnd (rnd tx * rnd tx) + rnd (rnd ty * rnd ty)) + rnd (rnd tz * rnd tz))) in *.
    set (L := sqrt (tx * tx + ty * ty + tz * tz)) in *.
    destruct (ph_rel s' Ps) as (ep & He & E). rewrite E. apply Rabs_le_inv in He.
    pose proof (rel_nonneg _ _ _ Rs) as Q. destruct Rs as (HL & Hlo & Hhi).
    pose proof (pow_lo_pos 3) as P3. pose proof (pow_hi_pos 3) as H3.
    repeat split; [assumption | |].
    - (* (1-u)^6 <= (1-u)^3 (1-2u) *)
      replace ((1 - u) ^ 6) with ((1 - u) ^ 3 * (1 - u) ^ 3) by ring.
      assert (A : (1 - u) ^ 3 <= 1 - 2 * u) by (simpl; nra).
      assert (0 <= (1 - u) ^ 3 * L) by (apply Rmult_le_pos; assumption).
      assert ((1 - u) ^ 3 * ((1 - u) ^ 3 * L) <= (1 - 2 * u) * ((1 - u) ^ 3 * L)) by (apply Rmult_le_compat_r; assumption).
      assert ((1 - 2 * u) * ((1 - u) ^ 3 * L) <= (1 - 2 * u) * sqrt s') by (apply Rmult_le_compat_l; lra).
      assert ((1 - 2 * u) * sqrt s' <= sqrt s' * (1 + ep)) by nra. nra.
    - replace ((1 + u) ^ 6) with ((1 + u) ^ 3 * (1 + u) ^ 3) by ring.
      assert (A : 1 + 2 * u <= (1 + u) ^ 3) by (simpl; nra).
      assert (0 <= (1 + u) ^ 3 * L) by (apply Rmult_le_pos; [lra | assumption]).
      assert ((1 + 2 * u) * ((1 + u) ^ 3 * L) <= (1 + u) ^ 3 * ((1 + u) ^ 3 * L)) by (apply Rmult_le_compat_r; assumption).
      assert ((1 + 2 * u) * sqrt s' <= (1 + 2 * u) * ((1 + u) ^ 3 * L)) by (apply Rmult_le_compat_l; lra).
      assert (sqrt s' * (1 + ep) <= (1 + 2 * u) * sqrt s') by nra. nra.
  Qed.

  (* ---------------------------------------------------------------- the frustum volume *)
  Definition nz (l x : R) : Prop := x = 0 \/ l <= x.

  Lemma nz_mul : forall la lb a b, 0 <= la -> 0 <= lb -> nz la a -> nz lb b -> nz (la * lb) (a * b).
  Proof.
    intros la lb a b Hla Hlb [Ea | Ba] [Eb | Bb]; subst; try (left; ring).
    right. apply Rmult_le_compat; assumption.
  Qed.

  Lemma nz_add : forall l a b, 0 <= a -> 0 <= b -> nz l a -> nz l b -> nz l (a + b).
  Proof. intros l a b Ha Hb [Ea | Ba] [Eb | Bb]; subst; [left; ring | right; lra | right; lra | right; lra]. Qed.

  Lemma nz_le : forall l l' x, l' <= l -> nz l x -> nz l' x.
  Proof. intros l l' x H [E | B]; [left; assumption | right; lra]. Qed.

  Lemma rel_scale : forall k a' a c, 0 <= c -> rel k a' a -> rel k (a' * c) (a * c).
  Proof.
    intros k a' a c Hc (Ha & Hl & Hh). repeat split; [apply Rmult_le_pos; assumption | |].
    - rewrite <- Rmult_assoc. apply Rmult_le_compat_r; assumption.
    - rewrite <- Rmult_assoc. apply Rmult_le_compat_r; assumption.
  Qed.

  Lemma dist_nz : forall p d : pt R,
    okd (p_x p - p_x d) -> okd (p_y p - p_y d) -> okd (p_z p - p_z d) -> nz bt (dist p d).
  Proof.
    intros p d Hx Hy Hz. unfold dist.
    set (tx := p_x p - p_x d) in *. set (ty := p_y p - p_y d) in *. set (tz := p_z p - p_z d) in *.
    assert (Px : 0 <= tx * tx) by nra. assert (Py : 0 <= ty * ty) by nra. assert (Pz : 0 <= tz * tz) by nra.
    assert (G : forall t, 0 <= t * t -> bt <= Rabs t -> t * t <= tx * tx + ty * ty + tz * tz ->
                bt <= sqrt (tx * tx + ty * ty + tz * tz)).
    { intros t Pt Bt Le. apply Rle_trans with (Rabs t); [assumption|].
      rewrite <- sqrt_Rsqr_abs. unfold Rsqr. apply sqrt_le_1_alt. assumption. }
    destruct Hx as [Ex | Bx]; [| right; apply (G tx); [assumption | assumption | lra]].
    destruct Hy as [Ey | By]; [| right; apply (G ty); [assumption | assumption | lra]].
    destruct Hz as [Ez | Bz]; [| right; apply (G tz); [assumption | assumption | lra]].
    left. rewrite Ex, Ey, Ez. replace (0 * 0 + 0 * 0 + 0 * 0) with 0 by ring. apply sqrt_0.
  Qed.

  Section Vol.
    Hypothesis u_small2 : u <= / 1024.
    Hypothesis bt_le1 : bt <= 1.
    Hypothesis tiny_bt3 : 16 * tiny <= bt * bt * bt.

    Lemma bt_facts : 2 * tiny <= bt / 2 /\ 2 * tiny <= bt * bt / 4 /\ 2 * tiny <= bt * (bt * bt / 4) /\ 2 * tiny <= 1.
    Proof.
      assert (bt * bt <= bt) by nra. assert (bt * bt * bt <= bt * bt) by nra.
      assert (0 < bt * bt) by nra. repeat split; nra.
    Qed.

    Theorem fl_volume_error : forall p d : pt R,
      0 <= p_d p -> 0 <= p_d d -> nz bt (p_d p) -> nz bt (p_d d) ->
      okd (p_x p - p_x d) -> okd (p_y p - p_y d) -> okd (p_z p - p_z d) ->
      Rabs (fl_volume rnd ph p d - frustum_volume (dist p d) (rad p) (rad d))
      <= 16 * u * frustum_volume (dist p d) (rad p) (rad d).
    Proof.
      intros p d Pp Pd Np Nd Hx Hy Hz.
      destruct bt_facts as (F1 & F2 & F3 & F4).
      pose proof (fl_length_rel6 p d Hx Hy Hz) as RL. pose proof (dist_nz p d Hx Hy Hz) as NL.
      pose proof (dist_nonneg p d) as PL.
      unfold fl_volume, frustum_volume, rad.
      set (L := dist p d) in *. set (Lf := fl_length rnd ph p d) in *.
      set (a := p_d p / 2). set (b := p_d d / 2).
      assert (Pa : 0 <= a) by (unfold a; lra). assert (Pb : 0 <= b) by (unfold b; lra).
      assert (Na : nz (bt / 2) a) by (unfold a; destruct Np as [E | B]; [left; rewrite E; lra | right; lra]).
      assert (Nb : nz (bt / 2) b) by (unfold b; destruct Nd as [E | B]; [left; rewrite E; lra | right; lra]).
      pose proof PI_RGT_0 as Pi0. pose proof PI_4 as Pi4. pose proof PI2_3_2 as Pi3.
      (* pi / 3 *)
      assert (R1 : rel 1 (rnd PI) PI) by (apply rel_round_gen; [lia | apply rel_exact; lra | right; lra]).
      assert (R2 : rel 2 (rnd (rnd PI / 3)) (PI / 3)).
      { apply rel_round_gen; [lia | unfold Rdiv; apply rel_scale; [lra | assumption] | right; lra]. }
      (* (pi/3) * L *)
      assert (R9 : rel 9 (rnd (rnd (rnd PI / 3) * Lf)) (PI / 3 * L)).
      { apply (rel_round_gen 8); [lia | apply (rel_mul 2 6); assumption |].
        destruct NL as [E | B]; [left; rewrite E; ring | right]. assert (1 <= PI / 3) by lra. nra. }
      (* radii and their products *)
      assert (Ra : rel 1 (rnd a) a) by (apply rel_round_gen; [lia | apply rel_exact; assumption | eapply nz_le; [|exact Na]; lra]).
      assert (Rb : rel 1 (rnd b) b) by (apply rel_round_gen; [lia | apply rel_exact; assumption | eapply nz_le; [|exact Nb]; lra]).
      assert (Hbt2 : 0 <= bt / 2) by lra.
      assert (Naa : nz (2 * tiny) (a * a)).
      { apply nz_le with (bt / 2 * (bt / 2)); [lra | apply nz_mul; assumption]. }
      assert (Nbb : nz (2 * tiny) (b * b)).
      { apply nz_le with (bt / 2 * (bt / 2)); [lra | apply nz_mul; assumption]. }
      assert (Nab : nz (2 * tiny) (a * b)).
      { apply nz_le with (bt / 2 * (bt / 2)); [lra | apply nz_mul; assumption]. }
      assert (Qa : rel 3 (rnd (rnd a * rnd a)) (a * a)) by (apply (rel_round_gen 2); [lia | apply (rel_mul 1 1); assumption | assumption]).
      assert (Qb : rel 3 (rnd (rnd b * rnd b)) (b * b)) by (apply (rel_round_gen 2); [lia | apply (rel_mul 1 1); assumption | assumption]).
      assert (Qab : rel 3 (rnd (rnd a * rnd b)) (a * b)) by (apply (rel_round_gen 2); [lia | apply (rel_mul 1 1); assumption | assumption]).
      assert (Paa : 0 <= a * a) by nra. assert (Pbb : 0 <= b * b) by nra. assert (Pab : 0 <= a * b) by nra.
      assert (S1 : rel 4 (rnd (rnd (rnd a * rnd a) + rnd (rnd b * rnd b))) (a * a + b * b)).
      { apply rel_round_gen; [lia | apply rel_add; assumption | apply nz_add; assumption]. }
      assert (S2 : rel 5 (rnd (rnd (rnd (rnd a * rnd a) + rnd (rnd b * rnd b)) + rnd (rnd a * rnd b))) (a * a + b * b + a * b)).
      { apply rel_round_gen; [lia | apply rel_add; [assumption | apply rel_S; assumption] |].
        apply nz_add; [lra | assumption | apply nz_add; assumption | assumption]. }
      (* the product *)
      assert (NS : nz (bt * bt / 4) (a * a + b * b + a * b)).
      { assert (Q : forall x y, nz (bt / 2) x -> nz (bt / 2) y -> nz (bt * bt / 4) (x * y)).
        { intros x y Nx Ny. apply nz_le with (bt / 2 * (bt / 2)); [lra | apply nz_mul; assumption]. }
        apply nz_add; [lra | assumption | apply nz_add; auto | auto]. }
      assert (RV : rel 15 (rnd (rnd (rnd (rnd PI / 3) * Lf)
                                * rnd (rnd (rnd (rnd a * rnd a) + rnd (rnd b * rnd b)) + rnd (rnd a * rnd b))))
                          (PI / 3 * L * (a * a + b * b + a * b))).
      { apply (rel_round_gen 14); [lia | apply (rel_mul 9 5); assumption |].
        assert (NPL : nz bt (PI / 3 * L)).
        { destruct NL as [E | B]; [left; rewrite E; ring | right]. assert (1 <= PI / 3) by lra. nra. }
        apply nz_le with (bt * (bt * bt / 4)); [lra |]. apply nz_mul; [lra | nra | assumption | assumption]. }
      pose proof (rel_bound 15 _ _ RV) as B. simpl INR in B.
      replace (1 + 1 + 1 + 1 + 1 + 1 + 1 + 1 + 1 + 1 + 1 + 1 + 1 + 1 + 1 + 1) with 16 in B by ring.
      apply B. replace (1 + 1 + 1 + 1 + 1 + 1 + 1 + 1 + 1 + 1 + 1 + 1 + 1 + 1 + 1) with 15 by ring. lra.
    Qed.

    (* surface area: the difference of the radii is taken between the two halved diameters, so the halving must be
       exact (it is for binary64 numbers above the subnormal range): hypotheses Ha, Hb *)
    Theorem fl_area_error : forall p d : pt R,
      0 <= p_d p -> 0 <= p_d d -> nz bt (p_d p) -> nz bt (p_d d) ->
      rnd (p_d p / 2) = p_d p / 2 -> rnd (p_d d / 2) = p_d d / 2 -> okd (p_d p / 2 - p_d d / 2) ->
      okd (p_x p - p_x d) -> okd (p_y p - p_y d) -> okd (p_z p - p_z d) ->
      Rabs (fl_area rnd ph p d - frustum_area (dist p d) (rad p) (rad d))
      <= 13 * u * frustum_area (dist p d) (rad p) (rad d).
    Proof.
      intros p d Pp Pd Np Nd Ea Eb Hr Hx Hy Hz.
      destruct bt_facts as (F1 & F2 & F3 & F4).
      pose proof (fl_length_rel6 p d Hx Hy Hz) as RL. pose proof (dist_nz p d Hx Hy Hz) as NL.
      pose proof (dist_nonneg p d) as PL.
      unfold fl_area, frustum_area, rad. rewrite Ea, Eb.
      set (L := dist p d) in *. set (Lf := fl_length rnd ph p d) in *.
      set (a := p_d p / 2) in *. set (b := p_d d / 2) in *. set (t := a - b) in *.
      assert (Pa : 0 <= a) by (unfold a; lra). assert (Pb : 0 <= b) by (unfold b; lra).
      assert (Na : nz (bt / 2) a) by (unfold a; destruct Np as [E | B]; [left; rewrite E; lra | right; lra]).
      assert (Nb : nz (bt / 2) b) by (unfold b; destruct Nd as [E | B]; [left; rewrite E; lra | right; lra]).
      pose proof PI_RGT_0 as Pi0. pose proof PI_4 as Pi4. pose proof PI2_3_2 as Pi3.
      assert (R1 : rel 1 (rnd PI) PI) by (apply rel_round_gen; [lia | apply rel_exact; lra | right; lra]).
      assert (Rs : rel 1 (rnd (a + b)) (a + b)).
      { apply rel_round_gen; [lia | apply rel_exact; lra |]. apply nz_le with (bt / 2); [lra | apply nz_add; assumption]. }
      assert (NP : nz (bt / 2) (PI * (a + b))).
      { destruct (nz_add _ _ _ Pa Pb Na Nb) as [E | B]; [left; rewrite E; ring | right]. nra. }
      assert (RP : rel 3 (rnd (rnd PI * rnd (a + b))) (PI * (a + b))).
      { apply (rel_round_gen 2); [lia | apply (rel_mul 1 1); assumption | eapply nz_le; [|exact NP]; lra]. }
      (* under the root *)
      pose proof (okd_big_sq _ Hr) as Bt. assert (Pt : 0 <= t * t) by nra.
      assert (bt2 : 2 * tiny <= bt * bt) by nra.
      assert (Rt : rel 3 (rnd (rnd t * rnd t)) (t * t)).
      { apply (rel_round_gen 2); [lia | apply sq_rounded; assumption |]. destruct Bt as [E | B]; [left; assumption | right; lra]. }
      assert (NLL : nz (bt * bt) (L * L)) by (apply nz_mul; [lra | lra | assumption | assumption]).
      assert (RLL : rel 13 (rnd (Lf * Lf)) (L * L)).
      { apply (rel_round_gen 12); [lia | apply (rel_mul 6 6); assumption | eapply nz_le; [|exact NLL]; lra]. }
      assert (PLL : 0 <= L * L) by nra.
      assert (Ns : nz (bt * bt) (t * t + L * L)).
      { apply nz_add; [assumption | assumption | exact Bt | assumption]. }
      assert (Rsum : rel 14 (rnd (rnd (rnd t * rnd t) + rnd (Lf * Lf))) (t * t + L * L)).
      { apply (rel_round_gen 13); [lia | apply rel_add; [apply (rel_le 3 13); [lia | assumption] | assumption] |].
        eapply nz_le; [|exact Ns]; lra. }
      apply (rel_sqrt_gen 7) in Rsum.
      assert (Nq : nz bt (sqrt (t * t + L * L))).
      { destruct Ns as [E | B]; [left; rewrite E; apply sqrt_0 | right].
        rewrite <- (sqrt_square bt) by lra. apply sqrt_le_1_alt. assumption. }
      assert (RQ : rel 8 (rnd (sqrt (rnd (rnd (rnd t * rnd t) + rnd (Lf * Lf))))) (sqrt (t * t + L * L))).
      { apply (rel_round_gen 7); [lia | assumption | eapply nz_le; [|exact Nq]; lra]. }
      assert (RA : rel 12 (rnd (rnd (rnd PI * rnd (a + b)) * rnd (sqrt (rnd (rnd (rnd t * rnd t) + rnd (Lf * Lf))))))
                          (PI * (a + b) * sqrt (t * t + L * L))).
      { apply (rel_round_gen 11); [lia | apply (rel_mul 3 8); assumption |].
        apply nz_le with (bt / 2 * bt); [nra | apply nz_mul; [lra | lra | assumption | assumption]]. }
      pose proof (rel_bound 12 _ _ RA) as B. simpl INR in B.
      replace (1 + 1 + 1 + 1 + 1 + 1 + 1 + 1 + 1 + 1 + 1 + 1 + 1) with 13 in B by ring.
      apply B. replace (1 + 1 + 1 + 1 + 1 + 1 + 1 + 1 + 1 + 1 + 1 + 1) with 12 by ring. lra.
    Qed.
  End Vol.
End Abstract.

(* ------------------------------------------------------------------ binary64, round to nearest even *)
Definition rnd64 : R -> R := round radix2 (FLT_exp (-1074) 53) ZnearestE.
Definition u64 : R := bpow radix2 (-53).
Definition tiny64 : R := bpow radix2 (-1022).
Definition bt64 : R := bpow radix2 (-500).

(* the range condition on one exact coordinate difference: zero, or no smaller than 2^-500 (no underflow of its
   square) and no larger than 2^500 (no overflow of the sum of squares: binary64 is modelled with an unbounded exponent) *)
Definition diff_in_range (t : R) : Prop := t = 0 \/ (bpow radix2 (-500) <= Rabs t /\ Rabs t <= bpow radix2 500).

(* what is assumed about libm's pow(x, 0.5): relative error at most 2^-52 (one unit in the last place) *)
Definition powhalf_accurate (ph : R -> R) : Prop :=
  forall x, 0 <= x -> exists ep, Rabs ep <= 2 * u64 /\ ph x = sqrt x * (1 + ep).

Lemma u64_val : u64 = / 2 * bpow radix2 (- (53) + 1).
Proof.
  unfold u64. replace (-53)%Z with (-1 + (-(53) + 1))%Z by reflexivity. rewrite bpow_plus. reflexivity.
Qed.

Lemma rnd64_rel : forall x, x = 0 \/ tiny64 <= Rabs x -> exists dl, Rabs dl <= u64 /\ rnd64 x = x * (1 + dl).
Proof.
  intros x [E | H].
  - exists 0. split; [rewrite Rabs_R0; unfold u64; apply bpow_ge_0 |].
    subst. unfold rnd64. rewrite round_0; [ring | apply valid_rnd_N].
  - destruct (relative_error_N_FLT_ex radix2 (-1074) 53 eq_refl (fun z => negb (Z.even z)) x) as (eps & He & E).
    + exact H.
    + exists eps. split; [rewrite u64_val; exact He | exact E].
Qed.

Lemma u64_small : u64 <= / 64.
Proof.
  unfold u64. change (/ 64) with (bpow radix2 (-6)). apply bpow_le. lia.
Qed.

Theorem length_error_binary64 : forall ph, powhalf_accurate ph -> forall p d : pt R,
  diff_in_range (p_x p - p_x d) -> diff_in_range (p_y p - p_y d) -> diff_in_range (p_z p - p_z d) ->
  Rabs (fl_length rnd64 ph p d - dist p d) <= 6 * u64 * dist p d.
Proof.
  intros ph Hph p d Hx Hy Hz.
  apply (fl_length_error rnd64 ph u64 tiny64 bt64).
  - unfold u64. apply bpow_ge_0.
  - apply u64_small.
  - unfold tiny64. apply bpow_ge_0.
  - unfold tiny64, bt64. apply bpow_le. lia.
  - unfold bt64. apply bpow_gt_0.
  - unfold tiny64, bt64. rewrite <- bpow_plus. change (/ 2) with (bpow radix2 (-1)). unfold Rdiv.
    change (/ 2) with (bpow radix2 (-1)). rewrite <- bpow_plus. apply bpow_le. lia.
  - apply rnd64_rel.
  - exact Hph.
  - destruct Hx as [E | [H _]]; [left | right]; assumption.
  - destruct Hy as [E | [H _]]; [left | right]; assumption.
  - destruct Hz as [E | [H _]]; [left | right]; assumption.
Qed.

(* transfer to a translated table: the rounded reading of the regenerated term is fl_length *)
Definition length_is_fl (g : geom_table) : Prop :=
  forall rnd ph p d, run (RndA rnd ph) false (g_length g) (env_seg p d) = Val (fl_length rnd ph p d).
Definition distance_is_fl (g : geom_table) : Prop :=
  forall rnd ph a b, run (RndA rnd ph) false (g_distance g) (env_seg a b) = Val (fl_length rnd ph a b).

Theorem table_length_error : forall g, length_is_fl g -> distance_is_fl g ->
  forall ph, powhalf_accurate ph -> forall p d : pt R,
  diff_in_range (p_x p - p_x d) -> diff_in_range (p_y p - p_y d) -> diff_in_range (p_z p - p_z d) ->
  exists Lf, run (RndA rnd64 ph) false (g_length g) (env_seg p d) = Val Lf
             /\ run (RndA rnd64 ph) false (g_distance g) (env_seg p d) = Val Lf
             /\ Rabs (Lf - dist p d) <= 6 * u64 * dist p d.
Proof.
  intros g HL HD ph Hph p d Hx Hy Hz. exists (fl_length rnd64 ph p d).
  split; [apply HL | split; [apply HD |]]. apply length_error_binary64; assumption.
Qed.

(* the accuracy hypothesis is satisfiable (trivially by the exact square root; a correctly rounded one has |ep| <= u64) *)
Example powhalf_example : powhalf_accurate sqrt.
Proof.
  intros x Hx. exists 0. split; [rewrite Rabs_R0; unfold u64; pose proof (bpow_ge_0 radix2 (-53)); lra | ring].
Qed.

Example in_range_example : diff_in_range (3 - 1) /\ diff_in_range (1 - 1).
Proof.
  split; [right | left; ring].
  replace (3 - 1) with 2 by ring. rewrite Rabs_pos_eq by lra. split.
  - apply Rle_trans with (bpow radix2 0); [apply bpow_le; lia | simpl; lra].
  - apply Rle_trans with (bpow radix2 1); [simpl; lra | apply bpow_le; lia].
Qed.

(* ------------------------------------------------------------------ binary64: volume and surface area of the frustum *)
Definition bt300 : R := bpow radix2 (-300).

(* range condition for the volume / area bounds: zero, or between 2^-300 and 2^300 in magnitude (products of three
   such quantities neither underflow nor overflow) *)
Definition in_range300 (t : R) : Prop := t = 0 \/ (bpow radix2 (-300) <= Rabs t /\ Rabs t <= bpow radix2 300).

(* "x is a binary64 number" *)
Definition is_binary64 (x : R) : Prop := generic_format radix2 (FLT_exp (-1074) 53) x.

Lemma rnd64_id : forall x, is_binary64 x -> rnd64 x = x.
Proof. intros x H. unfold rnd64. apply round_generic; [apply valid_rnd_N | exact H]. Qed.

Lemma F_u_pos : 0 <= u64. Proof. unfold u64. apply bpow_ge_0. Qed.
Lemma F_u_small2 : u64 <= / 1024.
Proof. unfold u64. change (/ 1024) with (bpow radix2 (-10)). apply bpow_le. lia. Qed.
Lemma F_tiny_pos : 0 <= tiny64. Proof. unfold tiny64. apply bpow_ge_0. Qed.
Lemma F_tiny_le_bt : tiny64 <= bt300. Proof. unfold tiny64, bt300. apply bpow_le. lia. Qed.
Lemma F_bt_pos : 0 < bt300. Proof. unfold bt300. apply bpow_gt_0. Qed.
Lemma F_bt_le1 : bt300 <= 1. Proof. unfold bt300. change 1 with (bpow radix2 0). apply bpow_le. lia. Qed.
Lemma F_tiny_bt2 : tiny64 <= bt300 * bt300 / 2.
Proof.
  unfold tiny64, bt300, Rdiv. change (/ 2) with (bpow radix2 (-1)). rewrite <- !bpow_plus. apply bpow_le. lia.
Qed.
Lemma F_tiny_bt3 : 16 * tiny64 <= bt300 * bt300 * bt300.
Proof.
  unfold tiny64, bt300. change 16 with (bpow radix2 4). rewrite <- !bpow_plus. apply bpow_le. lia.
Qed.

Ltac fl_side :=
  first [ exact F_u_pos | exact u64_small | exact F_u_small2 | exact F_tiny_pos | exact F_tiny_le_bt | exact F_bt_pos
        | exact F_bt_le1 | exact F_tiny_bt2 | exact F_tiny_bt3 | exact rnd64_rel | assumption ].

Lemma in_range300_okd : forall t, in_range300 t -> okd bt300 t.
Proof. intros t [E | [H _]]; [left | right]; assumption. Qed.

Lemma in_range300_nz : forall t, 0 <= t -> in_range300 t -> nz bt300 t.
Proof. intros t P [E | [H _]]; [left; assumption | right]. rewrite Rabs_pos_eq in H; assumption. Qed.

Theorem volume_error_binary64 : forall ph, powhalf_accurate ph -> forall p d : pt R,
  0 <= p_d p -> 0 <= p_d d -> in_range300 (p_d p) -> in_range300 (p_d d) ->
  in_range300 (p_x p - p_x d) -> in_range300 (p_y p - p_y d) -> in_range300 (p_z p - p_z d) ->
  Rabs (fl_volume rnd64 ph p d - frustum_volume (dist p d) (rad p) (rad d))
  <= 16 * u64 * frustum_volume (dist p d) (rad p) (rad d).
Proof.
  intros ph Hph p d Pp Pd Rp Rd Hx Hy Hz.
  apply (fl_volume_error rnd64 ph u64 tiny64 bt300); try fl_side;
    try (apply in_range300_okd; assumption); try (apply in_range300_nz; assumption).
Qed.

Theorem area_error_binary64 : forall ph, powhalf_accurate ph -> forall p d : pt R,
  0 <= p_d p -> 0 <= p_d d -> in_range300 (p_d p) -> in_range300 (p_d d) ->
  is_binary64 (p_d p / 2) -> is_binary64 (p_d d / 2) -> in_range300 (p_d p / 2 - p_d d / 2) ->
  in_range300 (p_x p - p_x d) -> in_range300 (p_y p - p_y d) -> in_range300 (p_z p - p_z d) ->
  Rabs (fl_area rnd64 ph p d - frustum_area (dist p d) (rad p) (rad d))
  <= 13 * u64 * frustum_area (dist p d) (rad p) (rad d).
Proof.
  intros ph Hph p d Pp Pd Rp Rd Fa Fb Hr Hx Hy Hz.
  apply (fl_area_error rnd64 ph u64 tiny64 bt300); try fl_side;
    try (apply in_range300_okd; assumption); try (apply in_range300_nz; assumption);
    try (apply rnd64_id; assumption).
Qed.

Definition volume_is_fl (g : geom_table) : Prop :=
  forall rnd ph p d, coincideb p d = false ->
    run (RndA rnd ph) false (g_volume g) (env_seg p d) = Val (fl_volume rnd ph p d).
Definition area_is_fl (g : geom_table) : Prop :=
  forall rnd ph p d, coincideb p d = false ->
    run (RndA rnd ph) false (g_area g) (env_seg p d) = Val (fl_area rnd ph p d).

Theorem table_volume_error : forall g, volume_is_fl g ->
  forall ph, powhalf_accurate ph -> forall p d : pt R, ~ coincide p d ->
  0 <= p_d p -> 0 <= p_d d -> in_range300 (p_d p) -> in_range300 (p_d d) ->
  in_range300 (p_x p - p_x d) -> in_range300 (p_y p - p_y d) -> in_range300 (p_z p - p_z d) ->
  exists Vf, run (RndA rnd64 ph) false (g_volume g) (env_seg p d) = Val Vf
             /\ Rabs (Vf - frustum_volume (dist p d) (rad p) (rad d)) <= 16 * u64 * frustum_volume (dist p d) (rad p) (rad d).
Proof.
  intros g HV ph Hph p d Hc Pp Pd Rp Rd Hx Hy Hz. exists (fl_volume rnd64 ph p d). split.
  - apply HV. apply coincideb_false. assumption.
  - apply volume_error_binary64; assumption.
Qed.

Theorem table_area_error : forall g, area_is_fl g ->
  forall ph, powhalf_accurate ph -> forall p d : pt R, ~ coincide p d ->
  0 <= p_d p -> 0 <= p_d d -> in_range300 (p_d p) -> in_range300 (p_d d) ->
  is_binary64 (p_d p / 2) -> is_binary64 (p_d d / 2) -> in_range300 (p_d p / 2 - p_d d / 2) ->
  in_range300 (p_x p - p_x d) -> in_range300 (p_y p - p_y d) -> in_range300 (p_z p - p_z d) ->
  exists Af, run (RndA rnd64 ph) false (g_area g) (env_seg p d) = Val Af
             /\ Rabs (Af - frustum_area (dist p d) (rad p) (rad d)) <= 13 * u64 * frustum_area (dist p d) (rad p) (rad d).
Proof.
  intros g HA ph Hph p d Hc Pp Pd Rp Rd Fa Fb Hr Hx Hy Hz. exists (fl_area rnd64 ph p d). split.
  - apply HA. apply coincideb_false. assumption.
  - apply area_error_binary64; assumption.
Qed.

Example binary64_example : is_binary64 (3 / 2) /\ is_binary64 0.
Proof.
  split; [| apply generic_format_0].
  replace (3 / 2) with (F2R (Float radix2 3 (-1))) by (unfold F2R; simpl; lra).
  apply generic_format_F2R. intros _. unfold cexp, FLT_exp.
  assert (M : (mag radix2 (F2R (Float radix2 3 (-1))) <= 1)%Z).
  { apply mag_le_bpow; [unfold F2R; simpl; lra |]. unfold F2R. simpl. rewrite Rabs_pos_eq by lra. lra. }
  simpl Fexp. lia.
Qed.
