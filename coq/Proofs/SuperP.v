(* Proofs about Model/Super.v, part 1: add() (property C10).  Everything is generic over the table sets, the
   parent, the child, the hint, the flags, the validator, setup_nml_cell and the order of _get_members. *)
From Coq Require Import String List ZArith Bool Lia Permutation.
From LNML Require Import Lib.Dec Model.Gds Model.Super.
Import ListNotations.
Open Scope string_scope.

(* ------------------------------------------------------------------ small list facts *)
Lemma find_some_in {A} (f : A -> bool) l x : find f l = Some x -> In x l /\ f x = true.
Proof.
  induction l as [|a r IH]; simpl; [discriminate|].
  destruct (f a) eqn:E; intro H.
  - inversion H; subst. auto.
  - destruct (IH H). auto.
Qed.

Lemma find_none_all {A} (f : A -> bool) l : find f l = None <-> (forall x, In x l -> f x = false).
Proof.
  induction l as [|a r IH]; simpl.
  - split; [intros _ x []|reflexivity].
  - destruct (f a) eqn:E.
    + split; [discriminate|]. intro H. rewrite (H a (or_introl eq_refl)) in E. discriminate.
    + rewrite IH. split.
      * intros H x [->|Hx]; auto.
      * intros H x Hx. auto.
Qed.

Lemma perm_filter {A} (f : A -> bool) l l' : Permutation l l' -> Permutation (filter f l) (filter f l').
Proof.
  induction 1; simpl.
  - constructor.
  - destruct (f x); [constructor|]; assumption.
  - destruct (f x), (f y); try apply Permutation_refl. apply perm_swap.
  - eapply Permutation_trans; eassumption.
Qed.

Lemma filter_in_iff {A} (f : A -> bool) l x : In x (filter f l) <-> In x l /\ f x = true.
Proof. apply filter_In. Qed.

Section SuperP.
Variable F : Type.
Variable F_eqb : F -> F -> bool.
Variable F_of_dec : dec -> F.
Notation value := (value F).
Notation obj := (obj F).
Notation o_cls := (o_cls F).
Notation o_fields := (o_fields F).
Variable validate_ok : obj -> bool.
Variable setup_nml_cell : obj -> obj.
Variable str_ok : obj -> bool.

Notation store := (store F F_eqb F_of_dec str_ok).
Notation place := (place F F_eqb F_of_dec str_ok).
Notation add_with := (add_with F F_eqb F_of_dec validate_ok setup_nml_cell str_ok).
Notation factory_with := (component_factory_with F F_of_dec validate_ok setup_nml_cell).
Notation add_step := (add_step F F_eqb F_of_dec validate_ok setup_nml_cell str_ok).
Notation run_adds := (run_adds F F_eqb F_of_dec validate_ok setup_nml_cell str_ok).
Notation with_field := (with_field F).
Notation py_truthy := (py_truthy F F_eqb F_of_dec).
Notation obj_eqb := (obj_eqb F F_eqb F_of_dec).

Definition field (p : obj) (m : string) : option value := lookup m (o_fields p).

(* ------------------------------------------------------------------ fields *)
Lemma lk_set_same k (v : value) l : lookup k (set_field F k v l) = Some v.
Proof.
  induction l as [|[k' v'] r IH]; simpl.
  - rewrite String.eqb_refl. reflexivity.
  - destruct (String.eqb k' k) eqn:E; simpl.
    + rewrite String.eqb_refl. reflexivity.
    + rewrite E. exact IH.
Qed.

Lemma lk_set_other k k' (v : value) l : k' <> k -> lookup k' (set_field F k v l) = lookup k' l.
Proof.
  intro Hne. induction l as [|[k2 v2] r IH]; simpl.
  - destruct (String.eqb k k') eqn:E; [apply String.eqb_eq in E; congruence|reflexivity].
  - destruct (String.eqb k2 k) eqn:E; simpl.
    + apply String.eqb_eq in E. subst k2.
      destruct (String.eqb k k') eqn:E2; [apply String.eqb_eq in E2; congruence|reflexivity].
    + destruct (String.eqb k2 k'); [reflexivity|exact IH].
Qed.

Lemma field_with_same p n v : field (with_field p n v) n = Some v.
Proof. unfold field, Super.with_field. simpl. apply lk_set_same. Qed.

Lemma field_with_other p n v m : m <> n -> field (with_field p n v) m = field p m.
Proof. intro H. unfold field, Super.with_field. simpl. apply lk_set_other. exact H. Qed.

Lemma cls_with p n v : o_cls (with_field p n v) = o_cls p.
Proof. reflexivity. Qed.

(* ------------------------------------------------------------------ __add *)
(* what a successful __add can have done *)
Inductive stored_as (p o : obj) (t : mspec) : obj -> Prop :=
| st_unchanged : stored_as p o t p
| st_single : ms_container t = false -> stored_as p o t (with_field p (ms_name t) (VObj o))
| st_list l : ms_container t = true -> field p (ms_name t) = Some (VObjs l) ->
              stored_as p o t (with_field p (ms_name t) (VObjs (l ++ [o])%list)).

Lemma store_shape p o t force p' w : store p o t force = (Ret p', w) -> stored_as p o t p'.
Proof.
  unfold Super.store. destruct (ms_container t) eqn:C; simpl.
  - destruct (lookup (ms_name t) (o_fields p)) as [v|] eqn:L; [|discriminate].
    destruct v; try discriminate.
    destruct force.
    + intro H; inversion H; subst. apply st_list; assumption.
    + destruct (existsb _ l); [destruct (str_ok o); [|discriminate]|]; intro H; inversion H; subst;
        [apply st_unchanged|apply st_list; assumption].
  - destruct force.
    + intro H; inversion H; subst. apply st_single; assumption.
    + destruct (lookup (ms_name t) (o_fields p)) as [v|]; [|discriminate].
      destruct (py_truthy v); intro H; inversion H; subst; [apply st_unchanged|apply st_single; assumption].
Qed.

Lemma stored_as_frame p o t p' : stored_as p o t p' ->
  o_cls p' = o_cls p /\ forall m, m <> ms_name t -> field p' m = field p m.
Proof.
  destruct 1; split; try reflexivity; intros m Hm; try reflexivity; apply field_with_other; exact Hm.
Qed.

(* single-valued member: stored iff forced or the slot is empty (falsy) *)
Lemma store_single_free p o t force v :
  ms_container t = false -> field p (ms_name t) = Some v -> (force = true \/ py_truthy v = false) ->
  store p o t force = (Ret (with_field p (ms_name t) (VObj o)), []).
Proof.
  intros C L H. unfold Super.store. rewrite C. simpl. destruct force; [reflexivity|].
  unfold field in L. rewrite L. destruct H as [H|H]; [discriminate|]. rewrite H. reflexivity.
Qed.

Lemma store_single_occupied p o t v :
  ms_container t = false -> field p (ms_name t) = Some v -> py_truthy v = true ->
  store p o t false = (Ret p, [WOccupied (ms_name t)]).
Proof.
  intros C L H. unfold Super.store. rewrite C. simpl. unfold field in L. rewrite L, H. reflexivity.
Qed.

Lemma store_list_new p o t force l :
  ms_container t = true -> field p (ms_name t) = Some (VObjs l) -> (force = true \/ existsb (obj_eqb o) l = false) ->
  store p o t force = (Ret (with_field p (ms_name t) (VObjs (l ++ [o])%list)), []).
Proof.
  intros C L H. unfold Super.store. rewrite C. simpl. unfold field in L. rewrite L.
  destruct force; [reflexivity|]. destruct H as [H|H]; [discriminate|]. rewrite H. reflexivity.
Qed.

Lemma store_list_dup p o t l :
  ms_container t = true -> field p (ms_name t) = Some (VObjs l) -> existsb (obj_eqb o) l = true ->
  store p o t false = if str_ok o then (Ret p, [WDuplicate (ms_name t)]) else (Err ExStr, []).
Proof.
  intros C L H. unfold Super.store. rewrite C. simpl. unfold field in L. rewrite L, H. reflexivity.
Qed.

(* ------------------------------------------------------------------ target choice *)
Lemma targets_spec ms c t : In t (targets_of ms c) <-> In t ms /\ get_data_type t = c.
Proof.
  unfold targets_of. rewrite filter_In. rewrite String.eqb_eq. reflexivity.
Qed.

Lemma chosen_in tg hint t : chosen tg hint = Some t -> In t tg.
Proof.
  unfold chosen. destruct tg as [|a [|b r]]; [discriminate| |].
  - intro H; inversion H; subst. left; reflexivity.
  - destruct (falsy_hint hint); [discriminate|]. intro H. apply find_some_in in H. tauto.
Qed.

(* several candidates: the chosen one is the one the hint names *)
Lemma chosen_hint tg hint t : (2 <= length tg)%nat -> chosen tg hint = Some t -> hint = Some (ms_name t) /\ ms_name t <> "".
Proof.
  intro HL. destruct tg as [|a [|b r]]; [simpl in HL; lia|simpl in HL; lia|]. clear HL.
  unfold chosen, falsy_hint, hint_str. destruct hint as [h|]; [|discriminate].
  destruct (String.eqb h "") eqn:E; [discriminate|]. intro H.
  apply find_some_in in H. destruct H as [_ H]. apply String.eqb_eq in H. subst h. split; [reflexivity|].
  intro H0. rewrite H0 in E. discriminate.
Qed.

Lemma chosen_unique tg hint t : tg = [t] -> chosen tg hint = Some t.
Proof. intros ->. reflexivity. Qed.

Lemma chosen_none_cases tg hint : chosen tg hint = None ->
  tg = [] \/ ((2 <= length tg)%nat /\ (falsy_hint hint = true \/ forall t, In t tg -> ms_name t <> hint_str hint)).
Proof.
  unfold chosen. destruct tg as [|a [|b r]]; [left; reflexivity|discriminate|].
  intro H. right. split; [simpl; lia|].
  destruct (falsy_hint hint); [left; reflexivity|right].
  intros t Ht E. pose proof (proj1 (find_none_all _ _) H t Ht) as H1. simpl in H1.
  rewrite E, String.eqb_refl in H1. discriminate.
Qed.

Lemma place_chosen fixed tg p o hint force t :
  chosen tg hint = Some t -> place fixed tg p o hint force = store p o t force.
Proof.
  unfold chosen, Super.place. destruct tg as [|a [|b r]]; [discriminate| |].
  - intro H; inversion H; reflexivity.
  - destruct (falsy_hint hint); [discriminate|]. intro H. rewrite H. reflexivity.
Qed.

Lemma place_not_chosen fixed tg p o hint force :
  chosen tg hint = None ->
  (exists e, place fixed tg p o hint force = (Err e, []) /\ e <> ExValidation)
  \/ (fixed = false /\ place fixed tg p o hint force = (Ret p, [])).
Proof.
  unfold chosen, Super.place. destruct tg as [|a [|b r]]; [|discriminate|].
  - intros _. left. eexists; split; [reflexivity|discriminate].
  - destruct (falsy_hint hint).
    + intros _. left. eexists; split; [reflexivity|discriminate].
    + intro H. rewrite H. destruct fixed.
      * left. eexists; split; [reflexivity|discriminate].
      * right. split; reflexivity.
Qed.

(* the choice does not depend on the order in which _get_members lists the members *)
Lemma find_by_name_unique (tg : list mspec) h t :
  NoDup (map ms_name tg) -> In t tg -> ms_name t = h ->
  find (fun x => String.eqb h (ms_name x)) tg = Some t.
Proof.
  induction tg as [|a r IH]; simpl; [intros _ []|].
  intros Hnd Hin Hn. inversion Hnd as [|? ? Hnotin Hnd']; subst.
  destruct Hin as [->|Hin].
  - rewrite String.eqb_refl. reflexivity.
  - destruct (String.eqb (ms_name t) (ms_name a)) eqn:E.
    + apply String.eqb_eq in E. exfalso. apply Hnotin. rewrite <- E. apply in_map. exact Hin.
    + apply IH; auto.
Qed.

Lemma chosen_by_hint tg t :
  (2 <= length tg)%nat -> NoDup (map ms_name tg) -> In t tg -> ms_name t <> "" ->
  chosen tg (Some (ms_name t)) = Some t.
Proof.
  intros HL Hnd Hin Hne. destruct tg as [|a [|b r]]; [simpl in HL; lia|simpl in HL; lia|].
  unfold chosen, falsy_hint, hint_str.
  destruct (String.eqb (ms_name t) "") eqn:E; [apply String.eqb_eq in E; congruence|].
  apply find_by_name_unique; auto.
Qed.

Lemma chosen_perm tg tg' hint :
  Permutation tg tg' -> NoDup (map ms_name tg) -> chosen tg' hint = chosen tg hint.
Proof.
  intros HP Hnd.
  assert (Hnd' : NoDup (map ms_name tg')) by (eapply Permutation_NoDup; [apply Permutation_map; exact HP|exact Hnd]).
  pose proof (Permutation_length HP) as HL.
  destruct tg as [|a [|b r]].
  - apply Permutation_nil in HP. subst. reflexivity.
  - apply Permutation_length_1_inv in HP. subst. reflexivity.
  - destruct tg' as [|a' [|b' r']]; try (simpl in HL; lia).
    unfold chosen. destruct (falsy_hint hint); [reflexivity|].
    destruct (find (fun t => String.eqb (hint_str hint) (ms_name t)) (a :: b :: r)) as [t|] eqn:E.
    + apply find_some_in in E. destruct E as [Hin Hn]. apply String.eqb_eq in Hn.
      apply find_by_name_unique; auto. eapply Permutation_in; eassumption.
    + apply find_none_all. intros x Hx. apply (proj1 (find_none_all _ _) E).
      eapply Permutation_in; [apply Permutation_sym; exact HP|exact Hx].
Qed.

Lemma targets_perm ms ms' c : Permutation ms ms' -> Permutation (targets_of ms c) (targets_of ms' c).
Proof. apply perm_filter. Qed.

(* ------------------------------------------------------------------ add(component) *)
Section AddObj.
Variable fixed : bool.
Variable msf : string -> list mspec.
Variable T : tables.
Variable enabled : bool.

Definition tgs (p o : obj) : list mspec := targets_of (msf (o_cls p)) (o_cls o).

Lemma add_obj_unfold p o hint force validate :
  add_with fixed msf T enabled p (ChObj F o) hint force validate =
  match place fixed (tgs p o) p o hint force with
  | (Err e, w1) => {| ao_parent := p; ao_res := Err e; ao_warn := w1 |}
  | (Ret p', w1) =>
    if enabled && validate then
      if validate_ok p' then {| ao_parent := p'; ao_res := Ret (Some o); ao_warn := w1 |}
      else {| ao_parent := p'; ao_res := Err ExValidation; ao_warn := w1 |}
    else {| ao_parent := p'; ao_res := Ret (Some o); ao_warn := (w1 ++ [WDisabled])%list |}
  end.
Proof. reflexivity. Qed.

(* no member of the child's type: raises, parent unchanged *)
Lemma add_none p o hint force validate :
  tgs p o = [] ->
  let r := add_with fixed msf T enabled p (ChObj F o) hint force validate in
  ao_res F r = Err (ExNoMember (o_cls o) (o_cls p)) /\ ao_parent F r = p /\ ao_warn F r = [].
Proof. intro H. rewrite add_obj_unfold. rewrite H. simpl. auto. Qed.

(* several candidates, no hint: raises, parent unchanged *)
Lemma add_ambiguous p o hint force validate :
  (2 <= length (tgs p o))%nat -> falsy_hint hint = true ->
  let r := add_with fixed msf T enabled p (ChObj F o) hint force validate in
  ao_res F r = Err (ExAmbiguous (map ms_name (tgs p o))) /\ ao_parent F r = p.
Proof.
  intros HL Hh. rewrite add_obj_unfold. unfold Super.place.
  destruct (tgs p o) as [|a [|b r]]; simpl in HL; try lia. rewrite Hh. simpl. auto.
Qed.

(* every exception other than a failed validation leaves the parent as it was *)
Lemma add_err_unchanged p child hint force validate e :
  let r := add_with fixed msf T enabled p child hint force validate in
  ao_res F r = Err e -> e <> ExValidation -> ao_parent F r = p.
Proof.
  unfold Super.add_with. destruct child as [|o|c kw]; simpl.
  - discriminate.
  - destruct (place fixed _ p o hint force) as [[p'|e'] w1]; simpl; [|reflexivity].
    destruct (enabled && validate); [destruct (validate_ok p')|]; simpl; try discriminate.
    intros H1 H2. inversion H1. congruence.
  - destruct (factory_with (msf c) T enabled validate c kw) as [[o|e0] w0]; simpl; [|reflexivity].
    destruct (place fixed _ p o hint force) as [[p'|e'] w1]; simpl; [|reflexivity].
    destruct (enabled && validate); [destruct (validate_ok p')|]; simpl; try discriminate.
    intros H1 H2. inversion H1. congruence.
Qed.

(* the shape of every add: the parent is unchanged, or exactly one member that is declared with the child's class
   received the child *)
Definition made (child : child_arg F) (validate : bool) (o : obj) : Prop :=
  match child with
  | ChFalsy _ => False
  | ChObj _ x => x = o
  | ChCls _ c kw => exists w, factory_with (msf c) T enabled validate c kw = (Ret o, w)
  end.

Lemma add_shape p child hint force validate :
  let r := add_with fixed msf T enabled p child hint force validate in
  ao_parent F r = p \/
  exists o t, made child validate o /\ chosen (tgs p o) hint = Some t /\ stored_as p o t (ao_parent F r).
Proof.
  unfold Super.add_with. destruct child as [|o|c kw]; simpl.
  - left; reflexivity.
  - fold (tgs p o). destruct (chosen (tgs p o) hint) as [t|] eqn:Ech.
    + rewrite (place_chosen fixed _ p o hint force t Ech).
      destruct (store p o t force) as [[p'|e'] w1] eqn:Es; simpl; [|left; reflexivity].
      right. exists o, t. split; [reflexivity|]. split; [exact Ech|].
      apply store_shape in Es.
      destruct (enabled && validate); [destruct (validate_ok p')|]; simpl; exact Es.
    + destruct (place_not_chosen fixed _ p o hint force Ech) as [[e [-> _]]|[_ ->]]; simpl; [left; reflexivity|].
      destruct (enabled && validate); [destruct (validate_ok p)|]; simpl; left; reflexivity.
  - destruct (factory_with (msf c) T enabled validate c kw) as [[o|e0] w0] eqn:Ef; simpl; [|left; reflexivity].
    fold (tgs p o). destruct (chosen (tgs p o) hint) as [t|] eqn:Ech.
    + rewrite (place_chosen fixed _ p o hint force t Ech).
      destruct (store p o t force) as [[p'|e'] w1] eqn:Es; simpl; [|left; reflexivity].
      right. exists o, t. split; [exists w0; reflexivity|]. split; [exact Ech|].
      apply store_shape in Es.
      destruct (enabled && validate); [destruct (validate_ok p')|]; simpl; exact Es.
    + destruct (place_not_chosen fixed _ p o hint force Ech) as [[e [-> _]]|[_ ->]]; simpl; [left; reflexivity|].
      destruct (enabled && validate); [destruct (validate_ok p)|]; simpl; left; reflexivity.
Qed.

(* the class of the parent never changes *)
Lemma add_keeps_class p child hint force validate :
  o_cls (ao_parent F (add_with fixed msf T enabled p child hint force validate)) = o_cls p.
Proof.
  destruct (add_shape p child hint force validate) as [H|[o [t [_ [_ H]]]]].
  - rewrite H. reflexivity.
  - apply stored_as_frame in H. tauto.
Qed.

(* frame: any member other than the chosen one keeps its value (whatever the outcome) *)
Lemma add_frame p o hint force validate m :
  (forall t, chosen (tgs p o) hint = Some t -> ms_name t <> m) ->
  field (ao_parent F (add_with fixed msf T enabled p (ChObj F o) hint force validate)) m = field p m.
Proof.
  intro Hm. destruct (add_shape p (ChObj F o) hint force validate) as [H|[o' [t [Hmade [Hch H]]]]].
  - rewrite H. reflexivity.
  - simpl in Hmade. subst o'. apply stored_as_frame in H. destruct H as [_ H]. apply H.
    intro E. apply (Hm t Hch). symmetry. exact E.
Qed.

(* the chosen member is declared with exactly the child's class, and is a member of the parent's class *)
Lemma chosen_typed p o hint t :
  chosen (tgs p o) hint = Some t -> In t (msf (o_cls p)) /\ get_data_type t = o_cls o.
Proof. intro H. apply chosen_in in H. apply targets_spec in H. exact H. Qed.

(* positive outcomes, through the chosen member *)
Lemma add_chosen_unfold p o hint force validate t :
  chosen (tgs p o) hint = Some t ->
  add_with fixed msf T enabled p (ChObj F o) hint force validate =
  match store p o t force with
  | (Err e, w1) => {| ao_parent := p; ao_res := Err e; ao_warn := w1 |}
  | (Ret p', w1) =>
    if enabled && validate then
      if validate_ok p' then {| ao_parent := p'; ao_res := Ret (Some o); ao_warn := w1 |}
      else {| ao_parent := p'; ao_res := Err ExValidation; ao_warn := w1 |}
    else {| ao_parent := p'; ao_res := Ret (Some o); ao_warn := (w1 ++ [WDisabled])%list |}
  end.
Proof. intro H. rewrite add_obj_unfold. rewrite (place_chosen fixed _ p o hint force t H). reflexivity. Qed.

(* single-valued member, free or forced: afterwards it holds the child *)
Lemma add_stores_single p o hint force validate t v :
  chosen (tgs p o) hint = Some t -> ms_container t = false -> field p (ms_name t) = Some v ->
  (force = true \/ py_truthy v = false) ->
  let r := add_with fixed msf T enabled p (ChObj F o) hint force validate in
  field (ao_parent F r) (ms_name t) = Some (VObj o) /\
  (ao_res F r = Ret (Some o) \/ (ao_res F r = Err ExValidation /\ enabled && validate = true)).
Proof.
  intros Hch C L Hf. rewrite (add_chosen_unfold p o hint force validate t Hch).
  rewrite (store_single_free p o t force v C L Hf).
  destruct (enabled && validate); [destruct (validate_ok _)|]; simpl; split; auto using field_with_same.
Qed.

(* list member, new or forced: the child is appended at the end *)
Lemma add_stores_list p o hint force validate t l :
  chosen (tgs p o) hint = Some t -> ms_container t = true -> field p (ms_name t) = Some (VObjs l) ->
  (force = true \/ existsb (obj_eqb o) l = false) ->
  let r := add_with fixed msf T enabled p (ChObj F o) hint force validate in
  field (ao_parent F r) (ms_name t) = Some (VObjs (l ++ [o])%list) /\
  (ao_res F r = Ret (Some o) \/ (ao_res F r = Err ExValidation /\ enabled && validate = true)).
Proof.
  intros Hch C L Hf. rewrite (add_chosen_unfold p o hint force validate t Hch).
  rewrite (store_list_new p o t force l C L Hf).
  destruct (enabled && validate); [destruct (validate_ok _)|]; simpl; split; auto using field_with_same.
Qed.

(* refused with a warning unless forced *)
Lemma add_dup_refused p o hint validate t l :
  chosen (tgs p o) hint = Some t -> ms_container t = true -> field p (ms_name t) = Some (VObjs l) ->
  existsb (obj_eqb o) l = true ->
  let r := add_with fixed msf T enabled p (ChObj F o) hint false validate in
  ao_parent F r = p /\
  (if str_ok o then In (WDuplicate (ms_name t)) (ao_warn F r) else ao_res F r = Err ExStr).
Proof.
  intros Hch C L Hd. rewrite (add_chosen_unfold p o hint false validate t Hch).
  rewrite (store_list_dup p o t l C L Hd). destruct (str_ok o); [|simpl; auto].
  destruct (enabled && validate); [destruct (validate_ok _)|]; simpl; auto.
Qed.

Lemma add_occupied_refused p o hint validate t v :
  chosen (tgs p o) hint = Some t -> ms_container t = false -> field p (ms_name t) = Some v ->
  py_truthy v = true ->
  let r := add_with fixed msf T enabled p (ChObj F o) hint false validate in
  ao_parent F r = p /\ In (WOccupied (ms_name t)) (ao_warn F r).
Proof.
  intros Hch C L Hd. rewrite (add_chosen_unfold p o hint false validate t Hch).
  rewrite (store_single_occupied p o t v C L Hd).
  destruct (enabled && validate); [destruct (validate_ok _)|]; simpl; auto.
Qed.

(* the call returns the component it was given *)
Lemma add_returns p o hint force validate x :
  ao_res F (add_with fixed msf T enabled p (ChObj F o) hint force validate) = Ret (Some x) -> x = o.
Proof.
  rewrite add_obj_unfold. destruct (place fixed _ p o hint force) as [[p'|e'] w1]; simpl; [|discriminate].
  destruct (enabled && validate); [destruct (validate_ok p')|]; simpl; try discriminate; intro H; inversion H; reflexivity.
Qed.

(* add(class / class name, **kwargs) is the factory followed by add(component) *)
Lemma add_cls_ok p c kw hint force validate o w0 :
  factory_with (msf c) T enabled validate c kw = (Ret o, w0) ->
  let r := add_with fixed msf T enabled p (ChCls F c kw) hint force validate in
  let r' := add_with fixed msf T enabled p (ChObj F o) hint force validate in
  ao_parent F r = ao_parent F r' /\ ao_res F r = ao_res F r' /\ ao_warn F r = (w0 ++ ao_warn F r')%list.
Proof.
  intro Hf. unfold Super.add_with. rewrite Hf. simpl.
  destruct (place fixed _ p o hint force) as [[p'|e'] w1]; simpl; [|auto].
  destruct (enabled && validate); [destruct (validate_ok p')|]; simpl; auto.
Qed.

Lemma add_cls_err p c kw hint force validate e w0 :
  factory_with (msf c) T enabled validate c kw = (Err e, w0) ->
  add_with fixed msf T enabled p (ChCls F c kw) hint force validate = {| ao_parent := p; ao_res := Err e; ao_warn := w0 |}.
Proof. intro Hf. unfold Super.add_with. rewrite Hf. reflexivity. Qed.

(* ------------------------------------------------------------------ histories *)
Lemma run_adds_app p h1 h2 : run_adds fixed msf T enabled p (h1 ++ h2) = run_adds fixed msf T enabled (run_adds fixed msf T enabled p h1) h2.
Proof. unfold Super.run_adds. apply fold_left_app. Qed.

Lemma hist_keeps_class h : forall p, o_cls (run_adds fixed msf T enabled p h) = o_cls p.
Proof.
  induction h as [|a r IH]; intro p; simpl; [reflexivity|].
  unfold Super.run_adds in *. simpl. rewrite IH. unfold Super.add_step. apply add_keeps_class.
Qed.

(* a field that is not a member named by any MemberSpec of the parent's class is never touched, by any history *)
Lemma hist_frame_nonmember h : forall p m,
  (forall t, In t (msf (o_cls p)) -> ms_name t <> m) ->
  field (run_adds fixed msf T enabled p h) m = field p m.
Proof.
  induction h as [|a r IH]; intros p m Hm; [reflexivity|].
  unfold Super.run_adds in *. simpl.
  set (p1 := add_step fixed msf T enabled p a).
  assert (Hc : o_cls p1 = o_cls p) by apply add_keeps_class.
  rewrite IH; [|rewrite Hc; exact Hm].
  unfold p1, Super.add_step.
  destruct (add_shape p (ac_child F a) (ac_hint F a) (ac_force F a) (ac_validate F a)) as [H|[o [t [_ [Hch H]]]]].
  - rewrite H. reflexivity.
  - apply stored_as_frame in H. destruct H as [_ H]. apply H. intro E. subst m.
    apply chosen_typed in Hch. destruct Hch as [Hin _]. exact (Hm t Hin eq_refl).
Qed.

(* slots are typed: every component found under a member has the class the member is declared with *)
Definition slot_typed (ms : list mspec) (p : obj) : Prop :=
  forall t, In t ms ->
    (forall x, field p (ms_name t) = Some (VObj x) -> o_cls x = get_data_type t) /\
    (forall l x, field p (ms_name t) = Some (VObjs l) -> In x l -> o_cls x = get_data_type t).

(* member specs sharing a name declare the same class (true when names are unique) *)
Definition names_functional (ms : list mspec) : Prop :=
  forall a b, In a ms -> In b ms -> ms_name a = ms_name b -> get_data_type a = get_data_type b.

Lemma stored_keeps_typed ms p o t p' :
  names_functional ms -> In t ms -> get_data_type t = o_cls o ->
  slot_typed ms p -> stored_as p o t p' -> slot_typed ms p'.
Proof.
  intros Hnf Hin Hty Hs H. destruct H as [|C|l C L]; [exact Hs| |].
  - intros u Hu. destruct (string_dec (ms_name u) (ms_name t)) as [E|E].
    + rewrite E. rewrite field_with_same. split.
      * intros x Hx. inversion Hx; subst. rewrite <- Hty. symmetry. apply Hnf; auto.
      * intros l x Hx. discriminate.
    + rewrite (field_with_other p _ _ _ E). apply Hs. exact Hu.
  - intros u Hu. destruct (string_dec (ms_name u) (ms_name t)) as [E|E].
    + rewrite E. rewrite field_with_same. split.
      * intros x Hx. discriminate.
      * intros l' x Hx Hinx. inversion Hx; subst l'. apply in_app_or in Hinx. destruct Hinx as [Hinx|[<-|[]]].
        -- destruct (Hs u Hu) as [_ H2]. rewrite E in H2. exact (H2 l x L Hinx).
        -- rewrite <- Hty. symmetry. apply Hnf; auto.
    + rewrite (field_with_other p _ _ _ E). apply Hs. exact Hu.
Qed.

Lemma hist_keeps_typed h : forall p,
  names_functional (msf (o_cls p)) -> slot_typed (msf (o_cls p)) p ->
  slot_typed (msf (o_cls p)) (run_adds fixed msf T enabled p h).
Proof.
  induction h as [|a r IH]; intros p Hnf Hs; [exact Hs|].
  unfold Super.run_adds in *. simpl.
  set (p1 := add_step fixed msf T enabled p a).
  assert (Hc : o_cls p1 = o_cls p) by apply add_keeps_class.
  rewrite <- Hc. apply IH; rewrite Hc; [exact Hnf|].
  unfold p1, Super.add_step.
  destruct (add_shape p (ac_child F a) (ac_hint F a) (ac_force F a) (ac_validate F a)) as [H|[o [t [_ [Hch H]]]]].
  - rewrite H. exact Hs.
  - apply chosen_typed in Hch. destruct Hch as [Hin Hty].
    eapply stored_keeps_typed; eauto.
Qed.

(* list members only grow, at the end, whatever the history *)
Definition list_member (ms : list mspec) (m : string) : Prop :=
  forall t, In t ms -> ms_name t = m -> ms_container t = true.

Lemma hist_lists_grow h : forall p m l,
  list_member (msf (o_cls p)) m -> field p m = Some (VObjs l) ->
  exists l', field (run_adds fixed msf T enabled p h) m = Some (VObjs (l ++ l')%list).
Proof.
  induction h as [|a r IH]; intros p m l Hlm L.
  - exists []. rewrite app_nil_r. exact L.
  - unfold Super.run_adds in *. simpl.
    set (p1 := add_step fixed msf T enabled p a).
    assert (Hc : o_cls p1 = o_cls p) by apply add_keeps_class.
    assert (H1 : exists l1, field p1 m = Some (VObjs (l ++ l1)%list)).
    { unfold p1, Super.add_step.
      destruct (add_shape p (ac_child F a) (ac_hint F a) (ac_force F a) (ac_validate F a)) as [H|[o [t [_ [Hch H]]]]].
      - rewrite H. exists []. rewrite app_nil_r. exact L.
      - apply chosen_typed in Hch. destruct Hch as [Hin _].
        destruct H as [|C|l0 C L0].
        + exists []. rewrite app_nil_r. exact L.
        + destruct (string_dec m (ms_name t)) as [E|E].
          * rewrite (Hlm t Hin (eq_sym E)) in C. discriminate.
          * rewrite (field_with_other p _ _ _ E). exists []. rewrite app_nil_r. exact L.
        + destruct (string_dec m (ms_name t)) as [E|E].
          * subst m. rewrite field_with_same. rewrite L in L0. inversion L0; subst l0. exists [o]. reflexivity.
          * rewrite (field_with_other p _ _ _ E). exists []. rewrite app_nil_r. exact L. }
    destruct H1 as [l1 H1].
    destruct (IH p1 m (l ++ l1)%list) as [l2 H2]; [rewrite Hc; exact Hlm|exact H1|].
    exists (l1 ++ l2)%list. rewrite app_assoc. exact H2.
Qed.

End AddObj.

(* the defect and its repair: several candidates and a hint that names none of them *)
Lemma add_badhint_fixed msf T enabled p o hint force validate :
  (2 <= length (tgs msf p o))%nat -> falsy_hint hint = false ->
  (forall t, In t (tgs msf p o) -> ms_name t <> hint_str hint) ->
  let r := add_with true msf T enabled p (ChObj F o) hint force validate in
  ao_res F r = Err (ExBadHint (hint_str hint) (map ms_name (tgs msf p o))) /\ ao_parent F r = p.
Proof.
  intros HL Hh Hn. rewrite add_obj_unfold. unfold Super.place.
  destruct (tgs msf p o) as [|a [|b r]] eqn:E; simpl in HL; try lia. rewrite Hh.
  assert (Hf : find (fun t => String.eqb (hint_str hint) (ms_name t)) (a :: b :: r) = None).
  { apply find_none_all. intros x Hx. apply String.eqb_neq. intro E2. exact (Hn x Hx (eq_sym E2)). }
  rewrite Hf. simpl. auto.
Qed.

Lemma add_badhint_orig_silent msf T enabled p o hint force validate :
  (2 <= length (tgs msf p o))%nat -> falsy_hint hint = false ->
  (forall t, In t (tgs msf p o) -> ms_name t <> hint_str hint) ->
  (enabled && validate = false \/ validate_ok p = true) ->
  let r := add_with false msf T enabled p (ChObj F o) hint force validate in
  ao_res F r = Ret (Some o) /\ ao_parent F r = p.
Proof.
  intros HL Hh Hn Hv. rewrite add_obj_unfold. unfold Super.place.
  destruct (tgs msf p o) as [|a [|b r]] eqn:E; simpl in HL; try lia. rewrite Hh.
  assert (Hf : find (fun t => String.eqb (hint_str hint) (ms_name t)) (a :: b :: r) = None).
  { apply find_none_all. intros x Hx. apply String.eqb_neq. intro E2. exact (Hn x Hx (eq_sym E2)). }
  rewrite Hf. destruct Hv as [Hv|Hv]; rewrite Hv; [simpl; auto|].
  destruct (enabled && validate); simpl; auto.
Qed.

End SuperP.
