(* The concrete sorts of Model/Groups.v (stable insertion sort by the natsort key for group ids,
   numerically for segment ids) satisfy the two hypotheses the C14 theorems make about natsort:
   the result is a permutation, and sorting a sorted list changes nothing. *)
From Coq Require Import String List ZArith Bool Arith Lia Permutation Sorted Ascii NArith.
From LNML Require Import Model.Groups.
Import ListNotations.

Section ISortP.
  Context {A : Type}.
  Variable leb : A -> A -> bool.

  Lemma insert_perm : forall x l, Permutation (insert leb x l) (x :: l).
  Proof.
    intros x. induction l as [|y r IH]; simpl; [apply Permutation_refl|].
    destruct (leb y x).
    - eapply Permutation_trans; [apply perm_skip; exact IH | apply perm_swap].
    - apply Permutation_refl.
  Qed.

  Lemma fold_insert_perm : forall l acc,
    Permutation (fold_left (fun acc x => insert leb x acc) l acc) (l ++ acc).
  Proof.
    induction l as [|x l IH]; intros acc; simpl; [apply Permutation_refl|].
    eapply Permutation_trans; [apply IH|].
    eapply Permutation_trans; [apply Permutation_app_head; apply insert_perm|].
    apply Permutation_sym. apply Permutation_middle.
  Qed.

  Theorem isort_perm : forall l, Permutation (isort leb l) l.
  Proof. intros l. unfold isort. rewrite <- (app_nil_r l) at 2. apply fold_insert_perm. Qed.

  Hypothesis leb_total : forall x y, leb x y = false -> leb y x = true.
  Hypothesis leb_trans : forall x y z, leb x y = true -> leb y z = true -> leb x z = true.

  Let R := fun x y => leb x y = true.

  Lemma insert_in : forall x l y, In y (insert leb x l) <-> y = x \/ In y l.
  Proof.
    intros x l y. split; intro H.
    - apply (Permutation_in _ (insert_perm x l)) in H. destruct H; auto.
    - apply (Permutation_in _ (Permutation_sym (insert_perm x l))). destruct H; [left; auto | right; auto].
  Qed.

  Lemma insert_sorted : forall x l, StronglySorted R l -> StronglySorted R (insert leb x l).
  Proof.
    intros x. induction l as [|y r IH]; intros Hs; simpl.
    - constructor; constructor.
    - inversion Hs as [|y' r' Hr Hy]; subst. destruct (leb y x) eqn:E.
      + constructor; [apply IH; exact Hr|]. apply Forall_forall. intros z Hz.
        apply insert_in in Hz. destruct Hz as [Hz|Hz]; [subst; exact E|].
        rewrite Forall_forall in Hy. apply Hy. exact Hz.
      + constructor; [exact Hs|]. apply Forall_forall. intros z [Hz|Hz].
        * subst. apply leb_total. exact E.
        * rewrite Forall_forall in Hy. apply (leb_trans x y z); [apply leb_total; exact E | apply Hy; exact Hz].
  Qed.

  Lemma fold_insert_sorted : forall l acc, StronglySorted R acc ->
    StronglySorted R (fold_left (fun acc x => insert leb x acc) l acc).
  Proof. induction l as [|x l IH]; intros acc H; simpl; [exact H | apply IH, insert_sorted, H]. Qed.

  Lemma isort_sorted : forall l, StronglySorted R (isort leb l).
  Proof. intros. apply fold_insert_sorted. constructor. Qed.

  Lemma insert_last : forall x acc, (forall y, In y acc -> leb y x = true) -> insert leb x acc = (acc ++ [x])%list.
  Proof.
    intros x. induction acc as [|y r IH]; intros H; simpl; [reflexivity|].
    rewrite (H y (or_introl eq_refl)). rewrite IH; [reflexivity|]. intros z Hz. apply H. right. exact Hz.
  Qed.

  Lemma fold_insert_id : forall l acc, StronglySorted R l ->
    (forall y x, In y acc -> In x l -> leb y x = true) ->
    fold_left (fun acc x => insert leb x acc) l acc = (acc ++ l)%list.
  Proof.
    induction l as [|x l IH]; intros acc Hs Hle; simpl; [rewrite app_nil_r; reflexivity|].
    inversion Hs as [|x' l' Hl Hx]; subst.
    rewrite insert_last; [|intros y Hy; apply Hle; [exact Hy | left; reflexivity]].
    rewrite IH; [rewrite <- app_assoc; reflexivity | exact Hl |].
    intros y z Hy Hz. apply in_app_or in Hy. destruct Hy as [Hy|[Hy|[]]].
    - apply Hle; [exact Hy | right; exact Hz].
    - subst y. rewrite Forall_forall in Hx. apply Hx. exact Hz.
  Qed.

  Theorem isort_idem : forall l, isort leb (isort leb l) = isort leb l.
  Proof.
    intros l. unfold isort at 1. rewrite fold_insert_id; [reflexivity | apply isort_sorted |].
    intros y x [].
  Qed.
End ISortP.

(* ---- numeric order on segment ids ---- *)
Lemma isortZ_perm : forall l, Permutation (isortZ l) l.
Proof. intros. apply isort_perm. Qed.

Lemma isortZ_idem : forall l, isortZ (isortZ l) = isortZ l.
Proof.
  intros. apply isort_idem.
  - intros x y H. apply Z.leb_gt in H. apply Z.leb_le. lia.
  - intros x y z H1 H2. apply Z.leb_le in H1, H2. apply Z.leb_le. lia.
Qed.

(* ---- the natsort key order on group ids ---- *)
(* a comparison function that is antisymmetric, separates, and whose Lt is transitive *)
Record good_cmp {A : Type} (cmp : A -> A -> comparison) : Prop := {
  gc_antisym : forall a b, cmp a b = CompOpp (cmp b a);
  gc_eq : forall a b, cmp a b = Eq -> a = b;
  gc_trans : forall a b c, cmp a b = Lt -> cmp b c = Lt -> cmp a c = Lt
}.

Lemma good_refl : forall (A : Type) (cmp : A -> A -> comparison), good_cmp cmp -> forall a, cmp a a = Eq.
Proof.
  intros A cmp H a. pose proof (gc_antisym cmp H a a) as E. destruct (cmp a a); simpl in E; congruence.
Qed.

Lemma good_le_trans : forall (A : Type) (cmp : A -> A -> comparison), good_cmp cmp ->
  forall a b c, cmp a b <> Gt -> cmp b c <> Gt -> cmp a c <> Gt.
Proof.
  intros A cmp H a b c H1 H2.
  destruct (cmp a b) eqn:E1; [| |congruence].
  - apply (gc_eq cmp H) in E1. subst. exact H2.
  - destruct (cmp b c) eqn:E2; [| |congruence].
    + apply (gc_eq cmp H) in E2. subst. rewrite E1. discriminate.
    + rewrite (gc_trans cmp H a b c E1 E2). discriminate.
Qed.

Lemma N_good : good_cmp N.compare.
Proof.
  constructor.
  - intros. apply N.compare_antisym.
  - intros. apply N.compare_eq. assumption.
  - intros a b c H1 H2. apply N.compare_lt_iff in H1. apply N.compare_lt_iff in H2. apply N.compare_lt_iff. eapply N.lt_trans; eassumption.
Qed.

Lemma ascii_good : good_cmp Ascii.compare.
Proof.
  constructor.
  - intros. apply Ascii.compare_antisym.
  - intros. apply Ascii.compare_eq_iff. assumption.
  - intros a b c. unfold Ascii.compare. apply (gc_trans _ N_good).
Qed.

Lemma string_good : good_cmp String.compare.
Proof.
  constructor.
  - intros. apply String.compare_antisym.
  - intros. apply String.compare_eq_iff. assumption.
  - induction a as [|x a IH]; intros b c H1 H2; destruct b as [|y b]; destruct c as [|z c]; simpl in *;
      try discriminate; try reflexivity.
    destruct (Ascii.compare x y) eqn:E1; try discriminate.
    + apply (gc_eq _ ascii_good) in E1. subst y.
      destruct (Ascii.compare x z) eqn:E2; try discriminate; [|reflexivity]. eapply IH; eassumption.
    + destruct (Ascii.compare y z) eqn:E2; try discriminate.
      * apply (gc_eq _ ascii_good) in E2. subst z. rewrite E1. reflexivity.
      * rewrite (gc_trans _ ascii_good x y z E1 E2). reflexivity.
Qed.

Lemma tok_good : good_cmp tok_cmp.
Proof.
  constructor.
  - intros [x|x] [y|y]; simpl; try reflexivity; [apply String.compare_antisym | apply N.compare_antisym].
  - intros [x|x] [y|y] H; simpl in H; try discriminate.
    + apply String.compare_eq_iff in H. congruence.
    + apply N.compare_eq in H. congruence.
  - intros [x|x] [y|y] [z|z] H1 H2; simpl in *; try discriminate; try reflexivity.
    + eapply (gc_trans _ string_good); eassumption.
    + eapply (gc_trans _ N_good); eassumption.
Qed.

Lemma key_good : good_cmp key_cmp.
Proof.
  constructor.
  - induction a as [|x a IH]; intros [|y b]; simpl; try reflexivity.
    rewrite (gc_antisym _ tok_good x y). destruct (tok_cmp y x); simpl; try reflexivity. apply IH.
  - induction a as [|x a IH]; intros [|y b] H; simpl in H; try discriminate; [reflexivity|].
    destruct (tok_cmp x y) eqn:E; try discriminate.
    apply (gc_eq _ tok_good) in E. subst. f_equal. apply IH. exact H.
  - induction a as [|x a IH]; intros [|y b] [|z c] H1 H2; simpl in *; try discriminate; try reflexivity.
    destruct (tok_cmp x y) eqn:E1; try discriminate.
    + apply (gc_eq _ tok_good) in E1. subst y.
      destruct (tok_cmp x z) eqn:E2; try discriminate; [|reflexivity]. eapply IH; eassumption.
    + destruct (tok_cmp y z) eqn:E2; try discriminate.
      * apply (gc_eq _ tok_good) in E2. subst z. rewrite E1. reflexivity.
      * rewrite (gc_trans _ tok_good x y z E1 E2). reflexivity.
Qed.

Lemma natsortS_perm : forall l, Permutation (natsortS l) l.
Proof. intros. apply isort_perm. Qed.

Lemma natsortS_idem : forall l, natsortS (natsortS l) = natsortS l.
Proof.
  intros. apply isort_idem.
  - intros x y H. unfold nat_leb in *.
    rewrite (gc_antisym _ key_good (nat_key y) (nat_key x)).
    destruct (key_cmp (nat_key x) (nat_key y)); simpl; try discriminate; reflexivity.
  - intros x y z H1 H2. unfold nat_leb in *.
    pose proof (good_le_trans _ _ key_good (nat_key x) (nat_key y) (nat_key z)) as T.
    destruct (key_cmp (nat_key x) (nat_key z)); try reflexivity.
    exfalso. apply T; [destruct (key_cmp (nat_key x) (nat_key y)) | destruct (key_cmp (nat_key y) (nat_key z)) | reflexivity];
      congruence.
Qed.
