(* C15: the statements of the property assembled from BuilderP.v, the refusal of an id in use,
   refutations on the shipped methods (fx = false) and for a group id used with two segment types,
   and examples showing that the hypotheses are met by non-trivial sequences. *)
From Coq Require Import String List ZArith Bool Arith Lia Permutation.
From LNML Require Import Model.Groups Model.Builder Proofs.GroupsP Proofs.GroupsSortP Proofs.GroupsC14P
     Proofs.BuilderSegP Proofs.BuilderGroupP Proofs.BuilderOrderP Proofs.BuilderP.
Import ListNotations.
Open Scope string_scope.

(* ---------- the invariant, spelled out in terms of what the methods return ---------- *)
Definition resolves_exactly (c : cell) (a : string) (want : list Z) : Prop :=
  exists l, resolve (ids c) (default_fuel (groups c)) (groups c) a = Ret l /\ NoDup l /\
            forall m, In m l <-> In m want.

Definition WellFormed (c : cell) : Prop :=
  (* segment ids unique, every parent exists *)
  NoDup (ids c) /\
  (forall s p f, In s (segs c) -> spar s = Some (p, f) -> In p (ids c)) /\
  (* "all": every segment added under the convention - all segments when no group "all" exists *)
  (lookup (groups c) "all" <> None -> resolves_exactly c "all" (conv_ids c)) /\
  (lookup (groups c) "all" = None -> conv_ids c = [] /\ resolves_exactly c "all" (ids c)) /\
  (* soma_group / axon_group / dendrite_group: exactly the segments added with that type *)
  (forall t, lookup (groups c) (dname t) <> None -> resolves_exactly c (dname t) (tagged t c)) /\
  (forall t, lookup (groups c) (dname t) = None -> tagged t c = []) /\
  (* group ids unique, only default groups include, and they include only existing user groups *)
  GStruct (groups c).

Lemma resolves_exactly_intro : forall c a want,
  Inv c -> (In a (map gid (groups c)) \/ a = "all") ->
  (forall m, reach (ids c) (groups c) a m <-> In m want) -> resolves_exactly c a want.
Proof.
  intros c a want HI Ha Hiff. destruct HI as [[Hnd _] [HG _]].
  destruct (closure (ids c) (groups c) (default_fuel (groups c)) a (GStruct_acyclic _ HG) (GStruct_closed _ HG) Hnd)
    as [l [Hl [Hndl Hls]]]; [unfold default_fuel; lia | exact Ha|].
  exists l. split; [exact Hl|]. split; [exact Hndl|]. intros m. rewrite Hls. apply Hiff.
Qed.

Theorem Inv_WellFormed : forall c, Inv c -> WellFormed c.
Proof.
  intros c HI. pose proof HI as [[Hnd [Hp _]] [HG [_ Hco]]].
  split; [exact Hnd|]. split; [exact Hp|]. split; [|split; [|split; [|split]]].
  - intros Hl. apply resolves_exactly_intro; [exact HI | right; reflexivity|].
    intros m. rewrite conv_in. split.
    + intros Hr. destruct (reach_default_sound c "all" m HI eq_refl Hr Hl) as [s [Hs [Hsid R]]].
      exists s. split; [exact Hs|]. split; [exact Hsid|].
      destruct R as [[_ R]|[t' [R Ht]]]; [exact R | exfalso; exact (dname_not_all t' (eq_sym R))].
    + intros [s [Hs [Hsid Ht]]]. destruct (stag s) as [t|] eqn:Est; [|congruence].
      destruct (Hco s t Hs Est) as [_ A]. rewrite <- Hsid. apply preach_reach. exact A.
  - intros Hl. assert (Hc : conv_ids c = []).
    { destruct (conv_ids c) as [|m r] eqn:Ec; [reflexivity|]. exfalso.
      assert (Hm : In m (conv_ids c)) by (rewrite Ec; left; reflexivity).
      apply conv_in in Hm. destruct Hm as [s [Hs [_ Ht]]].
      destruct (stag s) as [t|] eqn:Est; [|congruence]. destruct (Hco s t Hs Est) as [_ A].
      apply preach_lookup in A. congruence. }
    split; [exact Hc|]. apply resolves_exactly_intro; [exact HI | right; reflexivity|].
    intros m. split.
    + intros Hr. inversion Hr as [a' g s' Hlg Hm Ea Es | a' g i s' Hlg Hi Hri Ea Es | s' Hlg Hs Ea Es]; subst; congruence.
    + intros Hm. apply reach_all; assumption.
  - intros t Hl. destruct (lookup (groups c) (dname t)) as [g|] eqn:El; [|congruence].
    apply resolves_exactly_intro; [exact HI | left; destruct (lookup_some _ _ _ El) as [Hin Hid]; apply in_map_iff; exists g; split; assumption|].
    intros m. rewrite tagged_in. split.
    + intros Hr. destruct (reach_default_sound c (dname t) m HI (dname_default t) Hr) as [s [Hs [Hsid R]]]; [congruence|].
      exists s. split; [exact Hs|]. split; [exact Hsid|].
      destruct R as [[R _]|[t' [R Ht]]]; [exfalso; exact (dname_not_all t R)|]. apply dname_inj in R. subst t'. exact Ht.
    + intros [s [Hs [Hsid Ht]]]. destruct (Hco s t Hs Ht) as [A _]. rewrite <- Hsid. apply preach_reach. exact A.
  - intros t Hl. destruct (tagged t c) as [|m r] eqn:Et; [reflexivity|]. exfalso.
    assert (Hm : In m (tagged t c)) by (rewrite Et; left; reflexivity).
    apply tagged_in in Hm. destruct Hm as [s [Hs [_ Ht]]]. destruct (Hco s t Hs Ht) as [A _].
    apply preach_lookup in A. congruence.
  - exact HG.
Qed.

(* every group is defined before any group that includes it (after the closing step) *)
Definition DefinedBeforeUse (G : list group) : Prop :=
  forall pre g post i, G = (pre ++ g :: post)%list -> In i (includes g) -> In i (map gid pre).

Lemma ordered_from_sound : forall G seen, ordered_from seen G = true ->
  forall pre g post i, G = (pre ++ g :: post)%list -> In i (includes g) -> In i seen \/ In i (map gid pre).
Proof.
  induction G as [|h G IH]; intros seen H pre g post i E Hi; [destruct pre; discriminate|].
  simpl in H. apply andb_true_iff in H. destruct H as [H1 H2].
  destruct pre as [|p pre]; simpl in E; inversion E; subst.
  - left. rewrite forallb_forall in H1. apply memS_iff. apply H1. exact Hi.
  - destruct (IH _ H2 pre g post i eq_refl Hi) as [[Hs|Hs]|Hs].
    + right. left. exact Hs.
    + left. exact Hs.
    + right. right. exact Hs.
Qed.

Lemma ordered_sound : forall G, ordered G = true -> DefinedBeforeUse G.
Proof.
  intros G H pre g post i E Hi. destruct (ordered_from_sound G [] H pre g post i E Hi) as [[]|Hs]. exact Hs.
Qed.

(* ---------- the theorem in readable form ---------- *)
Theorem builder_reach_meaning : forall factory ops c,
  run true ops (init_of factory) = BRet c -> run_ok true ops (init_of factory) = true ->
  exists c', finish c = BRet c' /\ WellFormed c' /\ DefinedBeforeUse (groups c') /\ wellformed c' = true.
Proof.
  intros factory ops c Hrun Hok.
  assert (HI0 : Inv (init_of factory)) by (destruct factory; [apply Inv_init_factory | apply Inv_init_bare]).
  destruct (finish_wellformed c (Inv_run ops _ _ HI0 Hok Hrun)) as [c' [H1 [H2 H3]]]. exists c'.
  split; [exact H1|]. split; [apply Inv_WellFormed; exact H2|]. split; [|exact H3].
  apply ordered_sound. unfold wellformed in H3. repeat (apply andb_true_iff in H3; destruct H3 as [H3 ?]). assumption.
Qed.

(* when every segment was added under the convention, "all" is every segment *)
Corollary all_is_everything : forall c, WellFormed c -> lookup (groups c) "all" <> None ->
  (forall s, In s (segs c) -> stag s <> None) -> resolves_exactly c "all" (ids c).
Proof.
  intros c [_ [_ [Ha _]]] Hl Hall. destruct (Ha Hl) as [l [H1 [H2 H3]]]. exists l. split; [exact H1|]. split; [exact H2|].
  intros m. rewrite H3. rewrite conv_in. unfold ids. rewrite in_map_iff. split.
  - intros [s [Hs [Hsid _]]]. exists s. split; assumption.
  - intros [s [Hsid Hs]]. exists s. split; [exact Hs|]. split; [exact Hsid | apply Hall; exact Hs].
Qed.

(* ---------- an explicit id that is in use is refused with ValueError, nothing else can happen ---------- *)
Theorem dup_id_refused : forall c prox z name parent frac group conv ty reord opt,
  In z (ids c) ->
  exists e, add_segment true c prox (Some z) name parent frac group conv ty reord opt = BErr e /\
            (e = BDupId \/ e = BNoParent \/ e = BValidation \/ e = BBadInput).
Proof.
  intros c prox z name parent frac group conv ty reord opt Hin. unfold add_segment.
  destruct (Nat.ltb 0 (length (segs c)) && match parent with None => true | Some _ => false end);
    [exists BNoParent; split; [reflexivity | auto]|].
  destruct (parent_of c parent frac) as [sp|e] eqn:Hp.
  - rewrite (explicit_id_in_use_refused c z Hin). exists BDupId. split; [reflexivity | auto].
  - exists e. split; [reflexivity|]. unfold parent_of in Hp. destruct parent as [k|]; [|discriminate].
    destruct (nth_error (segs c) k); [|inversion Hp; auto].
    destruct (Z.ltb frac 0 || Z.ltb 4 frac); [inversion Hp; auto | discriminate].
Qed.

(* an explicit id that is free is the id the segment gets - 0 included, whatever else is in the cell *)
Theorem free_id_honoured : forall c prox z name parent frac group conv ty reord opt c',
  add_segment true c prox (Some z) name parent frac group conv ty reord opt = BRet c' ->
  exists s, segs c' = (segs c ++ [s])%list /\ sid s = z.
Proof.
  intros c prox z name parent frac group conv ty reord opt c' H.
  destruct (add_segment_shape _ _ _ _ _ _ _ _ _ _ _ _ H) as [i [sp [nm [tag [Hf [_ [_ [Hi Hr]]]]]]]].
  assert (E : i = z).
  { unfold choose_id in Hi. destruct (memZ z (ids c)); [discriminate | inversion Hi; reflexivity]. }
  exists (mkSeg i sp prox nm tag (opt_group group)). split; [|exact E].
  destruct opt; [destruct (optimise_shape _ _ Hr) as [E2 _]; exact E2 | simpl in Hr; rewrite Hr; reflexivity].
Qed.

(* the id given to a new segment is never one already in the cell *)
Theorem new_id_is_new : forall c prox seg_id name parent frac group conv ty reord opt c',
  add_segment true c prox seg_id name parent frac group conv ty reord opt = BRet c' ->
  exists s, segs c' = (segs c ++ [s])%list /\ ~ In (sid s) (ids c).
Proof.
  intros. destruct (add_segment_shape _ _ _ _ _ _ _ _ _ _ _ _ H) as [i [sp [nm [tag [Hf [_ [_ [_ Hr]]]]]]]].
  exists (mkSeg i sp prox nm tag (opt_group group)). split; [|exact Hf].
  destruct opt; [destruct (optimise_shape _ _ Hr) as [E _]; exact E | simpl in Hr; rewrite Hr; reflexivity].
Qed.

(* ================================================================== witnesses *)
Definition seg_op (seg_id : option Z) (parent : option nat) (group : option string) (ty : string) (opt : bool) : op :=
  AddSegment true seg_id None parent 4 group true (Some ty) true opt.

(* shipped methods: the ValueError for an id in use is swallowed -> two segments with id 5 *)
(* shipped methods: an explicit id 0 counts as "not given" - asked for again it is not refused, the segment is
   silently stored under the next free id *)
Definition zero_ops : list op := [seg_op (Some 0%Z) None None "soma" true; seg_op (Some 0%Z) (Some 0) None "dendrite" true].
Theorem zero_v0_refuted : exists c, run false zero_ops init_factory = BRet c /\ ids c = [0; 1]%Z.
Proof. eexists. split; vm_compute; reflexivity. Qed.
Example zero_fixed : run true zero_ops init_factory = BErr BDupId.
Proof. vm_compute. reflexivity. Qed.
Example zero_free_fixed : exists c, run true [seg_op (Some 3%Z) None None "soma" true; seg_op (Some 0%Z) (Some 0) None "dendrite" true;
                                              seg_op None (Some 1) None "dendrite" true] init_factory = BRet c /\ ids c = [3; 0; 2]%Z.
Proof. eexists. split; vm_compute; reflexivity. Qed.

Definition dup_ops : list op := [seg_op (Some 5%Z) None None "soma" true; seg_op (Some 5%Z) (Some 0) None "dendrite" true].
Theorem dup_v0_refuted : exists c, run false dup_ops init_factory = BRet c /\ ids c = [5; 5]%Z.
Proof. eexists. split; vm_compute; reflexivity. Qed.
Example dup_fixed : run true dup_ops init_factory = BErr BDupId.
Proof. vm_compute. reflexivity. Qed.

(* shipped methods: automatic id = len(segments) collides with an earlier explicit id *)
Definition auto_ops : list op :=
  [seg_op (Some 2%Z) None None "soma" true; seg_op None (Some 0) None "dendrite" true; seg_op None (Some 1) None "dendrite" true].
Theorem auto_v0_refuted : exists c, run false auto_ops init_factory = BRet c /\ ids c = [2; 1; 2]%Z.
Proof. eexists. split; vm_compute; reflexivity. Qed.
Example auto_fixed : exists c, run true auto_ops init_factory = BRet c /\ ids c = [2; 1; 3]%Z.
Proof. eexists. split; vm_compute; reflexivity. Qed.

(* shipped methods: group_id = "all" makes "all" include itself; the closing step never returns *)
Definition all_ops : list op := [seg_op None None None "soma" true; seg_op None (Some 0) (Some "all") "dendrite" false].
Theorem all_v0_refuted : exists c, run false all_ops init_factory = BRet c /\
  finish_gen false c = BErr BRecursion /\ exists g, In g (groups c) /\ gid g = "all" /\ In "all" (includes g).
Proof.
  eexists. split; [vm_compute; reflexivity|]. split; [vm_compute; reflexivity|].
  eexists. split; [right; right; left; reflexivity|]. split; reflexivity || (left; reflexivity).
Qed.
Example all_fixed : exists c c', run true all_ops init_factory = BRet c /\ finish c = BRet c' /\ wellformed c' = true.
Proof. eexists. eexists. split; [vm_compute; reflexivity|]. split; vm_compute; reflexivity. Qed.

(* repaired methods, hypothesis op_ok dropped: a group id used for an axon and for a dendrite segment
   is included in both default groups, so each resolves to both segments *)
Definition mixed_ops : list op :=
  [seg_op None None None "soma" true; seg_op None (Some 0) (Some "g") "axon" true; seg_op None (Some 0) (Some "g") "dendrite" true].
Theorem mixed_type_refuted : exists c c',
  run true mixed_ops init_factory = BRet c /\ finish c = BRet c' /\ run_ok true mixed_ops init_factory = false /\
  wellformed c' = false /\
  resolve (ids c') (default_fuel (groups c')) (groups c') "axon_group" = Ret [1; 2]%Z /\
  resolve (ids c') (default_fuel (groups c')) (groups c') "dendrite_group" = Ret [1; 2]%Z /\
  tagged Axon c' = [1%Z] /\ tagged Dendrite c' = [2%Z].
Proof.
  eexists. eexists. split; [vm_compute; reflexivity|]. split; [vm_compute; reflexivity|].
  repeat split; vm_compute; reflexivity.
Qed.

(* default groups named as group_id in their own role are inside the hypothesis *)
Definition default_named_ops : list op :=
  [ seg_op None None (Some "soma_group") "soma" true; seg_op None (Some 0) (Some "all") "dendrite" true;
    seg_op None (Some 1) (Some "dendrite_group") "dendrite" false; AddSegmentGroup "axon_group" None ].
Example default_named_ok : exists c c',
  run true default_named_ops init_bare = BRet c /\ run_ok true default_named_ops init_bare = true /\
  finish c = BRet c' /\ wellformed c' = true.
Proof. eexists. eexists. split; [vm_compute; reflexivity|]. split; [vm_compute; reflexivity|]. split; vm_compute; reflexivity. Qed.

(* the hypotheses are met by a non-trivial sequence: soma, two unbranched sections with deferred
   reorder/optimise, a later segment in an existing group, a plain group, the basic properties *)
Definition typical_ops : list op :=
  [ seg_op None None None "soma" true;
    AddUnbranched 4 (Some 0) 4 (Some "dend_1") true (Some "dendrite") false false;
    AddUnbranched 3 (Some 0) 2 (Some "axon_1") true (Some "axon") true true;
    AddSegment false (Some 40%Z) None (Some 2) 4 (Some "dend_1") true (Some "dendrite") false false;
    AddSegmentGroup "extra" None;
    SetProp SpikeThresh 0 true "all"; SetProp InitMembPotential 0 true "all";
    SetProp SpecificCapacitance 0 true "all"; SetProp Resistivity 1 true "all" ].

Example typical_ok : exists c c',
  run true typical_ops init_factory = BRet c /\ run_ok true typical_ops init_factory = true /\
  finish c = BRet c' /\ wellformed c' = true /\ valid_cell c' = true /\
  map gid (groups c') = ["dend_1"; "axon_1"; "extra"; "soma_group"; "axon_group"; "dendrite_group"; "all"] /\
  ids c' = [0; 1; 2; 3; 4; 5; 40]%Z.
Proof.
  eexists. eexists. split; [vm_compute; reflexivity|]. split; [vm_compute; reflexivity|].
  split; [vm_compute; reflexivity|]. repeat split; vm_compute; reflexivity.
Qed.
