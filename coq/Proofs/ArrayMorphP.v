(* C18 proofs, part 1: numpy-style indexing, parent paths, to_root (path reversal) for ALL trees and ALL new roots *)
From Coq Require Import String List ZArith Bool Lia Permutation.
From LNML Require Import Model.ArrayMorph.
Import ListNotations.
Open Scope Z_scope.

(* ------------------------------------------------------------------ lists and indices *)
Definition zset (c : list Z) (v x : Z) : list Z := set_nth (Z.to_nat v) x c.

Lemma set_nth_length : forall (A : Type) (l : list A) k x, length (set_nth k x l) = length l.
Proof. induction l as [|a l IH]; intros [|k] x; simpl; auto. Qed.

Lemma nth_error_set_nth_eq : forall (A : Type) (l : list A) k x,
    (k < length l)%nat -> nth_error (set_nth k x l) k = Some x.
Proof.
  induction l as [|a l IH]; intros [|k] x Hk; simpl in *; try lia; auto.
  apply IH; lia.
Qed.

Lemma nth_error_set_nth_neq : forall (A : Type) (l : list A) k k' x,
    k <> k' -> nth_error (set_nth k x l) k' = nth_error l k'.
Proof.
  induction l as [|a l IH]; intros [|k] [|k'] x Hk; simpl in *; auto; try congruence.
Qed.

Lemma zlen_zset : forall c v x, zlen (zset c v x) = zlen c.
Proof. intros; unfold zlen, zset; now rewrite set_nth_length. Qed.

Lemma zget_Some_range : forall c v p, zget c v = Some p -> 0 <= v < zlen c.
Proof.
  unfold zget; intros c v p H.
  destruct (0 <=? v) eqn:E1; destruct (v <? zlen c) eqn:E2; simpl in H; try discriminate; lia.
Qed.

Lemma zget_in_range : forall c v, 0 <= v < zlen c -> exists p, zget c v = Some p.
Proof.
  unfold zget, zlen; intros c v H.
  replace ((0 <=? v) && (v <? Z.of_nat (length c))) with true by (symmetry; apply andb_true_iff; split; lia).
  destruct (nth_error c (Z.to_nat v)) eqn:E; eauto.
  apply nth_error_None in E; lia.
Qed.

Lemma zget_zset : forall c v x w, 0 <= v < zlen c ->
    zget (zset c v x) w = if w =? v then Some x else zget c w.
Proof.
  intros c v x w Hv. unfold zget. rewrite zlen_zset.
  destruct ((0 <=? w) && (w <? zlen c)) eqn:E.
  - apply andb_true_iff in E; destruct E as [E1 E2].
    destruct (w =? v) eqn:Ew.
    + apply Z.eqb_eq in Ew; subst w. unfold zset. apply nth_error_set_nth_eq. unfold zlen in Hv; lia.
    + apply Z.eqb_neq in Ew. unfold zset. apply nth_error_set_nth_neq. lia.
  - destruct (w =? v) eqn:Ew; auto.
    apply Z.eqb_eq in Ew; subst w.
    assert ((0 <=? v) && (v <? zlen c) = true) by (apply andb_true_iff; split; lia). congruence.
Qed.

Lemma pyget_nonneg : forall (c : list Z) v, 0 <= v -> pyget c v = zget c v.
Proof.
  intros c v Hv. unfold pyget, pynorm, zget.
  replace (v <? 0) with false by (symmetry; apply Z.ltb_ge; lia).
  destruct ((0 <=? v) && (v <? zlen c)); auto.
Qed.

Lemma pyset_valid : forall (c : list Z) v x, 0 <= v < zlen c -> pyset c v x = Some (zset c v x).
Proof.
  intros c v x Hv. unfold pyset, pynorm, zset.
  replace (v <? 0) with false by (symmetry; apply Z.ltb_ge; lia).
  replace ((0 <=? v) && (v <? zlen c)) with true by (symmetry; apply andb_true_iff; split; lia).
  reflexivity.
Qed.

(* a[-1] exists as soon as the array is not empty *)
Lemma pyget_minus1 : forall (c : list Z), 0 < zlen c -> exists g, pyget c (-1) = Some g.
Proof.
  intros c Hn. unfold pyget, pynorm.
  replace (-1 <? 0) with true by reflexivity. cbv iota.
  replace ((0 <=? -1 + zlen c) && (-1 + zlen c <? zlen c)) with true by (symmetry; apply andb_true_iff; split; lia).
  destruct (nth_error c (Z.to_nat (-1 + zlen c))) eqn:E; eauto.
  apply nth_error_None in E. unfold zlen in *; lia.
Qed.

Lemma in_zrange : forall a len v, In v (zrange a len) <-> a <= v < a + Z.of_nat len.
Proof.
  intros a len v. unfold zrange. rewrite in_map_iff. split.
  - intros [k [Hk Hin]]. apply in_seq in Hin. lia.
  - intros H. exists (Z.to_nat (v - a)). split; [lia|]. apply in_seq. lia.
Qed.

Lemma zrange_NoDup : forall a len, NoDup (zrange a len).
Proof.
  intros a len. unfold zrange. apply FinFun.Injective_map_NoDup.
  - intros x y H. lia.
  - apply seq_NoDup.
Qed.

Lemma filter_nil_iff : forall (A : Type) (f : A -> bool) l, (forall x, In x l -> f x = false) -> filter f l = [].
Proof.
  induction l as [|a l IH]; intros H; simpl; auto.
  rewrite (H a (or_introl eq_refl)). apply IH. intros x Hx. apply H. now right.
Qed.

Lemma filter_unique : forall (f : Z -> bool) l r,
    NoDup l -> In r l -> (forall x, In x l -> (f x = true <-> x = r)) -> filter f l = [r].
Proof.
  induction l as [|a l IH]; intros r Hnd Hin Hf; [inversion Hin|].
  inversion Hnd as [|? ? Hna Hnd']; subst. simpl.
  destruct (Z.eq_dec a r) as [->|Hne].
  - assert (Hfr : f r = true) by (apply Hf; [now left|reflexivity]). rewrite Hfr. f_equal.
    apply filter_nil_iff. intros x Hx.
    destruct (f x) eqn:E; auto. apply Hf in E; [|now right]. subst x. contradiction.
  - assert (Hfa : f a = false).
    { destruct (f a) eqn:E; auto. apply Hf in E; [|now left]. contradiction. }
    rewrite Hfa. apply IH; auto.
    + destruct Hin; [contradiction|auto].
    + intros x Hx. apply Hf. now right.
Qed.

(* ------------------------------------------------------------------ trees given by parent pointers *)
(* the chain of parents from w up to (and including) a root *)
Inductive ppath (c : list Z) : Z -> list Z -> Prop :=
| path_root : forall r, zget c r = Some (-1) -> ppath c r [r]
| path_step : forall w p l, zget c w = Some p -> p <> -1 -> ppath c p l -> ppath c w (w :: l).

Definition unique_root (c : list Z) (r : Z) : Prop :=
  zget c r = Some (-1) /\ forall w, zget c w = Some (-1) -> w = r.

(* one root, and every vertex reaches it by following parents (hence no cycle, entries in range) *)
Definition tree_parent (c : list Z) : Prop :=
  (exists r, unique_root c r) /\ forall w, 0 <= w < zlen c -> exists l, ppath c w l.

Definition dedge (c : list Z) (v p : Z) : Prop := zget c v = Some p /\ p <> -1.
Definition uedge (c : list Z) (a b : Z) : Prop := dedge c a b \/ dedge c b a.

Lemma path_head : forall c w l, ppath c w l -> exists t, l = w :: t.
Proof. intros c w l H; inversion H; eauto. Qed.

Lemma path_inv : forall c w l, ppath c w l ->
    (zget c w = Some (-1) /\ l = [w]) \/
    (exists p l', zget c w = Some p /\ p <> -1 /\ ppath c p l' /\ l = w :: l').
Proof. intros c w l H; inversion H; subst; [left; auto|right; eauto 8]. Qed.

Lemma path_valid : forall c w l, ppath c w l -> forall x, In x l -> 0 <= x < zlen c.
Proof.
  induction 1 as [r Hr|w p l Hw Hp Hpl IH]; intros x Hx.
  - destruct Hx as [<-|[]]. eapply zget_Some_range; eauto.
  - destruct Hx as [<-|Hx]; [eapply zget_Some_range; eauto|auto].
Qed.

Lemma path_det : forall c w l1, ppath c w l1 -> forall l2, ppath c w l2 -> l1 = l2.
Proof.
  induction 1 as [r Hr|w p l Hw Hp Hpl IH]; intros l2 H2; inversion H2; subst; auto; try congruence.
  assert (p = p0) by congruence. subst p0. f_equal. auto.
Qed.

Lemma path_in_tail : forall c w l, ppath c w l ->
    forall x, In x l -> exists l2, ppath c x l2 /\ (length l2 <= length l)%nat.
Proof.
  induction 1 as [r Hr|w p l Hw Hp Hpl IH]; intros x Hx.
  - destruct Hx as [<-|[]]. exists [r]. split; [now constructor|auto].
  - destruct Hx as [<-|Hx].
    + exists (w :: l). split; [econstructor; eauto|auto].
    + destruct (IH x Hx) as [l2 [H2 Hlen]]. exists l2. split; auto. simpl; lia.
Qed.

Lemma path_NoDup : forall c w l, ppath c w l -> NoDup l.
Proof.
  induction 1 as [r Hr|w p l Hw Hp Hpl IH].
  - constructor; [intros []|constructor].
  - constructor; auto. intros Hin.
    destruct (path_in_tail _ _ _ Hpl w Hin) as [l2 [H2 Hlen]].
    assert (l2 = w :: l) by (eapply path_det; eauto; econstructor; eauto).
    subst l2. simpl in Hlen. lia.
Qed.

Lemma path_last_root : forall c w l, ppath c w l -> zget c (last l 0) = Some (-1).
Proof.
  induction 1 as [r Hr|w p l Hw Hp Hpl IH]; simpl; auto.
  destruct (path_head _ _ _ Hpl) as [t ->]. exact IH.
Qed.

Lemma path_last_in : forall c w l, ppath c w l -> In (last l 0) l.
Proof.
  intros c w l H. destruct (path_head _ _ _ H) as [t ->].
  clear H. revert w. induction t as [|b t IH]; intros w; simpl; auto.
  right. apply IH.
Qed.

(* ------------------------------------------------------------------ the predecessor on a ppath and the reversed array *)
Fixpoint pred_in (l : list Z) (w : Z) : option Z :=
  match l with
  | a :: (b :: _) as t => if b =? w then Some a else pred_in t w
  | _ => None
  end.

Fixpoint rev_writes (c : list Z) (l : list Z) : list Z :=
  match l with
  | a :: (b :: _) as t => rev_writes (zset c b a) t
  | _ => c
  end.

Lemma pred_in_Some : forall l w a, pred_in l w = Some a -> In a l /\ In w (tl l).
Proof.
  induction l as [|x l IH]; intros w a H; [discriminate|].
  destruct l as [|b t]; [discriminate|].
  simpl in H. destruct (b =? w) eqn:E.
  - apply Z.eqb_eq in E. inversion H; subst. split; simpl; auto.
  - destruct (IH w a H) as [H1 H2]. split; [now right|]. simpl. right.
    destruct t; simpl in *; auto.
Qed.

Lemma pred_in_tail : forall l w, In w (tl l) -> exists a, pred_in l w = Some a.
Proof.
  induction l as [|x l IH]; intros w H; [inversion H|].
  destruct l as [|b t]; [inversion H|].
  simpl. destruct (b =? w) eqn:E; eauto.
  apply IH. simpl in H. destruct H as [->|H]; [rewrite Z.eqb_refl in E; discriminate|].
  destruct t; simpl in *; auto.
Qed.

Lemma pred_in_None : forall l w, ~ In w (tl l) -> pred_in l w = None.
Proof.
  intros l w H. destruct (pred_in l w) eqn:E; auto.
  apply pred_in_Some in E. tauto.
Qed.

Lemma pred_in_app : forall pre a b t, NoDup (pre ++ a :: b :: t) ->
    pred_in (pre ++ a :: b :: t) b = Some a.
Proof.
  induction pre as [|x pre IH]; intros a b t Hnd.
  - simpl. now rewrite Z.eqb_refl.
  - inversion Hnd as [|? ? Hnx Hnd']; subst.
    destruct pre as [|y pre'].
    + simpl in *. destruct (a =? b) eqn:E.
      * apply Z.eqb_eq in E; subst. inversion Hnd'; subst. simpl in *; tauto.
      * now rewrite Z.eqb_refl.
    + specialize (IH a b t Hnd'). simpl app in *.
      change (pred_in (x :: y :: pre' ++ a :: b :: t) b) with
          (if y =? b then Some x else pred_in (y :: pre' ++ a :: b :: t) b).
      destruct (y =? b) eqn:E.
      * apply Z.eqb_eq in E; subst y. exfalso.
        inversion Hnd' as [|? ? Hny _]; subst. apply Hny. apply in_or_app. right; simpl; auto.
      * exact IH.
Qed.

Lemma rev_writes_len : forall l c, zlen (rev_writes c l) = zlen c.
Proof.
  induction l as [|a l IH]; intros c; auto.
  destruct l as [|b t]; auto.
  change (rev_writes c (a :: b :: t)) with (rev_writes (zset c b a) (b :: t)).
  rewrite IH. apply zlen_zset.
Qed.

Lemma rev_writes_get : forall l c w, NoDup l -> (forall x, In x l -> 0 <= x < zlen c) ->
    zget (rev_writes c l) w = match pred_in l w with Some a => Some a | None => zget c w end.
Proof.
  induction l as [|a l IH]; intros c w Hnd Hv; auto.
  destruct l as [|b t]; auto.
  change (rev_writes c (a :: b :: t)) with (rev_writes (zset c b a) (b :: t)).
  change (pred_in (a :: b :: t) w) with (if b =? w then Some a else pred_in (b :: t) w).
  inversion Hnd as [|? ? Hna Hnd']; subst.
  assert (Hb : 0 <= b < zlen c) by (apply Hv; simpl; auto).
  rewrite IH; auto.
  - destruct (b =? w) eqn:E.
    + apply Z.eqb_eq in E; subst w.
      rewrite pred_in_None.
      * rewrite zget_zset by auto. now rewrite Z.eqb_refl.
      * simpl. inversion Hnd'; auto.
    + destruct (pred_in (b :: t) w); auto.
      rewrite zget_zset by auto. rewrite Z.eqb_sym in E. now rewrite E.
  - intros x Hx. rewrite zlen_zset. apply Hv. now right.
Qed.

(* on a parent ppath, "a is the predecessor of y" means exactly "y is the parent of a" *)
Lemma path_pred : forall c i l, ppath c i l ->
    forall x y, pred_in l y = Some x <-> (In x l /\ zget c x = Some y /\ y <> -1).
Proof.
  induction 1 as [r Hr|w p l Hw Hp Hpl IH]; intros x y.
  - simpl. split; [discriminate|]. intros [[<-|[]] [H1 H2]]. congruence.
  - pose proof (path_NoDup _ _ _ Hpl) as Hnd.
    destruct (path_head _ _ _ Hpl) as [t ->].
    change (pred_in (w :: p :: t) y) with (if p =? y then Some w else pred_in (p :: t) y).
    destruct (p =? y) eqn:E.
    + apply Z.eqb_eq in E; subst y. split.
      * intros H; inversion H; subst. repeat split; simpl; auto.
      * intros [Hin [Hx Hy]]. destruct Hin as [<-|Hin]; auto.
        exfalso. assert (Hpx : pred_in (p :: t) p = Some x) by (apply IH; auto).
        apply pred_in_Some in Hpx. simpl in Hpx. inversion Hnd; tauto.
    + rewrite IH. apply Z.eqb_neq in E. split.
      * intros [H1 H2]; split; [now right|auto].
      * intros [[<-|Hin] [Hx Hy]]; [congruence|auto].
Qed.

(* ------------------------------------------------------------------ the Python loop computes the reversed ppath *)
Lemma to_root_loop_spec : forall c0 r, zget c0 r = Some (-1) ->
    forall idx l, ppath c0 idx l -> NoDup l -> last l 0 = r ->
    forall fuel cur par grand,
      (length l <= S fuel)%nat -> zlen cur = zlen c0 ->
      (forall w, In w (tl l) -> zget cur w = zget c0 w) ->
      (idx <> r -> zget c0 idx = Some par /\ pyget cur par = Some grand) ->
      to_root_loop fuel cur r idx par grand = Ok (rev_writes cur l).
Proof.
  intros c0 r Hr idx l Hpath.
  induction Hpath as [r' Hr'|w p l Hw Hp Hpl IH]; intros Hnd Hlast fuel cur par grand Hfuel Hlen Hagree Hstate.
  - simpl in Hlast. subst r'. destruct fuel; simpl; now rewrite Z.eqb_refl.
  - assert (Hwr : w <> r) by (intros ->; congruence).
    destruct (Hstate Hwr) as [Hpar Hgrand].
    assert (par = p) by congruence. subst par.
    apply NoDup_cons_iff in Hnd. destruct Hnd as [Hnw Hnd'].
    destruct (path_head _ _ _ Hpl) as [t Ht]. subst l.
    assert (Hpv : 0 <= p < zlen c0) by (eapply path_valid; eauto; simpl; auto).
    destruct fuel as [|f]; [simpl in Hfuel; lia|].
    simpl to_root_loop. apply Z.eqb_neq in Hwr. rewrite Hwr.
    rewrite pyset_valid by lia.
    assert (Hlast' : last (p :: t) 0 = r) by (destruct t; simpl in *; auto).
    assert (Hcurp : zget cur p = Some grand) by (rewrite <- pyget_nonneg by lia; auto).
    assert (Hc0p : zget c0 p = Some grand) by (rewrite <- Hagree; simpl; auto).
    (* the next grandparent read succeeds *)
    assert (Hgg : exists gg, pyget (zset cur p w) grand = Some gg /\
                            (p <> r -> zget c0 p = Some grand /\ pyget (zset cur p w) grand = Some gg)).
    { destruct (path_inv _ _ _ Hpl) as [[Hr'' _]|[p' [l' [Hw' [Hp' [Hpl' Heq]]]]]].
      - (* p is the root: grand = -1, numpy reads the last element *)
        assert (grand = -1) by congruence. subst grand.
        destruct (pyget_minus1 (zset cur p w)) as [g Hg]; [rewrite zlen_zset; lia|].
        exists g. split; auto.
      - assert (grand = p') by congruence. subst p'.
        assert (Hgv : 0 <= grand < zlen c0).
        { eapply path_valid; [exact Hpl'|]. destruct (path_head _ _ _ Hpl') as [t' ->]. simpl; auto. }
        destruct (path_head _ _ _ Hpl') as [t' Ht']. subst l'.
        assert (t = grand :: t') by congruence. subst t. clear Heq.
        assert (grand <> p) by (apply NoDup_cons_iff in Hnd'; destruct Hnd' as [Hnp _]; intros ->; apply Hnp; simpl; auto).
        destruct (zget_in_range c0 grand Hgv) as [gg Hgg].
        exists gg.
        assert (pyget (zset cur p w) grand = Some gg).
        { rewrite pyget_nonneg by lia. rewrite zget_zset by lia.
          replace (grand =? p) with false by (symmetry; apply Z.eqb_neq; auto).
          rewrite Hagree; auto. simpl; auto. }
        split; auto. }
    destruct Hgg as [gg [Hgg1 Hgg2]]. rewrite Hgg1.
    rewrite (IH Hnd' Hlast' f (zset cur p w) grand gg); auto.
    + simpl in Hfuel |- *. lia.
    + rewrite zlen_zset. auto.
    + intros x Hx. rewrite zget_zset by lia.
      assert (x <> p) by (apply NoDup_cons_iff in Hnd'; destruct Hnd' as [Hnp _]; intros ->; simpl in Hx; auto).
      replace (x =? p) with false by (symmetry; apply Z.eqb_neq; auto).
      apply Hagree. simpl. right. simpl in Hx. exact Hx.
Qed.

(* root_index finds the first -1 *)
Lemma find_root_from_spec : forall c k j, nth_error c j = Some (-1) ->
    exists j', find_root_from k c = Some (k + Z.of_nat j') /\ nth_error c j' = Some (-1).
Proof.
  induction c as [|x c IH]; intros k j Hj; [destruct j; discriminate|].
  simpl. destruct (x =? -1) eqn:E.
  - apply Z.eqb_eq in E; subst x. exists 0%nat. split; [f_equal; lia|reflexivity].
  - destruct j as [|j]; [simpl in Hj; inversion Hj; subst; discriminate|].
    destruct (IH (k + 1) j Hj) as [j' [H1 H2]]. exists (S j'). split; auto.
    rewrite H1. f_equal. lia.
Qed.

Lemma root_index_unique : forall c r, unique_root c r -> root_index c = Some r.
Proof.
  intros c r [Hr Hu]. unfold root_index.
  pose proof (zget_Some_range _ _ _ Hr) as Hrange.
  assert (Hn : nth_error c (Z.to_nat r) = Some (-1)).
  { unfold zget in Hr. destruct ((0 <=? r) && (r <? zlen c)); [auto|discriminate]. }
  destruct (find_root_from_spec c 0 _ Hn) as [j' [H1 H2]]. rewrite H1. f_equal.
  apply Hu. unfold zget.
  assert (Hj : (j' < length c)%nat) by (apply nth_error_Some; congruence).
  replace ((0 <=? 0 + Z.of_nat j') && (0 + Z.of_nat j' <? zlen c)) with true
    by (symmetry; apply andb_true_iff; unfold zlen; split; lia).
  replace (Z.to_nat (0 + Z.of_nat j')) with j' by lia. auto.
Qed.

(* the array re-rooting leaves behind: reverse the parent ppath of i, then mark i as root *)
Definition rerooted (c : list Z) (i : Z) (l : list Z) : list Z := zset (rev_writes c l) i (-1).

Lemma path_length_le : forall c w l, ppath c w l -> (length l <= length c)%nat.
Proof.
  intros c w l H.
  pose proof (path_NoDup _ _ _ H) as Hnd.
  assert (Hincl : incl l (zrange 0 (length c))).
  { intros x Hx. apply in_zrange. pose proof (path_valid _ _ _ H x Hx). unfold zlen in *. lia. }
  pose proof (NoDup_incl_length Hnd Hincl) as Hle.
  unfold zrange in Hle. now rewrite map_length, seq_length in Hle.
Qed.

Lemma to_root_spec : forall c r i l, unique_root c r -> ppath c i l ->
    to_root c i = Ok (rerooted c i l).
Proof.
  intros c r i l Hur Hpath.
  pose proof Hur as [Hr Hu].
  unfold to_root. rewrite (root_index_unique _ _ Hur).
  assert (Hiv : 0 <= i < zlen c) by (eapply path_valid; eauto; destruct (path_head _ _ _ Hpath) as [t ->]; simpl; auto).
  destruct (zget_in_range c i Hiv) as [par Hpar].
  rewrite pyget_nonneg by lia. rewrite Hpar.
  assert (Hlast : last l 0 = r) by (apply Hu; eapply path_last_root; eauto).
  assert (Hgrand : exists g, pyget c par = Some g).
  { inversion Hpath as [r' Hr'|w p l' Hw Hp Hpl]; subst.
    - assert (par = -1) by congruence. subst par. apply pyget_minus1. lia.
    - assert (par = p) by congruence. subst par.
      assert (Hpv : 0 <= p < zlen c) by (eapply path_valid; eauto; destruct (path_head _ _ _ Hpl) as [t ->]; simpl; auto).
      rewrite pyget_nonneg by lia. apply zget_in_range; auto. }
  destruct Hgrand as [g Hg]. rewrite Hg.
  rewrite (to_root_loop_spec c r Hr i l Hpath (path_NoDup _ _ _ Hpath) Hlast (length c) c par g); auto.
  - rewrite pyset_valid by (rewrite rev_writes_len; lia). reflexivity.
  - pose proof (path_length_le _ _ _ Hpath). lia.
Qed.

(* ------------------------------------------------------------------ what the re-rooted array looks like *)
Section Rerooted.
  Variables (c : list Z) (r i : Z) (l : list Z).
  Hypothesis Hur : unique_root c r.
  Hypothesis Hpath : ppath c i l.

  Let c' := rerooted c i l.

  Lemma rerooted_len : zlen c' = zlen c.
  Proof. unfold c', rerooted. rewrite zlen_zset. apply rev_writes_len. Qed.

  Lemma i_valid : 0 <= i < zlen c.
  Proof. eapply path_valid; eauto. destruct (path_head _ _ _ Hpath) as [t ->]; simpl; auto. Qed.

  Lemma rerooted_get : forall w,
      zget c' w = if w =? i then Some (-1)
                  else match pred_in l w with Some a => Some a | None => zget c w end.
  Proof.
    intros w. unfold c', rerooted.
    rewrite zget_zset by (rewrite rev_writes_len; apply i_valid).
    destruct (w =? i); auto.
    apply rev_writes_get; [eapply path_NoDup; eauto|eapply path_valid; eauto].
  Qed.

  Lemma last_is_r : last l 0 = r.
  Proof. destruct Hur as [_ Hu]. apply Hu. eapply path_last_root; eauto. Qed.

  Lemma r_on_path : In r l.
  Proof. rewrite <- last_is_r. eapply path_last_in; eauto. Qed.

  Lemma in_path_cases : forall w, In w l -> w = i \/ In w (tl l).
  Proof. intros w H. destruct (path_head _ _ _ Hpath) as [t Ht]. rewrite Ht in H. simpl in H. destruct H as [<-|H]; [now left|right; rewrite Ht; exact H]. Qed.

  Lemma rerooted_unique_root : unique_root c' i.
  Proof.
    split.
    - rewrite rerooted_get. now rewrite Z.eqb_refl.
    - intros w Hw. rewrite rerooted_get in Hw.
      destruct (w =? i) eqn:E; [now apply Z.eqb_eq|].
      exfalso. destruct (pred_in l w) as [a|] eqn:Ep.
      + inversion Hw; subst a. apply pred_in_Some in Ep. destruct Ep as [Hin _].
        pose proof (path_valid _ _ _ Hpath _ Hin). lia.
      + destruct Hur as [_ Hu]. apply Hu in Hw. subst w.
        destruct (in_path_cases r r_on_path) as [->|Hin]; [rewrite Z.eqb_refl in E; discriminate|].
        destruct (pred_in_tail _ _ Hin) as [a Ha]. congruence.
  Qed.

  (* vertices on the old ppath now lead down to i *)
  Lemma rerooted_path_on : forall t a, (exists pre, l = pre ++ a :: t) -> (exists la, ppath c' a la) ->
      forall w, In w t -> exists l', ppath c' w l'.
  Proof.
    induction t as [|b t IH]; intros a [pre Hl] [la Hla] w Hw; [inversion Hw|].
    assert (Hnd : NoDup l) by (eapply path_NoDup; eauto).
    assert (Hpb : pred_in l b = Some a) by (rewrite Hl; apply pred_in_app; rewrite <- Hl; auto).
    assert (Hb : ppath c' b (b :: la)).
    { econstructor; eauto.
      - rewrite rerooted_get. rewrite Hpb.
        destruct (b =? i) eqn:E; auto.
        apply Z.eqb_eq in E. subst b. exfalso.
        destruct (path_head _ _ _ Hpath) as [t' Ht']. rewrite Ht' in Hl, Hnd.
        destruct pre as [|x pre]; simpl in Hl; inversion Hl; subst.
        * inversion Hnd as [|? ? Hni _]; subst. apply Hni. simpl; auto.
        * inversion Hnd as [|? ? Hni _]; subst. apply Hni. apply in_or_app. right. simpl; auto.
      - assert (In a l) by (rewrite Hl; apply in_or_app; right; simpl; auto).
        pose proof (path_valid _ _ _ Hpath _ H). lia. }
    destruct Hw as [<-|Hw]; [eauto|].
    apply (IH b); eauto.
    exists (pre ++ [a]). rewrite <- app_assoc. exact Hl.
  Qed.

  Lemma rerooted_path_on_path : forall w, In w l -> exists l', ppath c' w l'.
  Proof.
    intros w Hw.
    assert (Hi : ppath c' i [i]) by (constructor; apply rerooted_unique_root).
    destruct (in_path_cases w Hw) as [->|Hin]; [eauto|].
    destruct (path_head _ _ _ Hpath) as [t Ht].
    apply (rerooted_path_on t i); eauto.
    - exists []. exact Ht.
    - rewrite Ht in Hin. exact Hin.
  Qed.

  (* every vertex still reaches the (new) root *)
  Lemma rerooted_path_all : forall w lw, ppath c w lw -> exists l', ppath c' w l'.
  Proof.
    induction 1 as [r' Hr'|w p lw Hw Hp Hpl IH].
    - destruct Hur as [_ Hu]. apply Hu in Hr'. subst r'. apply rerooted_path_on_path. apply r_on_path.
    - destruct (in_dec Z.eq_dec w l) as [Hin|Hnin]; [now apply rerooted_path_on_path|].
      destruct IH as [l' Hl']. exists (w :: l'). econstructor; eauto.
      rewrite rerooted_get.
      assert (Hwi : w <> i) by (intros ->; apply Hnin; destruct (path_head _ _ _ Hpath) as [t ->]; simpl; auto).
      replace (w =? i) with false by (symmetry; apply Z.eqb_neq; auto).
      rewrite pred_in_None; auto.
      intros Hin. apply Hnin. destruct l; simpl in *; auto.
  Qed.

  Lemma rerooted_dedge : forall x y,
      dedge c' x y <-> (pred_in l x = Some y \/ (~ In x l /\ dedge c x y)).
  Proof.
    intros x y. unfold dedge. rewrite rerooted_get.
    destruct (x =? i) eqn:E.
    - apply Z.eqb_eq in E. subst x. split.
      + intros [H1 H2]. congruence.
      + intros [H|[Hn _]].
        * apply pred_in_Some in H. destruct H as [_ H]. exfalso.
          pose proof (path_NoDup _ _ _ Hpath) as Hnd.
          destruct (path_head _ _ _ Hpath) as [t Ht]. rewrite Ht in *. simpl in H. inversion Hnd; tauto.
        * exfalso. apply Hn. destruct (path_head _ _ _ Hpath) as [t ->]; simpl; auto.
    - destruct (pred_in l x) as [a|] eqn:Ep.
      + split.
        * intros [H1 _]. left. congruence.
        * intros [H|[Hn _]].
          -- inversion H; subst. split; auto.
             apply pred_in_Some in Ep. destruct Ep as [Hin _].
             pose proof (path_valid _ _ _ Hpath _ Hin). lia.
          -- exfalso. apply Hn. apply pred_in_Some in Ep. destruct Ep as [_ Hin]. destruct l; simpl in *; auto.
      + split.
        * intros H. right. split; auto. intros Hin.
          destruct (in_path_cases x Hin) as [->|Ht]; [rewrite Z.eqb_refl in E; discriminate|].
          destruct (pred_in_tail _ _ Ht) as [a Ha]. congruence.
        * intros [H|[_ H]]; [discriminate|auto].
  Qed.

  Lemma orig_dedge : forall x y,
      dedge c x y <-> (pred_in l y = Some x \/ (~ In x l /\ dedge c x y)).
  Proof.
    intros x y. rewrite (path_pred _ _ _ Hpath). unfold dedge.
    destruct (in_dec Z.eq_dec x l); tauto.
  Qed.

  Lemma rerooted_uedge : forall a b, uedge c' a b <-> uedge c a b.
  Proof.
    intros a b. unfold uedge.
    rewrite (rerooted_dedge a b), (rerooted_dedge b a), (orig_dedge a b), (orig_dedge b a). tauto.
  Qed.
End Rerooted.

(* ------------------------------------------------------------------ the theorem: all trees, all new roots *)
Theorem to_root_correct : forall c i, tree_parent c -> 0 <= i < zlen c ->
    exists c', to_root c i = Ok c' /\ length c' = length c /\
               (forall a b, uedge c' a b <-> uedge c a b) /\ unique_root c' i /\ tree_parent c'.
Proof.
  intros c i [[r Hur] Hreach] Hi.
  destruct (Hreach i Hi) as [l Hpath].
  exists (rerooted c i l).
  pose proof (rerooted_len c i l) as Hlen.
  split; [eapply to_root_spec; eauto|].
  split; [unfold zlen in Hlen; lia|].
  split; [intros a b; eapply rerooted_uedge; eauto|].
  split; [eapply rerooted_unique_root; eauto|].
  split; [exists i; eapply rerooted_unique_root; eauto|].
  intros w Hw. rewrite Hlen in Hw. destruct (Hreach w Hw) as [lw Hlw].
  eapply rerooted_path_all; eauto.
Qed.

(* ------------------------------------------------------------------ the executable observers *)
Lemma roots_unique : forall c r, unique_root c r -> roots c = [r].
Proof.
  intros c r [Hr Hu]. unfold roots.
  apply filter_unique.
  - apply zrange_NoDup.
  - apply in_zrange. pose proof (zget_Some_range _ _ _ Hr). unfold zlen in *. lia.
  - intros x Hx. apply in_zrange in Hx. rewrite pyget_nonneg by lia. split.
    + destruct (zget c x) as [p|] eqn:E; [|discriminate].
      intros Hp. apply Z.eqb_eq in Hp. subst p. auto.
    + intros ->. rewrite Hr. reflexivity.
Qed.

Lemma roots_unique_inv : forall c r, roots c = [r] -> unique_root c r.
Proof.
  intros c r H. unfold roots in H.
  assert (Hiff : forall w, zget c w = Some (-1) <-> In w [r]).
  { intros w. rewrite <- H. rewrite filter_In. rewrite in_zrange. split.
    - intros Hw. pose proof (zget_Some_range _ _ _ Hw). split; [unfold zlen in *; lia|].
      rewrite pyget_nonneg by lia. now rewrite Hw.
    - intros [Hr Hp]. rewrite pyget_nonneg in Hp by lia.
      destruct (zget c w) as [p|]; [|discriminate]. apply Z.eqb_eq in Hp. now subst. }
  split.
  - apply Hiff. simpl; auto.
  - intros w Hw. apply Hiff in Hw. destruct Hw as [<-|[]]. reflexivity.
Qed.

Lemma in_undirected_edges : forall c a b,
    In (a, b) (undirected_edges c) <-> (a <= b /\ uedge c a b).
Proof.
  intros c a b. unfold undirected_edges. rewrite in_flat_map. split.
  - intros [v [Hv Hin]]. apply in_zrange in Hv. rewrite pyget_nonneg in Hin by lia.
    destruct (zget c v) as [p|] eqn:E; [|inversion Hin].
    destruct (p =? -1) eqn:Ep; [inversion Hin|]. apply Z.eqb_neq in Ep.
    destruct Hin as [Hin|[]]. inversion Hin; subst. split; [lia|].
    unfold uedge, dedge.
    destruct (Z.le_ge_cases v p).
    + rewrite Z.min_l, Z.max_r by lia. left; auto.
    + rewrite Z.min_r, Z.max_l by lia. right; auto.
  - intros [Hab [[H1 H2]|[H1 H2]]].
    + exists a. pose proof (zget_Some_range _ _ _ H1). split; [apply in_zrange; unfold zlen in *; lia|].
      rewrite pyget_nonneg by lia. rewrite H1.
      replace (b =? -1) with false by (symmetry; apply Z.eqb_neq; auto).
      left. rewrite Z.min_l, Z.max_r by lia. reflexivity.
    + exists b. pose proof (zget_Some_range _ _ _ H1). split; [apply in_zrange; unfold zlen in *; lia|].
      rewrite pyget_nonneg by lia. rewrite H1.
      replace (a =? -1) with false by (symmetry; apply Z.eqb_neq; auto).
      left. rewrite Z.min_r, Z.max_l by lia. reflexivity.
Qed.

(* the boolean check used on generated inputs implies the hypothesis of the theorem *)
Lemma climbs_path : forall fuel c v, climbs fuel c v = true -> exists l, ppath c v l.
Proof.
  induction fuel as [|f IH]; intros c v H; [discriminate|].
  simpl in H. destruct (zget c v) as [p|] eqn:E; [|discriminate].
  destruct (p =? -1) eqn:Ep.
  - apply Z.eqb_eq in Ep; subst p. exists [v]. now constructor.
  - apply Z.eqb_neq in Ep. destruct (IH c p H) as [l Hl]. exists (v :: l). econstructor; eauto.
Qed.

Lemma tree_parentb_sound : forall c, tree_parentb c = true -> tree_parent c.
Proof.
  intros c H. unfold tree_parentb in H. apply andb_true_iff in H. destruct H as [H1 H2].
  split.
  - destruct (roots c) as [|r [|]] eqn:E; simpl in H1; try discriminate.
    exists r. now apply roots_unique_inv.
  - intros w Hw. rewrite forallb_forall in H2.
    apply (climbs_path (length c)). apply H2. apply in_zrange. unfold zlen in Hw. lia.
Qed.

(* ------------------------------------------------------------------ the statement with the executable observers *)
Theorem to_root_tree : forall c i, tree_parent c -> 0 <= i < zlen c ->
    exists c', to_root c i = Ok c' /\ length c' = length c /\
               (forall e, In e (undirected_edges c') <-> In e (undirected_edges c)) /\
               roots c' = [i] /\ tree_parent c'.
Proof.
  intros c i Ht Hi.
  destruct (to_root_correct c i Ht Hi) as [c' [H1 [H2 [H3 [H4 H5]]]]].
  exists c'. split; [exact H1|]. split; [exact H2|]. split; [|split; [now apply roots_unique|exact H5]].
  intros [a b]. rewrite !in_undirected_edges. rewrite H3. tauto.
Qed.

(* any sequence of re-rootings *)
Theorem to_root_seq_tree : forall indices c, tree_parent c -> (forall i, In i indices -> 0 <= i < zlen c) ->
    exists c', to_root_seq c indices = Ok c' /\ length c' = length c /\
               (forall e, In e (undirected_edges c') <-> In e (undirected_edges c)) /\
               roots c' = match indices with [] => roots c | _ => [last indices 0] end /\ tree_parent c'.
Proof.
  induction indices as [|i t IH]; intros c Ht Hin.
  - exists c. simpl. split; [reflexivity|]. split; [reflexivity|]. split; [tauto|]. split; auto.
  - destruct (to_root_tree c i Ht (Hin i (or_introl eq_refl))) as [c1 [H1 [H2 [H3 [H4 H5]]]]].
    assert (Hz : zlen c1 = zlen c) by (unfold zlen; now rewrite H2).
    destruct (IH c1 H5) as [c' [G1 [G2 [G3 [G4 G5]]]]].
    { intros j Hj. rewrite Hz. apply Hin. now right. }
    exists c'. simpl to_root_seq. rewrite H1. split; auto. split; [congruence|].
    split; [intros e; rewrite G3; apply H3|]. split; auto.
    rewrite G4. destruct t; auto.
Qed.

(* the hypotheses are satisfiable: a 6-vertex tree with a branch, re-rooted at a leaf *)
Example to_root_example :
  tree_parent [-1; 0; 1; 1; 3; 0] /\ to_root [-1; 0; 1; 1; 3; 0] 4 = Ok [1; 3; 1; 4; -1; 0].
Proof. split; [apply tree_parentb_sound|]; vm_compute; reflexivity. Qed.


(* ------------------------------------------------------------------ the edge list of a tree has no duplicates, so
   re-rooting permutes it *)
Lemma NoDup_app_disjoint : forall (A : Type) (l1 l2 : list A),
    NoDup l1 -> NoDup l2 -> (forall x, In x l1 -> ~ In x l2) -> NoDup (l1 ++ l2).
Proof.
  induction l1 as [|a l1 IH]; intros l2 H1 H2 Hd; simpl; auto.
  inversion H1 as [|? ? Ha H1']; subst. constructor.
  - intros Hin. apply in_app_or in Hin. destruct Hin as [Hin|Hin]; [contradiction|].
    apply (Hd a); simpl; auto.
  - apply IH; auto. intros x Hx. apply Hd. now right.
Qed.

Lemma NoDup_flat_map : forall (A B : Type) (f : A -> list B) l,
    NoDup l -> (forall x, In x l -> NoDup (f x)) ->
    (forall x y e, In x l -> In y l -> In e (f x) -> In e (f y) -> x = y) ->
    NoDup (flat_map f l).
Proof.
  induction l as [|a l IH]; intros Hnd Hf Hinj; simpl; [constructor|].
  inversion Hnd as [|? ? Ha Hnd']; subst.
  apply NoDup_app_disjoint.
  - apply Hf. now left.
  - apply IH; auto.
    + intros x Hx. apply Hf. now right.
    + intros x y e Hx Hy. apply Hinj; now right.
  - intros e He Hin. apply in_flat_map in Hin. destruct Hin as [y [Hy Hey]].
    assert (a = y) by (apply (Hinj a y e); simpl; auto). subst y. contradiction.
Qed.

Lemma no_two_cycle : forall c v p, tree_parent c -> zget c v = Some p -> zget c p = Some v -> False.
Proof.
  intros c v p [_ Hreach] Hv Hp.
  destruct (Hreach v (zget_Some_range _ _ _ Hv)) as [l Hl].
  pose proof (path_NoDup _ _ _ Hl) as Hnd.
  destruct (path_inv _ _ _ Hl) as [[Hr _]|[p1 [l1 [H1 [Hp1 [Hl1 ->]]]]]].
  - assert (p = -1) by congruence. subst p. apply zget_Some_range in Hp. lia.
  - assert (p1 = p) by congruence. subst p1.
    destruct (path_inv _ _ _ Hl1) as [[Hr _]|[p2 [l2 [H2 [Hp2 [Hl2 ->]]]]]].
    + assert (v = -1) by congruence. subst v. apply zget_Some_range in Hv. lia.
    + assert (p2 = v) by congruence. subst p2.
      destruct (path_head _ _ _ Hl2) as [t ->].
      inversion Hnd as [|? ? Hn _]; subst. apply Hn. simpl; auto.
Qed.

Lemma undirected_edges_NoDup : forall c, tree_parent c -> NoDup (undirected_edges c).
Proof.
  intros c Ht. unfold undirected_edges. apply NoDup_flat_map.
  - apply zrange_NoDup.
  - intros v Hv. destruct (pyget c v) as [p|]; [|constructor].
    destruct (p =? -1); [constructor|]. constructor; [intros []|constructor].
  - intros x y e Hx Hy Hex Hey.
    apply in_zrange in Hx. apply in_zrange in Hy.
    rewrite pyget_nonneg in Hex, Hey by lia.
    destruct (zget c x) as [p|] eqn:Ex; [|inversion Hex].
    destruct (zget c y) as [q|] eqn:Ey; [|inversion Hey].
    destruct (p =? -1) eqn:Ep; [inversion Hex|]. destruct (q =? -1) eqn:Eq; [inversion Hey|].
    destruct Hex as [<-|[]]. destruct Hey as [Heq|[]]. inversion Heq as [[Hmin Hmax]].
    destruct (Z.eq_dec x y) as [|Hne]; auto. exfalso.
    assert (x = q /\ y = p) by lia. destruct H as [-> ->].
    eapply no_two_cycle; eauto.
Qed.

Theorem to_root_tree_perm : forall c i, tree_parent c -> 0 <= i < zlen c ->
    exists c', to_root c i = Ok c' /\ length c' = length c /\
               Permutation (undirected_edges c') (undirected_edges c) /\
               roots c' = [i] /\ tree_parent c'.
Proof.
  intros c i Ht Hi.
  destruct (to_root_tree c i Ht Hi) as [c' [H1 [H2 [H3 [H4 H5]]]]].
  exists c'. split; auto. split; auto. split; [|split; auto].
  apply NoDup_Permutation; auto using undirected_edges_NoDup.
Qed.

Theorem to_root_seq_tree_perm : forall indices c, tree_parent c -> (forall i, In i indices -> 0 <= i < zlen c) ->
    exists c', to_root_seq c indices = Ok c' /\ length c' = length c /\
               Permutation (undirected_edges c') (undirected_edges c) /\
               roots c' = match indices with [] => roots c | _ => [last indices 0] end /\ tree_parent c'.
Proof.
  intros indices c Ht Hin.
  destruct (to_root_seq_tree indices c Ht Hin) as [c' [H1 [H2 [H3 [H4 H5]]]]].
  exists c'. split; auto. split; auto. split; [|split; auto].
  apply NoDup_Permutation; auto using undirected_edges_NoDup.
Qed.

(* ------------------------------------------------------------------ frame: operations on one morphology cannot change
   another one built from the same arrays (nor the arrays themselves: `to_root c i` is a new list, `c` is a value).
   Any interleaving of re-rootings of A and B gives what each sequence gives alone. *)
Theorem run_two_independent : forall ops cA cB,
    run_two cA cB ops =
    match to_root_seq cA (ops_of MA ops), to_root_seq cB (ops_of MB ops) with
    | Ok a, Ok b => Ok (a, b)
    | _, _ => run_two cA cB ops
    end.
Proof.
  intros ops cA cB.
  destruct (to_root_seq cA (ops_of MA ops)) as [a| |] eqn:EA; auto.
  destruct (to_root_seq cB (ops_of MB ops)) as [b| |] eqn:EB; auto.
  revert cA cB a b EA EB.
  induction ops as [|[[|] i] t IH]; intros cA cB a b EA EB.
  - simpl in *. congruence.
  - unfold ops_of in EA, EB. simpl in EA, EB. fold (ops_of MA t) in EA. fold (ops_of MB t) in EB.
    simpl. destruct (to_root cA i) as [c| |]; try discriminate. eapply IH; eauto.
  - unfold ops_of in EA, EB. simpl in EA, EB. fold (ops_of MA t) in EA. fold (ops_of MB t) in EB.
    simpl. destruct (to_root cB i) as [c| |]; try discriminate. eapply IH; eauto.
Qed.

Theorem run_two_frame : forall ops c,
    tree_parent c -> (forall o, In o ops -> 0 <= snd o < zlen c) ->
    exists a b, run_two c c ops = Ok (a, b) /\
                to_root_seq c (ops_of MA ops) = Ok a /\ to_root_seq c (ops_of MB ops) = Ok b /\
                Permutation (undirected_edges a) (undirected_edges c) /\
                Permutation (undirected_edges b) (undirected_edges c) /\
                tree_parent a /\ tree_parent b /\
                (ops_of MB ops = [] -> b = c) /\ (ops_of MA ops = [] -> a = c).
Proof.
  intros ops c Ht Hin.
  assert (HinW : forall w i, In i (ops_of w ops) -> 0 <= i < zlen c).
  { intros w i Hi. unfold ops_of in Hi. apply in_map_iff in Hi. destruct Hi as [o [<- Ho]].
    apply filter_In in Ho. apply Hin. tauto. }
  destruct (to_root_seq_tree_perm (ops_of MA ops) c Ht (HinW MA)) as [a [A1 [_ [A3 [_ A5]]]]].
  destruct (to_root_seq_tree_perm (ops_of MB ops) c Ht (HinW MB)) as [b [B1 [_ [B3 [_ B5]]]]].
  exists a, b. rewrite run_two_independent, A1, B1.
  repeat (split; auto).
  - intros E. rewrite E in B1. simpl in B1. congruence.
  - intros E. rewrite E in A1. simpl in A1. congruence.
Qed.
