(* C13: the domain of the theorems is decidable — wfb / root_has_proxb (Model/Morph.v) are sound, so the kernel can
   certify for every generated case that the theorems apply to it (component 12 of `mismatches`). *)
From Coq Require Import List ZArith QArith Bool Lia Permutation.
From LNML Require Import Model.Morph Proofs.MorphP Proofs.MorphP1 Proofs.MorphP2 Proofs.MorphP5.
Import ListNotations.
Open Scope Z_scope.

Lemma Zlist_eqb_eq : forall a b, Zlist_eqb a b = true -> a = b.
Proof.
  induction a as [|x r IH]; intros [|y s] H; simpl in H; try discriminate; auto.
  apply andb_prop in H. destruct H as [H1 H2]. apply Z.eqb_eq in H1. f_equal; auto.
Qed.

Lemma rootedb_sound : forall c, NoDup (ids c) -> forall k s, In s c -> rootedb k c s = true ->
  exists n, Rooted c (sid s) n /\ (n <= k)%nat.
Proof.
  intros c Hnd. induction k as [|k IH]; intros s Hs H; simpl in H.
  - destruct (sparent s) as [[p f]|] eqn:E; [discriminate|]. exists O. split; [now constructor|lia].
  - destruct (sparent s) as [[p f]|] eqn:E.
    + destruct (find_seg c p) as [ps|] eqn:Ef; [|discriminate]. apply find_seg_some in Ef. destruct Ef as [Hps Hid].
      destruct (IH ps Hps H) as [n [Hn Hle]]. exists (S n). split; [|lia].
      eapply R_kid; eauto. now rewrite <- Hid.
    + exists O. split; [now constructor|lia].
Qed.

Theorem wfb_sound : forall c, wfb c = true -> wf c.
Proof.
  intros c H. unfold wfb in H. apply andb_prop in H. destruct H as [H H3]. apply andb_prop in H. destruct H as [H1 H2].
  assert (Hnd : NoDup (ids c)).
  { apply Zlist_eqb_eq in H1. rewrite <- H1. apply dedup_nodup. }
  split; [exact Hnd|]. split.
  - apply Nat.eqb_eq in H2. destruct (filter parentless c) as [|r [|r2 rest]] eqn:Ef; try discriminate.
    assert (Hr : In r (filter parentless c)) by (rewrite Ef; now left).
    apply filter_In in Hr. destruct Hr as [Hr Hp]. exists r. repeat split; auto.
    + unfold parentless in Hp. destruct (sparent r); [discriminate|reflexivity].
    + intros s Hs Hsp. assert (Hin : In s (filter parentless c)).
      { apply filter_In. split; auto. unfold parentless. now rewrite Hsp. }
      rewrite Ef in Hin. destruct Hin as [<-|[]]. reflexivity.
  - intros s Hs. rewrite forallb_forall in H3. destruct (rootedb_sound c Hnd _ s Hs (H3 s Hs)) as [n [Hn Hle]].
    exists n. split; auto. destruct c; [inversion Hs|]. simpl in *. lia.
Qed.

Theorem root_has_proxb_sound : forall c, root_has_proxb c = true -> root_has_prox c.
Proof.
  intros c H s Hs Hp Hx. unfold root_has_proxb in H. rewrite forallb_forall in H. specialize (H s Hs).
  rewrite Hp, Hx in H. discriminate.
Qed.

Example wfb_example : wfb MorphP5.ex_cell = true /\ root_has_proxb MorphP5.ex_cell = true.
Proof. vm_compute. split; reflexivity. Qed.
