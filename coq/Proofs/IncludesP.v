(* C06 proofs, part 1: paths and the algebra of add_all_to_document (Model/Includes.v: add_one/add_all). *)
From Coq Require Import String List Bool ZArith Arith Lia.
From LNML Require Import Model.Includes.
Import ListNotations.
Open Scope string_scope.

(* ------------------------------------------------------------------ paths *)
Lemma path_eqb_eq : forall a b, path_eqb a b = true <-> a = b.
Proof.
  induction a as [|x a IH]; destruct b as [|y b]; simpl; split; intro H; try discriminate; auto.
  - apply andb_true_iff in H. destruct H as [H1 H2]. apply String.eqb_eq in H1. apply IH in H2. subst. reflexivity.
  - inversion H; subst. rewrite String.eqb_refl. simpl. apply IH. reflexivity.
Qed.

Lemma path_eqb_refl : forall a, path_eqb a a = true.
Proof. intro a. apply path_eqb_eq. reflexivity. Qed.

Lemma mem_path_In : forall p l, mem_path p l = true <-> In p l.
Proof.
  intros p l. unfold mem_path. rewrite existsb_exists. split.
  - intros [q [Hq He]]. apply path_eqb_eq in He. subst. exact Hq.
  - intro H. exists p. split; [exact H | apply path_eqb_refl].
Qed.

Lemma mem_path_false : forall p l, mem_path p l = false <-> ~ In p l.
Proof.
  intros p l. rewrite <- mem_path_In. destruct (mem_path p l); split; intro H; try discriminate; auto.
  exfalso. apply H. reflexivity.
Qed.

Lemma lookup_In : forall p l f, lookup p l = Some f -> In (p, f) l.
Proof.
  induction l as [|[q g] l IH]; simpl; intros f H; [discriminate|].
  destruct (path_eqb p q) eqn:E.
  - apply path_eqb_eq in E. inversion H; subst. left. reflexivity.
  - right. apply IH. exact H.
Qed.

Lemma lookup_None : forall p l, lookup p l = None -> ~ In p (map fst l).
Proof.
  induction l as [|[q g] l IH]; simpl; intros H; [tauto|].
  destruct (path_eqb p q) eqn:E; [discriminate|].
  intros [Hq|Hq].
  - subst. rewrite path_eqb_refl in E. discriminate.
  - exact (IH H Hq).
Qed.

Lemma is_file_In : forall fs p, is_file fs p = true -> In p (map fst (fs_files fs)).
Proof.
  intros fs p H. unfold is_file in H. destruct (lookup p (fs_files fs)) eqn:E; [|discriminate].
  apply lookup_In in E. apply in_map_iff. exists (p, f). split; [reflexivity | exact E].
Qed.

(* --------------------------------------------------------------- same_key *)
Lemma same_key_sym : forall a b, same_key a b = same_key b a.
Proof.
  intros a b. unfold same_key. rewrite (String.eqb_sym (c_list b) (c_list a)).
  destruct (c_list a =? c_list b); simpl; [|reflexivity].
  destruct (c_id a), (c_id b); try reflexivity. apply String.eqb_sym.
Qed.

Lemma same_key_trans : forall a b c, same_key a b = true -> same_key b c = true -> same_key a c = true.
Proof.
  intros a b c. unfold same_key. intros H1 H2.
  apply andb_true_iff in H1. destruct H1 as [L1 I1]. apply andb_true_iff in H2. destruct H2 as [L2 I2].
  apply String.eqb_eq in L1. apply String.eqb_eq in L2.
  apply andb_true_iff. split.
  - apply String.eqb_eq. congruence.
  - destruct (c_id a), (c_id b), (c_id c); try discriminate; try reflexivity.
    apply String.eqb_eq in I1. apply String.eqb_eq in I2. apply String.eqb_eq. congruence.
Qed.

Lemma same_key_list : forall a b, same_key a b = true -> c_list a = c_list b.
Proof.
  intros a b H. unfold same_key in H. apply andb_true_iff in H. destruct H as [L _].
  apply String.eqb_eq in L. symmetry. exact L.
Qed.

Lemma same_key_noid_l : forall a b, c_id a = NoIdField -> same_key a b = false.
Proof.
  intros a b H. unfold same_key. rewrite H. destruct (c_list b =? c_list a); simpl; [|reflexivity].
  destruct (c_id b); reflexivity.
Qed.

Lemma same_key_noid_r : forall a b, c_id b = NoIdField -> same_key a b = false.
Proof. intros a b H. rewrite same_key_sym. apply same_key_noid_l. exact H. Qed.

Lemma same_key_refl : forall a, c_id a <> NoIdField -> same_key a a = true.
Proof.
  intros a H. unfold same_key. rewrite String.eqb_refl. simpl.
  destruct (c_id a); [congruence | reflexivity | apply String.eqb_refl].
Qed.

(* keyed e t : add_all_to_document finds e's id in list t and does not append e *)
Definition keyed (e : comp) (t : list comp) : bool := existsb (same_key e) t.

Lemma keyed_app : forall e a b, keyed e (a ++ b)%list = keyed e a || keyed e b.
Proof. intros. unfold keyed. apply existsb_app. Qed.

Lemma keyed_trans : forall e c t, same_key e c = true -> keyed c t = true -> keyed e t = true.
Proof.
  intros e c t H K. unfold keyed in *. apply existsb_exists in K. destruct K as [c' [Hin Hc']].
  apply existsb_exists. exists c'. split; [exact Hin|]. eapply same_key_trans; eassumption.
Qed.

Lemma keyed_noid : forall e t, c_id e = NoIdField -> keyed e t = false.
Proof.
  intros e t H. unfold keyed. induction t as [|c t IH]; simpl; [reflexivity|].
  rewrite (same_key_noid_l e c H). exact IH.
Qed.

(* ---------------------------------------------------------------- add_all *)
Lemma add_one_unfold : forall t e, add_one t e = if keyed e t then t else (t ++ [e])%list.
Proof. reflexivity. Qed.

Lemma add_all_nil : forall t, add_all [] t = t.
Proof. reflexivity. Qed.

Lemma add_all_cons : forall e s t, add_all (e :: s) t = add_all s (add_one t e).
Proof. reflexivity. Qed.

Lemma add_all_app : forall s1 s2 t, add_all (s1 ++ s2)%list t = add_all s2 (add_all s1 t).
Proof. intros. unfold add_all. apply fold_left_app. Qed.

Lemma add_all_snoc : forall s e t, add_all (s ++ [e])%list t = add_one (add_all s t) e.
Proof. intros. rewrite add_all_app. reflexivity. Qed.

Lemma keyed_add_one : forall e t c, keyed e (add_one t c) = keyed e t || (negb (keyed c t) && same_key e c).
Proof.
  intros e t c. rewrite add_one_unfold. destruct (keyed c t) eqn:K; simpl.
  - rewrite orb_false_r. reflexivity.
  - rewrite keyed_app. simpl. rewrite orb_false_r. reflexivity.
Qed.

(* after the merge an id is present iff it was present in the target or in the source *)
Lemma keyed_cons : forall e c s, keyed e (c :: s) = same_key e c || keyed e s.
Proof. reflexivity. Qed.

Lemma keyed_add_all : forall s e t, keyed e (add_all s t) = keyed e t || keyed e s.
Proof.
  induction s as [|c s IH]; intros e t.
  - simpl. rewrite orb_false_r. reflexivity.
  - rewrite add_all_cons, IH, keyed_add_one, keyed_cons.
    destruct (keyed e t) eqn:K1; simpl; [reflexivity|].
    destruct (same_key e c) eqn:K2; simpl.
    + destruct (keyed c t) eqn:K3; simpl; [|reflexivity].
      rewrite (keyed_trans e c t K2 K3) in K1. discriminate.
    + rewrite andb_false_r. reflexivity.
Qed.

Lemma add_all_prefix : forall s t, exists n, add_all s t = (t ++ n)%list /\ incl n s.
Proof.
  induction s as [|c s IH]; intro t.
  - exists []. split; [rewrite app_nil_r; reflexivity | apply incl_refl].
  - rewrite add_all_cons, add_one_unfold. destruct (keyed c t).
    + destruct (IH t) as [n [E I]]. exists n. split; [exact E | apply incl_tl; exact I].
    + destruct (IH (t ++ [c])%list) as [n [E I]]. exists (c :: n). split.
      * rewrite E, <- app_assoc. reflexivity.
      * apply incl_cons; [left; reflexivity | apply incl_tl; exact I].
Qed.

Lemma In_add_all : forall s t c, In c (add_all s t) -> In c t \/ In c s.
Proof.
  intros s t c H. destruct (add_all_prefix s t) as [n [E I]]. rewrite E in H.
  apply in_app_or in H. destruct H; [left; assumption | right; apply I; assumption].
Qed.

Lemma In_add_all_tgt : forall s t c, In c t -> In c (add_all s t).
Proof.
  intros s t c H. destruct (add_all_prefix s t) as [n [E _]]. rewrite E. apply in_or_app. left. exact H.
Qed.

(* L: adding to the source first or to the merged target afterwards is the same *)
Lemma add_all_add_one : forall w e t, add_all (add_one w e) t = add_one (add_all w t) e.
Proof.
  intros w e t. rewrite (add_one_unfold w e). destruct (keyed e w) eqn:K.
  - rewrite add_one_unfold, keyed_add_all, K, orb_true_r. reflexivity.
  - apply add_all_snoc.
Qed.

(* merging is associative: merge t (merge u x) = merge (merge t u) x, with merge t s = add_all s t *)
Theorem add_all_assoc : forall x u t, add_all (add_all x u) t = add_all x (add_all u t).
Proof.
  intro x. induction x as [|e x IH] using rev_ind; intros u t.
  - reflexivity.
  - rewrite !add_all_snoc, add_all_add_one, IH. reflexivity.
Qed.

Lemma merge_all_cons : forall d c cs, merge_all d (c :: cs) = merge_all (add_all c d) cs.
Proof. reflexivity. Qed.

Lemma merge_all_app : forall d cs1 cs2, merge_all d (cs1 ++ cs2)%list = merge_all (merge_all d cs1) cs2.
Proof. intros. unfold merge_all. apply fold_left_app. Qed.

Lemma merge_all_assoc : forall cs c d, add_all (merge_all c cs) d = merge_all (add_all c d) cs.
Proof.
  induction cs as [|x cs IH]; intros c d; [reflexivity|].
  rewrite !merge_all_cons, IH, add_all_assoc. reflexivity.
Qed.

(* ------------------------------------------------------ what a merge keeps *)
(* key-uniqueness of a member list: no two entries that add_all would identify *)
Fixpoint keys_unique (d : list comp) : Prop :=
  match d with
  | [] => True
  | c :: r => keyed c r = false /\ keys_unique r
  end.

Lemma keys_unique_snoc : forall t e, keys_unique t -> keyed e t = false -> keys_unique (t ++ [e])%list.
Proof.
  induction t as [|c t IH]; simpl; intros e U K.
  - split; [reflexivity | exact I].
  - destruct U as [U1 U2]. apply orb_false_iff in K. destruct K as [K1 K2]. split.
    + rewrite keyed_app, U1. simpl. rewrite same_key_sym, K1. reflexivity.
    + apply IH; assumption.
Qed.

Lemma keys_unique_add_all : forall s t, keys_unique t -> keys_unique (add_all s t).
Proof.
  induction s as [|c s IH]; intros t U; [exact U|].
  rewrite add_all_cons. apply IH. rewrite add_one_unfold. destruct (keyed c t) eqn:K; [exact U|].
  apply keys_unique_snoc; assumption.
Qed.

Lemma keys_unique_merge_all : forall cs d, keys_unique d -> keys_unique (merge_all d cs).
Proof.
  induction cs as [|c cs IH]; intros d U; [exact U|].
  rewrite merge_all_cons. apply IH. apply keys_unique_add_all. exact U.
Qed.

(* every component of a merged-in document is in the result, or an entry with its id is *)
Lemma add_all_covers : forall s t c, In c s -> In c (add_all s t) \/ keyed c (add_all s t) = true.
Proof.
  intros s t c H. destruct (c_id c) eqn:Ec.
  - (* id-less: always appended *) left.
    apply in_split in H. destruct H as [s1 [s2 E]]. subst s.
    rewrite add_all_app, add_all_cons. apply In_add_all_tgt.
    rewrite add_one_unfold, (keyed_noid c _ Ec). apply in_or_app. right. left. reflexivity.
  - right. rewrite keyed_add_all. apply orb_true_iff. right. unfold keyed. apply existsb_exists.
    exists c. split; [exact H | apply same_key_refl; congruence].
  - right. rewrite keyed_add_all. apply orb_true_iff. right. unfold keyed. apply existsb_exists.
    exists c. split; [exact H | apply same_key_refl; congruence].
Qed.

Definition comp_eq_dec : forall a b : comp, {a = b} + {a <> b}.
Proof. decide equality; [apply Z.eq_dec | decide equality; apply string_dec | apply string_dec]. Defined.

(* an id-less component (ComponentType) is never skipped: multiplicities add up *)
Lemma count_add_all_noid : forall s t e, c_id e = NoIdField ->
  count_occ comp_eq_dec (add_all s t) e = (count_occ comp_eq_dec t e + count_occ comp_eq_dec s e)%nat.
Proof.
  induction s as [|c s IH]; intros t e He.
  - simpl. lia.
  - rewrite add_all_cons, IH by exact He. rewrite add_one_unfold. simpl.
    destruct (comp_eq_dec c e) as [E|N].
    + subst c. rewrite (keyed_noid e t He), count_occ_app. simpl.
      destruct (comp_eq_dec e e); [lia | congruence].
    + destruct (keyed c t); [lia|]. rewrite count_occ_app. simpl.
      destruct (comp_eq_dec c e); [congruence | lia].
Qed.

Lemma count_merge_all_noid : forall cs d e, c_id e = NoIdField ->
  count_occ comp_eq_dec (merge_all d cs) e =
  (count_occ comp_eq_dec d e + count_occ comp_eq_dec (concat cs) e)%nat.
Proof.
  induction cs as [|c cs IH]; intros d e He.
  - simpl. lia.
  - rewrite merge_all_cons, IH by exact He. rewrite count_add_all_noid by exact He.
    simpl. rewrite count_occ_app. lia.
Qed.

Lemma In_merge_all : forall cs d c, In c (merge_all d cs) -> In c d \/ exists s, In s cs /\ In c s.
Proof.
  induction cs as [|x cs IH]; intros d c H; [left; exact H|].
  rewrite merge_all_cons in H. apply IH in H. destruct H as [H|[s [Hs Hc]]].
  - apply In_add_all in H. destruct H; [left; assumption | right; exists x; split; [left; reflexivity | assumption]].
  - right. exists s. split; [right; assumption | assumption].
Qed.

Lemma In_merge_all_tgt : forall cs d c, In c d -> In c (merge_all d cs).
Proof.
  induction cs as [|x cs IH]; intros d c H; [exact H|].
  rewrite merge_all_cons. apply IH. apply In_add_all_tgt. exact H.
Qed.

Lemma keyed_merge_all_mono : forall cs d e, keyed e d = true -> keyed e (merge_all d cs) = true.
Proof.
  induction cs as [|x cs IH]; intros d e H; [exact H|].
  rewrite merge_all_cons. apply IH. rewrite keyed_add_all, H. reflexivity.
Qed.

Lemma merge_all_covers : forall cs d s c, In s cs -> In c s ->
  In c (merge_all d cs) \/ keyed c (merge_all d cs) = true.
Proof.
  induction cs as [|x cs IH]; intros d s c Hs Hc; [destruct Hs|].
  rewrite merge_all_cons. destruct Hs as [E|Hs].
  - subst x. destruct (add_all_covers s d c Hc) as [H|H].
    + left. apply In_merge_all_tgt. exact H.
    + right. apply keyed_merge_all_mono. exact H.
  - eapply IH; eassumption.
Qed.

(* -------------------------------------------- the flat list is only a device *)
(* NeuroMLDocument has one Python list per member; the model keeps one list and looks at it
   member by member.  The merge commutes with that view. *)
Lemma proj_app : forall l a b, proj l (a ++ b)%list = (proj l a ++ proj l b)%list.
Proof. intros. unfold proj. apply filter_app. Qed.

Lemma proj_cons : forall l c t, proj l (c :: t) = if c_list c =? l then c :: proj l t else proj l t.
Proof. reflexivity. Qed.

Lemma keyed_proj : forall e t, keyed e (proj (c_list e) t) = keyed e t.
Proof.
  intros e t. induction t as [|c t IH]; [reflexivity|].
  rewrite proj_cons, (keyed_cons e c t). destruct (c_list c =? c_list e) eqn:E.
  - rewrite keyed_cons, IH. reflexivity.
  - rewrite IH. unfold same_key. rewrite E. reflexivity.
Qed.

Lemma proj_add_one : forall l t e,
  proj l (add_one t e) = if c_list e =? l then add_one (proj l t) e else proj l t.
Proof.
  intros l t e. rewrite add_one_unfold. destruct (c_list e =? l) eqn:E.
  - apply String.eqb_eq in E. subst l. rewrite add_one_unfold, keyed_proj.
    destruct (keyed e t); [reflexivity|]. rewrite proj_app. simpl. rewrite String.eqb_refl. reflexivity.
  - destruct (keyed e t); [reflexivity|]. rewrite proj_app. simpl. rewrite E. apply app_nil_r.
Qed.

Theorem proj_add_all : forall s l t, proj l (add_all s t) = add_all (proj l s) (proj l t).
Proof.
  induction s as [|e s IH]; intros l t; [reflexivity|].
  rewrite add_all_cons, IH, proj_add_one. simpl. destruct (c_list e =? l); reflexivity.
Qed.
