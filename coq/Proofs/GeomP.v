(* C12 — proofs about the geometry specification of Model/Geom.v, and the transfer of every law to any
   translated table that is shown (per run, in Inst_C12.v) to compute the reference functions. *)
From Coq Require Import ZArith List Bool Reals Lra Psatz.
From LNML Require Import Model.Geom.
Import ListNotations.
Local Open Scope R_scope.

(* ------------------------------------------------------------------ booleans on R *)
Lemma Reqb_true : forall a b, Reqb a b = true <-> a = b.
Proof. intros a b. unfold Reqb. destruct (Req_EM_T a b); split; intros; congruence. Qed.

Lemma Reqb_false : forall a b, Reqb a b = false <-> a <> b.
Proof. intros a b. unfold Reqb. destruct (Req_EM_T a b); split; intros; congruence. Qed.

Lemma Reqb_refl : forall a, Reqb a a = true.
Proof. intros. apply Reqb_true. reflexivity. Qed.

Lemma Reqb_sym : forall a b, Reqb a b = Reqb b a.
Proof.
  intros a b. destruct (Reqb a b) eqn:E.
  - symmetry. apply Reqb_true. apply Reqb_true in E. congruence.
  - symmetry. apply Reqb_false. apply Reqb_false in E. congruence.
Qed.

Lemma Reqb_add : forall a b t, Reqb (a + t) (b + t) = Reqb a b.
Proof.
  intros. destruct (Reqb a b) eqn:E.
  - apply Reqb_true. apply Reqb_true in E. lra.
  - apply Reqb_false. apply Reqb_false in E. lra.
Qed.

Lemma Reqb_mul : forall a b k, k <> 0 -> Reqb (k * a) (k * b) = Reqb a b.
Proof.
  intros a b k Hk. destruct (Reqb a b) eqn:E.
  - apply Reqb_true. apply Reqb_true in E. subst. reflexivity.
  - apply Reqb_false. apply Reqb_false in E. intro H. apply E. apply Rmult_eq_reg_l with k; assumption.
Qed.

Lemma coincideb_true : forall p d, coincideb p d = true <-> coincide p d.
Proof.
  intros p d. unfold coincideb, coincide. rewrite !andb_true_iff, !Reqb_true. tauto.
Qed.

Lemma coincideb_false : forall p d, coincideb p d = false <-> ~ coincide p d.
Proof.
  intros p d. rewrite <- coincideb_true. destruct (coincideb p d); split; intros; congruence.
Qed.

Lemma coincideb_sym : forall p d, coincideb p d = coincideb d p.
Proof. intros. unfold coincideb. rewrite (Reqb_sym (p_x p)), (Reqb_sym (p_y p)), (Reqb_sym (p_z p)). reflexivity. Qed.

(* ------------------------------------------------------------------ transformations *)
Definition translate (tx ty tz : R) (p : pt R) : pt R := MkPt (p_x p + tx) (p_y p + ty) (p_z p + tz) (p_d p).
Definition scale (k : R) (p : pt R) : pt R := MkPt (k * p_x p) (k * p_y p) (k * p_z p) (k * p_d p).

Lemma coincideb_translate : forall tx ty tz p d, coincideb (translate tx ty tz p) (translate tx ty tz d) = coincideb p d.
Proof. intros. unfold coincideb, translate. simpl. rewrite !Reqb_add. reflexivity. Qed.

Lemma coincideb_scale : forall k p d, k <> 0 -> coincideb (scale k p) (scale k d) = coincideb p d.
Proof. intros. unfold coincideb, scale. simpl. rewrite !Reqb_mul by assumption. reflexivity. Qed.

(* ------------------------------------------------------------------ the distance *)
Lemma dist_radicand_nonneg : forall a b : pt R,
  0 <= (p_x a - p_x b) * (p_x a - p_x b) + (p_y a - p_y b) * (p_y a - p_y b) + (p_z a - p_z b) * (p_z a - p_z b).
Proof.
  intros. pose proof (Rle_0_sqr (p_x a - p_x b)) as H1. pose proof (Rle_0_sqr (p_y a - p_y b)) as H2.
  pose proof (Rle_0_sqr (p_z a - p_z b)) as H3. unfold Rsqr in *. lra.
Qed.

Lemma dist_nonneg : forall a b, 0 <= dist a b.
Proof. intros. unfold dist. apply sqrt_pos. Qed.

Lemma dist_sym : forall a b, dist a b = dist b a.
Proof. intros. unfold dist. f_equal. ring. Qed.

Lemma dist_sqr : forall a b,
  dist a b * dist a b = (p_x a - p_x b) * (p_x a - p_x b) + (p_y a - p_y b) * (p_y a - p_y b) + (p_z a - p_z b) * (p_z a - p_z b).
Proof. intros. unfold dist. apply sqrt_sqrt. apply dist_radicand_nonneg. Qed.

(* the Euclidean distance is zero exactly for coinciding points *)
Lemma dist_zero_iff : forall a b, dist a b = 0 <-> coincide a b.
Proof.
  intros a b. unfold coincide. split.
  - intro H. pose proof (dist_sqr a b) as S. rewrite H in S.
    pose proof (Rle_0_sqr (p_x a - p_x b)) as H1. pose proof (Rle_0_sqr (p_y a - p_y b)) as H2.
    pose proof (Rle_0_sqr (p_z a - p_z b)) as H3. unfold Rsqr in *.
    assert (U : (p_x a - p_x b) * (p_x a - p_x b) = 0) by lra.
    assert (V : (p_y a - p_y b) * (p_y a - p_y b) = 0) by lra.
    assert (W : (p_z a - p_z b) * (p_z a - p_z b) = 0) by lra.
    apply Rmult_integral in U. apply Rmult_integral in V. apply Rmult_integral in W.
    repeat split; [destruct U | destruct V | destruct W]; lra.
  - intros (Hx & Hy & Hz). unfold dist. rewrite Hx, Hy, Hz.
    replace ((p_x b - p_x b) * (p_x b - p_x b) + (p_y b - p_y b) * (p_y b - p_y b) + (p_z b - p_z b) * (p_z b - p_z b)) with 0 by ring.
    apply sqrt_0.
Qed.

Lemma dist_translate : forall tx ty tz a b, dist (translate tx ty tz a) (translate tx ty tz b) = dist a b.
Proof. intros. unfold dist, translate. simpl. f_equal. ring. Qed.

Lemma dist_scale : forall k a b, 0 <= k -> dist (scale k a) (scale k b) = k * dist a b.
Proof.
  intros k a b Hk. unfold dist, scale. simpl.
  replace ((k * p_x a - k * p_x b) * (k * p_x a - k * p_x b) + (k * p_y a - k * p_y b) * (k * p_y a - k * p_y b)
           + (k * p_z a - k * p_z b) * (k * p_z a - k * p_z b))
    with ((k * k) * ((p_x a - p_x b) * (p_x a - p_x b) + (p_y a - p_y b) * (p_y a - p_y b) + (p_z a - p_z b) * (p_z a - p_z b)))
    by ring.
  rewrite sqrt_mult; [| nra | apply dist_radicand_nonneg].
  rewrite sqrt_square by assumption. reflexivity.
Qed.

(* the distance really is the Euclidean metric: triangle inequality is not needed for C12; what is needed is
   that it is the non-negative root of the sum of squared coordinate differences *)
Lemma dist_characterised : forall a b L,
  0 <= L ->
  L * L = (p_x a - p_x b) * (p_x a - p_x b) + (p_y a - p_y b) * (p_y a - p_y b) + (p_z a - p_z b) * (p_z a - p_z b) ->
  L = dist a b.
Proof.
  intros a b L HL HS. unfold dist. rewrite <- HS. symmetry. apply sqrt_square. assumption.
Qed.

(* ------------------------------------------------------------------ closed forms *)
Lemma frustum_volume_nonneg : forall L r1 r2, 0 <= L -> 0 <= frustum_volume L r1 r2.
Proof.
  intros L r1 r2 HL. unfold frustum_volume.
  assert (0 <= r1 * r1 + r2 * r2 + r1 * r2) by (pose proof (pow2_ge_0 (r1 + r2 / 2)); nra).
  assert (0 <= PI / 3) by (pose proof PI_RGT_0; lra).
  apply Rmult_le_pos; [apply Rmult_le_pos|]; assumption.
Qed.

Lemma frustum_area_nonneg : forall L r1 r2, 0 <= r1 + r2 -> 0 <= frustum_area L r1 r2.
Proof.
  intros L r1 r2 H. unfold frustum_area.
  assert (0 <= PI) by (pose proof PI_RGT_0; lra).
  apply Rmult_le_pos; [apply Rmult_le_pos; assumption | apply sqrt_pos].
Qed.

Lemma sphere_volume_nonneg : forall r, 0 <= r -> 0 <= sphere_volume r.
Proof.
  intros r H. unfold sphere_volume. pose proof PI_RGT_0.
  assert (0 <= r * r * r) by (apply Rmult_le_pos; [apply Rmult_le_pos|]; assumption).
  assert (0 <= 4 / 3 * PI) by lra. apply Rmult_le_pos; assumption.
Qed.

Lemma sphere_area_nonneg : forall r, 0 <= sphere_area r.
Proof. intros r. unfold sphere_area. pose proof PI_RGT_0. assert (0 <= r * r) by nra. nra. Qed.

Lemma frustum_volume_sym : forall L r1 r2, frustum_volume L r1 r2 = frustum_volume L r2 r1.
Proof. intros. unfold frustum_volume. ring. Qed.

Lemma frustum_area_sym : forall L r1 r2, frustum_area L r1 r2 = frustum_area L r2 r1.
Proof. intros. unfold frustum_area. replace ((r2 - r1) * (r2 - r1)) with ((r1 - r2) * (r1 - r2)) by ring. ring. Qed.

Lemma frustum_volume_scale : forall k L r1 r2, frustum_volume (k * L) (k * r1) (k * r2) = k * k * k * frustum_volume L r1 r2.
Proof. intros. unfold frustum_volume. field. Qed.

Lemma frustum_area_scale : forall k L r1 r2, 0 <= k ->
  frustum_area (k * L) (k * r1) (k * r2) = k * k * frustum_area L r1 r2.
Proof.
  intros k L r1 r2 Hk. unfold frustum_area.
  replace ((k * r1 - k * r2) * (k * r1 - k * r2) + k * L * (k * L)) with ((k * k) * ((r1 - r2) * (r1 - r2) + L * L)) by ring.
  rewrite sqrt_mult; [| apply Rmult_le_pos; assumption |
                     pose proof (Rle_0_sqr (r1 - r2)); pose proof (Rle_0_sqr L); unfold Rsqr in *; lra].
  rewrite sqrt_square by assumption. ring.
Qed.

(* a cylinder (equal radii) and a cone (one radius 0) are the familiar special cases *)
Lemma frustum_volume_cylinder : forall L r, frustum_volume L r r = PI * (r * r) * L.
Proof. intros. unfold frustum_volume. field. Qed.

Lemma frustum_area_cylinder : forall L r, 0 <= L -> frustum_area L r r = 2 * PI * r * L.
Proof.
  intros L r HL. unfold frustum_area. replace ((r - r) * (r - r) + L * L) with (L * L) by ring.
  rewrite sqrt_square by assumption. ring.
Qed.

Lemma frustum_volume_cone : forall L r, frustum_volume L r 0 = PI * (r * r) * L / 3.
Proof. intros. unfold frustum_volume. field. Qed.

Lemma rad_scale : forall k p, rad (scale k p) = k * rad p.
Proof. intros. unfold rad, scale. simpl. field. Qed.

Lemma rad_translate : forall tx ty tz p, rad (translate tx ty tz p) = rad p.
Proof. reflexivity. Qed.

Lemma rad_eq_iff : forall p d, rad p = rad d <-> p_d p = p_d d.
Proof. intros. unfold rad. split; intros; lra. Qed.

(* ------------------------------------------------------------------ the reference functions: which formula applies *)
Theorem ref_length_is_dist : forall p d, ref_length false p d = Val (dist p d).
Proof. reflexivity. Qed.

Theorem ref_volume_frustum : forall p d, ~ coincide p d ->
  ref_volume false p d = Val (frustum_volume (dist p d) (rad p) (rad d)).
Proof. intros p d H. unfold ref_volume. apply coincideb_false in H. rewrite H. reflexivity. Qed.

Theorem ref_volume_sphere : forall p d, coincide p d -> p_d p = p_d d ->
  ref_volume false p d = Val (sphere_volume (rad p)).
Proof.
  intros p d H E. unfold ref_volume. apply coincideb_true in H. rewrite H.
  apply rad_eq_iff in E. apply Reqb_true in E. rewrite E. reflexivity.
Qed.

Theorem ref_volume_ambiguous : forall p d, coincide p d -> p_d p <> p_d d -> ref_volume false p d = Exc.
Proof.
  intros p d H E. unfold ref_volume. apply coincideb_true in H. rewrite H.
  assert (E' : Reqb (rad p) (rad d) = false) by (apply Reqb_false; intro X; apply E; apply rad_eq_iff; exact X).
  rewrite E'. reflexivity.
Qed.

Theorem ref_area_frustum : forall p d, ~ coincide p d ->
  ref_area false p d = Val (frustum_area (dist p d) (rad p) (rad d)).
Proof. intros p d H. unfold ref_area. apply coincideb_false in H. rewrite H. reflexivity. Qed.

Theorem ref_area_sphere : forall p d, coincide p d -> p_d p = p_d d ->
  ref_area false p d = Val (sphere_area (rad p)).
Proof.
  intros p d H E. unfold ref_area. apply coincideb_true in H. rewrite H.
  apply rad_eq_iff in E. apply Reqb_true in E. rewrite E. reflexivity.
Qed.

Theorem ref_area_ambiguous : forall p d, coincide p d -> p_d p <> p_d d -> ref_area false p d = Exc.
Proof.
  intros p d H E. unfold ref_area. apply coincideb_true in H. rewrite H.
  assert (E' : Reqb (rad p) (rad d) = false) by (apply Reqb_false; intro X; apply E; apply rad_eq_iff; exact X).
  rewrite E'. reflexivity.
Qed.

(* ------------------------------------------------------------------ non-negativity *)
Theorem ref_length_nonneg : forall np p d v, ref_length np p d = Val v -> 0 <= v.
Proof. intros np p d v H. unfold ref_length in H. destruct np; inversion H. apply dist_nonneg. Qed.

Theorem ref_volume_nonneg : forall np p d v, 0 <= p_d p -> ref_volume np p d = Val v -> 0 <= v.
Proof.
  intros np p d v Hp H. unfold ref_volume in H. destruct np; [discriminate|].
  destruct (coincideb p d).
  - destruct (Reqb (rad p) (rad d)); inversion H. apply sphere_volume_nonneg. unfold rad. lra.
  - inversion H. apply frustum_volume_nonneg. apply dist_nonneg.
Qed.

(* for a proper frustum no sign condition at all is needed *)
Theorem ref_volume_frustum_nonneg : forall p d v, ~ coincide p d -> ref_volume false p d = Val v -> 0 <= v.
Proof.
  intros p d v Hc H. rewrite ref_volume_frustum in H by assumption. inversion H.
  apply frustum_volume_nonneg. apply dist_nonneg.
Qed.

Theorem ref_area_nonneg : forall np p d v, 0 <= p_d p + p_d d -> ref_area np p d = Val v -> 0 <= v.
Proof.
  intros np p d v Hs H. unfold ref_area in H. destruct np; [discriminate|].
  destruct (coincideb p d).
  - destruct (Reqb (rad p) (rad d)); inversion H. apply sphere_area_nonneg.
  - inversion H. apply frustum_area_nonneg. unfold rad. lra.
Qed.

(* ------------------------------------------------------------------ swapping the end points *)
Theorem ref_length_swap : forall np p d, ref_length np p d = ref_length np d p.
Proof. intros. unfold ref_length. rewrite dist_sym. reflexivity. Qed.

Theorem ref_volume_swap : forall np p d, ref_volume np p d = ref_volume np d p.
Proof.
  intros. unfold ref_volume. destruct np; [reflexivity|].
  rewrite (coincideb_sym d p), (Reqb_sym (rad d) (rad p)), (dist_sym d p), (frustum_volume_sym (dist p d) (rad d)).
  destruct (coincideb p d); [|reflexivity].
  destruct (Reqb (rad p) (rad d)) eqn:E; [|reflexivity].
  apply Reqb_true in E. rewrite E. reflexivity.
Qed.

Theorem ref_area_swap : forall np p d, ref_area np p d = ref_area np d p.
Proof.
  intros. unfold ref_area. destruct np; [reflexivity|].
  rewrite (coincideb_sym d p), (Reqb_sym (rad d) (rad p)), (dist_sym d p), (frustum_area_sym (dist p d) (rad d)).
  destruct (coincideb p d); [|reflexivity].
  destruct (Reqb (rad p) (rad d)) eqn:E; [|reflexivity].
  apply Reqb_true in E. rewrite E. reflexivity.
Qed.

(* ------------------------------------------------------------------ translation *)
Theorem ref_length_translate : forall np tx ty tz p d,
  ref_length np (translate tx ty tz p) (translate tx ty tz d) = ref_length np p d.
Proof. intros. unfold ref_length. rewrite dist_translate. reflexivity. Qed.

Theorem ref_volume_translate : forall np tx ty tz p d,
  ref_volume np (translate tx ty tz p) (translate tx ty tz d) = ref_volume np p d.
Proof. intros. unfold ref_volume. rewrite coincideb_translate, dist_translate, !rad_translate. reflexivity. Qed.

Theorem ref_area_translate : forall np tx ty tz p d,
  ref_area np (translate tx ty tz p) (translate tx ty tz d) = ref_area np p d.
Proof. intros. unfold ref_area. rewrite coincideb_translate, dist_translate, !rad_translate. reflexivity. Qed.

(* ------------------------------------------------------------------ uniform scaling by k > 0 *)
Theorem ref_length_scale : forall np k p d, 0 < k ->
  ref_length np (scale k p) (scale k d) = omap (Rmult k) (ref_length np p d).
Proof. intros. unfold ref_length. destruct np; [reflexivity|]. simpl. rewrite dist_scale by lra. reflexivity. Qed.

Theorem ref_volume_scale : forall np k p d, 0 < k ->
  ref_volume np (scale k p) (scale k d) = omap (Rmult (k * k * k)) (ref_volume np p d).
Proof.
  intros np k p d Hk. unfold ref_volume. destruct np; [reflexivity|].
  rewrite coincideb_scale by lra. rewrite !rad_scale. rewrite Reqb_mul by lra. rewrite dist_scale by lra.
  destruct (coincideb p d).
  - destruct (Reqb (rad p) (rad d)); simpl; [|reflexivity]. f_equal. unfold sphere_volume. ring.
  - simpl. f_equal. apply frustum_volume_scale.
Qed.

Theorem ref_area_scale : forall np k p d, 0 < k ->
  ref_area np (scale k p) (scale k d) = omap (Rmult (k * k)) (ref_area np p d).
Proof.
  intros np k p d Hk. unfold ref_area. destruct np; [reflexivity|].
  rewrite coincideb_scale by lra. rewrite !rad_scale. rewrite Reqb_mul by lra. rewrite dist_scale by lra.
  destruct (coincideb p d).
  - destruct (Reqb (rad p) (rad d)); simpl; [|reflexivity]. f_equal. unfold sphere_area. ring.
  - simpl. f_equal. apply frustum_area_scale. lra.
Qed.

(* ------------------------------------------------------------------ the inherited proximal point *)
Lemma lerp_0 : forall a b, lerp 0 a b = a.
Proof. intros [x y z d] b. unfold lerp. simpl. f_equal; ring. Qed.

Lemma lerp_1 : forall a b, lerp 1 a b = b.
Proof. intros a [x y z d]. unfold lerp. simpl. f_equal; ring. Qed.

(* the point lies on the line through a and b, at fraction f of the way *)
Lemma lerp_on_segment : forall f a b,
  p_x (lerp f a b) - p_x a = f * (p_x b - p_x a) /\
  p_y (lerp f a b) - p_y a = f * (p_y b - p_y a) /\
  p_z (lerp f a b) - p_z a = f * (p_z b - p_z a) /\
  p_d (lerp f a b) - p_d a = f * (p_d b - p_d a).
Proof. intros. unfold lerp. simpl. repeat split; ring. Qed.

Lemma dist_lerp : forall f a b, 0 <= f -> dist a (lerp f a b) = f * dist a b.
Proof.
  intros f a b Hf. apply eq_sym. apply dist_characterised.
  - apply Rmult_le_pos; [assumption | apply dist_nonneg].
  - replace (f * dist a b * (f * dist a b)) with (f * f * (dist a b * dist a b)) by ring.
    rewrite dist_sqr. unfold lerp. simpl. ring.
Qed.

(* one step of get_actual_proximal as it should be *)
Definition ref_step (own : option (pt R)) (par : option (R * outcome (pt R) * pt R)) : outcome (pt R) :=
  match own with
  | Some q => Val q
  | None =>
      match par with
      | None => Exc
      | Some (fr, rec, pd) => if Reqb fr 1 then Val pd else omap (fun pp => lerp fr pp pd) rec
      end
  end.

Definition pp_step_ok (pp : pprog) : Prop := forall own par, run_pp RA pp own par = ref_step own par.

Lemma actual_of_step : forall pp, pp_step_ok pp -> forall chain, actual_prox RA pp chain = ref_actual chain.
Proof.
  intros pp H chain. induction chain as [|s rest IH]; [reflexivity|].
  simpl. rewrite H. unfold ref_step.
  destruct (s_prox s) as [q|]; [reflexivity|].
  destruct rest as [|par rest']; [reflexivity|].
  rewrite IH. reflexivity.
Qed.

(* explicit value: a segment with its own proximal point keeps it; otherwise the point at fraction f along the
   parent, measured from the parent's own actual proximal point *)
Theorem ref_actual_own : forall s rest q, s_prox s = Some q -> ref_actual (s :: rest) = Val q.
Proof. intros s rest q H. simpl. rewrite H. reflexivity. Qed.

Theorem ref_actual_inherited : forall s par rest pp,
  s_prox s = None -> ref_actual (par :: rest) = Val pp ->
  ref_actual (s :: par :: rest) = Val (lerp (s_fract s) pp (s_dist par)).
Proof.
  intros s par rest pp H Hp. change (ref_actual (s :: par :: rest))
    with (match s_prox s with Some q => Val q | None =>
            if Reqb (s_fract s) 1 then Val (s_dist par)
            else omap (fun pp => lerp (s_fract s) pp (s_dist par)) (ref_actual (par :: rest)) end).
  rewrite H, Hp. destruct (Reqb (s_fract s) 1) eqn:E; [|reflexivity].
  apply Reqb_true in E. rewrite E, lerp_1. reflexivity.
Qed.

Theorem ref_actual_at_end : forall s par rest,
  s_prox s = None -> s_fract s = 1 -> ref_actual (s :: par :: rest) = Val (s_dist par).
Proof.
  intros s par rest H E. simpl. rewrite H. rewrite E. rewrite Reqb_refl. reflexivity.
Qed.

(* ------------------------------------------------------------------ transfer to a translated table *)
Record table_ok (g : geom_table) : Prop := MkTableOk {
  ok_length : forall np p d, run RA np (g_length g) (env_seg p d) = ref_length np p d;
  ok_volume : forall np p d, run RA np (g_volume g) (env_seg p d) = ref_volume np p d;
  ok_area : forall np p d, run RA np (g_area g) (env_seg p d) = ref_area np p d;
  ok_distance : forall a b, run RA false (g_distance g) (env_seg a b) = Val (dist a b);
  ok_actual : pp_step_ok (g_actual g);
  ok_cell_length : forall chain, run_cp RA g (g_cell_length g) chain = ref_cell ref_length chain;
  ok_cell_area : forall chain, run_cp RA g (g_cell_area g) chain = ref_cell ref_area chain;
  ok_cell_volume : forall chain, run_cp RA g (g_cell_volume g) chain = ref_cell ref_volume chain
}.

Section Transfer.
  Variable g : geom_table.
  Hypothesis G : table_ok g.

  Definition t_length (p d : pt R) : outcome R := run RA false (g_length g) (env_seg p d).
  Definition t_volume (p d : pt R) : outcome R := run RA false (g_volume g) (env_seg p d).
  Definition t_area (p d : pt R) : outcome R := run RA false (g_area g) (env_seg p d).

  Lemma t_length_eq : forall p d, t_length p d = ref_length false p d.
  Proof. intros. apply (ok_length g G). Qed.
  Lemma t_volume_eq : forall p d, t_volume p d = ref_volume false p d.
  Proof. intros. apply (ok_volume g G). Qed.
  Lemma t_area_eq : forall p d, t_area p d = ref_area false p d.
  Proof. intros. apply (ok_area g G). Qed.

  Theorem length_is_distance : forall p d, t_length p d = Val (dist p d).
  Proof. intros. rewrite t_length_eq. reflexivity. Qed.

  Theorem volume_is_frustum : forall p d, ~ coincide p d ->
    t_volume p d = Val (PI / 3 * dist p d * (rad p * rad p + rad d * rad d + rad p * rad d)).
  Proof. intros. rewrite t_volume_eq. apply ref_volume_frustum. assumption. Qed.

  Theorem area_is_frustum : forall p d, ~ coincide p d ->
    t_area p d = Val (PI * (rad p + rad d) * sqrt ((rad p - rad d) * (rad p - rad d) + dist p d * dist p d)).
  Proof. intros. rewrite t_area_eq. apply ref_area_frustum. assumption. Qed.

  Theorem volume_is_sphere : forall p d, coincide p d -> p_d p = p_d d ->
    t_volume p d = Val (4 / 3 * PI * (rad p * rad p * rad p)).
  Proof. intros. rewrite t_volume_eq. apply ref_volume_sphere; assumption. Qed.

  Theorem area_is_sphere : forall p d, coincide p d -> p_d p = p_d d ->
    t_area p d = Val (4 * PI * (rad p * rad p)).
  Proof. intros. rewrite t_area_eq. apply ref_area_sphere; assumption. Qed.

  Theorem sphere_needs_equal_diameters : forall p d, coincide p d -> p_d p <> p_d d ->
    t_volume p d = Exc /\ t_area p d = Exc.
  Proof.
    intros. rewrite t_volume_eq, t_area_eq. split; [apply ref_volume_ambiguous | apply ref_area_ambiguous]; assumption.
  Qed.

  Theorem needs_proximal : forall p d,
    run RA true (g_length g) (env_seg p d) = Exc /\ run RA true (g_volume g) (env_seg p d) = Exc
    /\ run RA true (g_area g) (env_seg p d) = Exc.
  Proof. intros. rewrite (ok_length g G), (ok_volume g G), (ok_area g G). repeat split. Qed.

  Theorem all_nonnegative : forall p d,
    0 <= p_d p -> 0 <= p_d d ->
    (forall v, t_length p d = Val v -> 0 <= v) /\ (forall v, t_volume p d = Val v -> 0 <= v)
    /\ (forall v, t_area p d = Val v -> 0 <= v).
  Proof.
    intros p d Hp Hd. repeat split; intros v H.
    - rewrite t_length_eq in H. eapply ref_length_nonneg; eassumption.
    - rewrite t_volume_eq in H. apply (ref_volume_nonneg false p d v Hp H).
    - rewrite t_area_eq in H. apply (ref_area_nonneg false p d v); [lra | exact H].
  Qed.

  Theorem frustum_volume_nonnegative_for_all_reals : forall p d v, ~ coincide p d -> t_volume p d = Val v -> 0 <= v.
  Proof. intros p d v Hc H. rewrite t_volume_eq in H. eapply ref_volume_frustum_nonneg; eassumption. Qed.

  Theorem swap_end_points : forall p d,
    t_length p d = t_length d p /\ t_volume p d = t_volume d p /\ t_area p d = t_area d p.
  Proof.
    intros. rewrite !t_length_eq, !t_volume_eq, !t_area_eq.
    repeat split; [apply ref_length_swap | apply ref_volume_swap | apply ref_area_swap].
  Qed.

  Theorem translation_invariant : forall tx ty tz p d,
    t_length (translate tx ty tz p) (translate tx ty tz d) = t_length p d
    /\ t_volume (translate tx ty tz p) (translate tx ty tz d) = t_volume p d
    /\ t_area (translate tx ty tz p) (translate tx ty tz d) = t_area p d.
  Proof.
    intros. rewrite !t_length_eq, !t_volume_eq, !t_area_eq.
    repeat split; [apply ref_length_translate | apply ref_volume_translate | apply ref_area_translate].
  Qed.

  Theorem uniform_scaling : forall k p d, 0 < k ->
    t_length (scale k p) (scale k d) = omap (Rmult k) (t_length p d)
    /\ t_volume (scale k p) (scale k d) = omap (Rmult (k * k * k)) (t_volume p d)
    /\ t_area (scale k p) (scale k d) = omap (Rmult (k * k)) (t_area p d).
  Proof.
    intros. rewrite !t_length_eq, !t_volume_eq, !t_area_eq.
    repeat split; [apply ref_length_scale | apply ref_volume_scale | apply ref_area_scale]; assumption.
  Qed.

  (* cell level *)
  Definition t_actual (chain : list (seg R)) : outcome (pt R) := actual_prox RA (g_actual g) chain.

  Theorem actual_proximal_is_reference : forall chain, t_actual chain = ref_actual chain.
  Proof. intros. apply actual_of_step. apply (ok_actual g G). Qed.

  Theorem actual_proximal_own : forall s rest q, s_prox s = Some q -> t_actual (s :: rest) = Val q.
  Proof. intros. rewrite actual_proximal_is_reference. apply ref_actual_own. assumption. Qed.

  Theorem actual_proximal_inherited : forall s par rest pp,
    s_prox s = None -> t_actual (par :: rest) = Val pp ->
    t_actual (s :: par :: rest) = Val (lerp (s_fract s) pp (s_dist par)).
  Proof.
    intros s par rest pp H Hp. rewrite actual_proximal_is_reference in *. apply ref_actual_inherited; assumption.
  Qed.

  (* the cell-level getters are the segment-level functions applied to the actual proximal point *)
  Theorem cell_getters_use_actual_proximal : forall s rest p,
    t_actual (s :: rest) = Val p ->
    run_cp RA g (g_cell_length g) (s :: rest) = t_length p (s_dist s)
    /\ run_cp RA g (g_cell_area g) (s :: rest) = t_area p (s_dist s)
    /\ run_cp RA g (g_cell_volume g) (s :: rest) = t_volume p (s_dist s).
  Proof.
    intros s rest p H. rewrite actual_proximal_is_reference in H.
    rewrite (ok_cell_length g G), (ok_cell_area g G), (ok_cell_volume g G), t_length_eq, t_area_eq, t_volume_eq.
    unfold ref_cell. rewrite H. simpl. repeat split.
  Qed.

  (* ... and agree with the segment's own properties when it has a proximal point *)
  Theorem cell_getters_agree_with_segment : forall s rest q,
    s_prox s = Some q ->
    run_cp RA g (g_cell_length g) (s :: rest) = t_length q (s_dist s)
    /\ run_cp RA g (g_cell_area g) (s :: rest) = t_area q (s_dist s)
    /\ run_cp RA g (g_cell_volume g) (s :: rest) = t_volume q (s_dist s).
  Proof.
    intros s rest q H. apply cell_getters_use_actual_proximal. apply actual_proximal_own. assumption.
  Qed.

  (* a segment attached at fraction f of a parent that has its own proximal point: its length is measured
     from the point at fraction f along the parent *)
  Theorem cell_length_inherited : forall s par rest q,
    s_prox s = None -> s_prox par = Some q ->
    run_cp RA g (g_cell_length g) (s :: par :: rest) = Val (dist (lerp (s_fract s) q (s_dist par)) (s_dist s)).
  Proof.
    intros s par rest q H Hq.
    assert (A : t_actual (s :: par :: rest) = Val (lerp (s_fract s) q (s_dist par))).
    { apply actual_proximal_inherited; [assumption|]. apply actual_proximal_own. assumption. }
    destruct (cell_getters_use_actual_proximal s (par :: rest) _ A) as (L & _ & _).
    rewrite L. apply length_is_distance.
  Qed.
End Transfer.

(* ------------------------------------------------------------------ tactics for the per-run instance lemmas *)
Lemma sqrt_congr : forall a b, a = b -> sqrt a = sqrt b.
Proof. intros. subst. reflexivity. Qed.

Ltac g_unfold :=
  cbv [run evalc eval gpow env_seg env_interp nth RA ar_add ar_sub ar_mul ar_div ar_neg ar_ofZ ar_pi ar_sqrt ar_powhalf ar_eqb
       p_x p_y p_z p_d].

(* make the radicands of the two sides syntactically equal where ring can show them equal *)
Ltac sqrt_align :=
  repeat match goal with
         | |- context [sqrt ?a] =>
             match goal with
             | |- context [sqrt ?b] =>
                 tryif constr_eq a b then fail else (replace (sqrt a) with (sqrt b) by (apply sqrt_congr; ring))
             end
         end.

Ltac r_arith := try reflexivity; sqrt_align; try reflexivity; try ring; try (field; lra).

Ltac case_Req :=
  repeat match goal with
         | |- context [Req_EM_T ?a ?b] => destruct (Req_EM_T a b)
         end.

Lemma pt_eq : forall (x y z d x' y' z' d' : R), x = x' -> y = y' -> z = z' -> d = d' -> MkPt x y z d = MkPt x' y' z' d'.
Proof. intros. subst. reflexivity. Qed.

Ltac leaf :=
  simpl; try reflexivity; try congruence; try lra;
  try (exfalso; lra);
  try solve [f_equal; r_arith];
  try solve [f_equal; apply pt_eq; r_arith].

(* [unf] unfolds the generated table and its components (their names live in the per-run file) *)
Ltac seg_inst unf :=
  intros; unf;
  repeat match goal with p : pt R |- _ => destruct p as [?x ?y ?z ?dm] end;
  try match goal with np : bool |- _ => destruct np end;
  g_unfold;
  unfold ref_length, ref_volume, ref_area, coincideb, Reqb, rad, dist, frustum_volume, frustum_area, sphere_volume, sphere_area;
  cbv [p_x p_y p_z p_d]; case_Req; leaf.

Ltac actual_inst unf :=
  unfold pp_step_ok; intros own par; unf;
  destruct own as [[?ox ?oy ?oz ?od]|]; destruct par as [[[?fr rec] [?dx ?dy ?dz ?dd]]|];
  try destruct rec as [[?rx ?ry ?rz ?rd]|];
  cbv [run_pp obind omap ref_step lerp]; g_unfold; unfold Reqb; case_Req; subst; leaf.

(* A : forall chain, actual_prox RA (g_actual table) chain = ref_actual chain;  rw : rewrites with the four
   segment-level instance lemmas *)
Ltac cell_inst unf A rw :=
  let chain := fresh "chain" in
  intros chain;
  destruct chain as [|[[?q|] ?dd ?fr] ?rest]; [reflexivity | |];
  unf; cbv [run_cp sel_pt s_prox s_dist method_prog ref_cell g_cell_length g_cell_area g_cell_volume];
  rewrite ?A; cbv [obind omap];
  [ rw; simpl; reflexivity
  | match goal with |- context [ref_actual ?c] => destruct (ref_actual c) end; cbv [obind omap]; [|reflexivity];
    rw; simpl; first [reflexivity | f_equal; apply dist_sym] ].

(* ------------------------------------------------------------------ examples: the hypotheses of the theorems are met *)
Definition ex_p : pt R := MkPt 0 0 0 2.
Definition ex_d : pt R := MkPt 10 0 0 4.

Example ex_not_coincide : ~ coincide ex_p ex_d.
Proof. unfold coincide, ex_p, ex_d. simpl. intros (H & _). lra. Qed.

Example ex_dist : dist ex_p ex_d = 10.
Proof.
  unfold dist, ex_p, ex_d. simpl.
  replace ((0 - 10) * (0 - 10) + (0 - 0) * (0 - 0) + (0 - 0) * (0 - 0)) with (10 * 10) by ring.
  apply sqrt_square. lra.
Qed.

(* a frustum of length 10 with radii 1 and 2: V = pi/3 * 10 * (1 + 4 + 2) = 70 pi / 3 *)
Example ex_volume : ref_volume false ex_p ex_d = Val (70 * PI / 3).
Proof.
  rewrite (ref_volume_frustum _ _ ex_not_coincide). rewrite ex_dist. unfold frustum_volume, rad, ex_p, ex_d. simpl.
  f_equal. field.
Qed.

Example ex_sphere : ref_volume false ex_p ex_p = Val (4 / 3 * PI) /\ ref_area false ex_p ex_p = Val (4 * PI).
Proof.
  assert (C : coincide ex_p ex_p) by (unfold coincide; repeat split).
  rewrite (ref_volume_sphere _ _ C eq_refl), (ref_area_sphere _ _ C eq_refl).
  unfold sphere_volume, sphere_area, rad, ex_p. simpl. split; f_equal; field.
Qed.

Example ex_ambiguous : ref_volume false ex_p (MkPt 0 0 0 3) = Exc.
Proof. apply ref_volume_ambiguous; [unfold coincide; repeat split | simpl; lra]. Qed.

(* a child without proximal attached half way along a parent that has one *)
Definition ex_parent : seg R := MkSeg (Some ex_p) ex_d 1.
Definition ex_child : seg R := MkSeg None (MkPt 5 5 0 1) (1 / 2).

Example ex_inherited : ref_actual [ex_child; ex_parent] = Val (MkPt 5 0 0 3).
Proof.
  rewrite (ref_actual_inherited ex_child ex_parent [] ex_p eq_refl eq_refl).
  unfold lerp, ex_child, ex_parent, ex_p, ex_d. simpl. f_equal. apply pt_eq; field.
Qed.

(* ------------------------------------------------------------------ meaning of the wf obligation: no division by zero *)
Fixpoint divisors_nonzero (e : gexpr) (env : list R) : Prop :=
  match e with
  | GVar _ | GInt _ | GPi => True
  | GFrac _ _ => True
  | GAdd a b | GSub a b | GMul a b => divisors_nonzero a env /\ divisors_nonzero b env
  | GDiv a b => divisors_nonzero a env /\ divisors_nonzero b env /\ eval RA b env <> 0
  | GNeg a | GSqrt a | GPowHalf a | GPow a _ => divisors_nonzero a env
  end.

Lemma wf_expr_safe : forall nv e env, wf_expr nv e = true -> divisors_nonzero e env.
Proof.
  intros nv e env. induction e; simpl; intro H; try exact I;
    try (apply andb_true_iff in H; destruct H as [H1 H2]; split; [apply IHe1; assumption | apply IHe2; assumption]);
    try (apply IHe; assumption).
  - apply andb_true_iff in H. destruct H as [H1 H2]. split; [apply IHe1; assumption|].
    destruct e2; try discriminate. simpl. split; [exact I|].
    apply negb_true_iff in H2. apply Z.eqb_neq in H2. apply not_0_IZR. assumption.
  - apply andb_true_iff in H. destruct H as [H1 _]. apply IHe. assumption.
Qed.

Fixpoint prog_divisors_nonzero (p : gprog) (env : list R) : Prop :=
  match p with
  | PRet e => divisors_nonzero e env
  | PRaise => True
  | PIf _ t e => prog_divisors_nonzero t env /\ prog_divisors_nonzero e env
  end.

Theorem wf_prog_safe : forall nv p env, wf_prog nv p = true -> prog_divisors_nonzero p env.
Proof.
  intros nv p env. induction p; simpl; intro H.
  - eapply wf_expr_safe; eassumption.
  - exact I.
  - apply andb_true_iff in H. destruct H as [H H3]. apply andb_true_iff in H. destruct H as [_ H2].
    split; [apply IHp1 | apply IHp2]; assumption.
Qed.

Theorem wf_table_safe : forall g, wf_table g = true -> forall env,
  prog_divisors_nonzero (g_length g) env /\ prog_divisors_nonzero (g_volume g) env
  /\ prog_divisors_nonzero (g_area g) env /\ prog_divisors_nonzero (g_distance g) env.
Proof.
  intros g H env. unfold wf_table in H.
  repeat match goal with H : _ && _ = true |- _ => apply andb_true_iff in H; destruct H end.
  repeat split; eapply wf_prog_safe; eassumption.
Qed.
