(* Round trip of the bindings model: build (export o) = o for every well-formed table set and every typed
   tree (C01), with the C04 corollaries (fixed point, attribute order, stability of schema floats). *)
From Coq Require Import String List ZArith Bool Lia Permutation.
From LNML Require Import Lib.Dec Model.Gds Model.GdsWf Proofs.DecP Proofs.GdsP1.
Import ListNotations.
Open Scope string_scope.

(* ------------------------------------------------------------------ what cls_wf says, as propositions *)
Definition kid_default (c : ckind) : lit :=
  match c with CObj | CText => LNone | CObjList => LObjs | CAny => LRaw end.

Record cwf (dfl : list (string * lit)) (EA : list exp_attr) (BA : list bld_attr) (EK : list exp_kid)
           (BK : list bld_kid) (HC : list string) (anyal : bool) : Prop := {
  w_keys : NoDup (map fst dfl);
  w_ea_xml : NoDup (map ea_xml EA);
  w_ea_py : NoDup (map ea_py EA);
  w_ba_xml : NoDup (map ba_xml BA);
  w_ba_key : NoDup (map ba_key BA);
  w_ba_py : NoDup (map ba_py BA);
  w_ea : forall a, In a EA ->
     In (ea_py a) (map fst dfl) /\
     exists b d, find_ba (ea_py a) BA = Some b /\ ba_xml b = ea_xml a /\ ba_kind b = ea_kind a /\
       lookup (ea_py a) dfl = Some d /\
       match ea_guard a with GNotNone => True | GNe g => lit_agree (ea_kind a) (lit_of_dflt g) d = true end;
  w_ek_py : NoDup (map ek_py EK);
  w_ek : forall e, In e EK ->
     In (ek_py e) (map fst dfl) /\ In (ek_py e) HC /\ ~ In (ek_py e) (map ea_py EA) /\
     (exists b, find_branch (ek_tag e) BK = Some b /\ bk_py b = ek_py e /\ bk_kind b = ek_kind e) /\
     lookup (ek_py e) dfl = Some (kid_default (ek_kind e)) /\
     (anyal = false \/ ek_kind e = CAny);
  w_other : forall n d, In (n, d) dfl -> In n (map ea_py EA) \/ In n (map ek_py EK) \/ d = LNone
}.

Lemma akind_eqb_eq a b : akind_eqb a b = true -> a = b.
Proof. destruct a, b; simpl; congruence. Qed.
Lemma ckind_eqb_eq a b : ckind_eqb a b = true -> a = b.
Proof. destruct a, b; simpl; congruence. Qed.

Lemma cls_wf_cwf T k : cls_wf T k = true ->
  exists dfl, init_lits T (c_name k) = Some dfl /\
    cwf dfl (exp_attrs_of (cfuel T) T (c_name k)) (bld_attrs_of (cfuel T) T (c_name k))
        (exp_kids_of (cfuel T) T (c_name k)) (bld_kids_of (cfuel T) T (c_name k))
        (hc_of (cfuel T) T (c_name k)) (c_any_always k).
Proof.
  unfold cls_wf.
  generalize (exp_attrs_of (cfuel T) T (c_name k)) (bld_attrs_of (cfuel T) T (c_name k))
             (exp_kids_of (cfuel T) T (c_name k)) (bld_kids_of (cfuel T) T (c_name k))
             (hc_of (cfuel T) T (c_name k)).
  intros EA BA EK BK HC.
  destruct (init_lits T (c_name k)) as [dfl|]; [|discriminate].
  intro H. exists dfl. split; [reflexivity|].
  apply andb_true_iff in H as [H H15]. apply andb_true_iff in H as [H H14].
  apply andb_true_iff in H as [H H13]. apply andb_true_iff in H as [H H12].
  apply andb_true_iff in H as [H H11]. apply andb_true_iff in H as [H H10].
  apply andb_true_iff in H as [H H9]. apply andb_true_iff in H as [H H8].
  apply andb_true_iff in H as [H H7]. apply andb_true_iff in H as [H H6].
  apply andb_true_iff in H as [H H5]. apply andb_true_iff in H as [H H4].
  apply andb_true_iff in H as [H H3]. apply andb_true_iff in H as [H1 H2].
  clear H15 H12 H11 H9 H7.
  rewrite forallb_forall in H8, H13, H14.
  constructor; try (apply nodupb_NoDup; assumption).
  - intros a Ha. specialize (H8 a Ha).
    apply andb_true_iff in H8 as [H8 Hc]. apply andb_true_iff in H8 as [Ha1 Hb].
    apply mem_In in Ha1. split; [assumption|].
    destruct (find_ba (ea_py a) BA) as [b|] eqn:Eb; [|discriminate].
    destruct (lookup (ea_py a) dfl) as [d|] eqn:Ed; [|discriminate].
    apply andb_true_iff in Hb as [Hb1 Hb2]. apply String.eqb_eq in Hb1. apply akind_eqb_eq in Hb2.
    apply andb_true_iff in Hc as [_ Hc].
    exists b, d. repeat split; auto.
    destruct (ea_guard a); auto.
  - intros e He. specialize (H13 e He).
    apply andb_true_iff in H13 as [H13 Hy]. apply andb_true_iff in H13 as [H13 Hd].
    apply andb_true_iff in H13 as [H13 Hb]. apply andb_true_iff in H13 as [H13 Hn].
    apply andb_true_iff in H13 as [Hk Hh].
    apply mem_In in Hk. apply mem_In in Hh. apply negb_true_iff, mem_false_In in Hn.
    repeat split; auto.
    + destruct (find_branch (ek_tag e) BK) as [b|]; [|discriminate].
      apply andb_true_iff in Hb as [Hb _]. apply andb_true_iff in Hb as [Hb1 Hb2].
      apply String.eqb_eq in Hb1. apply ckind_eqb_eq in Hb2. eauto.
    + destruct (lookup (ek_py e) dfl) as [[]|]; destruct (ek_kind e); try discriminate; reflexivity.
    + apply orb_true_iff in Hy as [Hy|Hy].
      * left. apply negb_true_iff in Hy. assumption.
      * right. destruct (ek_kind e); try discriminate; reflexivity.
  - intros n d Hin. specialize (H14 (n, d) Hin). cbn [fst snd] in H14.
    apply orb_true_iff in H14 as [H14|H14]; [apply orb_true_iff in H14 as [H14|H14]|].
    + left. apply mem_In. assumption.
    + right; left. apply mem_In. assumption.
    + right; right. destruct d; try discriminate; reflexivity.
Qed.

Lemma find_cls_some T c k : find_cls T c = Some k -> In k T /\ c_name k = c.
Proof.
  induction T as [|k0 T IH]; simpl; [discriminate|].
  destruct (String.eqb (c_name k0) c) eqn:E.
  - intro H. inversion H; subst. apply String.eqb_eq in E. auto.
  - intro H. apply IH in H. tauto.
Qed.

Lemma init_lits_find_cls T c dfl : init_lits T c = Some dfl -> exists k, find_cls T c = Some k.
Proof.
  unfold init_lits, cfuel. cbn [init_lits_with]. destruct (find_cls T c); [eauto|discriminate].
Qed.

Lemma rt_wf_cls T c dfl : rt_wf T = true -> init_lits T c = Some dfl ->
  exists k, find_cls T c = Some k /\
    cwf dfl (exp_attrs_of (cfuel T) T c) (bld_attrs_of (cfuel T) T c)
        (exp_kids_of (cfuel T) T c) (bld_kids_of (cfuel T) T c) (hc_of (cfuel T) T c) (c_any_always k).
Proof.
  intros W I. destruct (init_lits_find_cls _ _ _ I) as [k Fk]. exists k. split; [assumption|].
  unfold rt_wf in W. apply andb_true_iff in W as [_ W]. rewrite forallb_forall in W.
  destruct (find_cls_some _ _ _ Fk) as [Hin Hn]. specialize (W k Hin).
  destruct (cls_wf_cwf _ _ W) as (dfl' & I' & C). rewrite Hn in *. congruence.
Qed.

Section RT.
Variable F : Type.
Variable F_eqb : F -> F -> bool.
Variable F_of_dec : dec -> F.
Variables fmt_float fmt_double : F -> string.
Variable parse_float : string -> option F.
Hypothesis F_eqb_spec : forall x y, F_eqb x y = true <-> x = y.
Hypothesis double_rt : forall x, parse_float (fmt_double x) = Some x.      (* CPython: float(repr(x)) == x *)
Hypothesis F_of_dec_norm : forall q, F_of_dec (dec_norm q) = F_of_dec q.

Notation value := (Gds.value F).
Notation obj := (Gds.obj F).
Notation fields := (list (string * Gds.value F)).
Notation inject := (Gds.inject F F_of_dec).
Notation guard_pass := (Gds.guard_pass F F_eqb F_of_dec).
Notation fmt_attr := (Gds.fmt_attr F fmt_float fmt_double).
Notation export_attrs := (Gds.export_attrs F F_eqb F_of_dec fmt_float fmt_double).
Notation parse_attr := (Gds.parse_attr F parse_float).
Notation build_attrs := (Gds.build_attrs F parse_float).
Notation export := (Gds.export F F_eqb F_of_dec fmt_float fmt_double).
Notation build := (Gds.build F F_of_dec parse_float).
Notation typedb := (GdsWf.typedb F F_eqb fmt_float parse_float).
Notation attr_val_ok := (GdsWf.attr_val_ok F F_eqb fmt_float parse_float).
Notation stable15 := (GdsWf.stable15 F F_eqb fmt_float parse_float).
Notation set_field := (Gds.set_field F).
Notation default_fields := (Gds.default_fields F F_of_dec).
Notation o_cls := (Gds.o_cls F).
Notation o_fields := (Gds.o_fields F).
Notation truthy := (Gds.truthy F).
Notation has_content := (Gds.has_content F).
Notation opt_value := (Gds.opt_value F).

(* ------------------------------------------------------------------ one attribute value *)
Lemma fmt_attr_some a b d v :
  attr_val_ok a b d v = true -> guard_pass (ea_guard a) (ea_kind a) v = true ->
  exists s, fmt_attr (ea_kind a) v = Some s.
Proof.
  unfold GdsWf.attr_val_ok, Gds.guard_pass, Gds.fmt_attr.
  destruct v as [| s | z | x | o' | l | l]; destruct (ea_kind a); intros H G; try discriminate; eauto;
    destruct d; try discriminate; destruct (ea_guard a); discriminate.
Qed.

Lemma parse_fmt_attr a b d v s :
  attr_val_ok a b d v = true -> guard_pass (ea_guard a) (ea_kind a) v = true ->
  ba_kind b = ea_kind a -> fmt_attr (ea_kind a) v = Some s ->
  parse_attr (ba_kind b) (ba_range b) s = Some v.
Proof.
  intros H G K. rewrite K. revert H G.
  unfold GdsWf.attr_val_ok, Gds.guard_pass, Gds.fmt_attr, Gds.parse_attr.
  destruct v as [| s0 | z | x | o' | l | l]; destruct (ea_kind a); intros H G E; try discriminate;
    inversion E; subst; clear E.
  - destruct d; try discriminate. destruct (ea_guard a); discriminate.
  - reflexivity.
  - rewrite parse_int_fmt_int. unfold GdsWf.range_ok in H.
    destruct (ba_range b); auto.
    + apply Z.leb_le in H. destruct (z <? 0)%Z eqn:E; auto. apply Z.ltb_lt in E. lia.
    + apply Z.ltb_lt in H. destruct (z <=? 0)%Z eqn:E; auto. apply Z.leb_le in E. lia.
  - unfold GdsWf.stable15 in H. destruct (parse_float (fmt_float x)) as [g|]; [|discriminate].
    apply F_eqb_spec in H. subst. reflexivity.
  - rewrite double_rt. reflexivity.
Qed.

Lemma guard_fail_default a b d v :
  attr_val_ok a b d v = true -> guard_pass (ea_guard a) (ea_kind a) v = false ->
  match ea_guard a with GNotNone => True | GNe g => lit_agree (ea_kind a) (lit_of_dflt g) d = true end ->
  v = inject d.
Proof.
  unfold GdsWf.attr_val_ok, Gds.guard_pass.
  destruct (ea_guard a) as [|g].
  - intros H G _. destruct v; try discriminate. destruct d; try discriminate. reflexivity.
  - generalize (lit_of_dflt g). intros gl H G A. apply negb_false_iff in G.
    destruct (ea_kind a), gl, d; simpl in A; try discriminate;
      destruct v as [| sv | zv | xv | ov | lv | lv]; simpl in G, H |- *; try discriminate.
    + apply String.eqb_eq in A, G. congruence.
    + apply Z.eqb_eq in A, G. congruence.
    + apply dec_eqb_eq in A. apply F_eqb_spec in G. subst. f_equal.
      match goal with |- F_of_dec ?p = F_of_dec ?q =>
        transitivity (F_of_dec (dec_norm p)); [symmetry; apply F_of_dec_norm | rewrite A; apply F_of_dec_norm] end.
    + apply dec_eqb_eq in A. apply F_eqb_spec in G. subst. f_equal.
      match goal with |- F_of_dec ?p = F_of_dec ?q =>
        transitivity (F_of_dec (dec_norm p)); [symmetry; apply F_of_dec_norm | rewrite A; apply F_of_dec_norm] end.
    + apply dec_eqb_eq in A. apply F_eqb_spec in G. subst. f_equal.
      match goal with |- F_of_dec ?p = F_of_dec ?q =>
        transitivity (F_of_dec (dec_norm p)); [symmetry; apply F_of_dec_norm | rewrite A; apply F_of_dec_norm] end.
    + apply dec_eqb_eq in A. apply F_eqb_spec in G. subst. f_equal.
      match goal with |- F_of_dec ?p = F_of_dec ?q =>
        transitivity (F_of_dec (dec_norm p)); [symmetry; apply F_of_dec_norm | rewrite A; apply F_of_dec_norm] end.
Qed.

(* ------------------------------------------------------------------ the exported attribute list *)
Fixpoint ea_out (fs : fields) (eas : list exp_attr) : list (string * string) :=
  match eas with
  | [] => []
  | a :: r =>
    match lookup (ea_py a) fs with
    | Some v => if guard_pass (ea_guard a) (ea_kind a) v
                then match fmt_attr (ea_kind a) v with
                     | Some s => (ea_xml a, s) :: ea_out fs r
                     | None => ea_out fs r end
                else ea_out fs r
    | None => ea_out fs r
    end
  end.

Lemma export_attrs_out fs : forall EA seen,
  NoDup (map ea_py EA) -> (forall a, In a EA -> ~ In (ea_py a) seen) ->
  (forall a, In a EA -> exists v, lookup (ea_py a) fs = Some v /\
       (guard_pass (ea_guard a) (ea_kind a) v = true -> exists s, fmt_attr (ea_kind a) v = Some s)) ->
  export_attrs fs EA seen = Some (ea_out fs EA).
Proof.
  induction EA as [|a r IH]; intros seen ND NS HV; [reflexivity|].
  simpl in ND. inversion ND as [|? ? Hn ND']; subst.
  destruct (HV a (or_introl eq_refl)) as (v & Lv & Fv).
  cbn [Gds.export_attrs ea_out]. rewrite Lv.
  destruct (guard_pass (ea_guard a) (ea_kind a) v) eqn:G.
  - assert (M : mem (ea_py a) seen = false) by (apply mem_false_In; apply NS; left; reflexivity).
    rewrite M. cbn [negb andb]. destruct (Fv eq_refl) as [s Es]. rewrite Es.
    rewrite IH; auto.
    + intros a' Ha' [E|Hs].
      * apply Hn. rewrite E. apply in_map. assumption.
      * apply (NS a'); [right; assumption | assumption].
    + intros a' Ha'. apply HV. right. assumption.
  - cbn [andb]. apply IH; auto.
    + intros a' Ha'. apply NS. right. assumption.
    + intros a' Ha'. apply HV. right. assumption.
Qed.

Lemma ea_out_in fs EA x s : In (x, s) (ea_out fs EA) ->
  exists a v, In a EA /\ ea_xml a = x /\ lookup (ea_py a) fs = Some v /\
              guard_pass (ea_guard a) (ea_kind a) v = true /\ fmt_attr (ea_kind a) v = Some s.
Proof.
  induction EA as [|a r IH]; cbn [ea_out]; [contradiction|].
  intro H.
  assert (R : In (x, s) (ea_out fs r) -> exists a0 v, In a0 (a :: r) /\ ea_xml a0 = x /\
            lookup (ea_py a0) fs = Some v /\ guard_pass (ea_guard a0) (ea_kind a0) v = true /\
            fmt_attr (ea_kind a0) v = Some s).
  { intro H'. destruct (IH H') as (a0 & v & Hin & R). exists a0, v. split; [right; assumption | assumption]. }
  destruct (lookup (ea_py a) fs) as [v|] eqn:Lv; auto.
  destruct (guard_pass (ea_guard a) (ea_kind a) v) eqn:G; auto.
  destruct (fmt_attr (ea_kind a) v) as [s'|] eqn:Es; auto.
  destruct H as [H|H]; auto.
  inversion H; subst. exists a, v. repeat split; auto. left; reflexivity.
Qed.

Lemma ea_out_keys fs EA x : In x (map fst (ea_out fs EA)) -> In x (map ea_xml EA).
Proof.
  intro H. apply in_map_iff in H as ([x' s] & E & Hin). cbn [fst] in E. subst.
  apply ea_out_in in Hin as (a & v & Ha & Ex & _). subst. apply in_map. assumption.
Qed.

Lemma ea_out_nodup fs EA : NoDup (map ea_xml EA) -> NoDup (map fst (ea_out fs EA)).
Proof.
  induction EA as [|a r IH]; cbn [ea_out map]; intro ND; [constructor|].
  inversion ND as [|? ? Hn ND']; subst.
  destruct (lookup (ea_py a) fs) as [v|]; auto.
  destruct (guard_pass (ea_guard a) (ea_kind a) v); auto.
  destruct (fmt_attr (ea_kind a) v) as [s'|]; auto.
  cbn [map fst]. constructor; auto. intro H. apply Hn. eapply ea_out_keys. eassumption.
Qed.

Lemma ea_out_complete fs EA a v s : In a EA -> lookup (ea_py a) fs = Some v ->
  guard_pass (ea_guard a) (ea_kind a) v = true -> fmt_attr (ea_kind a) v = Some s ->
  In (ea_xml a, s) (ea_out fs EA).
Proof.
  induction EA as [|a0 r IH]; cbn [ea_out]; intros Hin Lv G Es; [contradiction|].
  destruct Hin as [->|Hin].
  - rewrite Lv, G, Es. left. reflexivity.
  - specialize (IH Hin Lv G Es).
    destruct (lookup (ea_py a0) fs) as [v0|]; auto.
    destruct (guard_pass (ea_guard a0) (ea_kind a0) v0); auto.
    destruct (fmt_attr (ea_kind a0) v0); auto. right. assumption.
Qed.

(* ------------------------------------------------------------------ build_attrs *)
Lemma build_attrs_spec attrs : forall BA seen acc,
  NoDup (map ba_key BA) -> (forall b, In b BA -> ~ In (ba_key b) seen) ->
  NoDup (map ba_py BA) ->
  (forall b s, In b BA -> lookup (ba_xml b) attrs = Some s ->
      In (ba_py b) (map fst acc) /\ exists v, parse_attr (ba_kind b) (ba_range b) s = Some v) ->
  exists acc', build_attrs attrs BA seen acc = Some acc' /\
    map fst acc' = map fst acc /\
    (forall b s, In b BA -> lookup (ba_xml b) attrs = Some s ->
        exists v, parse_attr (ba_kind b) (ba_range b) s = Some v /\ lookup (ba_py b) acc' = Some v) /\
    (forall k, (forall b, In b BA -> ba_py b = k -> lookup (ba_xml b) attrs = None) ->
        lookup k acc' = lookup k acc).
Proof.
  induction BA as [|b r IH]; intros seen acc NK NS NP HP.
  - exists acc. cbn [Gds.build_attrs]. repeat split; auto. intros b s [].
  - simpl in NK, NP. inversion NK as [|? ? HnK NK']; subst. inversion NP as [|? ? HnP NP']; subst.
    cbn [Gds.build_attrs].
    destruct (lookup (ba_xml b) attrs) as [s|] eqn:Ls.
    + assert (M : mem (ba_key b) seen = false) by (apply mem_false_In; apply NS; left; reflexivity).
      rewrite M. destruct (HP b s (or_introl eq_refl) Ls) as (Hk & v & Pv). rewrite Pv.
      destruct (IH (ba_key b :: seen) (set_field (ba_py b) v acc) NK') as (acc' & B & K & S1 & S2); auto.
      * intros b' Hb' [E|Hs].
        -- apply HnK. rewrite E. apply in_map. assumption.
        -- apply (NS b'); [right; assumption | assumption].
      * intros b' s' Hb' Ls'. rewrite keys_set_field by assumption. apply HP; [right; assumption | assumption].
      * exists acc'. split; [assumption|]. rewrite keys_set_field in K by assumption.
        split; [assumption|]. split.
        -- intros b' s' [<-|Hb'] Ls'.
           ++ rewrite Ls in Ls'. inversion Ls'; subst. exists v. split; [assumption|].
              rewrite S2.
              ** apply lookup_set_same.
              ** intros b' Hb' E. exfalso. apply HnP. rewrite <- E. apply in_map. assumption.
           ++ apply S1; assumption.
        -- intros k Hk'. rewrite S2.
           ++ apply lookup_set_other. intro E. subst k.
              specialize (Hk' b (or_introl eq_refl) eq_refl). congruence.
           ++ intros b' Hb' E. apply Hk'; [right; assumption | assumption].
    + destruct (IH seen acc NK') as (acc' & B & K & S1 & S2); auto.
      * intros b' Hb'. apply NS. right. assumption.
      * intros b' s' Hb'. apply HP. right. assumption.
      * exists acc'. repeat split; auto.
        -- intros b' s' [<-|Hb'] Ls'; [congruence|]. apply S1; assumption.
        -- intros k Hk'. apply S2. intros b' Hb'. apply Hk'. right. assumption.
Qed.

(* ------------------------------------------------------------------ attribute half, per class *)
Definition kid_ok (f : nat) (T : tables) (e : exp_kid) (b : bld_kid) (v : value) : bool :=
  match ek_kind e, v with
  | CObj, VNone => true
  | CObj, VObj o' => String.eqb (o_cls o') (bk_cls b) && typedb f T o'
  | CObjList, VObjs l => forallb (fun o' => String.eqb (o_cls o') (bk_cls b) && typedb f T o') l
  | CText, VNone => true
  | CText, VStr _ => true
  | CAny, VRaw [] => true
  | _, _ => false
  end.

Definition field_ok (f : nat) (T : tables) (dfl : list (string * lit)) (EA : list exp_attr) (BA : list bld_attr)
           (EK : list exp_kid) (BK : list bld_kid) (nv : string * value) : bool :=
  let '(n_, v) := nv in
  match find_ea n_ EA, find_ba n_ BA, lookup n_ dfl with
  | Some a, Some b, Some d => attr_val_ok a b d v
  | Some _, _, _ => false
  | None, _, _ =>
    match find_ek n_ EK with
    | Some e =>
      match find_branch (ek_tag e) BK with
      | None => false
      | Some b => kid_ok f T e b v
      end
    | None => match v with VNone => true | _ => false end
    end
  end.

Lemma typedb_S f T o : typedb (S f) T o =
  match init_lits T (o_cls o) with
  | None => false
  | Some dfl =>
    same_keys F (o_fields o) dfl
    && forallb (field_ok f T dfl (exp_attrs_of (cfuel T) T (o_cls o)) (bld_attrs_of (cfuel T) T (o_cls o))
                         (exp_kids_of (cfuel T) T (o_cls o)) (bld_kids_of (cfuel T) T (o_cls o))) (o_fields o)
  end.
Proof. reflexivity. Qed.

Record otyped (f : nat) (T : tables) (dfl : list (string * lit)) (EA : list exp_attr) (BA : list bld_attr)
              (EK : list exp_kid) (BK : list bld_kid) (fs : fields) : Prop := {
  t_keys : map fst fs = map fst dfl;
  t_attr : forall a, In a EA -> forall b d, find_ba (ea_py a) BA = Some b -> lookup (ea_py a) dfl = Some d ->
             exists v, lookup (ea_py a) fs = Some v /\ attr_val_ok a b d v = true;
  t_kid : forall e, In e EK -> forall b, find_branch (ek_tag e) BK = Some b ->
             exists v, lookup (ek_py e) fs = Some v /\ kid_ok f T e b v = true;
  t_other : forall n v, In (n, v) fs -> ~ In n (map ea_py EA) -> ~ In n (map ek_py EK) -> v = VNone
}.

Lemma typed_otyped f T dfl EA BA EK BK HC anyal fs :
  cwf dfl EA BA EK BK HC anyal -> same_keys F fs dfl = true ->
  forallb (field_ok f T dfl EA BA EK BK) fs = true -> otyped f T dfl EA BA EK BK fs.
Proof.
  intros W SK FA. apply same_keys_eq in SK. rewrite forallb_forall in FA.
  constructor; [assumption| | |].
  - intros a Ha b d Fb Ld.
    destruct (w_ea _ _ _ _ _ _ _ W a Ha) as (Hk & _).
    rewrite <- SK in Hk. destruct (lookup_in_keys _ _ Hk) as [v Lv]. exists v. split; [assumption|].
    specialize (FA _ (lookup_In _ _ _ Lv)). unfold field_ok in FA.
    unfold find_ea in FA. rewrite (find_unique ea_py EA a (w_ea_py _ _ _ _ _ _ _ W) Ha) in FA.
    rewrite Fb, Ld in FA. assumption.
  - intros e He b Fb.
    destruct (w_ek _ _ _ _ _ _ _ W e He) as (Hk & _ & Hn & _).
    rewrite <- SK in Hk. destruct (lookup_in_keys _ _ Hk) as [v Lv]. exists v. split; [assumption|].
    specialize (FA _ (lookup_In _ _ _ Lv)). unfold field_ok in FA.
    unfold find_ea in FA. rewrite (find_key_not_in ea_py EA _ Hn) in FA.
    unfold find_ek in FA. rewrite (find_unique ek_py EK e (w_ek_py _ _ _ _ _ _ _ W) He) in FA.
    rewrite Fb in FA. assumption.
  - intros n v Hin Na Nk. specialize (FA _ Hin). unfold field_ok in FA.
    unfold find_ea in FA. rewrite (find_key_not_in ea_py EA _ Na) in FA.
    unfold find_ek in FA. rewrite (find_key_not_in ek_py EK _ Nk) in FA.
    destruct v; try discriminate; reflexivity.
Qed.

Lemma find_ba_some BA py b : find_ba py BA = Some b -> In b BA /\ ba_py b = py.
Proof. apply (find_key_some ba_py). Qed.

Lemma attrs_roundtrip f T dfl EA BA EK BK HC anyal fs :
  cwf dfl EA BA EK BK HC anyal -> otyped f T dfl EA BA EK BK fs ->
  let fs0 := map (fun nv => (fst nv, inject (snd nv))) dfl in
  exists attrs fs1,
    export_attrs fs EA [] = Some attrs /\
    build_attrs attrs BA [] fs0 = Some fs1 /\
    map fst fs1 = map fst fs /\
    (forall a, In a EA -> lookup (ea_py a) fs1 = lookup (ea_py a) fs) /\
    (forall k, ~ In k (map ea_py EA) -> lookup k fs1 = lookup k fs0).
Proof.
  intros W Ty fs0.
  (* every exported attribute has a value, its builder twin and its default *)
  assert (INFO : forall a, In a EA -> exists b d v,
            In b BA /\ ba_py b = ea_py a /\ ba_xml b = ea_xml a /\ ba_kind b = ea_kind a /\
            lookup (ea_py a) dfl = Some d /\ lookup (ea_py a) fs = Some v /\ attr_val_ok a b d v = true /\
            match ea_guard a with GNotNone => True | GNe g => lit_agree (ea_kind a) (lit_of_dflt g) d = true end).
  { intros a Ha. destruct (w_ea _ _ _ _ _ _ _ W a Ha) as (_ & b & d & Fb & Bx & Bk & Ld & Ag).
    destruct (t_attr _ _ _ _ _ _ _ _ Ty a Ha b d Fb Ld) as (v & Lv & Ok).
    destruct (find_ba_some _ _ _ Fb) as [Hb Hp]. exists b, d, v. repeat split; auto. }
  set (attrs := ea_out fs EA).
  assert (EX : export_attrs fs EA [] = Some attrs).
  { apply export_attrs_out.
    - apply (w_ea_py _ _ _ _ _ _ _ W).
    - intros a _ [].
    - intros a Ha. destruct (INFO a Ha) as (b & d & v & _ & _ & _ & _ & _ & Lv & Ok & _).
      exists v. split; [assumption|]. intro G. eapply fmt_attr_some; eassumption. }
  assert (NDA : NoDup (map fst attrs)) by (apply ea_out_nodup, (w_ea_xml _ _ _ _ _ _ _ W)).
  (* a built attribute that is present in the element is the twin of an exported one whose guard passed *)
  assert (LINK : forall b s, In b BA -> lookup (ba_xml b) attrs = Some s ->
            exists a d v, In a EA /\ ba_py b = ea_py a /\ ba_kind b = ea_kind a /\
              lookup (ea_py a) fs = Some v /\ attr_val_ok a b d v = true /\
              guard_pass (ea_guard a) (ea_kind a) v = true /\ fmt_attr (ea_kind a) v = Some s).
  { intros b s Hb Ls. apply lookup_In in Ls. apply ea_out_in in Ls as (a & v & Ha & Ex & Lv & G & Es).
    destruct (INFO a Ha) as (b' & d & v' & Hb' & Bp & Bx & Bk & _ & Lv' & Ok & _).
    assert (b' = b).
    { apply (inj_on_NoDup ba_xml BA); auto. apply (w_ba_xml _ _ _ _ _ _ _ W). congruence. }
    subst b'. assert (v' = v) by congruence. subst v'.
    exists a, d, v. repeat split; auto. }
  destruct (build_attrs_spec attrs BA [] fs0) as (fs1 & B & K & S1 & S2).
  { apply (w_ba_key _ _ _ _ _ _ _ W). }
  { intros b _ []. }
  { apply (w_ba_py _ _ _ _ _ _ _ W). }
  { intros b s Hb Ls. destruct (LINK b s Hb Ls) as (a & d & v & Ha & Bp & Bk & Lv & Ok & G & Es). split.
    - unfold fs0. rewrite keys_map_snd, Bp. apply (w_ea _ _ _ _ _ _ _ W a Ha).
    - exists v. eapply parse_fmt_attr; eassumption. }
  exists attrs, fs1. split; [assumption|]. split; [assumption|]. split.
  { rewrite K. unfold fs0. rewrite keys_map_snd. symmetry. apply (t_keys _ _ _ _ _ _ _ _ Ty). }
  split.
  - intros a Ha. destruct (INFO a Ha) as (b & d & v & Hb & Bp & Bx & Bk & Ld & Lv & Ok & Ag).
    rewrite Lv. destruct (guard_pass (ea_guard a) (ea_kind a) v) eqn:G.
    + destruct (fmt_attr_some _ _ _ _ Ok G) as [s Es].
      assert (Ls : lookup (ba_xml b) attrs = Some s).
      { rewrite Bx. apply In_lookup; [assumption|]. eapply ea_out_complete; eassumption. }
      destruct (S1 b s Hb Ls) as (v' & Pv' & Lv').
      rewrite (parse_fmt_attr _ _ _ _ _ Ok G Bk Es) in Pv'. rewrite <- Bp. congruence.
    + rewrite S2.
      * unfold fs0. rewrite lookup_map_snd, Ld. cbn [option_map]. f_equal. symmetry.
        eapply guard_fail_default; eassumption.
      * intros b' Hb' Ep.
        assert (b' = b).
        { apply (inj_on_NoDup ba_py BA); auto. apply (w_ba_py _ _ _ _ _ _ _ W). congruence. }
        subst b'. destruct (lookup (ba_xml b) attrs) as [s|] eqn:Ls; [|reflexivity]. exfalso.
        destruct (LINK b s Hb Ls) as (a' & d' & v' & Ha' & Bp' & _ & Lv' & _ & G' & _).
        assert (a' = a).
        { apply (inj_on_NoDup ea_py EA); auto. apply (w_ea_py _ _ _ _ _ _ _ W). congruence. }
        subst a'. congruence.
  - intros k Nk. apply S2. intros b Hb Ep.
    destruct (lookup (ba_xml b) attrs) as [s|] eqn:Ls; [|reflexivity]. exfalso.
    destruct (LINK b s Hb Ls) as (a & _ & _ & Ha & Bp & _). apply Nk. rewrite <- Ep, Bp. apply in_map. assumption.
Qed.

(* ------------------------------------------------------------------ export / build, one level unfolded *)
Definition exp_one (f : nat) (T : tables) (fs : fields) (ek : exp_kid) : option (list xml) :=
  match ek_kind ek, lookup (ek_py ek) fs with
  | _, None => None
  | CObj, Some VNone => Some []
  | CObj, Some (VObj o') => option_map (fun x => [x]) (export f T (ek_tag ek) o')
  | CObjList, Some (VObjs l) => all_opt (map (export f T (ek_tag ek)) l)
  | CText, Some VNone => Some []
  | CText, Some (VStr s) => Some [Elem (ek_tag ek) [] s []]
  | CAny, Some (VRaw l) => Some l
  | _, _ => None
  end.

Lemma export_S f T tag o : export (S f) T tag o =
  match find_cls T (o_cls o) with
  | None => None
  | Some _ =>
    match export_attrs (o_fields o) (exp_attrs_of (cfuel T) T (o_cls o)) [] with
    | None => None
    | Some attrs =>
      if has_content (o_fields o) (hc_of (cfuel T) T (o_cls o)) then
        match flat_opt (map (exp_one f T (o_fields o)) (exp_kids_of (cfuel T) T (o_cls o))) with
        | Some kids => Some (Elem tag attrs "" kids)
        | None => None
        end
      else Some (Elem tag attrs "" [])
    end
  end.
Proof. reflexivity. Qed.

Definition bld_step (f : nat) (T : tables) (k : cls) (bks : list bld_kid)
           (acc : option fields) (kid : xml) : option fields :=
  match acc with
  | None => None
  | Some fs =>
    let fs' :=
      if c_any_always k then
        match append_raw F (opt_value (lookup "anytypeobjs_" fs)) kid with
        | Some v => Some (set_field "anytypeobjs_" v fs) | None => None end
      else Some fs in
    match fs' with
    | None => None
    | Some fs =>
      match find_branch (x_tag kid) bks with
      | Some b =>
        match bk_kind b with
        | CObj => match build f T (bk_cls b) kid with
                  | Some o' => Some (set_field (bk_py b) (VObj o') fs) | None => None end
        | CObjList => match build f T (bk_cls b) kid with
                      | Some o' => match append_obj F (opt_value (lookup (bk_py b) fs)) o' with
                                   | Some v => Some (set_field (bk_py b) v fs) | None => None end
                      | None => None end
        | CText => Some (set_field (bk_py b) (VStr (x_text kid)) fs)
        | CAny => Some fs
        end
      | None =>
        if existsb (fun b => match bk_kind b with CAny => true | _ => false end) bks && negb (c_any_always k) then
          match append_raw F (opt_value (lookup "anytypeobjs_" fs)) kid with
          | Some v => Some (set_field "anytypeobjs_" v fs) | None => None end
        else Some fs
      end
    end
  end.

Lemma build_S f T c x : build (S f) T c x =
  match find_cls T c, default_fields T c with
  | Some k, Some fs0 =>
    match build_attrs (x_attrs x) (bld_attrs_of (cfuel T) T c) [] fs0 with
    | None => None
    | Some fs1 =>
      match fold_left (bld_step f T k (bld_kids_of (cfuel T) T c)) (x_kids x) (Some fs1) with
      | Some fs2 => Some (Obj c fs2)
      | None => None
      end
    end
  | _, _ => None
  end.
Proof. reflexivity. Qed.

Lemma export_tag f T tag o x : export f T tag o = Some x -> x_tag x = tag.
Proof.
  destruct f as [|f]; [discriminate|]. rewrite export_S.
  destruct (find_cls T (o_cls o)); [|discriminate].
  destruct (export_attrs _ _ _); [|discriminate].
  destruct (has_content _ _).
  - destruct (flat_opt _); [|discriminate]. intro H. inversion H. reflexivity.
  - intro H. inversion H. reflexivity.
Qed.

Lemma build_cls f T c x o : build f T c x = Some o -> o_cls o = c.
Proof.
  destruct f as [|f]; [discriminate|]. rewrite build_S.
  destruct (find_cls T c); [|discriminate]. destruct (default_fields T c); [|discriminate].
  destruct (build_attrs _ _ _ _); [|discriminate].
  destruct (fold_left _ _ _); [|discriminate]. intro H. inversion H. reflexivity.
Qed.

Lemma bld_step_known f T k bks fs kid b :
  c_any_always k = false -> find_branch (x_tag kid) bks = Some b ->
  bld_step f T k bks (Some fs) kid =
    match bk_kind b with
    | CObj => match build f T (bk_cls b) kid with
              | Some o' => Some (set_field (bk_py b) (VObj o') fs) | None => None end
    | CObjList => match build f T (bk_cls b) kid with
                  | Some o' => match append_obj F (opt_value (lookup (bk_py b) fs)) o' with
                               | Some v => Some (set_field (bk_py b) v fs) | None => None end
                  | None => None end
    | CText => Some (set_field (bk_py b) (VStr (x_text kid)) fs)
    | CAny => Some fs
    end.
Proof. intros H1 H2. unfold bld_step. rewrite H1, H2. reflexivity. Qed.

(* ------------------------------------------------------------------ children half *)
(* the statement of the theorem at one fuel level: the induction hypothesis *)
Definition RT_at (f : nat) (T : tables) : Prop :=
  forall o, typedb f T o = true -> forall tag, exists x,
    export f T tag o = Some x /\ build f T (o_cls o) x = Some o.

Section Kids.
Variables (f : nat) (T : tables) (k : cls) (BK : list bld_kid) (fs : fields).
Hypothesis IH : RT_at f T.

Notation step := (bld_step f T k BK).

(* a list member: the children are appended one by one to what is already there *)
Lemma list_member_rt tag b py :
  c_any_always k = false -> find_branch tag BK = Some b -> bk_py b = py -> bk_kind b = CObjList ->
  forall l pre acc,
  (forall o', In o' l -> o_cls o' = bk_cls b /\ typedb f T o' = true) ->
  lookup py acc = Some (VObjs pre) ->
  exists xs acc', all_opt (map (export f T tag) l) = Some xs /\
    fold_left step xs (Some acc) = Some acc' /\
    map fst acc' = map fst acc /\
    lookup py acc' = Some (VObjs (pre ++ l)%list) /\
    (forall k', k' <> py -> lookup k' acc' = lookup k' acc) /\
    (l = [] -> xs = []).
Proof.
  intros Hany Fb Bp Bk. induction l as [|o' l IHl]; intros pre acc Hl Lp.
  - exists [], acc. rewrite app_nil_r. repeat split; auto.
  - destruct (Hl o' (or_introl eq_refl)) as [Hc Ht].
    destruct (IH o' Ht tag) as (x & Ex & Bx).
    assert (Hin : In py (map fst acc)) by (eapply lookup_some_keys; eassumption).
    destruct (IHl (pre ++ [o'])%list (set_field py (VObjs (pre ++ [o'])%list) acc)) as (xs & acc' & A & Fo & K & L & O & _).
    { intros o'' Ho''. apply Hl. right. assumption. }
    { apply lookup_set_same. }
    exists (x :: xs), acc'. cbn [map all_opt]. rewrite Ex, A. split; [reflexivity|].
    cbn [fold_left]. rewrite (bld_step_known f T k BK acc x b Hany).
    2:{ rewrite (export_tag _ _ _ _ _ Ex). assumption. }
    rewrite Bk, <- Hc, Bx, Bp, Lp. cbn [Gds.opt_value Gds.append_obj].
    split; [assumption|]. rewrite keys_set_field in K by assumption. split; [assumption|].
    split; [rewrite <- app_assoc in L; assumption|]. split.
    + intros k' N. rewrite O by assumption. apply lookup_set_other. assumption.
    + discriminate.
Qed.

Definition kid_hyp (e : exp_kid) : Prop :=
  exists b v, find_branch (ek_tag e) BK = Some b /\ bk_py b = ek_py e /\ bk_kind b = ek_kind e /\
    (c_any_always k = false \/ ek_kind e = CAny) /\
    lookup (ek_py e) fs = Some v /\ kid_ok f T e b v = true.

Lemma member_rt e acc :
  kid_hyp e -> lookup (ek_py e) acc = Some (inject (kid_default (ek_kind e))) ->
  exists ks acc', exp_one f T fs e = Some ks /\
    fold_left step ks (Some acc) = Some acc' /\
    map fst acc' = map fst acc /\
    lookup (ek_py e) acc' = lookup (ek_py e) fs /\
    (forall k', k' <> ek_py e -> lookup k' acc' = lookup k' acc) /\
    (truthy (opt_value (lookup (ek_py e) fs)) = false -> ks = []).
Proof.
  intros (b & v & Fb & Bp & Bk & Hany & Lv & Ok) La.
  assert (Hin : In (ek_py e) (map fst acc)) by (eapply lookup_some_keys; eassumption).
  unfold exp_one, kid_ok in *. rewrite Lv. cbn [Gds.opt_value].
  destruct (ek_kind e) eqn:Ek; cbn [kid_default Gds.inject] in La.
  - (* CObj *)
    destruct Hany as [Hany|Hany]; [|discriminate].
    destruct v as [| | | | o' | |]; try discriminate.
    + exists [], acc. rewrite La. repeat split; auto.
    + apply andb_true_iff in Ok as [Hc Ht]. apply String.eqb_eq in Hc.
      destruct (IH o' Ht (ek_tag e)) as (x & Ex & Bx). rewrite Ex. cbn [option_map].
      exists [x], (set_field (ek_py e) (VObj o') acc). split; [reflexivity|].
      cbn [fold_left]. rewrite (bld_step_known f T k BK acc x b Hany).
      2:{ rewrite (export_tag _ _ _ _ _ Ex). assumption. }
      rewrite Bk, <- Hc, Bx, Bp. split; [reflexivity|].
      split; [apply keys_set_field; assumption|]. split; [apply lookup_set_same|].
      split; [intros k' N; apply lookup_set_other; assumption | discriminate].
  - (* CObjList *)
    destruct Hany as [Hany|Hany]; [|discriminate].
    destruct v as [| | | | | l |]; try discriminate.
    rewrite forallb_forall in Ok.
    destruct (list_member_rt (ek_tag e) b (ek_py e) Hany Fb Bp Bk l [] acc) as (xs & acc' & A & Fo & K & L & O & E); auto.
    { intros o' Ho'. specialize (Ok o' Ho'). apply andb_true_iff in Ok as [Hc Ht].
      apply String.eqb_eq in Hc. auto. }
    exists xs, acc'. repeat split; auto.
    intro Tr. apply E. destruct l; [reflexivity | discriminate].
  - (* CText *)
    destruct Hany as [Hany|Hany]; [|discriminate].
    destruct v as [| s | | | | |]; try discriminate.
    + exists [], acc. rewrite La. repeat split; auto.
    + exists [Elem (ek_tag e) [] s []], (set_field (ek_py e) (VStr s) acc). split; [reflexivity|].
      cbn [fold_left]. rewrite (bld_step_known f T k BK acc _ b Hany) by assumption.
      rewrite Bk, Bp. cbn [x_text]. split; [reflexivity|].
      split; [apply keys_set_field; assumption|]. split; [apply lookup_set_same|].
      split; [intros k' N; apply lookup_set_other; assumption | discriminate].
  - (* CAny *)
    destruct v as [| | | | | | l]; try discriminate. destruct l; [|discriminate].
    exists [], acc. rewrite La. repeat split; auto.
Qed.

Lemma kids_rt : forall EK acc,
  NoDup (map ek_py EK) -> (forall e, In e EK -> kid_hyp e) ->
  (forall e, In e EK -> lookup (ek_py e) acc = Some (inject (kid_default (ek_kind e)))) ->
  exists kids acc', flat_opt (map (exp_one f T fs) EK) = Some kids /\
    fold_left step kids (Some acc) = Some acc' /\
    map fst acc' = map fst acc /\
    (forall e, In e EK -> lookup (ek_py e) acc' = lookup (ek_py e) fs) /\
    (forall k', ~ In k' (map ek_py EK) -> lookup k' acc' = lookup k' acc) /\
    ((forall e, In e EK -> truthy (opt_value (lookup (ek_py e) fs)) = false) -> kids = []).
Proof.
  induction EK as [|e r IHr]; intros acc ND HK HD.
  - exists [], acc. repeat split; auto. intros e [].
  - simpl in ND. inversion ND as [|? ? Hn ND']; subst.
    destruct (member_rt e acc (HK e (or_introl eq_refl)) (HD e (or_introl eq_refl)))
      as (ks & acc1 & E1 & F1 & K1 & L1 & O1 & T1).
    destruct (IHr acc1 ND') as (kids & acc' & E2 & F2 & K2 & L2 & O2 & T2).
    { intros e' He'. apply HK. right. assumption. }
    { intros e' He'. rewrite O1.
      - apply HD. right. assumption.
      - intro E. apply Hn. rewrite <- E. apply in_map. assumption. }
    exists (ks ++ kids)%list, acc'. cbn [map flat_opt]. rewrite E1, E2. split; [reflexivity|].
    rewrite fold_left_app, F1. split; [assumption|]. split; [congruence|]. split; [|split].
    + intros e' [<-|He'].
      * rewrite O2 by assumption. assumption.
      * apply L2. assumption.
    + intros k' N. cbn [map In] in N. rewrite O2 by tauto. apply O1. intro E. apply N. left. auto.
    + intro A. rewrite T1 by (apply A; left; reflexivity).
      rewrite T2; [reflexivity|]. intros e' He'. apply A. right. assumption.
Qed.

End Kids.

(* ------------------------------------------------------------------ one class level *)
Lemma class_rt f T c k dfl fs tag :
  RT_at f T -> find_cls T c = Some k -> init_lits T c = Some dfl ->
  cwf dfl (exp_attrs_of (cfuel T) T c) (bld_attrs_of (cfuel T) T c)
      (exp_kids_of (cfuel T) T c) (bld_kids_of (cfuel T) T c) (hc_of (cfuel T) T c) (c_any_always k) ->
  otyped f T dfl (exp_attrs_of (cfuel T) T c) (bld_attrs_of (cfuel T) T c)
      (exp_kids_of (cfuel T) T c) (bld_kids_of (cfuel T) T c) fs ->
  exists x, export (S f) T tag (Obj c fs) = Some x /\ build (S f) T c x = Some (Obj c fs).
Proof.
  intros IH Fk I.
  pose proof (export_S f T tag (Obj c fs)) as ExS. pose proof (fun x => build_S f T c x) as BuS.
  cbn [Gds.o_cls Gds.o_fields] in ExS. revert ExS BuS.
  generalize (exp_attrs_of (cfuel T) T c) (bld_attrs_of (cfuel T) T c)
             (exp_kids_of (cfuel T) T c) (bld_kids_of (cfuel T) T c) (hc_of (cfuel T) T c).
  intros EA BA EK BK HC ExS BuS W Ty.
  destruct (attrs_roundtrip f T dfl EA BA EK BK HC _ fs W Ty) as (attrs & fs1 & EX & BU & K1 & A1 & A2).
  cbv zeta in BU, A2.
  set (fs0 := map (fun nv => (fst nv, inject (snd nv))) dfl) in *.
  assert (KD : forall e, In e EK -> ~ In (ek_py e) (map ea_py EA)).
  { intros e He. apply (w_ek _ _ _ _ _ _ _ W e He). }
  destruct (kids_rt f T k BK fs IH EK fs1) as (kids & fs2 & E2 & F2 & K2 & L2 & O2 & T2).
  { apply (w_ek_py _ _ _ _ _ _ _ W). }
  { intros e He. destruct (w_ek _ _ _ _ _ _ _ W e He) as (_ & _ & _ & (b & Fb & Bp & Bk) & _ & Hany).
    destruct (t_kid _ _ _ _ _ _ _ _ Ty e He b Fb) as (v & Lv & Ok).
    exists b, v. repeat split; auto. }
  { intros e He. rewrite A2 by (apply KD; assumption). unfold fs0. rewrite lookup_map_snd.
    destruct (w_ek _ _ _ _ _ _ _ W e He) as (_ & _ & _ & _ & Ld & _). rewrite Ld. reflexivity. }
  assert (KO : (if has_content fs HC then kids else []) = kids).
  { destruct (has_content fs HC) eqn:Hc; [reflexivity|]. symmetry. apply T2.
    intros e He. unfold Gds.has_content in Hc.
    apply (existsb_false _ _ Hc (ek_py e)). apply (w_ek _ _ _ _ _ _ _ W e He). }
  exists (Elem tag attrs "" kids). split.
  - rewrite ExS, Fk, EX, E2. destruct (has_content fs HC); [reflexivity | rewrite <- KO; reflexivity].
  - rewrite BuS, Fk. unfold Gds.default_fields. rewrite I. cbn [option_map x_attrs x_kids].
    fold fs0. rewrite BU, F2. do 2 f_equal.
    pose proof (t_keys _ _ _ _ _ _ _ _ Ty) as TK.
    assert (NDf : NoDup (map fst fs)) by (rewrite TK; apply (w_keys _ _ _ _ _ _ _ W)).
    apply assoc_ext.
    + congruence.
    + rewrite K2, K1. assumption.
    + intros n Hn. rewrite K2, K1 in Hn.
      destruct (in_dec string_dec n (map ek_py EK)) as [Ik|Nk].
      * apply in_map_iff in Ik as (e & <- & He). apply L2. assumption.
      * rewrite O2 by assumption.
        destruct (in_dec string_dec n (map ea_py EA)) as [Ia|Na].
        -- apply in_map_iff in Ia as (a & <- & Ha). apply A1. assumption.
        -- rewrite A2 by assumption. unfold fs0. rewrite lookup_map_snd.
           destruct (lookup_in_keys _ _ Hn) as [v Lv]. rewrite Lv.
           rewrite (t_other _ _ _ _ _ _ _ _ Ty n v (lookup_In _ _ _ Lv) Na Nk).
           rewrite TK in Hn. destruct (lookup_in_keys _ _ Hn) as [d Ld]. rewrite Ld.
           destruct (w_other _ _ _ _ _ _ _ W n d (lookup_In _ _ _ Ld)) as [?|[?| ->]]; try contradiction.
           reflexivity.
Qed.

(* ------------------------------------------------------------------ the theorem *)
Theorem roundtrip : forall T, rt_wf T = true ->
  forall n o, typedb n T o = true ->
  forall tag, exists x,
    export n T tag o = Some x /\ build n T (o_cls o) x = Some o.
Proof.
  intros T W. induction n as [|f IHf]; intros o Ty tag; [discriminate|].
  rewrite typedb_S in Ty. destruct o as [c fs]. cbn [Gds.o_cls Gds.o_fields] in *.
  destruct (init_lits T c) as [dfl|] eqn:I; [|discriminate].
  apply andb_true_iff in Ty as [SK FA].
  destruct (rt_wf_cls T c dfl W I) as (k & Fk & C).
  eapply class_rt; eauto.
  eapply typed_otyped; eassumption.
Qed.

(* ------------------------------------------------------------------ corollaries (C04) *)
(* what was loaded is a fixed point of write-then-load *)
Corollary export_build_fixed_point : forall T, rt_wf T = true ->
  forall n c x o, build n T c x = Some o -> typedb n T o = true ->
  forall tag, exists x', export n T tag o = Some x' /\ build n T c x' = Some o.
Proof.
  intros T W n c x o B Ty tag. rewrite <- (build_cls _ _ _ _ _ B). apply roundtrip; assumption.
Qed.

(* hence every later write gives the same element *)
Corollary export_stable : forall T, rt_wf T = true ->
  forall n o, typedb n T o = true ->
  forall tag x, export n T tag o = Some x ->
  exists o', build n T (o_cls o) x = Some o' /\ export n T tag o' = Some x.
Proof.
  intros T W n o Ty tag x E. destruct (roundtrip T W n o Ty tag) as (x' & E' & B').
  assert (x' = x) by congruence. subst. exists o. auto.
Qed.

(* a schema float that went through "%.15f" once is carried exactly from then on *)
Lemma stable_after_one_cycle :
  (forall x y, parse_float (fmt_float x) = Some y -> fmt_float y = fmt_float x) ->
  forall x y, parse_float (fmt_float x) = Some y -> stable15 y = true.
Proof.
  intros H x y P. unfold GdsWf.stable15. rewrite (H x y P), P. apply F_eqb_spec. reflexivity.
Qed.

(* build reads attributes by name only *)
Lemma build_attrs_ext a a' : (forall k, lookup k a = lookup k a') ->
  forall bas seen fs, build_attrs a bas seen fs = build_attrs a' bas seen fs.
Proof.
  intro H. induction bas as [|b r IH]; intros seen fs; cbn [Gds.build_attrs]; [reflexivity|].
  rewrite H. destruct (lookup (ba_xml b) a'); auto.
  destruct (mem (ba_key b) seen); auto.
  destruct (parse_attr (ba_kind b) (ba_range b) s); auto.
Qed.

Theorem build_attr_order : forall n T c t a a' tx k,
  Permutation a a' -> NoDup (map fst a) ->
  build n T c (Elem t a tx k) = build n T c (Elem t a' tx k).
Proof.
  intros n T c t a a' tx k P ND. destruct n as [|f]; [reflexivity|].
  rewrite !build_S. cbn [x_attrs x_kids].
  destruct (find_cls T c); [|reflexivity]. destruct (default_fields T c); [|reflexivity].
  rewrite (build_attrs_ext a a' (lookup_perm a a' P ND)). reflexivity.
Qed.

End RT.

(* ------------------------------------------------------------------ the hypotheses are satisfiable *)
(* the Section hypotheses: integer-valued floats printed with "%d" satisfy all of them *)
Definition roundtrip_int_floats :=
  roundtrip Z Z.eqb (fun _ => 0%Z) fmt_int fmt_int parse_int Z.eqb_eq parse_int_fmt_int (fun _ => eq_refl).

Example stable_hyp_int_floats : forall x y, parse_int (fmt_int x) = Some y -> fmt_int y = fmt_int x.
Proof. intros x y H. rewrite parse_int_fmt_int in H. congruence. Qed.

(* a two-class table set (A extends B, A holds a list of B and a text child) *)
Definition ex_B : cls := {|
  c_name := "B"; c_super := None;
  c_params := [ {| p_name := "id"; p_default := DNone |}; {| p_name := "w"; p_default := DDec "1.5" |} ];
  c_super_args := [];
  c_assign := [("id", CastRaw); ("w", CastFloat)];
  c_has_content := []; c_hc_super := false;
  c_exp_attrs := [ {| ea_py := "id"; ea_xml := "id"; ea_kind := KStr; ea_guard := GNotNone |};
                   {| ea_py := "w"; ea_xml := "weight"; ea_kind := KFloat; ea_guard := GNe (DDec "1.5") |} ];
  c_exp_attrs_super := SupNone;
  c_bld_attrs := [ {| ba_xml := "id"; ba_py := "id"; ba_kind := KStr; ba_range := RNone; ba_key := "id" |};
                   {| ba_xml := "weight"; ba_py := "w"; ba_kind := KFloat; ba_range := RNone; ba_key := "weight" |} ];
  c_bld_attrs_super := SupNone;
  c_exp_kids := []; c_exp_kids_super := SupNone;
  c_bld_kids := []; c_bld_kids_super := SupNone;
  c_any_always := false |}.

Definition ex_A : cls := {|
  c_name := "A"; c_super := Some "B";
  c_params := [ {| p_name := "id"; p_default := DNone |}; {| p_name := "w"; p_default := DDec "1.5" |};
                {| p_name := "n"; p_default := DInt 0 |}; {| p_name := "bs"; p_default := DNone |};
                {| p_name := "note"; p_default := DNone |} ];
  c_super_args := ["id"; "w"];
  c_assign := [("n", CastInt); ("bs", CastList); ("note", CastRaw)];
  c_has_content := ["bs"; "note"]; c_hc_super := true;
  c_exp_attrs := [ {| ea_py := "n"; ea_xml := "n"; ea_kind := KInt; ea_guard := GNe (DInt 0) |} ];
  c_exp_attrs_super := SupFirst;
  c_bld_attrs := [ {| ba_xml := "n"; ba_py := "n"; ba_kind := KInt; ba_range := RNonNeg; ba_key := "n" |} ];
  c_bld_attrs_super := SupFirst;
  c_exp_kids := [ {| ek_py := "bs"; ek_tag := "b"; ek_kind := CObjList |};
                  {| ek_py := "note"; ek_tag := "note"; ek_kind := CText |} ];
  c_exp_kids_super := SupFirst;
  c_bld_kids := [ {| bk_tag := "b"; bk_py := "bs"; bk_cls := "B"; bk_kind := CObjList; bk_dispatch := false |};
                  {| bk_tag := "note"; bk_py := "note"; bk_cls := ""; bk_kind := CText; bk_dispatch := false |} ];
  c_bld_kids_super := SupFirst;
  c_any_always := false |}.

Definition ex_T : tables := [ex_B; ex_A].

Definition ex_o : obj dec :=
  Obj "A" [ ("id", VStr "a1"); ("w", VFlt (25%Z, 2%nat)); ("n", VInt 3%Z);
            ("bs", VObjs [ Obj "B" [("id", VStr "b1"); ("w", VFlt (15%Z, 1%nat))];
                           Obj "B" [("id", VNone); ("w", VFlt ((-2)%Z, 0%nat))] ]);
            ("note", VStr "hello <&>") ].

Example ex_rt_wf : rt_wf ex_T = true.
Proof. vm_compute. reflexivity. Qed.

Example ex_typed : typedb dec dec_eqb show_dec parse_dec 2 ex_T ex_o = true.
Proof. vm_compute. reflexivity. Qed.

(* the executable instance agrees with the theorem on this object (a test, not part of the proof) *)
Example ex_roundtrip_computes :
  match export dec dec_eqb dec_norm show_dec show_dec 2 ex_T "a" ex_o with
  | Some x => x_attrs x = [("id", "a1"); ("weight", "0.25"); ("n", "3")] /\ length (x_kids x) = 3%nat /\
              build dec dec_norm parse_dec 2 ex_T "A" x = Some ex_o
  | None => False
  end.
Proof. vm_compute. repeat split; reflexivity. Qed.

Example ex_attr_order :
  build dec dec_norm parse_dec 2 ex_T "B" (Elem "b" [("id", "b1"); ("weight", "0.5")] "" [])
  = build dec dec_norm parse_dec 2 ex_T "B" (Elem "b" [("weight", "0.5"); ("id", "b1")] "" []).
Proof. apply build_attr_order; [apply perm_swap | repeat constructor; simpl; intuition discriminate]. Qed.

Print Assumptions roundtrip.
Print Assumptions export_build_fixed_point.
Print Assumptions stable_after_one_cycle.
Print Assumptions build_attr_order.
Print Assumptions parse_int_fmt_int.
