(* Correctness of the derivative matcher of Lib/Regex.v:  matchl sat r w = true <-> Matches sat r w. *)
From Coq Require Import String Ascii List Bool Arith Lia.
From LNML Require Import Lib.Regex.
Import ListNotations.

Section Correct.
Variables (P A : Type).
Variable sat : P -> A -> bool.
Notation M := (Matches sat).

Lemma nullable_correct : forall r : re P, nullable r = true <-> M r [].
Proof.
  induction r as [| |p|r IHr s IHs|r IHr s IHs|r IHr]; simpl; split; intro H.
  - discriminate.
  - inversion H.
  - constructor.
  - reflexivity.
  - discriminate.
  - inversion H.
  - apply andb_true_iff in H as [H1 H2]. change (@nil A) with ((@nil A) ++ [])%list.
    constructor; [apply IHr | apply IHs]; assumption.
  - inversion H as [| |r0 s0 u v Hu Hv| | | |]; subst.
    match goal with E : (_ ++ _)%list = [] |- _ => apply app_eq_nil in E as [-> ->] end.
    apply andb_true_iff; split; [apply IHr | apply IHs]; assumption.
  - apply orb_true_iff in H as [H|H]; [apply MAltL, IHr | apply MAltR, IHs]; assumption.
  - apply orb_true_iff. inversion H; subst; [left; apply IHr | right; apply IHs]; assumption.
  - constructor.
  - reflexivity.
Qed.

Lemma star_cons_inv : forall (r : re P) a w, M (Star r) (a :: w) ->
  exists u v, w = (u ++ v)%list /\ M r (a :: u) /\ M (Star r) v.
Proof.
  intros r a w H. remember (Star r) as sr eqn:Hsr. remember (a :: w) as aw eqn:Haw.
  revert a w Haw. induction H as [| | | | | r0 | r0 u v Hu _ Hv IHv]; intros a' w' Haw; try discriminate.
  inversion Hsr; subst r0. destruct u as [|b u'].
  - simpl in Haw. apply (IHv eq_refl a' w' Haw).
  - simpl in Haw. inversion Haw; subst. exists u', v. auto.
Qed.

Lemma deriv_correct : forall (r : re P) a w, M (deriv sat a r) w <-> M r (a :: w).
Proof.
  induction r as [| |p|r IHr s IHs|r IHr s IHs|r IHr]; intros a w; simpl.
  - split; intro H; inversion H.
  - split; intro H; inversion H.
  - destruct (sat p a) eqn:E; split; intro H.
    + inversion H; subst. constructor; assumption.
    + inversion H; subst. constructor.
    + inversion H.
    + inversion H; subst. congruence.
  - destruct (nullable r) eqn:N.
    + split; intro H.
      * inversion H as [| | | r0 s0 u Hu | r0 s0 u Hu | |]; subst.
        -- inversion Hu as [| |r1 s1 u1 v1 H1 H2| | | |]; subst.
           change (a :: u1 ++ v1)%list with ((a :: u1) ++ v1)%list. constructor; [apply IHr|]; assumption.
        -- change (a :: w) with ([] ++ a :: w)%list. constructor; [apply nullable_correct; assumption | apply IHs; assumption].
      * inversion H as [| |r0 s0 u v Hu Hv| | | |]; subst.
        match goal with E : (_ ++ _)%list = (_ :: _)%list |- _ => rename E into Heq end. destruct u as [|b u'].
        -- simpl in Heq. subst v. apply MAltR. apply IHs. assumption.
        -- simpl in Heq. inversion Heq; subst. apply MAltL. constructor; [apply IHr|]; assumption.
    + split; intro H.
      * inversion H as [| |r0 s0 u v Hu Hv| | | |]; subst.
        change (a :: u ++ v)%list with ((a :: u) ++ v)%list. constructor; [apply IHr|]; assumption.
      * inversion H as [| |r0 s0 u v Hu Hv| | | |]; subst.
        match goal with E : (_ ++ _)%list = (_ :: _)%list |- _ => rename E into Heq end. destruct u as [|b u'].
        -- apply nullable_correct in Hu. congruence.
        -- simpl in Heq. inversion Heq; subst. constructor; [apply IHr|]; assumption.
  - split; intro H.
    + inversion H; subst; [apply MAltL, IHr | apply MAltR, IHs]; assumption.
    + inversion H; subst; [apply MAltL, IHr | apply MAltR, IHs]; assumption.
  - split; intro H.
    + inversion H as [| |r0 s0 u v Hu Hv| | | |]; subst.
      change (a :: u ++ v)%list with ((a :: u) ++ v)%list. apply MStarS; [apply IHr|]; assumption.
    + apply star_cons_inv in H as (u & v & -> & Hu & Hv). constructor; [apply IHr|]; assumption.
Qed.

Lemma is_emp_sound : forall (r : re P) w, is_emp r = true -> ~ M r w.
Proof.
  induction r as [| |p|r IHr s IHs|r IHr s IHs|r IHr]; simpl; intros w E H; try discriminate.
  - inversion H.
  - inversion H; subst. apply orb_true_iff in E as [E|E]; [eapply IHr | eapply IHs]; eassumption.
  - apply andb_true_iff in E as [E1 E2]. inversion H; subst; [eapply IHr | eapply IHs]; eassumption.
Qed.

Lemma simp_correct : forall (r : re P) w, M (simp r) w <-> M r w.
Proof.
  induction r as [| |p|r IHr s IHs|r IHr s IHs|r IHr]; intros w; simpl; try tauto.
  - destruct (is_emp (simp r) || is_emp (simp s)) eqn:E.
    + split; intro H; [inversion H|].
      inversion H as [| |r0 s0 u v Hu Hv| | | |]; subst.
      apply orb_true_iff in E as [E|E]; exfalso.
      * apply (is_emp_sound _ u E). apply IHr. assumption.
      * apply (is_emp_sound _ v E). apply IHs. assumption.
    + assert (G : M (Cat (simp r) (simp s)) w <-> M (Cat r s) w).
      { split; intro H; inversion H; subst; constructor;
          try (apply IHr; assumption); try (apply IHs; assumption). }
      destruct (simp r) eqn:Er; try exact G.
      rewrite <- G. split; intro H.
      * change w with ([] ++ w)%list. constructor; [constructor | assumption].
      * inversion H as [| |r0 s0 u v Hu Hv| | | |]; subst. inversion Hu; subst. assumption.
  - assert (G : M (Alt (simp r) (simp s)) w <-> M (Alt r s) w).
    { split; intro H; inversion H; subst;
        solve [apply MAltL, IHr; assumption | apply MAltR, IHs; assumption]. }
    destruct (is_emp (simp r)) eqn:E1.
    + rewrite <- G. split; intro H; [apply MAltR; assumption|].
      inversion H; subst; [exfalso; eapply is_emp_sound; eassumption | assumption].
    + destruct (is_emp (simp s)) eqn:E2; [|exact G].
      rewrite <- G. split; intro H; [apply MAltL; assumption|].
      inversion H; subst; [assumption | exfalso; eapply is_emp_sound; eassumption].
Qed.

Theorem matchl_correct : forall w (r : re P), matchl sat r w = true <-> M r w.
Proof.
  induction w as [|a w IH]; intro r; simpl.
  - apply nullable_correct.
  - rewrite IH, simp_correct. apply deriv_correct.
Qed.

(* two expressions whose symbols accept the same letters of a word accept or reject it together *)
Lemma matches_ext : forall (sat' : P -> A -> bool) (r : re P) w,
  (forall p a, In a w -> sat p a = sat' p a) -> M r w -> Matches sat' r w.
Proof.
  intros sat' r w Hext H. induction H; try (constructor; fail).
  - constructor. rewrite <- Hext; [assumption | left; reflexivity].
  - constructor; [apply IHMatches1 | apply IHMatches2]; intros; apply Hext; apply in_or_app; auto.
  - apply MAltL, IHMatches, Hext.
  - apply MAltR, IHMatches, Hext.
  - constructor; [apply IHMatches1 | apply IHMatches2]; intros; apply Hext; apply in_or_app; auto.
Qed.

End Correct.

(* ---------------------------------------------------------------- structural equality / symbol maps *)
Lemma matches_map : forall (P Q A : Type) (satP : P -> A -> bool) (satQ : Q -> A -> bool) (f : P -> Q) (r : re P) w,
  (forall p a, In a w -> satQ (f p) a = satP p a) -> Matches satP r w -> Matches satQ (re_map f r) w.
Proof.
  intros P Q A satP satQ f r w Hext H. induction H; simpl; try (constructor; fail).
  - constructor. rewrite Hext; [assumption | left; reflexivity].
  - constructor; [apply IHMatches1 | apply IHMatches2]; intros; apply Hext; apply in_or_app; auto.
  - apply MAltL, IHMatches, Hext.
  - apply MAltR, IHMatches, Hext.
  - apply MStarS; [apply IHMatches1 | apply IHMatches2]; intros; apply Hext; apply in_or_app; auto.
Qed.

(* expressions that are structurally equal up to a symbol relation which preserves satisfaction on the letters
   of w accept w together *)
Lemma re_eqb_matches : forall (P A : Type) (sat : P -> A -> bool) (peq : P -> P -> bool) w,
  (forall p q a, peq p q = true -> In a w -> sat p a = sat q a) ->
  forall r s, re_eqb peq r s = true -> Matches sat r w -> Matches sat s w.
Proof.
  intros P A sat peq w Hpeq r s E H. revert s E Hpeq.
  induction H as [|p a Hs|r1 r2 u v H1 IH1 H2 IH2|r1 r2 u H1 IH1|r1 r2 u H1 IH1|r1|r1 u v H1 IH1 H2 IH2];
    intros s E Hpeq; destruct s; simpl in E; try discriminate.
  - constructor.
  - constructor. rewrite <- (Hpeq p p0 a E); [assumption | left; reflexivity].
  - apply andb_true_iff in E as [Ea Eb].
    constructor; [apply IH1 | apply IH2]; auto; intros; eapply Hpeq; eauto; apply in_or_app; auto.
  - apply andb_true_iff in E as [Ea Eb]. apply MAltL, IH1; auto.
  - apply andb_true_iff in E as [Ea Eb]. apply MAltR, IH1; auto.
  - constructor.
  - constructor.
    + apply IH1; auto; intros; eapply Hpeq; eauto; apply in_or_app; auto.
    + apply (IH2 (Star s)); [simpl; assumption|]. intros; eapply Hpeq; eauto; apply in_or_app; auto.
Qed.

(* ---------------------------------------------------------------- characters: equality on printable text *)
Lemma nats_eqb_eq : forall a b, nats_eqb a b = true -> a = b.
Proof.
  induction a as [|x a IH]; destruct b as [|y b]; simpl; intro H; try discriminate; [reflexivity|].
  apply andb_true_iff in H as [H1 H2]. apply Nat.eqb_eq in H1. f_equal; auto.
Qed.

Lemma in_upto_acc : forall n acc k, (k < n \/ In k acc) -> In k (upto_acc n acc).
Proof.
  induction n as [|n IH]; intros acc k H; simpl.
  - destruct H as [H|H]; [lia | exact H].
  - apply IH. destruct (Nat.eq_dec k n) as [->|Hne].
    + right; left; reflexivity.
    + destruct H as [H|H]; [left; lia | right; right; exact H].
Qed.

Lemma in_upto : forall n k, k < n -> In k (upto n).
Proof. intros n k H. apply in_upto_acc. left. exact H. Qed.

Lemma nat_of_ascii_lt : forall c, nat_of_ascii c < 128 \/ 128 <= nat_of_ascii c.
Proof. intro c. lia. Qed.

Lemma codes_of_spec : forall p n, printable_code n = true ->
  (In n (codes_of p) <-> existsb (in_range n) p = true).
Proof.
  intros p n Hp. unfold codes_of. rewrite filter_In. split.
  - intros [_ H]. rewrite Hp in H. exact H.
  - intro H. split; [|rewrite Hp; exact H]. apply in_upto.
    unfold printable_code in Hp.
    repeat (apply orb_true_iff in Hp as [Hp|Hp]); try (apply Nat.eqb_eq in Hp; lia).
    apply andb_true_iff in Hp as [_ Hp]. apply Nat.leb_le in Hp. lia.
Qed.

Lemma ranges_eqb_eq : forall p q, ranges_eqb p q = true -> p = q.
Proof.
  induction p as [|[a b] p IH]; destruct q as [|[c d] q]; simpl; intro H; try discriminate; [reflexivity|].
  destruct (Nat.eqb a c) eqn:E1; [|discriminate]. destruct (Nat.eqb b d) eqn:E2; [|discriminate].
  apply Nat.eqb_eq in E1, E2. subst. f_equal. apply IH. exact H.
Qed.

Lemma ranges_eqb_refl : forall p, ranges_eqb p p = true.
Proof. induction p as [|[a b] p IH]; simpl; [reflexivity|]. rewrite !Nat.eqb_refl. exact IH. Qed.

Lemma cset_eq_printable_sat : forall p q c, cset_eq_printable p q = true -> printable_char c = true ->
  csat p c = csat q c.
Proof.
  intros p q c E Hc. unfold cset_eq_printable in E.
  destruct (ranges_eqb p q) eqn:Er; [apply ranges_eqb_eq in Er; subst; reflexivity|].
  apply nats_eqb_eq in E. unfold csat.
  unfold printable_char in Hc.
  pose proof (codes_of_spec p _ Hc) as Hp. pose proof (codes_of_spec q _ Hc) as Hq. rewrite E in Hp.
  destruct (existsb (in_range (nat_of_ascii c)) p) eqn:E1, (existsb (in_range (nat_of_ascii c)) q) eqn:E2; auto.
  - assert (In (nat_of_ascii c) (codes_of q)) by (apply Hp; reflexivity). apply Hq in H. discriminate.
  - assert (In (nat_of_ascii c) (codes_of q)) by (apply Hq; reflexivity). apply Hp in H. discriminate.
Qed.

Lemma cset_eq_printable_sym : forall p q, cset_eq_printable p q = true -> cset_eq_printable q p = true.
Proof.
  intros p q E. unfold cset_eq_printable in *.
  destruct (ranges_eqb p q) eqn:Er.
  - apply ranges_eqb_eq in Er. subst. rewrite ranges_eqb_refl. reflexivity.
  - apply nats_eqb_eq in E. rewrite E. destruct (ranges_eqb q p); [reflexivity|].
    clear. induction (codes_of q) as [|x l IH]; simpl; [reflexivity|]. rewrite Nat.eqb_refl. exact IH.
Qed.

Lemma re_eqb_sym : forall (P : Type) (peq : P -> P -> bool), (forall p q, peq p q = true -> peq q p = true) ->
  forall r s, re_eqb peq r s = true -> re_eqb peq s r = true.
Proof.
  intros P peq Hs. induction r; destruct s; simpl; intro E; try discriminate; auto;
    try (apply andb_true_iff in E as [E1 E2]; apply andb_true_iff; split; auto).
Qed.

Lemma printable_in : forall s c, printable s = true -> In c (list_ascii_of_string s) -> printable_char c = true.
Proof.
  induction s as [|a s IH]; simpl; intros c Hp Hin; [contradiction|].
  apply andb_true_iff in Hp as [Ha Hs]. destruct Hin as [<-|Hin]; auto.
Qed.

(* the equality used by the agreement predicates decides equality of the two matchers on printable text *)
Theorem cre_eq_printable_match : forall r s w, cre_eq_printable r s = true -> printable w = true ->
  match_string r w = match_string s w.
Proof.
  intros r s w E Hw. unfold match_string.
  destruct (matchl csat r (list_ascii_of_string w)) eqn:E1, (matchl csat s (list_ascii_of_string w)) eqn:E2; auto.
  - apply matchl_correct in E1. assert (H : Matches csat s (list_ascii_of_string w)).
    { eapply re_eqb_matches; [|exact E|exact E1]. intros p q a Hpq Hin.
      apply cset_eq_printable_sat; [assumption | eapply printable_in; eassumption]. }
    apply matchl_correct in H. congruence.
  - apply matchl_correct in E2. assert (H : Matches csat r (list_ascii_of_string w)).
    { eapply re_eqb_matches; [|apply re_eqb_sym; [apply cset_eq_printable_sym|exact E]|exact E2].
      intros p q a Hpq Hin. apply cset_eq_printable_sat; [assumption | eapply printable_in; eassumption]. }
    apply matchl_correct in H. congruence.
Qed.
