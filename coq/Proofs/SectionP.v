(* C16 proofs, part 1: the rose-tree sectioning function. *)
From Coq Require Import List ZArith QArith Bool Lia Permutation.
From LNML Require Import Model.Morph Model.Section.
Import ListNotations.
Open Scope Z_scope.

(* ------------------------------------------------------------------ induction on rose trees *)
Section TreeInd.
  Variable P : tree -> Prop.
  Hypothesis step : forall n kids, Forall P kids -> P (Node n kids).
  Fixpoint tree_ind' (t : tree) : P t :=
    match t with
    | Node n kids =>
      step n kids ((fix go (l : list tree) : Forall P l :=
                      match l with
                      | [] => Forall_nil P
                      | x :: r => Forall_cons x (tree_ind' x) (go r)
                      end) kids)
    end.
End TreeInd.

Lemma concat_flat_map : forall {A B} (f : A -> list (list B)) l,
  concat (flat_map f l) = flat_map (fun x => concat (f x)) l.
Proof.
  induction l as [|x r IH]; simpl; auto. now rewrite concat_app, IH.
Qed.

Lemma flat_map_ext_Forall : forall {A B} (f g : A -> list B) l,
  Forall (fun x => f x = g x) l -> flat_map f l = flat_map g l.
Proof. induction 1; simpl; congruence. Qed.

(* the groups, concatenated in creation order, are exactly the preorder of the subtree (after what the
   current group already holds): every segment below the root is in exactly one group *)
Lemma sect_tree_concat : forall t cur, concat (sect_tree t cur) = (rev cur ++ preorder t)%list.
Proof.
  induction t as [n kids IH] using tree_ind'; intros cur.
  destruct kids as [|k [|k2 r]].
  - simpl. now rewrite app_nil_r.
  - inversion IH as [|? ? Hk _]; subst. cbn [sect_tree]. rewrite Hk. cbn [preorder flat_map rev].
    rewrite app_nil_r, <- app_assoc. reflexivity.
  - cbn [sect_tree]. cbn [concat]. rewrite concat_flat_map.
    rewrite (flat_map_ext_Forall (fun x => concat (sect_tree x [])) preorder).
    + cbn [preorder rev]. now rewrite <- app_assoc.
    + eapply Forall_impl; [|exact IH]. intros a Ha. now rewrite Ha.
Qed.

Theorem sect_tree_partition : forall t, concat (sect_tree t []) = preorder t.
Proof. intro t. now rewrite sect_tree_concat. Qed.

(* ------------------------------------------------------------------ what a group is *)
(* chain t l e : l lists the ids from the root of t downwards through nodes that have exactly ONE child,
   ending with the root of the subtree e (so consecutive members are parent and only child) *)
Inductive chain : tree -> list Z -> tree -> Prop :=
| chain_end : forall t, chain t [root_id t] t
| chain_step : forall n k l e, chain k l e -> chain (Node n [k]) (n :: l) e.

Inductive subtree : tree -> tree -> Prop :=
| sub_refl : forall t, subtree t t
| sub_kid : forall n kids k s, In k kids -> subtree k s -> subtree (Node n kids) s.

(* where a group may start: at the given root, or at a child of a branch point (>= 2 children) *)
Definition branch_start (T s : tree) : Prop :=
  s = T \/ exists n kids, subtree T (Node n kids) /\ (2 <= length kids)%nat /\ In s kids.

Lemma subtree_trans : forall a b c, subtree a b -> subtree b c -> subtree a c.
Proof. induction 1; intros; auto. econstructor; eauto. Qed.

Lemma sect_tree_groups_gen : forall t cur g, In g (sect_tree t cur) ->
  (exists l e, g = (rev cur ++ l)%list /\ chain t l e /\ length (subtrees e) <> 1%nat) \/
  (exists n kids s e, subtree t (Node n kids) /\ (2 <= length kids)%nat /\ In s kids /\
                      chain s g e /\ length (subtrees e) <> 1%nat).
Proof.
  induction t as [n kids IH] using tree_ind'; intros cur g Hg.
  destruct kids as [|k [|k2 r]].
  - simpl in Hg. destruct Hg as [<-|[]]. left. exists [n], (Node n []). repeat split.
    + constructor.
    + simpl. lia.
  - inversion IH as [|? ? Hk _]; subst. cbn [sect_tree] in Hg. apply Hk in Hg.
    destruct Hg as [[l [e [-> [Hc He]]]]|[n' [kids' [s [e [Hs [Hlen [Hin [Hc He]]]]]]]]].
    + left. exists (n :: l), e. repeat split; auto.
      * simpl. now rewrite <- app_assoc.
      * now constructor.
    + right. exists n', kids', s, e. repeat split; auto. eapply sub_kid; [now left|auto].
  - cbn [sect_tree] in Hg. destruct Hg as [<-|Hg].
    + left. exists [n], (Node n (k :: k2 :: r)). repeat split.
      * constructor.
      * simpl. lia.
    + apply in_flat_map in Hg. destruct Hg as [x [Hx Hg]].
      rewrite Forall_forall in IH. apply (IH x Hx) in Hg.
      destruct Hg as [[l [e [-> [Hc He]]]]|[n' [kids' [s [e [Hs [Hlen [Hin [Hc He]]]]]]]]].
      * right. exists n, (k :: k2 :: r), x, e. repeat split; auto; [constructor|simpl; lia].
      * right. exists n', kids', s, e. repeat split; auto. eapply sub_kid; eauto.
Qed.

(* every group is an unbranched parent-to-only-child chain that cannot be extended: it ends at a segment with
   no child or with several, and starts at the given root or right below a branch point *)
Theorem sect_tree_groups : forall T g, In g (sect_tree T []) ->
  exists s e, branch_start T s /\ chain s g e /\ length (subtrees e) <> 1%nat.
Proof.
  intros T g Hg. apply sect_tree_groups_gen in Hg.
  destruct Hg as [[l [e [-> [Hc He]]]]|[n [kids [s [e [Hs [Hlen [Hin [Hc He]]]]]]]]].
  - exists T, e. repeat split; auto. now left.
  - exists s, e. repeat split; auto. right. eauto.
Qed.

Lemma chain_head : forall t l e, chain t l e -> hd 0 l = root_id t /\ l <> [].
Proof. induction 1; simpl; split; auto; discriminate. Qed.

Lemma chain_last : forall t l e, chain t l e -> last l 0 = root_id e.
Proof.
  induction 1 as [t|n k l e Hc IH]; simpl; auto.
  destruct l as [|x r]; [destruct (chain_head _ _ _ Hc) as [_ Hn]; congruence|exact IH].
Qed.

(* with distinct ids the groups are pairwise disjoint and free of repetitions *)
Theorem sect_tree_nodup : forall t, NoDup (preorder t) -> NoDup (concat (sect_tree t [])).
Proof. intros t H. now rewrite sect_tree_partition. Qed.

Example sect_tree_example :
  sect_tree (Node 0 [Node 1 [Node 2 []; Node 3 [Node 4 []]]]) [] = [[0; 1]; [2]; [3; 4]].
Proof. reflexivity. Qed.
