(* C16 proofs, part 1: the rose-tree sectioning function. *)
From Coq Require Import List ZArith QArith Bool Lia Permutation.
From LNML Require Import Model.Morph Model.Section.
Import ListNotations.
Open Scope Z_scope.

(* ------------------------------------------------------------------ induction on rose trees *)
Section TreeInd.
  Variable P : tree -> Prop.
  Hypothesis step : forall n kids, Forall P kids -> P (Node n kids).
  Fixpoint tree_ind' (t : tree) : P t :=
    match t with
    | Node n kids =>
      step n kids ((fix go (l : list tree) : Forall P l :=
                      match l with
                      | [] => Forall_nil P
                      | x :: r => Forall_cons x (tree_ind' x) (go r)
                      end) kids)
    end.
End TreeInd.

Lemma concat_flat_map : forall {A B} (f : A -> list (list B)) l,
  concat (flat_map f l) = flat_map (fun x => concat (f x)) l.
Proof.
  induction l as [|x r IH]; simpl; auto. now rewrite concat_app, IH.
Qed.

Lemma flat_map_ext_Forall : forall {A B} (f g : A -> list B) l,
  Forall (fun x => f x = g x) l -> flat_map f l = flat_map g l.
Proof. induction 1; simpl; congruence. Qed.

(* the groups, concatenated in creation order, are exactly the preorder of the subtree (after what the
   current group already holds): every segment below the root is in exactly one group *)
Lemma sect_tree_concat : forall t cur, concat (sect_tree t cur) = (rev cur ++ preorder t)%list.
Proof.
  induction t as [n kids IH] using tree_ind'; intros cur.
  destruct kids as [|k [|k2 r]].
  - simpl. now rewrite app_nil_r.
  - inversion IH as [|? ? Hk _]; subst. cbn [sect_tree]. rewrite Hk. cbn [preorder flat_map rev].
    rewrite app_nil_r, <- app_assoc. reflexivity.
  - cbn [sect_tree]. cbn [concat]. rewrite concat_flat_map.
    rewrite (flat_map_ext_Forall (fun x => concat (sect_tree x [])) preorder).
    + cbn [preorder rev]. now rewrite <- app_assoc.
    + eapply Forall_impl; [|exact IH]. intros a Ha. now rewrite Ha.
Qed.

Theorem sect_tree_partition : forall t, concat (sect_tree t []) = preorder t.
Proof. intro t. now rewrite sect_tree_concat. Qed.
