(* The generated validators against the schema's simple types:
     run_stv_string / run_stv_float : a validator that is `sv_exact` for a type reports nothing exactly on the values
                                      of the type (strings: on printable text)
     reject_local                   : a violation (Xsd.violation) of a constraint the tables test exactly
                                      (Xsd.checkedb) makes the object's own validation report something
     conforms_local / accept_*      : on conforming trees no statement of any validate_ reports anything *)
From Coq Require Import String List ZArith Bool Arith Lia.
From LNML Require Import Lib.Dec Lib.Regex Model.Gds Model.Validate Model.Xsd Proofs.RegexP Proofs.DecP Proofs.ValidateP.
Import ListNotations.
Open Scope string_scope.
Open Scope nat_scope.

(* ---------------------------------------------------------------- list equalities *)
Lemma strs_eqb_eq : forall a b, strs_eqb a b = true -> a = b.
Proof.
  induction a as [|x a IH]; destruct b as [|y b]; simpl; intro H; try discriminate; [reflexivity|].
  apply andb_true_iff in H as [H1 H2]. apply String.eqb_eq in H1. f_equal; auto.
Qed.

Lemma fkind_eqb_eq : forall a b, fkind_eqb a b = true -> a = b.
Proof. destruct a, b; simpl; intro H; try discriminate; reflexivity. Qed.

Lemma facets_eqb_eq : forall a b, facets_eqb a b = true -> a = b.
Proof.
  induction a as [|[k x] a IH]; destruct b as [|[j y] b]; simpl; intro H; try discriminate; [reflexivity|].
  apply andb_true_iff in H as [H H3]. apply andb_true_iff in H as [H1 H2].
  apply fkind_eqb_eq in H1. apply dec_eqb_eq in H2. subst. f_equal. auto.
Qed.

Lemma decs_eqb_eq : forall a b, decs_eqb a b = true -> a = b.
Proof.
  induction a as [|x a IH]; destruct b as [|y b]; simpl; intro H; try discriminate; [reflexivity|].
  apply andb_true_iff in H as [H1 H2]. apply dec_eqb_eq in H1. subst. f_equal. auto.
Qed.

Lemma opts_map {A B} (f : A -> option B) : forall l l', opts (map f l) = Some l' -> map f l = map Some l'.
Proof.
  induction l as [|x l IH]; simpl; intros l' H.
  - inversion H. reflexivity.
  - destruct (f x) as [y|]; [|discriminate]. destruct (opts (map f l)) as [r|] eqn:E; [|discriminate].
    inversion H; subst. simpl. f_equal. apply IH. reflexivity.
Qed.

Lemma cres_eqb_exists : forall a b s, cres_eqb a b = true -> printable s = true ->
  existsb (fun r => match_string r s) a = existsb (fun r => match_string r s) b.
Proof.
  induction a as [|x a IH]; destruct b as [|y b]; simpl; intros s H Hp; try discriminate; [reflexivity|].
  apply andb_true_iff in H as [H1 H2]. rewrite (cre_eq_printable_match x y s H1 Hp). f_equal. apply IH; assumption.
Qed.

Section P2.
Variable F : Type.
Variable F_eqb : F -> F -> bool.
Variable F_ltb : F -> F -> bool.
Variable F_of_dec : dec -> F.
Variable parse_float : string -> option F.
Variable finite : F -> bool.

Notation value := (value F).
Notation obj := (obj F).
Notation run_stv := (run_stv F F_eqb F_ltb F_of_dec).
Notation facet_msgs := (facet_msgs F F_eqb F_ltb F_of_dec).
Notation elit_eq := (elit_eq F F_eqb F_of_dec).
Notation facet_fails := (facet_fails F F_eqb F_ltb F_of_dec).
Notation item_msgs := (item_msgs F_eqb F_ltb F_of_dec parse_float).
Notation local_msgs := (local_msgs F_eqb F_ltb F_of_dec parse_float).
Notation own_msgs := (own_msgs F_eqb F_ltb F_of_dec parse_float).
Notation float_facets_ok := (float_facets_ok F_eqb F_ltb F_of_dec).
Notation facet_ok := (facet_ok F_eqb F_ltb F_of_dec).

(* ---------------------------------------------------------------- enumerations *)
Lemma enum_str_mem : forall es l s, opts (map elit_str es) = Some l ->
  existsb (elit_eq (VStr s)) es = mem s l.
Proof.
  induction es as [|e es IH]; simpl; intros l s H.
  - inversion H. reflexivity.
  - destruct e as [t|d]; simpl in H; [|discriminate].
    destruct (opts (map elit_str es)) as [r|] eqn:E; [|discriminate]. inversion H; subst. simpl.
    f_equal. apply IH. reflexivity.
Qed.

Lemma enum_dec_exists : forall es xs a b x, opts (map elit_dec es) = Some a -> opts (map parse_dec xs) = Some b -> a = b ->
  existsb (elit_eq (VFlt x)) es =
  existsb (fun e => match parse_dec e with Some d => F_eqb x (F_of_dec d) | None => false end) xs.
Proof.
  induction es as [|e es IH]; simpl; intros xs a b x Ha Hb Hab.
  - inversion Ha; subst. destruct xs as [|y xs]; [reflexivity|]. simpl in Hb.
    destruct (parse_dec y); [|discriminate]. destruct (opts (map parse_dec xs)); discriminate.
  - destruct e as [t|d]; simpl in Ha; [discriminate|].
    destruct (opts (map elit_dec es)) as [r|] eqn:E; [|discriminate]. inversion Ha; subst.
    destruct xs as [|y xs]; simpl in Hb; [discriminate|].
    destruct (parse_dec y) as [d'|] eqn:Ey; [|discriminate].
    destruct (opts (map parse_dec xs)) as [r'|] eqn:E'; [|discriminate]. inversion Hb; subst.
    simpl. rewrite Ey. f_equal. eapply IH; eauto.
Qed.

(* ---------------------------------------------------------------- facets *)
Lemma facet_fails_ok : forall x fd, facet_fails (VFlt x) fd = negb (facet_ok x fd).
Proof.
  intros x [k d]. unfold Validate.facet_fails, Xsd.facet_ok. simpl.
  destruct k; simpl; rewrite ?negb_involutive; reflexivity.
Qed.

Lemma filter_fails_nil : forall x l, filter (facet_fails (VFlt x)) l = [] <-> forallb (facet_ok x) l = true.
Proof.
  intros x l. induction l as [|fd l IH]; simpl; [tauto|].
  rewrite facet_fails_ok. destruct (facet_ok x fd); simpl.
  - exact IH.
  - split; intro H; discriminate.
Qed.

Lemma map_nil_iff {A B} (f : A -> B) l : map f l = [] <-> l = [].
Proof. destruct l; simpl; split; intro H; try discriminate; reflexivity. Qed.

Lemma app3_nil {A} (a b c : list A) : (a ++ b ++ c)%list = [] <-> a = [] /\ b = [] /\ c = [].
Proof.
  split.
  - intro H. apply app_eq_nil in H as [H1 H]. apply app_eq_nil in H as [H2 H3]. auto.
  - intros (-> & -> & ->). reflexivity.
Qed.

(* ---------------------------------------------------------------- a validator exact for a string type *)
Lemma run_stv_string : forall sv st s,
  prim_is_string (st_prim st) = true -> sv_exact sv st = true -> printable s = true ->
  (run_stv sv (VStr s) = [] <-> string_ok st s = true).
Proof.
  intros sv st s Hp Hex Hs. unfold sv_exact in Hex.
  assert (Hex' : match sv_base sv with Some BStr => true | _ => false end &&
                 match sv_enums sv, st_enums st with
                 | None, [] => true
                 | Some es, (_ :: _) as xs => match opts (map elit_str es) with Some l => strs_eqb l xs | None => false end
                 | _, _ => false end &&
                 match sv_pats sv, st_pats st with
                 | None, [] => true
                 | Some [alts], (_ :: _) as xs => cres_eqb alts xs
                 | _, _ => false end &&
                 match sv_facets sv, st_facets st with [], [] => true | _, _ => false end = true).
  { destruct (st_prim st); simpl in Hp; try discriminate; exact Hex. }
  clear Hex. apply andb_true_iff in Hex' as [H Hf]. apply andb_true_iff in H as [H Hpt]. apply andb_true_iff in H as [Hb He].
  unfold Validate.run_stv. destruct (sv_base sv) as [[| |]|]; try discriminate. simpl base_ok. cbv iota.
  unfold Validate.facet_msgs. rewrite app3_nil. unfold string_ok.
  destruct (sv_facets sv); [|destruct (st_facets st); discriminate]. simpl filter. simpl map.
  assert (E1 : match sv_enums sv with Some l => if existsb (elit_eq (VStr s)) l then [] else [KEnum] | None => [] end = []
               <-> match st_enums st with [] => true | _ :: _ => mem s (st_enums st) end = true).
  { destruct (sv_enums sv) as [es|], (st_enums st) as [|x xs] eqn:Ex; try discriminate; [|tauto].
    destruct (opts (map elit_str es)) as [l|] eqn:El; [|discriminate]. apply strs_eqb_eq in He. subst l.
    rewrite (enum_str_mem es _ s El). destruct (mem s (x :: xs)); split; intro H; try discriminate; reflexivity. }
  assert (E2 : match sv_pats sv with Some ps => if pats_ok F ps (VStr s) then [] else [KPattern] | None => [] end = []
               <-> match st_pats st with [] => true | _ :: _ => existsb (fun r => match_string r s) (st_pats st) end = true).
  { destruct (sv_pats sv) as [ps|].
    2:{ destruct (st_pats st); [tauto | discriminate]. }
    destruct ps as [|al [|? ?]]; try discriminate.
    destruct (st_pats st) as [|x xs] eqn:Ex; [discriminate|].
    simpl pats_ok. rewrite andb_true_r.
    rewrite (cres_eqb_exists al (x :: xs) s Hpt Hs).
    destruct (existsb (fun r => match_string r s) (x :: xs)); split; intro H; try discriminate; reflexivity. }
  rewrite andb_true_iff.
  destruct (st_enums st) eqn:Een; destruct (st_pats st) eqn:Epa; tauto.
Qed.

(* ---------------------------------------------------------------- a validator exact for a float type *)
Lemma run_stv_float : forall sv st x,
  (st_prim st = PFloat \/ st_prim st = PDouble) -> sv_exact sv st = true ->
  (run_stv sv (VFlt x) = [] <-> float_facets_ok st x = true).
Proof.
  intros sv st x Hp Hex. unfold sv_exact in Hex.
  assert (Hex' : match sv_base sv with Some BFloat => true | _ => false end &&
                 match sv_enums sv, st_enums st with
                 | None, [] => true
                 | Some es, (_ :: _) as xs =>
                   match opts (map elit_dec es), opts (map parse_dec xs) with
                   | Some a, Some b => decs_eqb a b | _, _ => false end
                 | _, _ => false end &&
                 match sv_pats sv with None => true | Some _ => false end &&
                 facets_eqb (sv_facets sv) (st_facets st) = true).
  { destruct Hp as [Hp|Hp]; rewrite Hp in Hex; exact Hex. }
  clear Hex. apply andb_true_iff in Hex' as [H Hf]. apply andb_true_iff in H as [H Hpt]. apply andb_true_iff in H as [Hb He].
  apply facets_eqb_eq in Hf.
  unfold Validate.run_stv. destruct (sv_base sv) as [[| |]|]; try discriminate. simpl base_ok. cbv iota.
  unfold Validate.facet_msgs. rewrite app3_nil. unfold Xsd.float_facets_ok.
  destruct (sv_pats sv); [discriminate|]. rewrite Hf. rewrite map_nil_iff, filter_fails_nil.
  assert (E1 : match sv_enums sv with Some l => if existsb (elit_eq (VFlt x)) l then [] else [KEnum] | None => [] end = []
               <-> match st_enums st with
                   | [] => true
                   | _ :: _ => existsb (fun e => match parse_dec e with Some d => F_eqb x (F_of_dec d) | None => false end)
                                       (st_enums st) end = true).
  { destruct (sv_enums sv) as [es|], (st_enums st) as [|y ys] eqn:Ex; try discriminate; [|tauto].
    destruct (opts (map elit_dec es)) as [a|] eqn:Ea; [|discriminate].
    destruct (opts (map parse_dec (y :: ys))) as [b|] eqn:Eb; [|discriminate]. apply decs_eqb_eq in He.
    rewrite (enum_dec_exists es (y :: ys) a b x Ea Eb He).
    destruct (existsb _ (y :: ys)); split; intro H; try discriminate; reflexivity. }
  rewrite andb_true_iff. destruct (st_enums st) eqn:Een; tauto.
Qed.

(* a validator that accepts an integer type has no facet tests *)
Lemma run_stv_int : forall sv st z,
  (st_prim st = PNonNegInt \/ st_prim st = PPosInt) -> sv_accepts sv st = true -> run_stv sv (VInt z) = [].
Proof.
  intros sv st z Hp Hacc. unfold sv_accepts in Hacc.
  assert (H : match sv_base sv with Some BInt => true | None => true | _ => false end &&
              match sv_enums sv, sv_pats sv, sv_facets sv with None, None, [] => true | _, _, _ => false end = true).
  { destruct Hp as [Hp|Hp]; rewrite Hp in Hacc; exact Hacc. }
  apply andb_true_iff in H as [Hb Hr].
  destruct (sv_enums sv) eqn:E1; [discriminate|]. destruct (sv_pats sv) eqn:E2; [discriminate|].
  destruct (sv_facets sv) eqn:E3; [|discriminate].
  unfold Validate.run_stv, Validate.facet_msgs. rewrite E1, E2, E3.
  destruct (sv_base sv) as [[| |]|]; try discriminate; reflexivity.
Qed.

(* ---------------------------------------------------------------- reject direction *)
Lemma card_len_vcount (v : value) : card_len F v = Z.of_nat (vcount v).
Proof. destruct v; reflexivity. Qed.

Lemma item_in_local V (o : obj) it :
  In it (items_of V (o_cls F o)) -> item_msgs (mro V (o_cls F o)) o it <> [] -> local_msgs V o <> [].
Proof.
  unfold items_of, Validate.local_msgs. intros Hin Hne. apply in_flat_map in Hin as (k & Hk & Hit).
  apply (flat_map_not_nil _ _ k Hk). unfold Validate.own_msgs. intro E. apply map_nil_iff in E.
  revert E. apply (flat_map_not_nil _ _ it Hit Hne).
Qed.

Theorem reject_local V T S (o : obj) m vk :
  violation F_eqb F_ltb F_of_dec T S o m = Some vk -> checkedb V T S (o_cls F o) m vk = true ->
  local_msgs V o <> [].
Proof.
  unfold violation. set (c := o_cls F o).
  destruct (member_stype T S c m) as [[[st is_attr] oa]|] eqn:Ems.
  - destruct (field o m) as [|s|z|x|o'|l|l] eqn:Ef; try discriminate.
    + (* absent *)
      destruct oa as [a|]; [|discriminate]. destruct (xa_req a); [|discriminate]. intro Hv; inversion Hv; subst vk.
      simpl. intro Hc. apply existsb_exists in Hc as (it & Hin & Hit).
      destruct it as [| |m' req|]; try discriminate. destruct req; [|discriminate]. apply String.eqb_eq in Hit. subst m'.
      apply (item_in_local V o _ Hin). simpl. fold c. rewrite Ef. unfold Validate.card_msgs. simpl. discriminate.
    + (* string *)
      destruct (prim_is_string (st_prim st) && printable s &&
                (negb (string_ok st s) || match oa with Some {| xa_fixed := Some f |} => negb (String.eqb f s) | _ => false end)) eqn:Ec;
        [|discriminate].
      intro Hv; inversion Hv; subst vk. simpl. fold c. rewrite Ems. intro Hc.
      apply andb_true_iff in Hc as [Hfix Hc]. apply existsb_exists in Hc as (it & Hin & Hit).
      destruct it as [|m' stn| |]; try discriminate.
      destruct (String.eqb m' m) eqn:Em; [|discriminate]. apply String.eqb_eq in Em. subst m'.
      destruct (find_stv (mro V c) stn) as [sv|] eqn:Esv; [|discriminate].
      apply andb_true_iff in Ec as [Ec Hbad]. apply andb_true_iff in Ec as [Hps Hpr].
      assert (Hso : string_ok st s = false).
      { destruct oa as [[? ? ? ? [f|]]|]; try discriminate;
          rewrite orb_false_r in Hbad; apply negb_true_iff in Hbad; exact Hbad. }
      apply (item_in_local V o _ Hin). simpl. fold c. rewrite Ef, Esv.
      intro E. apply (run_stv_string sv st s Hps Hit Hpr) in E. congruence.
    + (* integer: never tested exactly *)
      destruct (st_prim st) eqn:Ep; try discriminate;
        (destruct (int_ok _ z); [discriminate|]); intro Hv; inversion Hv; subst vk; simpl; fold c; rewrite Ems; intro Hc;
        apply andb_true_iff in Hc as [_ Hc]; apply existsb_exists in Hc as (it & Hin & Hit);
        destruct it as [|m' stn| |]; try discriminate;
        (destruct (String.eqb m' m); [|discriminate]);
        (destruct (find_stv (mro V c) stn) as [sv|]; [|discriminate]);
        unfold sv_exact in Hit; rewrite Ep in Hit; discriminate.
    + (* float *)
      assert (Hfl : forall (Hp : st_prim st = PFloat \/ st_prim st = PDouble), float_facets_ok st x = false ->
                    checkedb V T S c m VVal = true -> local_msgs V o <> []).
      { intros Hp Eok. simpl. rewrite Ems. intro Hc.
        apply andb_true_iff in Hc as [_ Hc]. apply existsb_exists in Hc as (it & Hin & Hit).
        destruct it as [|m' stn| |]; try discriminate.
        destruct (String.eqb m' m) eqn:Em; [|discriminate]. apply String.eqb_eq in Em. subst m'.
        destruct (find_stv (mro V c) stn) as [sv|] eqn:Esv; [|discriminate].
        apply (item_in_local V o _ Hin). simpl. fold c. rewrite Ef, Esv.
        intro E. apply (run_stv_float sv st x Hp Hit) in E. congruence. }
      destruct (st_prim st) eqn:Ep; try (intro Hv; discriminate);
        (destruct (float_facets_ok st x) eqn:Eok; [intro Hv; discriminate|]);
        intro Hv; inversion Hv; subst vk; apply Hfl; auto.
  - (* children with plain bounds *)
    destruct (find_ek_py m (exp_kids_of (cfuel T) T c)) as [ek|] eqn:Eek; [|discriminate].
    destruct (plain_bounds_of (eff_parts S c) (ek_tag ek)) as [[xlo xhi]|] eqn:Eb; [|discriminate].
    intro Hv.
    assert (Hc' : (vk = VFew \/ vk = VMany) /\
                  ((vcount (field o m) < xlo) \/ exists h, xhi = Some h /\ h < vcount (field o m))).
    { destruct (Nat.ltb (vcount (field o m)) xlo) eqn:E1.
      - inversion Hv. apply Nat.ltb_lt in E1. auto.
      - destruct xhi as [h|]; [|discriminate]. destruct (Nat.ltb h (vcount (field o m))) eqn:E2; [|discriminate].
        inversion Hv. apply Nat.ltb_lt in E2. split; [auto | right; exists h; auto]. }
    destruct Hc' as [Hk Hcount]. intro Hc.
    assert (Hex : existsb (fun it => match it with
                           | ICard m' lo hi => String.eqb m' m && (lo =? Z.of_nat xlo)%Z &&
                                               match xhi with Some h => (hi =? Z.of_nat h)%Z | None => true end
                           | _ => false end) (items_of V c) = true).
    { destruct Hk as [-> | ->]; simpl in Hc; fold c in Hc; rewrite Eek, Eb in Hc; exact Hc. }
    apply existsb_exists in Hex as (it & Hin & Hit). destruct it as [| | |m' lo hi]; try discriminate.
    apply andb_true_iff in Hit as [Hit Hhi]. apply andb_true_iff in Hit as [Hm Hlo].
    apply String.eqb_eq in Hm. subst m'. apply Z.eqb_eq in Hlo. subst lo.
    apply (item_in_local V o _ Hin). simpl. unfold Validate.card_msgs. rewrite card_len_vcount. simpl.
    destruct Hcount as [Hlt | (h & -> & Hgt)].
    + assert ((Z.of_nat (vcount (field o m)) <? Z.of_nat xlo)%Z = true) as -> by (apply Z.ltb_lt; lia). discriminate.
    + apply Z.eqb_eq in Hhi. subst hi.
      destruct (Z.of_nat (vcount (field o m)) <? Z.of_nat xlo)%Z; [discriminate|].
      assert ((Z.of_nat h <? Z.of_nat (vcount (field o m)))%Z = true) as -> by (apply Z.ltb_lt; lia). discriminate.
Qed.

End P2.
